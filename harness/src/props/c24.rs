//! C24 — lens selection agrees with plain JSON selection.
//!
//! The lens applier is private to `aquavm-air`, so it is driven through real runs of `air::execute_air`:
//! generated JSON values are handed to the script by a service, lenses are applied in `call` arguments and in
//! `ap`, on scalars, fold iterators, canon streams and canon maps; the harness records the argument the
//! service received (or the `:error:` object seen by the `xor` fallback).
//!   * direct oracle (independent of the Lean model): plain navigation on `serde_json::Value`
//!     (`get(idx)`, `get(key)`, array `len()`); impossible navigation ⇒ the fallback ran with a code in 10000..=19999;
//!   * correspondence: the same (root, lens, environment) is given to the model driver (`lens` op); its replica
//!     of the applier must give the same value / the same error code and message, and its specification
//!     `navigate` must agree with the Rust oracle.
use crate::gen_codes;
use crate::host::*;
use crate::sim::decode_args;
use crate::util::*;
use crate::Ctx;
use air_interpreter_interface::{CallResults, CallServiceResult};
use serde_json::{json, Map, Value};
use std::collections::{BTreeMap, HashMap};

// ---------------------------------------------------------------------------------------------- lenses

#[derive(Clone, Debug, PartialEq)]
pub enum Acc { Idx(u32), Name(String), Var(String) }

#[derive(Clone, Debug, PartialEq)]
pub enum Lens {
    /// accessors, "write the dot before `[`" flags, trailing flattening mark
    Path(Vec<Acc>, Vec<bool>, bool),
    Length,
}

impl Lens {
    fn path(accs: Vec<Acc>) -> Lens { let n = accs.len(); Lens::Path(accs, vec![true; n], false) }
    fn text(&self) -> String {
        match self {
            Lens::Length => ".length".into(),
            Lens::Path(accs, dots, flat) => {
                let mut s = String::from(".$");
                for (i, a) in accs.iter().enumerate() {
                    let dot = if *dots.get(i).unwrap_or(&true) { "." } else { "" };
                    match a {
                        Acc::Idx(n) => s.push_str(&format!("{dot}[{n}]")),
                        Acc::Name(n) => s.push_str(&format!(".{n}")),
                        Acc::Var(n) => s.push_str(&format!("{dot}[{n}]")),
                    }
                }
                if *flat { s.push('!'); }
                s
            }
        }
    }
    fn len(&self) -> usize { match self { Lens::Length => 1, Lens::Path(a, _, _) => a.len() } }
}

/// a map key as written in `(ap (key value) %m)`
#[derive(Clone, Debug, PartialEq)]
pub enum KeySpec { Lit(String), Int(i64), Var(String) }

/// typed key of a canon map: strings and integers are different keys
#[derive(Clone, Debug, PartialEq, Eq, Hash, PartialOrd, Ord)]
pub enum TKey { S(String), I(i128) }

fn tkey_of_value(v: &Value) -> Option<TKey> {
    match v {
        Value::String(s) => Some(TKey::S(s.clone())),
        Value::Number(n) => n.as_i64().map(|i| TKey::I(i as i128)).or_else(|| n.as_u64().map(|u| TKey::I(u as i128))),
        _ => None,
    }
}

#[derive(Clone, Debug, PartialEq)]
pub enum Root { Scalar(usize), Stream(usize), Map(usize), /** the fold iterator itself */ Item }

#[derive(Clone, Copy, Debug, PartialEq)]
pub enum Form { CallArg, Ap }

#[derive(Clone, Debug)]
pub struct Case { pub root: Root, pub lens: Lens, pub form: Form }

/// `(fold v<over> it (par <case with iterator `it`> (next it)))`: one application per element
#[derive(Clone, Debug)]
pub struct FoldCase { pub over: usize, pub case: Case }

#[derive(Clone, Debug, Default)]
pub struct Batch {
    pub values: Vec<Value>,
    pub env: Vec<(String, Value)>,
    /// names that are declared in a branch that never runs (lookup fails at run time)
    pub undefined: Vec<String>,
    pub streams: Vec<Vec<usize>>,
    pub maps: Vec<Vec<(KeySpec, usize)>>,
    pub cases: Vec<Case>,
    pub folds: Vec<FoldCase>,
}

// ---------------------------------------------------------------------------------------------- script

fn tree(op: &str, mut items: Vec<String>) -> String {
    if items.is_empty() { return "(null)".into(); }
    if items.len() == 1 { return items.pop().unwrap(); }
    let right = items.split_off(items.len() / 2);
    format!("({op} {} {})", tree(op, items), tree(op, right))
}

fn root_text(r: &Root) -> String {
    match r { Root::Scalar(i) => format!("v{i}"), Root::Stream(i) => format!("#c{i}"), Root::Map(i) => format!("#%c{i}"), Root::Item => "it".into() }
}

fn case_text(c: &Case, put: &str, err: &str, id: &str, extra: &str) -> String {
    let operand = format!("{}{}", root_text(&c.root), c.lens.text());
    match c.form {
        Form::CallArg => format!(r#"(xor (call %init_peer_id% ("{put}" "{id}") [{operand}{extra}]) (call %init_peer_id% ("{err}" "{id}") [:error:{extra}]))"#),
        Form::Ap => format!(r#"(xor (seq (ap {operand} r{id}) (call %init_peer_id% ("{put}" "{id}") [r{id}{extra}])) (call %init_peer_id% ("{err}" "{id}") [:error:{extra}]))"#),
    }
}

fn key_text(k: &KeySpec) -> String {
    match k { KeySpec::Lit(s) => format!("\"{s}\""), KeySpec::Int(i) => format!("{i}"), KeySpec::Var(n) => n.clone() }
}

pub fn script(b: &Batch) -> String {
    let mut getters: Vec<String> = (0..b.values.len()).map(|i| format!(r#"(call %init_peer_id% ("get" "v{i}") [] v{i})"#)).collect();
    for (n, _) in &b.env { getters.push(format!(r#"(call %init_peer_id% ("get" "{n}") [] {n})"#)); }
    let mut setup: Vec<String> = vec![];
    for u in &b.undefined { setup.push(format!(r#"(xor (match 1 2 (ap 1 {u})) (null))"#)); }
    for (i, s) in b.streams.iter().enumerate() {
        for v in s { setup.push(format!("(ap v{v} $s{i})")); }
        setup.push(format!("(canon %init_peer_id% $s{i} #c{i})"));
    }
    for (i, m) in b.maps.iter().enumerate() {
        for (k, v) in m { setup.push(format!("(ap ({} v{v}) %m{i})", key_text(k))); }
        setup.push(format!("(canon %init_peer_id% %m{i} #%c{i})"));
    }
    let mut apps: Vec<String> = b.cases.iter().enumerate().map(|(i, c)| case_text(c, "put", "err", &i.to_string(), "")).collect();
    for (i, f) in b.folds.iter().enumerate() {
        apps.push(format!("(fold v{} it (par {} (next it)))", f.over, case_text(&f.case, "putf", "errf", &format!("f{i}"), " it")));
    }
    let mut parts = vec![tree("par", getters)];
    parts.extend(setup);
    parts.push(tree("par", apps));
    tree_seq(parts)
}

/// right-nested `seq` (execution order matters)
fn tree_seq(mut parts: Vec<String>) -> String {
    let mut acc = parts.pop().unwrap_or_else(|| "(null)".into());
    while let Some(p) = parts.pop() { acc = format!("(seq {p} {acc})"); }
    acc
}

// ---------------------------------------------------------------------------------------------- real runs

#[derive(Clone, Debug, PartialEq)]
pub enum Seen { Put(Value), Err(i64, String), Neither, Both }

pub struct BatchRun { pub cases: Vec<Seen>, pub folds: Vec<Vec<(Value, Seen)>>, pub ret_codes: Vec<i64>, pub problem: Option<String>, pub runs: usize }

pub fn run_batch(b: &Batch, air: &str) -> BatchRun {
    let me = Peer::new("a");
    let mut prev: Vec<u8> = vec![];
    let mut results = CallResults::new();
    let mut puts: HashMap<String, Vec<Value>> = HashMap::new();
    let mut errs: HashMap<String, Vec<Value>> = HashMap::new();
    let mut fputs: HashMap<String, Vec<Vec<Value>>> = HashMap::new();
    let mut ferrs: HashMap<String, Vec<Vec<Value>>> = HashMap::new();
    let mut ret_codes = vec![];
    let mut problem = None;
    let mut runs = 0;
    let lookup: HashMap<String, &Value> = b.values.iter().enumerate().map(|(i, v)| (format!("v{i}"), v)).chain(b.env.iter().map(|(n, v)| (n.clone(), v))).collect();
    for _ in 0..4 {
        runs += 1;
        let o = match run_catch(&RunArgs { air, prev: &prev, cur: &[], init_peer_id: &me.id, peer: &me, particle_id: "c24", timestamp: 1, ttl: 1, results: &results, limits: Limits::unlimited() }) {
            Ok(o) => o,
            Err(p) => { problem = Some(format!("the interpreter panicked: {p}")); break; }
        };
        ret_codes.push(o.ret_code);
        if o.ret_code != 0 { problem = Some(format!("run ended with code {} ({}): {}", o.ret_code, gen_codes::name_of(o.ret_code), o.error_message)); break; }
        prev = o.data.clone();
        results = CallResults::new();
        let reqs = decode_requests(&o.call_requests).unwrap_or_default();
        let mut ids: Vec<&u32> = reqs.keys().collect(); ids.sort();
        for id in ids {
            let r = &reqs[id];
            let args = decode_args(r);
            match r.service_id.as_str() {
                "get" => { results.insert(id.to_string(), CallServiceResult::ok(lookup.get(r.function_name.as_str()).cloned().unwrap_or(&Value::Null))); }
                "put" => puts.entry(r.function_name.clone()).or_default().push(args.get(0).cloned().unwrap_or(Value::Null)),
                "err" => errs.entry(r.function_name.clone()).or_default().push(args.get(0).cloned().unwrap_or(Value::Null)),
                "putf" => fputs.entry(r.function_name.clone()).or_default().push(args),
                "errf" => ferrs.entry(r.function_name.clone()).or_default().push(args),
                _ => {}
            }
        }
        if results.is_empty() { break; }
    }
    let err_of = |e: &Value| Seen::Err(e["error_code"].as_i64().unwrap_or(-1), e["message"].as_str().unwrap_or("").to_string());
    let cases = (0..b.cases.len()).map(|i| {
        let k = i.to_string();
        match (puts.get(&k), errs.get(&k)) {
            (Some(p), None) if p.len() == 1 => Seen::Put(p[0].clone()),
            (None, Some(e)) if e.len() == 1 => err_of(&e[0]),
            (None, None) => Seen::Neither,
            _ => Seen::Both,
        }
    }).collect();
    let folds = b.folds.iter().enumerate().map(|(i, f)| {
        let k = format!("f{i}");
        let elems: Vec<Value> = b.values[f.over].as_array().cloned().unwrap_or_default();
        elems.iter().map(|el| {
            let p: Vec<&Vec<Value>> = fputs.get(&k).map(|v| v.iter().filter(|a| a.get(1) == Some(el)).collect()).unwrap_or_default();
            let e: Vec<&Vec<Value>> = ferrs.get(&k).map(|v| v.iter().filter(|a| a.get(1) == Some(el)).collect()).unwrap_or_default();
            let seen = match (p.len(), e.len()) { (1, 0) => Seen::Put(p[0][0].clone()), (0, 1) => err_of(&e[0][0]), (0, 0) => Seen::Neither, _ => Seen::Both };
            (el.clone(), seen)
        }).collect()
    }).collect();
    BatchRun { cases, folds, ret_codes, problem, runs }
}

// ---------------------------------------------------------------------------------------------- direct oracle: plain JSON navigation

#[derive(Clone, Debug, PartialEq)]
pub enum Step { Idx(usize), Key(String), Length }

fn navigate(v: &Value, steps: &[Step]) -> Option<Value> {
    match steps.split_first() {
        None => Some(v.clone()),
        Some((s, rest)) => {
            let next = match s {
                Step::Idx(i) => v.as_array()?.get(*i)?.clone(),
                Step::Key(k) => v.as_object()?.get(k.as_str())?.clone(),
                Step::Length => json!(v.as_array()?.len()),
            };
            navigate(&next, rest)
        }
    }
}

/// what a JSON value means when it is used as an accessor: a string is a member name, a non-negative integer
/// that fits 32 bits is an index, nothing else is an accessor
fn step_of_value(v: &Value) -> Option<Step> {
    match v {
        Value::String(s) => Some(Step::Key(s.clone())),
        Value::Number(n) => n.as_u64().filter(|u| *u <= u32::MAX as u64).map(|u| Step::Idx(u as usize)),
        _ => None,
    }
}

pub struct EnvView<'a> { pub plain: &'a [(String, Value)], pub iter: Option<&'a Value>, pub undefined: &'a [String] }
impl<'a> EnvView<'a> {
    fn get(&self, n: &str) -> Option<&Value> { if n == "it" { return self.iter; } self.plain.iter().find(|(k, _)| k == n).map(|(_, v)| v) }
}

fn steps_of(accs: &[Acc], env: &EnvView) -> Option<Vec<Step>> {
    accs.iter().map(|a| match a {
        Acc::Idx(i) => Some(Step::Idx(*i as usize)),
        Acc::Name(n) => Some(Step::Key(n.clone())),
        Acc::Var(n) => env.get(n).and_then(step_of_value),
    }).collect()
}

#[derive(Clone, Debug, PartialEq)]
pub enum Expect {
    Value(Value),
    /// navigation impossible: the catch branch must run with a catchable code
    Fail,
    /// an accessor names a variable that is not set at run time: the instruction waits (joinable error)
    Waits,
}

pub fn root_value(b: &Batch, r: &Root, item: Option<&Value>) -> Value {
    match r {
        Root::Scalar(i) => b.values[*i].clone(),
        Root::Stream(i) => Value::Array(b.streams[*i].iter().map(|v| b.values[*v].clone()).collect()),
        Root::Map(_) => Value::Null,
        Root::Item => item.cloned().unwrap_or(Value::Null),
    }
}

fn map_pairs(b: &Batch, i: usize) -> Vec<(Value, Value)> {
    b.maps[i].iter().map(|(k, v)| {
        let key = match k { KeySpec::Lit(s) => json!(s), KeySpec::Int(n) => json!(n), KeySpec::Var(n) => b.env.iter().find(|(x, _)| x == n).map(|(_, v)| v.clone()).unwrap_or(Value::Null) };
        (key, b.values[*v].clone())
    }).collect()
}

/// for a path lens on a canon map whose first accessor denotes a key: (is the key in the map, number of further accessors)
fn map_key_presence(b: &Batch, c: &Case, item: Option<&Value>) -> Option<(bool, usize)> {
    let env = EnvView { plain: &b.env, iter: item, undefined: &b.undefined };
    if let (Root::Map(i), Lens::Path(accs, _, _)) = (&c.root, &c.lens) {
        let key = match &accs[0] { Acc::Idx(n) => Some(TKey::I(*n as i128)), Acc::Name(n) => Some(TKey::S(n.clone())), Acc::Var(n) => if n == "it" { None } else { env.get(n).and_then(tkey_of_value) } }?;
        return Some((map_pairs(b, *i).iter().any(|(k, _)| tkey_of_value(k).as_ref() == Some(&key)), accs.len() - 1));
    }
    None
}

pub fn expect(b: &Batch, c: &Case, item: Option<&Value>) -> Expect {
    let env = EnvView { plain: &b.env, iter: item, undefined: &b.undefined };
    if let Lens::Path(accs, _, _) = &c.lens {
        // an accessor naming a variable without a value: if it is reached, the lookup fails and the instruction waits
        if let Some(p) = accs.iter().position(|a| matches!(a, Acc::Var(n) if env.undefined.contains(n))) {
            if p == 0 { return Expect::Waits; }
            let prefix = Case { root: c.root.clone(), lens: Lens::path(accs[..p].to_vec()), form: c.form };
            return match expect(b, &prefix, item) { Expect::Value(_) | Expect::Waits => Expect::Waits, Expect::Fail => Expect::Fail };
        }
    }
    match &c.root {
        Root::Map(i) => {
            let pairs = map_pairs(b, *i);
            match &c.lens {
                Lens::Length => Expect::Value(json!(pairs.len())),
                Lens::Path(accs, _, _) => {
                    let key = match &accs[0] {
                        Acc::Idx(n) => Some(TKey::I(*n as i128)),
                        Acc::Name(n) => Some(TKey::S(n.clone())),
                        Acc::Var(n) => if n == "it" { None } else { env.get(n).and_then(tkey_of_value) },
                    };
                    let key = match key { Some(k) => k, None => return Expect::Fail };
                    let group: Vec<Value> = pairs.iter().filter(|(k, _)| tkey_of_value(k).as_ref() == Some(&key)).map(|(_, v)| v.clone()).collect();
                    // a key that is not in the map has the empty group: [] for the bare key, nothing to navigate into
                    match steps_of(&accs[1..], &env).and_then(|s| navigate(&Value::Array(group), &s)) { Some(v) => Expect::Value(v), None => Expect::Fail }
                }
            }
        }
        r => {
            let v = root_value(b, r, item);
            let steps = match &c.lens { Lens::Length => Some(vec![Step::Length]), Lens::Path(accs, _, _) => steps_of(accs, &env) };
            match steps.and_then(|s| navigate(&v, &s)) { Some(x) => Expect::Value(x), None => Expect::Fail }
        }
    }
}

// ---------------------------------------------------------------------------------------------- model requests

fn tag_floats(v: &Value) -> Value {
    match v {
        Value::Number(n) if n.is_f64() => json!({"$f": n.to_string()}),
        Value::Array(a) => Value::Array(a.iter().map(tag_floats).collect()),
        Value::Object(o) => Value::Object(o.iter().map(|(k, x)| (k.clone(), tag_floats(x))).collect()),
        x => x.clone(),
    }
}

fn lambda_json(l: &Lens) -> Option<Value> {
    let text = l.text();
    let parsed = std::panic::catch_unwind(|| air_lambda_parser::parse(&text).ok().map(|a| serde_json::to_value(&a).unwrap())).ok()??;
    Some(parsed)
}

fn model_case(b: &Batch, c: &Case, item: Option<(&Value, usize, &Vec<Value>)>) -> Option<Value> {
    let root = match &c.root {
        Root::Scalar(i) => json!({"scalar": tag_floats(&b.values[*i])}),
        Root::Stream(i) => json!({"stream": b.streams[*i].iter().map(|v| tag_floats(&b.values[*v])).collect::<Vec<_>>()}),
        Root::Map(i) => json!({"map": map_pairs(b, *i).iter().map(|(k, v)| json!({"key": tag_floats(k), "value": tag_floats(v)})).collect::<Vec<_>>()}),
        Root::Item => json!({"scalar": tag_floats(item?.0)}),
    };
    let mut env = Map::new();
    for (n, v) in &b.env { env.insert(n.clone(), json!({"value": tag_floats(v)})); }
    if let Some((_, cursor, elems)) = item { env.insert("it".into(), json!({"iter": elems.iter().map(tag_floats).collect::<Vec<_>>(), "cursor": cursor})); }
    Some(json!({"root": root, "lambda": lambda_json(&c.lens)?, "env": env}))
}

// ---------------------------------------------------------------------------------------------- generators

const U32MAX: u32 = u32::MAX;

fn env_pool() -> Vec<(String, Value)> {
    vec![("i0", json!(0)), ("i1", json!(1)), ("i2", json!(2)), ("neg", json!(-1)), ("f10", json!(1.0)), ("f15", json!(1.5)),
         ("big", json!(4294967296u64)), ("umax", json!(4294967295u64)), ("huge", json!(18446744073709551615u64)), ("imin", json!(i64::MIN)),
         ("sa", json!("a")), ("sb", json!("b")), ("s1", json!("1")), ("se", json!("")), ("su", json!("é")), ("sl", json!("length")),
         ("nul", Value::Null), ("tru", json!(true)), ("arr", json!([0])), ("obj", json!({"a": 0}))]
        .into_iter().map(|(n, v)| (n.to_string(), v)).collect()
}

/// every JSON value of exactly `size` nodes over the atoms and member names given
fn values_of_size(size: usize, atoms: &[Value], keys: &[&str], memo: &mut BTreeMap<usize, Vec<Value>>) -> Vec<Value> {
    if let Some(v) = memo.get(&size) { return v.clone(); }
    let mut out = vec![];
    if size == 1 { out.extend(atoms.iter().cloned()); out.push(json!([])); out.push(json!({})); }
    else {
        // arrays: compositions of size-1 into children
        for parts in compositions(size - 1) {
            let mut lists: Vec<Vec<Value>> = vec![vec![]];
            for p in &parts { let kids = values_of_size(*p, atoms, keys, memo); lists = lists.into_iter().flat_map(|l| kids.iter().map(move |k| { let mut x = l.clone(); x.push(k.clone()); x })).collect(); }
            for l in &lists { out.push(Value::Array(l.clone())); }
            // objects with the first |parts| member names of every subset of that size
            for names in subsets(keys, parts.len()) {
                for l in &lists { out.push(Value::Object(names.iter().zip(l.iter()).map(|(k, v)| (k.to_string(), v.clone())).collect())); }
            }
        }
    }
    memo.insert(size, out.clone());
    out
}
fn compositions(n: usize) -> Vec<Vec<usize>> {
    if n == 0 { return vec![vec![]]; }
    let mut out = vec![];
    for first in 1..=n { for mut rest in compositions(n - first) { let mut v = vec![first]; v.append(&mut rest); out.push(v); } }
    out
}
fn subsets<'a>(keys: &[&'a str], k: usize) -> Vec<Vec<&'a str>> {
    if k == 0 { return vec![vec![]]; }
    if keys.len() < k { return vec![]; }
    let mut out: Vec<Vec<&str>> = subsets(&keys[1..], k - 1).into_iter().map(|mut s| { s.insert(0, keys[0]); s }).collect();
    out.extend(subsets(&keys[1..], k));
    out
}

fn accessor_alphabet() -> Vec<Acc> {
    let mut a = vec![Acc::Idx(0), Acc::Idx(1), Acc::Idx(2), Acc::Idx(U32MAX), Acc::Name("a".into()), Acc::Name("b".into()), Acc::Name("zz".into()), Acc::Name("length".into())];
    for (n, _) in env_pool() { a.push(Acc::Var(n)); }
    a
}

const KEYS: &[&str] = &["a", "b", "", "1", "0", "é", "length", "a-b", "_x", "Zz9"];

fn random_value(rng: &mut Rng, depth: usize) -> Value {
    let atom = |rng: &mut Rng| -> Value {
        match rng.below(12) { 0 => Value::Null, 1 => json!(true), 2 => json!(false), 3 => json!(0), 4 => json!(rng.range(-3, 9)), 5 => json!(1.5), 6 => json!(-0.25), 7 => json!(""),
            8 => json!("a"), 9 => json!("é✓"), 10 => json!(rng.next() >> rng.below(60)), _ => json!(rng.pick(KEYS).to_string()) }
    };
    if depth == 0 || rng.chance(1, 4) { return atom(rng); }
    if rng.chance(1, 2) { Value::Array((0..rng.below(4)).map(|_| random_value(rng, depth - 1)).collect()) }
    else { let n = rng.below(4); Value::Object((0..n).map(|_| (rng.pick(KEYS).to_string(), random_value(rng, depth - 1))).collect()) }
}

/// a path that mostly follows the value (so that deep accessors are reached), with wrong turns
fn guided_path(rng: &mut Rng, v: &Value, env: &[(String, Value)], max_len: usize, iter_name: Option<&Value>) -> Vec<Acc> {
    let mut out = vec![];
    let mut cur = v.clone();
    let len = 1 + rng.below(max_len);
    for _ in 0..len {
        let wrong = rng.chance(1, 6);
        // nothing below an atom / an empty container: mostly stop there
        let leaf = match &cur { Value::Array(a) => a.is_empty(), Value::Object(o) => o.is_empty(), _ => true };
        if leaf && !out.is_empty() && !rng.chance(1, 4) { break; }
        let acc = if wrong { rng.pick(&accessor_alphabet()).clone() } else {
            match &cur {
                Value::Array(a) if !a.is_empty() => {
                    let over = if rng.chance(1, 5) { 1 } else { 0 };
                    let i = rng.below(a.len() + over);
                    // by number or through a scalar holding that number
                    match env.iter().find(|(_, v)| v.as_u64() == Some(i as u64) && !v.is_f64()) { Some((n, _)) if rng.chance(1, 2) => Acc::Var(n.clone()), _ => Acc::Idx(i as u32) }
                }
                Value::Object(o) if !o.is_empty() => {
                    let k = o.keys().nth(rng.below(o.len())).unwrap().clone();
                    let nameable = !k.is_empty() && k.chars().all(|c| c.is_ascii_alphanumeric() || c == '_' || c == '-') && !k.chars().next().unwrap().is_ascii_digit();
                    match env.iter().find(|(_, v)| v.as_str() == Some(k.as_str())) {
                        Some((n, _)) if !nameable || rng.chance(1, 2) => Acc::Var(n.clone()),
                        _ => if nameable { Acc::Name(k) } else { Acc::Name("zz".into()) },
                    }
                }
                _ => rng.pick(&accessor_alphabet()).clone(),
            }
        };
        let envv = EnvView { plain: env, iter: iter_name, undefined: &[] };
        if let Some(st) = steps_of(&[acc.clone()], &envv) { if let Some(nv) = navigate(&cur, &st) { cur = nv; } }
        out.push(acc);
    }
    out
}

fn decorate(rng: &mut Rng, accs: Vec<Acc>) -> Lens {
    let dots = accs.iter().map(|_| !rng.chance(1, 5)).collect();
    Lens::Path(accs, dots, rng.chance(1, 8))
}

// ---------------------------------------------------------------------------------------------- minimal replays

/// the smallest batch that applies this one lens (values renumbered, only the scalars it mentions)
fn minimal_batch(b: &Batch, c: &Case, item: Option<&Value>) -> Batch {
    let mut m = Batch::default();
    let mut used: Vec<String> = match &c.lens { Lens::Path(accs, _, _) => accs.iter().filter_map(|a| if let Acc::Var(n) = a { Some(n.clone()) } else { None }).collect(), Lens::Length => vec![] };
    let root = match &c.root {
        Root::Scalar(i) => { m.values.push(b.values[*i].clone()); Root::Scalar(0) }
        Root::Stream(i) => { m.streams.push(b.streams[*i].iter().map(|v| { m.values.push(b.values[*v].clone()); m.values.len() - 1 }).collect()); Root::Stream(0) }
        Root::Map(i) => {
            let entries = b.maps[*i].iter().map(|(k, v)| { if let KeySpec::Var(n) = k { used.push(n.clone()); } m.values.push(b.values[*v].clone()); (k.clone(), m.values.len() - 1) }).collect();
            m.maps.push(entries); Root::Map(0)
        }
        Root::Item => Root::Item,
    };
    m.env = b.env.iter().filter(|(n, _)| used.contains(n)).cloned().collect();
    m.undefined = b.undefined.iter().filter(|n| used.contains(n)).cloned().collect();
    let case = Case { root, lens: c.lens.clone(), form: c.form };
    match item {
        Some(el) => { m.values.push(json!([el])); m.folds.push(FoldCase { over: m.values.len() - 1, case }); }
        None => m.cases.push(case),
    }
    m
}

/// replayable description of one lens application: a script of its own, what the services answer, what was seen
fn replay_of(b: &Batch, c: &Case, item: Option<&Value>) -> Value {
    let m = minimal_batch(b, c, item);
    let air = script(&m);
    let run = run_batch(&m, &air);
    let seen = if item.is_some() { run.folds.get(0).and_then(|f| f.get(0)).map(|(_, s)| s.clone()) } else { run.cases.get(0).cloned() };
    let mut service = Map::new();
    for (i, v) in m.values.iter().enumerate() { service.insert(format!("v{i}"), v.clone()); }
    for (n, v) in &m.env { service.insert(n.clone(), v.clone()); }
    json!({"air": air, "service_get_answers": service, "peer": "a (init peer = current peer)", "standalone_run_saw": seen.as_ref().map(seen_json), "standalone_problem": run.problem})
}

// ---------------------------------------------------------------------------------------------- checking one batch

struct Totals { cases: u64 }

fn seen_json(s: &Seen) -> Value {
    match s { Seen::Put(v) => json!({"put": v}), Seen::Err(c, m) => json!({"err": {"code": c, "message": m}}), Seen::Neither => json!("neither branch ran"), Seen::Both => json!("both branches / several calls") }
}

fn check_one(rep: &mut Report, b: &Batch, air: &str, c: &Case, item: Option<&Value>, seen: &Seen, model: Option<&Value>, kind: &str) {
    let exp = expect(b, c, item);
    let operand = format!("{}{}", root_text(&c.root), c.lens.text());
    let root_json = match &c.root { Root::Map(i) => json!({"map_pairs": map_pairs(b, *i)}), r => root_value(b, r, item) };
    let envj: Map<String, Value> = b.env.iter().filter(|(n, _)| c.lens.text().contains(&format!("[{n}]"))).map(|(n, v)| (n.clone(), v.clone())).collect();
    let _ = air;
    let brief = json!({"operand": operand, "form": format!("{:?}", c.form), "root": root_json, "env": envj, "iterator_item": item});
    let with_replay = |brief: &Value| -> Value { let mut x = brief.clone(); x["replay"] = replay_of(b, c, item); x };
    let input = &brief;
    let canon = format!("{kind}|{operand}|{:?}|{}|{}|{:?}", c.form, root_json, Value::Object(envj.clone()), item);
    let nontrivial = c.lens.len() >= 1 && !matches!(root_json, Value::Null | Value::Bool(_) | Value::Number(_) | Value::String(_));
    rep.case(&canon, nontrivial, || json!({"operand": operand, "root": root_json, "seen": seen_json(seen)}));
    rep.stat(&format!("kind:{kind}"));
    rep.stat(&format!("lens_len:{}", c.lens.len().min(6)));
    match map_key_presence(b, c, item) { Some((true, _)) => rep.stat("map_key:present"), Some((false, 0)) => rep.stat("map_key:absent_bare"), Some((false, _)) => rep.stat("map_key:absent_with_further_accessors"), None => {} }
    // ---- direct oracle
    match (&exp, seen) {
        (Expect::Value(v), Seen::Put(got)) if v == got => rep.stat("outcome:selected"),
        (Expect::Value(v), other) => rep.oracle_fail(json!({"why": format!("plain JSON navigation gives {v} but the lens gave {}", seen_json(other)), "input": with_replay(input)})),
        (Expect::Fail, Seen::Err(code, msg)) => {
            rep.stat(&format!("outcome:error:{}", gen_codes::name_of(*code)));
            if !(10000..=19999).contains(code) { rep.oracle_fail(json!({"why": format!("navigation is impossible; the error code {code} is not in the catchable range"), "message": msg, "input": with_replay(input)})); }
        }
        (Expect::Fail, other) => rep.oracle_fail(json!({"why": format!("plain JSON navigation is impossible but the lens did not fail catchably: {}", seen_json(other)), "input": with_replay(input)})),
        (Expect::Waits, Seen::Neither) => rep.stat("outcome:waits_for_variable"),
        (Expect::Waits, Seen::Put(_)) => {
            // legitimate only if the missing variable is never reached... it always is on success
            rep.oracle_fail(json!({"why": "a lens naming a variable without a value produced a value", "input": with_replay(input)}));
        }
        (Expect::Waits, other) => rep.oracle_fail(json!({"why": format!("lens naming a variable without a value: {}", seen_json(other)), "input": with_replay(input)})),
    }
    // ---- correspondence with the model
    let m = match model { Some(m) => m, None => { rep.unmodelled += 1; rep.stat("unmodelled:lens text does not parse standalone"); return; } };
    if m.get("unmodelled").is_some() { rep.unmodelled += 1; rep.stat(&format!("unmodelled:{}", m["unmodelled"].as_str().unwrap_or("?"))); return; }
    rep.model_compared += 1;
    let mm = &m["model"];
    let agree = match seen {
        Seen::Put(v) => mm.get("ok") == Some(&tag_floats(v)),
        Seen::Err(code, msg) => mm["err"]["code"].as_i64() == Some(*code) && mm["err"]["msg"].as_str() == Some(msg.as_str()),
        Seen::Neither => mm["err"]["variant"].as_str() == Some("VariableNotFound"),
        Seen::Both => false,
    };
    if !agree { rep.disagree(json!({"op": "lens", "request": with_replay(input), "model": mm, "implementation": seen_json(seen)})); }
    if let Some(l) = mm["err"]["lambda"].as_str() { rep.stat(&format!("lambda_error:{l}")); }
    // the Lean specification against the Rust oracle (two independent statements of "plain navigation")
    let sp = &m["spec"];
    let spec_agree = match &exp {
        Expect::Value(v) => sp.get("ok") == Some(&tag_floats(v)),
        Expect::Fail => sp.get("none").is_some(),
        Expect::Waits => sp.get("none").is_some(),
    };
    if !spec_agree { rep.disagree(json!({"op": "lens_spec", "why": "the Lean specification (navigate/resolveSteps/keyGroup) and the harness's plain navigation differ", "request": input, "model": sp, "implementation": format!("{exp:?}")})); }
}

fn run_and_check(ctx: &mut Ctx, rep: &mut Report, b: &Batch, kind: &str, tot: &mut Totals) {
    let air = script(b);
    if let Err(e) = air_parser::parse(&air) {
        rep.stat("script_does_not_parse");
        rep.disagree(json!({"op": "lens_script", "why": format!("generated script does not parse: {e}"), "request": air.chars().take(600).collect::<String>()}));
        return;
    }
    let run = run_batch(b, &air);
    rep.stat_n("interpreter_runs", run.runs as u64);
    if let Some(p) = &run.problem {
        rep.case(&format!("batch|{air}"), true, || json!({"air": air}));
        // find one lens application that reproduces the problem on its own (smallest replay)
        let mut singles: Vec<(&Case, Option<Value>)> = b.cases.iter().map(|c| (c, None)).collect();
        for f in &b.folds { for el in b.values[f.over].as_array().cloned().unwrap_or_default() { singles.push((&f.case, Some(el))); } }
        for (c, item) in singles {
            let m = minimal_batch(b, c, item.as_ref());
            let mair = script(&m);
            if let Some(mp) = run_batch(&m, &mair).problem {
                rep.oracle_fail(json!({"why": format!("a lens application under xor did not end in a value or a catchable error: {mp}"),
                    "input": {"operand": format!("{}{}", root_text(&c.root), c.lens.text()), "form": format!("{:?}", c.form), "iterator_item": item, "replay": replay_of(b, c, item.as_ref())}}));
                return;
            }
        }
        rep.oracle_fail(json!({"why": format!("a script that only applies lenses under xor did not finish normally: {p}"), "input": {"replay": {"air": air, "service_get_answers": b.values.iter().enumerate().map(|(i, v)| (format!("v{i}"), v.clone())).chain(b.env.iter().cloned()).collect::<Map<String, Value>>()}}}));
        return;
    }
    // one model request for the whole batch
    let mut reqs: Vec<Value> = vec![];
    let mut slots: Vec<Option<usize>> = vec![];
    for c in &b.cases { match model_case(b, c, None) { Some(r) => { slots.push(Some(reqs.len())); reqs.push(r); } None => slots.push(None) } }
    let mut fslots: Vec<Vec<Option<usize>>> = vec![];
    for f in &b.folds {
        let elems: Vec<Value> = b.values[f.over].as_array().cloned().unwrap_or_default();
        let mut s = vec![];
        for (k, el) in elems.iter().enumerate() { match model_case(b, &f.case, Some((el, k, &elems))) { Some(r) => { s.push(Some(reqs.len())); reqs.push(r); } None => s.push(None) } }
        fslots.push(s);
    }
    // the direct oracle must keep searching when the model driver is not there (e.g. the proofs no longer build)
    let answer = if reqs.is_empty() { json!({"results": []}) } else {
        let req = json!({"op": "lens", "cases": reqs});
        std::panic::catch_unwind(std::panic::AssertUnwindSafe(|| ctx.driver.ask(&req))).unwrap_or_else(|_| json!({"driver_unavailable": true}))
    };
    let mut results = answer["results"].as_array().cloned().unwrap_or_default();
    if results.len() != reqs.len() {
        if rep.stats.get("model_driver_unavailable").is_none() { rep.disagree(json!({"op": "lens", "why": "model driver did not answer the batch (is the model built?)", "model": answer})); }
        rep.stat("model_driver_unavailable");
        results = vec![json!({"unmodelled": "model driver unavailable"}); reqs.len()];
    }
    for (i, c) in b.cases.iter().enumerate() {
        tot.cases += 1;
        check_one(rep, b, &air, c, None, &run.cases[i], slots[i].map(|s| &results[s]), kind);
    }
    for (i, f) in b.folds.iter().enumerate() {
        for (k, (el, seen)) in run.folds[i].iter().enumerate() {
            tot.cases += 1;
            check_one(rep, b, &air, &f.case, Some(el), seen, fslots[i][k].map(|s| &results[s]), &format!("{kind}/fold"));
        }
    }
}

// ---------------------------------------------------------------------------------------------- the run

pub fn run(ctx: &mut Ctx, rep: &mut Report) {
    if let Ok(f) = std::env::var("AQUA_C24_PROBE") { probe(&std::fs::read_to_string(f).unwrap(), &env_pool()); return; }
    if let Some(f) = ctx.replay.clone() {
        // re-run the minimal script of a recorded failure and print what the services see
        let v: Value = serde_json::from_str(&std::fs::read_to_string(&f).unwrap()).unwrap();
        let r = [&v["failure"]["input"]["replay"], &v["failure"]["request"]["replay"], &v["input"]["replay"], &v["replay"]].into_iter().find(|x| x.is_object()).cloned().unwrap_or(Value::Null);
        let answers: Vec<(String, Value)> = r["service_get_answers"].as_object().map(|o| o.iter().map(|(k, x)| (k.clone(), x.clone())).collect()).unwrap_or_default();
        println!("replaying {f}\nair: {}", r["air"].as_str().unwrap_or("<no script in the replay file>"));
        probe(r["air"].as_str().unwrap_or("(null)"), &answers);
        rep.rule = "replay of one recorded lens application".into();
        rep.case(&f, true, || r.clone());
        return;
    }
    rep.rule = "case = one lens application in a real run: (root, lens, environment, form) where root is a JSON value held by a scalar / a fold iterator's element / a canon stream / a canon map, \
        lens is `.length` or a path of [n], .name, [scalar] accessors (optional dots, flattening mark), form is a `call` argument or `ap`; observed: the argument the service received or the :error: object of the xor fallback. \
        Small domain, exhaustive: every JSON value of at most 3 nodes over atoms {null,true,1,\"a\"} and member names {a,b} x every path of length <= 2 over the accessor alphabet \
        (indices 0,1,2,u32::MAX; names a,b,zz,length; 20 scalar-held accessors of every JSON type incl. -1, 1.0, 1.5, 2^32, 2^64-1, i64::MIN, \"1\", \"\", non-ASCII, null, true, array, object); \
        beyond: random values (nesting <= 4) with value-guided paths up to length 5, canon streams, canon maps with string/integer/scalar keys, folds (iterator as accessor and as root), variables without a value. \
        non-trivial = root is an array, object, stream or map; distinct by hash of (root, lens text, environment used, form)".into();
    let mut rng = Rng::new(ctx.seed ^ 0xC24);
    let mut tot = Totals { cases: 0 };
    let env = env_pool();
    let alphabet = accessor_alphabet();

    // ---- (1) exhaustive small domain
    let atoms = vec![Value::Null, json!(true), json!(1), json!("a")];
    let mut memo = BTreeMap::new();
    let max_size = if ctx.thorough { 4 } else { 3 };
    let mut small: Vec<Value> = vec![];
    for s in 1..=max_size { small.extend(values_of_size(s, &atoms, &["a", "b"], &mut memo)); }
    rep.stat_n("small_domain_values", small.len() as u64);
    let mut paths: Vec<Vec<Acc>> = alphabet.iter().map(|a| vec![a.clone()]).collect();
    for a in &alphabet { for b2 in &alphabet { paths.push(vec![a.clone(), b2.clone()]); } }
    if ctx.thorough { for a in &alphabet[..8] { for b2 in &alphabet { for c3 in &alphabet[..12] { paths.push(vec![a.clone(), b2.clone(), c3.clone()]); } } } }
    rep.stat_n("small_domain_paths", paths.len() as u64);
    // quick: all values of size <= 2 x all paths, size 3 x all paths of length 1 + a rotating third of the length-2 paths
    for (vi, v) in small.iter().enumerate() {
        let size3 = vi >= small.len().saturating_sub(memo.get(&max_size).map(|x| x.len()).unwrap_or(0));
        let mut b = Batch { values: vec![v.clone()], env: env.clone(), ..Default::default() };
        for (pi, p) in paths.iter().enumerate() {
            if !ctx.thorough && size3 && p.len() == 2 && (pi + vi + ctx.seed as usize) % 3 != 0 { continue; }
            if ctx.thorough && size3 && p.len() == 3 && (pi + vi + ctx.seed as usize) % 7 != 0 { continue; }
            let form = if (pi + vi) % 5 == 0 { Form::Ap } else { Form::CallArg };
            b.cases.push(Case { root: Root::Scalar(0), lens: Lens::path(p.clone()), form });
        }
        b.cases.push(Case { root: Root::Scalar(0), lens: Lens::Length, form: Form::CallArg });
        b.cases.push(Case { root: Root::Scalar(0), lens: Lens::Length, form: Form::Ap });
        run_and_check(ctx, rep, &b, "scalar/small", &mut tot);
    }

    // ---- (2) random values, guided paths
    let n_rand = if ctx.thorough { 2500 } else { 300 };
    for _ in 0..n_rand {
        let mut b = Batch { env: env.clone(), ..Default::default() };
        for _ in 0..6 { b.values.push(random_value(&mut rng, 4)); }
        for vi in 0..b.values.len() {
            for _ in 0..12 {
                let p = guided_path(&mut rng, &b.values[vi], &b.env, 5, None);
                let lens = if rng.chance(1, 15) { Lens::Length } else { decorate(&mut rng, p) };
                b.cases.push(Case { root: Root::Scalar(vi), lens, form: if rng.chance(1, 3) { Form::Ap } else { Form::CallArg } });
            }
        }
        run_and_check(ctx, rep, &b, "scalar/random", &mut tot);
    }

    // ---- (3) canon streams
    let n_streams = if ctx.thorough { 1200 } else { 100 };
    for round in 0..n_streams {
        let mut b = Batch { env: env.clone(), ..Default::default() };
        for _ in 0..5 { b.values.push(if rng.chance(1, 3) { rng.pick(&small).clone() } else { random_value(&mut rng, 3) }); }
        b.streams.push(vec![]);                                             // the empty stream
        b.streams.push((0..1 + rng.below(4)).map(|_| rng.below(5)).collect());
        b.streams.push((0..rng.below(3)).map(|_| rng.below(5)).collect());
        for si in 0..b.streams.len() {
            // every accessor of the alphabet in first position (alone, and followed by a guided rest)
            for a in &alphabet {
                if round % 4 != 0 && rng.chance(1, 2) { continue; }
                b.cases.push(Case { root: Root::Stream(si), lens: Lens::path(vec![a.clone()]), form: if rng.chance(1, 4) { Form::Ap } else { Form::CallArg } });
            }
            let sv = root_value(&b, &Root::Stream(si), None);
            for _ in 0..10 {
                let p = guided_path(&mut rng, &sv, &b.env, 4, None);
                b.cases.push(Case { root: Root::Stream(si), lens: decorate(&mut rng, p), form: if rng.chance(1, 4) { Form::Ap } else { Form::CallArg } });
            }
            b.cases.push(Case { root: Root::Stream(si), lens: Lens::Length, form: if rng.chance(1, 2) { Form::Ap } else { Form::CallArg } });
        }
        run_and_check(ctx, rep, &b, "canon_stream", &mut tot);
    }

    // ---- (4) canon maps
    let key_pool: Vec<KeySpec> = vec![KeySpec::Lit("a".into()), KeySpec::Lit("b".into()), KeySpec::Lit("1".into()), KeySpec::Lit("0".into()), KeySpec::Lit("".into()), KeySpec::Lit("length".into()),
        KeySpec::Int(0), KeySpec::Int(1), KeySpec::Int(-1), KeySpec::Int(4294967295), KeySpec::Int(4294967296), KeySpec::Int(i64::MAX),
        KeySpec::Var("sa".into()), KeySpec::Var("s1".into()), KeySpec::Var("su".into()), KeySpec::Var("se".into()), KeySpec::Var("i1".into()), KeySpec::Var("neg".into()), KeySpec::Var("huge".into()), KeySpec::Var("imin".into()), KeySpec::Var("big".into())];
    let n_maps = if ctx.thorough { 1200 } else { 100 };
    for round in 0..n_maps {
        let mut b = Batch { env: env.clone(), ..Default::default() };
        for _ in 0..5 { b.values.push(if rng.chance(1, 3) { rng.pick(&small).clone() } else { random_value(&mut rng, 3) }); }
        b.maps.push(vec![]);                                                // the empty map
        b.maps.push((0..1 + rng.below(5)).map(|_| (rng.pick(&key_pool[..8]).clone(), rng.below(5))).collect());
        b.maps.push((0..1 + rng.below(6)).map(|_| (rng.pick(&key_pool).clone(), rng.below(5))).collect());
        for mi in 0..b.maps.len() {
            let pairs = map_pairs(&b, mi);
            for a in &alphabet {
                if round % 4 != 0 && rng.chance(1, 2) { continue; }
                b.cases.push(Case { root: Root::Map(mi), lens: Lens::path(vec![a.clone()]), form: if rng.chance(1, 4) { Form::Ap } else { Form::CallArg } });
                // key, then an index, then into the value
                let second = rng.pick(&alphabet).clone();
                b.cases.push(Case { root: Root::Map(mi), lens: Lens::path(vec![a.clone(), second]), form: Form::CallArg });
            }
            // present keys followed by guided navigation of the group
            for (k, _) in pairs.iter() {
                let first = match k {
                    Value::String(s) => match b.env.iter().find(|(_, v)| v.as_str() == Some(s.as_str())) {
                        Some((n, _)) if rng.chance(1, 2) || s.is_empty() || !s.chars().all(|c| c.is_ascii_alphabetic()) => Acc::Var(n.clone()),
                        _ => if !s.is_empty() && s.chars().all(|c| c.is_ascii_alphabetic()) { Acc::Name(s.clone()) } else { continue },
                    },
                    Value::Number(n) => match b.env.iter().find(|(_, v)| v == k) {
                        Some((name, _)) if rng.chance(1, 2) || n.as_u64().map(|u| u > u32::MAX as u64).unwrap_or(true) => Acc::Var(name.clone()),
                        _ => match n.as_u64() { Some(u) if u <= u32::MAX as u64 => Acc::Idx(u as u32), _ => continue },
                    },
                    _ => continue,
                };
                let tk = tkey_of_value(k);
                let group: Vec<Value> = pairs.iter().filter(|(kk, _)| tkey_of_value(kk) == tk).map(|(_, v)| v.clone()).collect();
                for _ in 0..3 {
                    let mut p = vec![first.clone()];
                    p.extend(guided_path(&mut rng, &Value::Array(group.clone()), &b.env, 4, None));
                    b.cases.push(Case { root: Root::Map(mi), lens: decorate(&mut rng, p), form: if rng.chance(1, 4) { Form::Ap } else { Form::CallArg } });
                }
            }
            b.cases.push(Case { root: Root::Map(mi), lens: Lens::Length, form: if rng.chance(1, 2) { Form::Ap } else { Form::CallArg } });
        }
        run_and_check(ctx, rep, &b, "canon_map", &mut tot);
    }

    // ---- (5) folds: the iterator as an accessor (every JSON type) and as the root; variables without a value
    let n_folds = if ctx.thorough { 600 } else { 60 };
    for _ in 0..n_folds {
        let mut b = Batch { env: env.clone(), ..Default::default() };
        // v0: distinct accessor values
        let mut accs: Vec<Value> = env.iter().map(|(_, v)| v.clone()).collect();
        accs.push(json!(3)); accs.push(json!("zz")); accs.push(json!([])); accs.push(json!(false));
        rng.shuffle(&mut accs); accs.truncate(6 + rng.below(10));
        b.values.push(Value::Array(accs));
        // v1..: roots
        for _ in 0..3 { b.values.push(random_value(&mut rng, 3)); }
        b.values.push(json!([[0, 1], {"a": [1, 2], "b": {"a": 0}}, "s"]));
        b.streams.push(vec![1, 2, 4]);
        b.maps.push(vec![(KeySpec::Lit("a".into()), 1), (KeySpec::Int(1), 2), (KeySpec::Lit("1".into()), 3), (KeySpec::Lit("a".into()), 4)]);
        for root in [Root::Scalar(1), Root::Scalar(2), Root::Scalar(4), Root::Stream(0), Root::Map(0)] {
            let form = if rng.chance(1, 3) { Form::Ap } else { Form::CallArg };
            b.folds.push(FoldCase { over: 0, case: Case { root: root.clone(), lens: Lens::path(vec![Acc::Var("it".into())]), form } });
            let tail = rng.pick(&alphabet).clone();
            b.folds.push(FoldCase { over: 0, case: Case { root: root.clone(), lens: Lens::path(vec![Acc::Var("it".into()), tail]), form: Form::CallArg } });
            let head = match root { Root::Map(_) => Acc::Name("a".into()), Root::Stream(_) => Acc::Idx(2), _ => rng.pick(&alphabet[..8]).clone() };
            b.folds.push(FoldCase { over: 0, case: Case { root, lens: Lens::path(vec![head, Acc::Var("it".into())]), form: Form::CallArg } });
        }
        // the iterator's element as the root: fold over a list of distinct values
        let mut elems: Vec<Value> = (0..6).map(|_| random_value(&mut rng, 3)).collect();
        elems.sort_by_key(|v| v.to_string()); elems.dedup();
        b.values.push(Value::Array(elems.clone()));
        let over = b.values.len() - 1;
        for _ in 0..4 {
            let el = rng.pick(&elems).clone();
            let p = guided_path(&mut rng, &el, &b.env, 3, None);
            b.folds.push(FoldCase { over, case: Case { root: Root::Item, lens: decorate(&mut rng, p), form: if rng.chance(1, 3) { Form::Ap } else { Form::CallArg } } });
        }
        b.folds.push(FoldCase { over, case: Case { root: Root::Item, lens: Lens::Length, form: Form::CallArg } });
        // variables that are declared but have no value at run time
        b.undefined.push("undef".into());
        for root in [Root::Scalar(4), Root::Stream(0), Root::Map(0)] {
            b.cases.push(Case { root: root.clone(), lens: Lens::path(vec![Acc::Var("undef".into())]), form: Form::CallArg });
            b.cases.push(Case { root, lens: Lens::path(vec![Acc::Var("undef".into())]), form: Form::Ap });
        }
        b.cases.push(Case { root: Root::Scalar(4), lens: Lens::path(vec![Acc::Idx(1), Acc::Name("a".into()), Acc::Var("undef".into())]), form: Form::CallArg });
        b.cases.push(Case { root: Root::Scalar(4), lens: Lens::path(vec![Acc::Idx(7), Acc::Var("undef".into())]), form: Form::CallArg });
        run_and_check(ctx, rep, &b, "fold+undefined", &mut tot);
    }
    rep.stat_n("lens_applications", tot.cases);
}

/// debugging aid: `AQUA_C24_PROBE=<file with a script>`: run it with the echo service and print the requests
#[allow(dead_code)]
pub fn probe(air: &str, values: &[(String, Value)]) {
    let b = Batch { env: values.to_vec(), ..Default::default() };
    let me = Peer::new("a");
    let mut prev: Vec<u8> = vec![];
    let mut results = CallResults::new();
    for step in 0..4 {
        let o = crate::host::run(&RunArgs { air, prev: &prev, cur: &[], init_peer_id: &me.id, peer: &me, particle_id: "c24", timestamp: 1, ttl: 1, results: &results, limits: Limits::unlimited() });
        println!("run {step}: code {} {}", o.ret_code, o.error_message);
        prev = o.data.clone(); results = CallResults::new();
        let reqs = decode_requests(&o.call_requests).unwrap_or_default();
        let mut ids: Vec<&u32> = reqs.keys().collect(); ids.sort();
        for id in ids { let r = &reqs[id]; let args = decode_args(r); println!("  request {id}: {} {} {}", r.service_id, r.function_name, Value::Array(args));
            if r.service_id == "get" { results.insert(id.to_string(), CallServiceResult::ok(b.env.iter().find(|(n, _)| *n == r.function_name).map(|(_, v)| v).unwrap_or(&Value::Null))); } }
        if results.is_empty() { break; }
    }
}
