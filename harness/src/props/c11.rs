//! C11 — a canonicalized stream is fixed once and identical everywhere. Direct oracles on every peer's data and on the values
//! services receive, over simulated histories of templates with several writers, a canon at a designated peer (literal / variable /
//! init peer), uses of the canon stream on several peers, growth of the stream after the canon and a second canon; lock-step
//! correspondence with the Lean executor model on (code, trace, stores, requests).
use crate::facts::*;
use crate::props::strm::*;
use crate::script::*;
use crate::util::*;
use crate::Ctx;
use serde_json::Value;
use std::collections::BTreeMap;

fn call_by_func<'a>(script: &'a Instr, func: &str) -> Option<&'a Instr> { let mut r = None; for n in nodes_of(script) { if let Instr::Call { func: Val::Lit(f), .. } = n { if f == func { r = Some(n); } } } r }

pub fn check_history(hc: &HistCtx, rep: &mut Report) -> Vec<Fail> {
    let mut fails = vec![];
    let net = hc.net;
    // canon instance -> (cid, first step, executing peer index, position in that step's trace)
    let mut first: BTreeMap<String, (String, usize, usize, usize)> = BTreeMap::new();
    for v in hc.views.iter().flatten() {
        let st = &net.log[v.k];
        let me = &net.peer_ids[st.peer];
        let t = &v.out.f.trace;
        // which canon results are new in this run (not taken over from the previous / current data)
        let mut inherited = vec![false; t.len()];
        for (which, b, al) in [("previous", &v.prev, &v.al_prev), ("current", &v.cur, &v.al_cur)] { if let (Some(b), Some(al)) = (b, al) { for (i, j) in al.map.iter().enumerate() { if let (Some(j), St::Canon(c)) = (j, &b.f.trace[i]) {
            match &t[*j] {
                St::Canon(c2) if c2 == c => inherited[*j] = true,
                // (a), script-independent form: a canon result a peer holds or receives is taken over unchanged
                other => fails.push(Fail { why: format!("canon result {c} at state {i} of the {} data became {} in the produced data", which, short(other)), step: Some(v.k), finding_key: None }),
            } } } } }
        for (j, s) in t.iter().enumerate() {
            if let St::Canon(c) = s {
                let maker = canon_peer(&v.out.f, c);
                if !inherited[j] {
                    rep.stat("canon_results_originated");
                    // (d) only the peer named by the canon result creates it
                    if maker.as_deref() != Some(me.as_str()) { fails.push(Fail { why: format!("peer {} originated the canon result {c} (state {j}) whose tetraplet names peer {:?}", net.peers[st.peer].peer.name, maker), step: Some(v.k), finding_key: None }); }
                }
                if canon_values(&v.out.f, c).is_none() { fails.push(Fail { why: format!("canon result {c} (state {j}) is not resolvable in the CID stores of the produced data"), step: Some(v.k), finding_key: None }); }
            }
        }
        let locs = match &v.out.locs { Ok(l) => l, Err(_) => continue };
        for (j, l) in locs.iter().enumerate() {
            let l = match l { Some(l) if l.kind == "canon" => l, _ => continue };
            let designated = l.peer.clone().unwrap_or_default();
            match &t[j] {
                St::CanonSent(_) => { if &designated == me { fails.push(Fail { why: format!("canon {} designated to this very peer was left as a request (state {j})", l.canon_name.clone().unwrap_or_default()), step: Some(v.k), finding_key: None }); } else { rep.stat("canon_requests_left_for_the_designated_peer"); } }
                St::Canon(c) => {
                    // (d) executed only at the designated peer
                    if canon_peer(&v.out.f, c).as_deref() != Some(designated.as_str()) { fails.push(Fail { why: format!("canon {} is designated to {designated} but its result {c} names peer {:?}", l.canon_name.clone().unwrap_or_default(), canon_peer(&v.out.f, c)), step: Some(v.k), finding_key: None }); }
                    if !inherited[j] && &designated != me { fails.push(Fail { why: format!("canon {} addressed to another peer ({designated}) was executed locally (state {j})", l.canon_name.clone().unwrap_or_default()), step: Some(v.k), finding_key: None }); }
                    // (a) one content id per canon instruction instance, in every peer's data at every step
                    let key = l.instance();
                    match first.get(&key) {
                        None => { first.insert(key, (c.clone(), v.k, st.peer, j)); }
                        Some((c0, k0, _, _)) => { if c0 != c { fails.push(Fail { why: format!("canon {} (instance {}) has content id {c} here but {c0} in the data produced at step {k0}", l.canon_name.clone().unwrap_or_default(), l.instance()), step: Some(v.k), finding_key: None }); } else { rep.stat("canon_results_seen_again_with_the_same_cid"); } }
                    }
                }
                _ => {}
            }
        }
    }
    // (c) the content is what the designated peer's stream held when it first ran the canon: the stream values written before the
    // canon state in execution (= trace) order, by produced generation, within a generation in trace order
    for (key, (cid, k0, _, pos)) in &first {
        let v = match &hc.views[*k0] { Some(v) => v, None => continue };
        let locs = match &v.out.locs { Ok(l) => l, Err(_) => continue };
        let cl = locs[*pos].as_ref().unwrap();
        let mut held: Vec<(u64, usize, Value)> = vec![];
        let mut unknown = false;
        for (j, l) in locs.iter().enumerate().take(*pos) { if let (Some(l), Some(g)) = (l, gen_of(&v.out.f.trace[j])) { if l.stream == cl.stream { match &l.value { Some(x) => held.push((g, j, x.clone())), None => unknown = true } } } }
        if unknown { rep.stat("canon_content_check_skipped_value_unknown"); continue; }
        held.sort_by(|a, b| (a.0, a.1).cmp(&(b.0, b.1)));
        let expected: Vec<Value> = held.into_iter().map(|x| x.2).collect();
        let got = canon_values(&v.out.f, cid).unwrap_or_default();
        rep.stat("canon_content_checked"); rep.stat(&format!("canon_size_{}", got.len().min(6)));
        if got != expected { fails.push(Fail { why: format!("canon instance {key} first ran at step {k0}: its content {} differs from the stream values the peer held at that point {} (generation order, then trace order)", Value::Array(got), Value::Array(expected.clone())), step: Some(*k0), finding_key: None }); }
        // the stream grew afterwards somewhere?
        if hc.views.iter().flatten().any(|w| w.out.locs.as_ref().map(|ls| ls.iter().flatten().filter(|l| l.stream == cl.stream && (l.kind == "ap" || l.kind == "call")).count()).unwrap_or(0) > expected.len()) { rep.stat("canon_instances_whose_stream_grew_later"); }
    }
    // (b) what services receive for a canon stream: the same JSON on every peer, equal to the content behind the content id
    let mut seen_args: BTreeMap<String, (Value, String)> = BTreeMap::new();
    for (pi, p) in net.peers.iter().enumerate() {
        let mut elems: BTreeMap<String, Vec<Value>> = BTreeMap::new();
        for inv in &p.invocations {
            let ci = match call_by_func(hc.script, &inv.function_name) { Some(Instr::Call { args, .. }) => args.clone(), _ => continue };
            let v = match hc.views.get(inv.step).and_then(|v| v.as_ref()) { Some(v) => v, None => continue };
            let locs = match &v.out.locs { Ok(l) => l, Err(_) => continue };
            // the call state of this request and the canon states it refers to
            // (several iterations may issue the same function: the state that carries this request id)
            let cpos = match locs.iter().enumerate().position(|(j, l)| l.as_ref().map(|l| l.kind == "call" && l.func.as_deref() == Some(inv.function_name.as_str())).unwrap_or(false) && matches!(&v.out.f.trace[j], St::Sent(_, Some(id)) if *id == inv.id as u64)) { Some(x) => x, None => { rep.stat("request_state_not_found"); continue } };
            let cl = locs[cpos].as_ref().unwrap();
            for (ai, a) in ci.iter().enumerate() {
                match a {
                    Val::Canon(name) | Val::CanonMap(name) => {
                        // the canon state of that name, same iteration path, before the call
                        let cj = (0..cpos).rev().find(|j| locs[*j].as_ref().map(|l| l.kind == "canon" && l.canon_name.as_deref() == Some(name.as_str()) && cl.path.starts_with(&l.path)).unwrap_or(false));
                        let cj = match cj { Some(j) => j, None => { fails.push(Fail { why: format!("service {} received a value for {name} but the peer's data has no canon state for it", inv.function_name), step: Some(inv.step), finding_key: None }); continue; } };
                        let cid = match &v.out.f.trace[cj] { St::Canon(c) => c.clone(), other => { fails.push(Fail { why: format!("service {} received a value for {name} while its canon state is {}", inv.function_name, short(other)), step: Some(inv.step), finding_key: None }); continue; } };
                        let content = if matches!(a, Val::CanonMap(_)) { kv_object(&canon_values(&v.out.f, &cid).unwrap_or_default()) } else { Value::Array(canon_values(&v.out.f, &cid).unwrap_or_default()) };
                        rep.stat(if matches!(a, Val::CanonMap(_)) { "canon_maps_passed_to_services" } else { "canon_values_passed_to_services" });
                        if inv.args.get(ai) != Some(&content) { fails.push(Fail { why: format!("service {} on {} received {} for {name} but the content behind its canon result {cid} is {content}", inv.function_name, p.peer.name, inv.args.get(ai).cloned().unwrap_or(Value::Null)), step: Some(inv.step), finding_key: None }); }
                        let key = locs[cj].as_ref().unwrap().instance();
                        match seen_args.get(&key) {
                            None => { seen_args.insert(key, (inv.args[ai].clone(), format!("{} on {} at step {}", inv.function_name, p.peer.name, inv.step))); }
                            Some((v0, who)) => { if Some(v0) != inv.args.get(ai) { fails.push(Fail { why: format!("service {} on {} received {} for {name}, but {who} received {v0} for the same canon", inv.function_name, p.peer.name, inv.args[ai]), step: Some(inv.step), finding_key: None }); } else { rep.stat("canon_values_passed_again_identical"); } }
                        }
                    }
                    Val::Scalar(it) if inv.function_name.starts_with("elem") && it == "j" => {
                        // element calls of `(fold #c j (seq (call F elem [j]) (next j)))`: in invocation order a prefix of the canon content
                        let key = format!("{}|{}", inv.function_name, pi);
                        elems.entry(key).or_default().push(inv.args.get(ai).cloned().unwrap_or(Value::Null));
                        let cj = (0..cpos).rev().find(|j| locs[*j].as_ref().map(|l| l.kind == "canon" && l.canon_name.as_deref() == Some("#c")).unwrap_or(false));
                        if let Some(St::Canon(cid)) = cj.map(|j| &v.out.f.trace[j]) {
                            let content = canon_values(&v.out.f, cid).unwrap_or_default();
                            let got = &elems[&format!("{}|{}", inv.function_name, pi)];
                            if got.len() > content.len() || got[..] != content[..got.len()] { fails.push(Fail { why: format!("the fold over the canon stream handed {} to {} on {}; the canon content is {}", Value::Array(got.clone()), inv.function_name, p.peer.name, Value::Array(content)), step: Some(inv.step), finding_key: None }); }
                            else { rep.stat("canon_fold_elements_checked"); }
                        }
                    }
                    _ => {}
                }
            }
        }
    }
    fails
}

/// Directed: canons whose content has REPEATED entries (the same value, or the same key-value pair, appended twice; results of
/// identical calls) — the templates use a unique value per append, so repeated entries never occur there.  The same canon is
/// shown to a service in the run that creates it, in a later run of the creating peer and on another peer: every `show_*`
/// request must carry the same arguments (the canon is fixed once and identical everywhere).
fn repeated_entries(ctx: &mut Ctx, rep: &mut Report) {
    use crate::host::decode_requests; use crate::sim::{decode_args, Net};
    let peers = peers_named(3);
    let (p, q) = (&peers[0].id, &peers[1].id);
    let shows = |args: &str| format!(r#"(seq (call "{p}" ("obs" "show_1") [{args}]) (seq (call "{q}" ("obs" "show_2") [{args}]) (seq (call "{p}" ("obs" "show_3") [{args}]) (call "{q}" ("obs" "show_4") [{args}]))))"#);
    let scripts = [
        ("map: the same pair twice", format!(r#"(seq (seq (ap ("k" "yes") %m) (seq (ap ("k" "yes") %m) (seq (ap ("k" "other") %m) (ap ("j" "yes") %m)))) (seq (canon "{p}" %m #%cm) {}))"#, shows("#%cm #%cm.$.k"))),
        ("stream: the same value twice", format!(r#"(seq (seq (ap "yes" $s) (seq (ap "yes" $s) (ap "other" $s))) (seq (canon "{p}" $s #cs) {}))"#, shows("#cs"))),
        ("map: results of identical calls under one key", format!(r#"(seq (seq (call "{q}" ("svc" "str_7") [] x) (seq (call "{q}" ("svc" "str_7") [] y) (seq (ap ("k" x) %m) (seq (ap ("k" y) %m) (ap ("k" x) %m))))) (seq (canon "{q}" %m #%cm) {}))"#, shows("#%cm.$.k #%cm"))),
        ("map: two keys that render to the same JSON key", format!(r#"(seq (seq (ap ("1" "a") %m) (seq (ap (1 "b") %m) (seq (ap ("1" "c") %m) (ap (2 "d") %m)))) (seq (canon "{p}" %m #%cm) {}))"#, shows("#%cm #%cm.$.[1]"))),
        ("map into a scalar: the same pair twice", format!(r#"(seq (seq (ap ("k" 1) %m) (seq (ap ("k" 1) %m) (ap ("k" 2) %m))) (seq (canon "{p}" %m cm) {}))"#, shows("cm"))),
    ];
    let mut corr = Corr::new();
    for (si, (what, air)) in scripts.iter().enumerate() {
        if air_parser::parse(air).is_err() { rep.oracle_fail(serde_json::json!({"why": format!("harness: directed C11 script does not parse: {what}"), "input": {"air": air}})); continue; }
        for round in 0..(if ctx.thorough { 12u64 } else { 3 }) {
            let mut net = Net::new(air, &peers, &format!("c11-repeated-{si}-{round}"));
            let mut r2 = Rng::new(ctx.seed ^ 0xC11 ^ (si as u64 * 977 + round * 7919));
            run_random_det(&mut net, &mut r2, 60);
            drain(&mut net, &mut r2, 200);
            rep.case(&format!("repeated|{si}|{round}"), true, || serde_json::json!({"template": "directed repeated entries", "what": what, "air": air}));
            rep.stat("directed_repeated_entries_histories");
            corr.history(ctx, rep, &net, &["code", "trace", "stores", "requests"]);
            let mut seen: Option<(String, String)> = None;
            for st in &net.log {
                for (_, r) in decode_requests(&st.outcome.call_requests).unwrap_or_default() {
                    if r.service_id != "obs" { continue; }
                    let args = serde_json::to_string(&decode_args(&r)).unwrap_or_default();
                    rep.stat("show_requests");
                    match &seen {
                        None => seen = Some((r.function_name.clone(), args)),
                        Some((f0, a0)) if *a0 != args => {
                            rep.oracle_fail(serde_json::json!({"why": format!("the same canon was handed to {f0} as {a0} and to {} (peer {}, step {}) as {args}: a canonical value must be identical everywhere [{what}]", r.function_name, net.peers[st.peer].peer.name, st.step),
                                "input": crate::props::hist::step_json(&net, st), "scenario": "c11 repeated entries"}));
                            return;
                        }
                        _ => {}
                    }
                }
            }
        }
    }
}

pub fn run(ctx: &mut Ctx, rep: &mut Report) {
    rep.rule = "case = one run of a simulated honest history of a canon template (2-4 writers via call/ap in seq/par positions on 3-5 peers (streams and stream maps), canon at a literal / variable-selected / init-peer target, \
        canon stream used as service argument on the designated and other peers and folded over, stream extended after the canon and by late-arriving data, second canon later / at another peer, \
        canons in par branches and in new-scoped fold iterations) under random schedules with duplicated deliveries and late/batched results, every 3rd small template under all delivery orders; \
        plus scripts of the general generator (origin and take-over checks only); non-trivial = history with at least 2 runs and a stream value; distinct by hash of (script, schedule)".into();
    let setup = Setup { prop: "C11", fields: &["code", "trace", "stores", "requests"], families: vec![Family::WritersCanon, Family::WritersCanon, Family::ParCanons, Family::NewScopes, Family::WritersCanon, Family::StreamMap, Family::NestedFolds],
        histories: (160, 3000), generated: (60, 2000), seed_salt: 0xC11, time_guard: (45, 700) };
    repeated_entries(ctx, rep);
    drive(ctx, rep, &setup, &mut |hc, rep| check_history(hc, rep));
}
