//! C10 oracle: structural well-formedness of a produced trace (DESIGN.md Appendix A).
//! A line-by-line transcription of `lean/Aqua/Trace/WF.lean` (`wfPar`, `wfFold`, `wfNesting`,
//! `wfValuePos`, `wfGenerations`); `props/c10.rs` cross-checks both on every produced trace and on
//! mutated traces through the driver op `wf`.
use crate::facts::{St, GENERATION_STUB};
use serde_json::Value;

/// the part of an executed state the definition looks at; lore entries keep their full descriptor list
#[derive(Clone, Debug, PartialEq)]
pub enum W { Par(u64, u64), Ap(Vec<u64>), Stream(u64), Fold(Vec<(u64, Vec<(u64, u64)>)>), Other(&'static str), Unknown(String) }

pub type Lore = [(u64, Vec<(u64, u64)>)];

pub fn from_st(s: &St) -> W {
    match s {
        St::Par(l, r) => W::Par(*l, *r),
        St::Ap(g) => W::Ap(g.clone()),
        St::Stream(_, g) => W::Stream(*g),
        // `facts::parse_state` reads exactly two descriptors and fills a missing one with u64::MAX
        St::Fold(lore) => W::Fold(lore.iter().map(|(vp, b, a)| (*vp, [*b, *a].iter().filter(|d| **d != (u64::MAX, u64::MAX)).cloned().collect())).collect()),
        St::Unknown(x) => W::Unknown(x.clone()),
        St::Sent(..) => W::Other("sent"), St::Scalar(_) => W::Other("scalar"), St::Unused(_) => W::Other("unused"), St::Failed(_) => W::Other("failed"),
        St::CanonSent(_) => W::Other("canon_sent"), St::Canon(_) => W::Other("canon"),
    }
}

/// from the serde form of `ExecutedState` (used for mutated traces: any number of descriptors)
pub fn from_json(v: &Value) -> W {
    let u = |x: &Value| x.as_u64().unwrap_or(0);
    if let Some(f) = v.get("fold") {
        return W::Fold(f["lore"].as_array().cloned().unwrap_or_default().iter().map(|l|
            (u(&l["pos"]), l["desc"].as_array().cloned().unwrap_or_default().iter().map(|d| (u(&d["pos"]), u(&d["len"]))).collect())).collect());
    }
    from_st(&crate::facts::parse_state(v))
}

/// verdicts of the five clauses
#[derive(Debug, Clone, PartialEq)]
pub struct Wf { pub par: Result<(), String>, pub fold: Result<(), String>, pub nesting: Result<(), String>, pub value_pos: Result<(), String>, pub generations: Result<(), String> }

impl Wf {
    pub fn ok(&self) -> bool { self.par.is_ok() && self.fold.is_ok() && self.nesting.is_ok() && self.value_pos.is_ok() && self.generations.is_ok() }
    /// same order as `wfVerdict`
    pub fn first(&self) -> (&'static str, String) {
        if let Err(e) = &self.generations { return ("generations", e.clone()); }
        if let Err(e) = &self.par { return ("par", e.clone()); }
        if let Err(e) = &self.value_pos { return ("value_pos", e.clone()); }
        if let Err(e) = &self.fold { return ("fold", e.clone()); }
        if let Err(e) = &self.nesting { return ("nesting", e.clone()); }
        ("ok", String::new())
    }
}

fn par_sizes(s: &W) -> (usize, usize) { match s { W::Par(l, r) => (*l as usize, *r as usize), _ => (0, 0) } }

/// `readForest`: read exactly `n` entries from `pos` as trees; returns the position after them
fn read_forest(t: &[(usize, usize)], pos: usize, n: usize, depth: usize) -> Result<usize, String> {
    if depth > 100_000 { return Err("nesting too deep".into()); }
    let mut pos = pos;
    let mut n = n;
    while n > 0 {
        if pos >= t.len() { return Err(format!("{n} more entries expected at {pos}, the trace ends")); }
        let (l, r) = t[pos];
        if l.saturating_add(r) > n - 1 { return Err(format!("par at {pos} with sizes ({l},{r}) exceeds its parent's range (only {} entries left in it)", n - 1)); }
        let p1 = read_forest(t, pos + 1, l, depth + 1)?;
        let p2 = read_forest(t, p1, r, depth + 1)?;
        n -= 1 + l + r;
        pos = p2;
    }
    Ok(pos)
}

pub fn wf_par(t: &[W]) -> Result<(), String> {
    let sizes: Vec<(usize, usize)> = t.iter().map(par_sizes).collect();
    let end = read_forest(&sizes, 0, t.len(), 0)?;
    if end != t.len() { return Err(format!("entries end at {end}, expected {}", t.len())); }
    Ok(())
}

#[derive(Clone, Copy, Debug)]
struct Iter { vp: usize, b: usize, bl: usize, a: usize, al: usize }

fn value_generation(t: &[W], p: usize) -> Option<u64> {
    match t.get(p) { Some(W::Ap(g)) => g.first().cloned(), Some(W::Stream(g)) => Some(*g), _ => None }
}

/// `batchEnd`
fn batch_end(c: usize, batch: &[Iter]) -> Result<usize, String> {
    let mut c = c;
    for it in batch { if it.b != c { return Err(format!("before-part of the iteration over value {} begins at {}, expected {c}", it.vp, it.b)); } c += it.bl; }
    for it in batch.iter().rev() { if it.a != c { return Err(format!("after-part of the iteration over value {} begins at {}, expected {c}", it.vp, it.a)); } c += it.al; }
    Ok(c)
}

fn lore_iter(vp: u64, d: &[(u64, u64)]) -> Option<Iter> {
    if d.len() != 2 { return None; }
    Some(Iter { vp: vp as usize, b: d[0].0 as usize, bl: d[0].1 as usize, a: d[1].0 as usize, al: d[1].1 as usize })
}

/// `wfFoldAt`
pub fn wf_fold_at(t: &[W], f: usize, lore: &Lore) -> Result<(), String> {
    let mut its: Vec<(u64, Iter)> = vec![];
    for (i, (vp, d)) in lore.iter().enumerate() {
        let it = lore_iter(*vp, d).ok_or_else(|| format!("fold at {f}: lore entry {i} has {} sub-trace descriptors", d.len()))?;
        let g = value_generation(t, it.vp).ok_or_else(|| format!("fold at {f}: value position {} does not name a stream value entry", it.vp))?;
        its.push((g, it));
    }
    // `tileLore`: maximal runs of one generation are batches laid out contiguously from f+1
    let mut c = f + 1;
    let mut i = 0;
    while i < its.len() {
        let g = its[i].0;
        let mut k = i + 1;
        while k < its.len() && its[k].0 == g { k += 1; }
        let batch: Vec<Iter> = its[i..k].iter().map(|x| x.1).collect();
        c = batch_end(c, &batch).map_err(|e| format!("fold at {f}: {e}"))?;
        i = k;
    }
    if c > t.len() { return Err(format!("fold at {f}: iterations end at {c}, beyond the trace ({} entries)", t.len())); }
    Ok(())
}

pub fn wf_fold(t: &[W]) -> Result<(), String> {
    for (f, s) in t.iter().enumerate() { if let W::Fold(lore) = s { wf_fold_at(t, f, lore)?; } }
    Ok(())
}

fn lore_total(lore: &Lore) -> usize { lore.iter().map(|(_, d)| d.iter().map(|x| x.1 as usize).sum::<usize>()).sum() }

fn all_frames(t: &[W]) -> Vec<(usize, usize, usize)> {
    let mut v = vec![];
    for (f, s) in t.iter().enumerate() {
        if let W::Fold(lore) = s { for (vp, d) in lore { if let Some(it) = lore_iter(*vp, d) { let (bb, e) = (it.b, it.a + it.al); if bb < e { v.push((f, bb, e)); } } } }
    }
    v
}

fn inside_if_starts(p: usize, e: usize, a: usize, b: usize) -> bool { !(a <= p && p < b) || e <= b }

pub fn wf_nesting(t: &[W]) -> Result<(), String> {
    let frames = all_frames(t);
    for (p, s) in t.iter().enumerate() {
        match s {
            W::Par(l, r) => {
                let (l, r) = (*l as usize, *r as usize);
                let e = p + 1 + l + r;
                for (f, a, b) in &frames {
                    let (a, b) = (*a, *b);
                    let ok = if a <= p && p < b { e <= b } else if p < a { e <= a || (p + 1 <= a && b <= p + 1 + l) || (p + 1 + l <= a && b <= e) } else { true };
                    if !ok { return Err(format!("par at {p} with sizes ({l},{r}) straddles the iteration range [{a},{b}) of the fold at {f}")); }
                }
            }
            W::Fold(lore) => {
                let e = p + 1 + lore_total(lore);
                for (f, a, b) in &frames { if *f != p && !inside_if_starts(p, e, *a, *b) { return Err(format!("fold at {p} covering [{p},{e}) leaves the iteration range [{a},{b}) of the fold at {f}")); } }
                for (q, s2) in t.iter().enumerate() {
                    if let W::Par(l, r) = s2 {
                        let (l, r) = (*l as usize, *r as usize);
                        if !inside_if_starts(p, e, q + 1, q + 1 + l) || !inside_if_starts(p, e, q + 1 + l, q + 1 + l + r) { return Err(format!("fold at {p} covering [{p},{e}) leaves the part of the par at {q} it starts in")); }
                    }
                }
            }
            _ => {}
        }
    }
    Ok(())
}

pub fn wf_value_pos(t: &[W]) -> Result<(), String> {
    for (f, s) in t.iter().enumerate() {
        if let W::Fold(lore) = s {
            for (vp, d) in lore {
                let vp = *vp as usize;
                match t.get(vp) {
                    Some(W::Ap(_)) | Some(W::Stream(..)) => {}
                    Some(other) => return Err(format!("fold at {f}: value position {vp} points at {other:?}, not a stream value entry")),
                    None => return Err(format!("fold at {f}: value position {vp} is outside the trace")),
                }
                match d.first() {
                    Some(b) => if vp >= b.0 as usize { return Err(format!("fold at {f}: value position {vp} is not before its iteration starting at {}", b.0)); },
                    None => return Err(format!("fold at {f}: lore entry for value {vp} has no sub-trace descriptor")),
                }
            }
        }
    }
    Ok(())
}

pub fn wf_generations(t: &[W]) -> Result<(), String> {
    for (i, s) in t.iter().enumerate() {
        match s {
            W::Ap(g) => {
                if g.len() != 1 { return Err(format!("ap at {i} has {} generations", g.len())); }
                if g[0] == GENERATION_STUB { return Err(format!("ap at {i} carries the placeholder generation")); }
            }
            W::Stream(g) if *g == GENERATION_STUB => return Err(format!("stream value at {i} carries the placeholder generation")),
            W::Unknown(x) => return Err(format!("unknown state at {i}: {x}")),
            _ => {}
        }
    }
    Ok(())
}

pub fn wf_clauses(t: &[W]) -> Wf {
    Wf { par: wf_par(t), fold: wf_fold(t), nesting: wf_nesting(t), value_pos: wf_value_pos(t), generations: wf_generations(t) }
}

pub fn wf_trace(t: &[St]) -> Result<(), String> {
    let w = wf_clauses(&t.iter().map(from_st).collect::<Vec<_>>());
    match w.first() { ("ok", _) => Ok(()), (clause, why) => Err(format!("[{clause}] {why}")) }
}
