//! Script AST of the harness (printed to AIR text, exported as JSON to the model) and the
//! type-directed, well-scoped-by-construction script generator (DESIGN.md Appendix D).
use crate::util::Rng;
use serde::Serialize;
use std::fmt::Write;

#[derive(Clone, Debug, Serialize, PartialEq)]
#[serde(tag = "t", content = "c")]
pub enum Val {
    Lit(String),
    Num(i64),
    Bool(bool),
    EmptyArr,
    InitPeer,
    Timestamp,
    Ttl,
    Scalar(String),
    /// scalar with lens text after the name, e.g. `.$.a.[0]` / `.length`
    ScalarLens(String, String),
    Canon(String),
    CanonLens(String, String),
    CanonMap(String),
    CanonMapLens(String, String),
    LastError(Option<String>),
    Error(Option<String>),
}

#[derive(Clone, Debug, Serialize, PartialEq)]
#[serde(tag = "t", content = "c")]
pub enum Out { None, Scalar(String), Stream(String) }

#[derive(Clone, Debug, Serialize, PartialEq)]
#[serde(tag = "t", content = "c")]
pub enum FailArg { Lit(i64, String), Scalar(String), ScalarLens(String, String), CanonLens(String, String), LastError, Error }

#[derive(Clone, Debug, Serialize, PartialEq)]
#[serde(tag = "t", content = "c")]
pub enum NewVar { Scalar(String), Stream(String), StreamMap(String), Canon(String), CanonMap(String) }

#[derive(Clone, Debug, Serialize, PartialEq)]
#[serde(tag = "t", content = "c")]
pub enum Instr {
    Call { peer: Val, svc: Val, func: Val, args: Vec<Val>, out: Out },
    Seq(Box<Instr>, Box<Instr>),
    Par(Box<Instr>, Box<Instr>),
    Xor(Box<Instr>, Box<Instr>),
    Match(Val, Val, Box<Instr>),
    Mismatch(Val, Val, Box<Instr>),
    Ap { arg: Val, out: Out },
    ApMap { key: Val, val: Val, map: String },
    Canon { peer: Val, stream: String, canon: String },
    CanonMap { peer: Val, map: String, canon: String },
    CanonMapScalar { peer: Val, map: String, scalar: String },
    FoldScalar { iterable: Val, iter: String, body: Box<Instr>, last: Option<Box<Instr>> },
    FoldStream { stream: String, iter: String, body: Box<Instr>, last: Option<Box<Instr>> },
    FoldMap { map: String, iter: String, body: Box<Instr>, last: Option<Box<Instr>> },
    Next(String),
    New(NewVar, Box<Instr>),
    Fail(FailArg),
    Null,
    Never,
}

fn quote(s: &str) -> String { format!("\"{}\"", s) }

impl Val {
    pub fn text(&self) -> String {
        match self {
            Val::Lit(s) => quote(s),
            Val::Num(n) => n.to_string(),
            Val::Bool(b) => b.to_string(),
            Val::EmptyArr => "[]".into(),
            Val::InitPeer => "%init_peer_id%".into(),
            Val::Timestamp => "%timestamp%".into(),
            Val::Ttl => "%ttl%".into(),
            Val::Scalar(n) => n.clone(),
            Val::ScalarLens(n, l) => format!("{n}{l}"),
            Val::Canon(n) => n.clone(),
            Val::CanonLens(n, l) => format!("{n}{l}"),
            Val::CanonMap(n) => n.clone(),
            Val::CanonMapLens(n, l) => format!("{n}{l}"),
            Val::LastError(None) => "%last_error%".into(),
            Val::LastError(Some(l)) => format!("%last_error%{l}"),
            Val::Error(None) => ":error:".into(),
            Val::Error(Some(l)) => format!(":error:{l}"),
        }
    }
}

impl Instr {
    pub fn text(&self) -> String { let mut s = String::new(); self.write(&mut s); s }
    fn write(&self, o: &mut String) {
        match self {
            Instr::Call { peer, svc, func, args, out } => {
                let a: Vec<String> = args.iter().map(|v| v.text()).collect();
                write!(o, "(call {} ({} {}) [{}]", peer.text(), svc.text(), func.text(), a.join(" ")).unwrap();
                match out { Out::None => {}, Out::Scalar(n) | Out::Stream(n) => { write!(o, " {n}").unwrap(); } }
                o.push(')');
            }
            Instr::Seq(l, r) => { o.push_str("(seq "); l.write(o); o.push(' '); r.write(o); o.push(')'); }
            Instr::Par(l, r) => { o.push_str("(par "); l.write(o); o.push(' '); r.write(o); o.push(')'); }
            Instr::Xor(l, r) => { o.push_str("(xor "); l.write(o); o.push(' '); r.write(o); o.push(')'); }
            Instr::Match(a, b, i) => { write!(o, "(match {} {} ", a.text(), b.text()).unwrap(); i.write(o); o.push(')'); }
            Instr::Mismatch(a, b, i) => { write!(o, "(mismatch {} {} ", a.text(), b.text()).unwrap(); i.write(o); o.push(')'); }
            Instr::Ap { arg, out } => { let n = match out { Out::Scalar(n) | Out::Stream(n) => n.clone(), Out::None => "_".into() }; write!(o, "(ap {} {})", arg.text(), n).unwrap(); }
            Instr::ApMap { key, val, map } => { write!(o, "(ap ({} {}) {})", key.text(), val.text(), map).unwrap(); }
            Instr::Canon { peer, stream, canon } => { write!(o, "(canon {} {} {})", peer.text(), stream, canon).unwrap(); }
            Instr::CanonMap { peer, map, canon } => { write!(o, "(canon {} {} {})", peer.text(), map, canon).unwrap(); }
            Instr::CanonMapScalar { peer, map, scalar } => { write!(o, "(canon {} {} {})", peer.text(), map, scalar).unwrap(); }
            Instr::FoldScalar { iterable, iter, body, last } => {
                write!(o, "(fold {} {} ", iterable.text(), iter).unwrap(); body.write(o);
                if let Some(l) = last { o.push(' '); l.write(o); } o.push(')');
            }
            Instr::FoldStream { stream, iter, body, last } => {
                write!(o, "(fold {} {} ", stream, iter).unwrap(); body.write(o);
                if let Some(l) = last { o.push(' '); l.write(o); } o.push(')');
            }
            Instr::FoldMap { map, iter, body, last } => {
                write!(o, "(fold {} {} ", map, iter).unwrap(); body.write(o);
                if let Some(l) = last { o.push(' '); l.write(o); } o.push(')');
            }
            Instr::Next(i) => { write!(o, "(next {i})").unwrap(); }
            Instr::New(v, b) => {
                let n = match v { NewVar::Scalar(n) | NewVar::Stream(n) | NewVar::StreamMap(n) | NewVar::Canon(n) | NewVar::CanonMap(n) => n };
                write!(o, "(new {n} ").unwrap(); b.write(o); o.push(')');
            }
            Instr::Fail(f) => match f {
                FailArg::Lit(c, m) => write!(o, "(fail {} {})", c, quote(m)).unwrap(),
                FailArg::Scalar(n) => write!(o, "(fail {n})").unwrap(),
                FailArg::ScalarLens(n, l) | FailArg::CanonLens(n, l) => write!(o, "(fail {n}{l})").unwrap(),
                FailArg::LastError => o.push_str("(fail %last_error%)"),
                FailArg::Error => o.push_str("(fail :error:)"),
            },
            Instr::Null => o.push_str("(null)"),
            Instr::Never => o.push_str("(never)"),
        }
    }
    pub fn size(&self) -> usize {
        match self {
            Instr::Seq(l, r) | Instr::Par(l, r) | Instr::Xor(l, r) => 1 + l.size() + r.size(),
            Instr::Match(_, _, i) | Instr::Mismatch(_, _, i) | Instr::New(_, i) => 1 + i.size(),
            Instr::FoldScalar { body, last, .. } | Instr::FoldStream { body, last, .. } | Instr::FoldMap { body, last, .. } =>
                1 + body.size() + last.as_ref().map(|l| l.size()).unwrap_or(0),
            _ => 1,
        }
    }
    pub fn visit(&self, f: &mut dyn FnMut(&Instr)) {
        f(self);
        match self {
            Instr::Seq(l, r) | Instr::Par(l, r) | Instr::Xor(l, r) => { l.visit(f); r.visit(f); }
            Instr::Match(_, _, i) | Instr::Mismatch(_, _, i) | Instr::New(_, i) => i.visit(f),
            Instr::FoldScalar { body, last, .. } | Instr::FoldStream { body, last, .. } | Instr::FoldMap { body, last, .. } => {
                body.visit(f); if let Some(l) = last { l.visit(f); }
            }
            _ => {}
        }
    }
    pub fn uses_streams(&self) -> bool {
        let mut u = false;
        self.visit(&mut |i| match i {
            Instr::Call { out: Out::Stream(_), .. } | Instr::Ap { out: Out::Stream(_), .. } | Instr::ApMap { .. } | Instr::Canon { .. } | Instr::CanonMap { .. }
            | Instr::CanonMapScalar { .. } | Instr::FoldStream { .. } | Instr::FoldMap { .. } => u = true,
            Instr::New(NewVar::Stream(_), _) | Instr::New(NewVar::StreamMap(_), _) | Instr::New(NewVar::Canon(_), _) | Instr::New(NewVar::CanonMap(_), _) => u = true,
            _ => {}
        });
        u
    }
    /// map / canon-lens features a script uses (for the coverage counters of the correspondence runs)
    pub fn map_features(&self) -> Vec<&'static str> {
        let mut v: Vec<&'static str> = vec![];
        let mut add = |s: &'static str, v: &mut Vec<&'static str>| if !v.contains(&s) { v.push(s) };
        let val = |x: &Val, v: &mut Vec<&'static str>| match x {
            Val::CanonLens(..) => { if !v.contains(&"canon_lens") { v.push("canon_lens") } }
            Val::CanonMap(_) => { if !v.contains(&"canon_map_operand") { v.push("canon_map_operand") } }
            Val::CanonMapLens(..) => { if !v.contains(&"canon_map_lens") { v.push("canon_map_lens") } }
            _ => {}
        };
        self.visit(&mut |i| match i {
            Instr::Call { peer, svc, func, args, .. } => {
                for x in [peer, svc, func] { if matches!(x, Val::CanonLens(..) | Val::CanonMapLens(..)) { add("canon_lens_in_triplet", &mut v); } }
                for a in args { val(a, &mut v); }
            }
            Instr::Match(a, b, _) | Instr::Mismatch(a, b, _) => { val(a, &mut v); val(b, &mut v); }
            Instr::Ap { arg, .. } => val(arg, &mut v),
            Instr::ApMap { key, val: x, .. } => {
                add("ap_map", &mut v); val(x, &mut v);
                match key { Val::Lit(_) => add("ap_map_str_key", &mut v), Val::Num(_) => add("ap_map_int_key", &mut v), Val::CanonLens(..) => add("ap_map_canon_lens_key", &mut v), _ => add("ap_map_scalar_key", &mut v) }
            }
            Instr::CanonMap { .. } => add("canon_map", &mut v),
            Instr::CanonMapScalar { .. } => add("canon_map_scalar", &mut v),
            Instr::FoldMap { .. } => add("fold_map", &mut v),
            Instr::FoldScalar { iterable, .. } => match iterable { Val::CanonMap(_) => add("fold_canon_map", &mut v), Val::CanonMapLens(..) => add("fold_canon_map_lens", &mut v), _ => {} },
            Instr::New(NewVar::StreamMap(_), _) => add("new_map", &mut v),
            Instr::New(NewVar::CanonMap(_), _) => add("new_canon_map", &mut v),
            Instr::New(NewVar::Canon(_), _) => add("new_canon", &mut v),
            Instr::Fail(FailArg::CanonLens(..)) => add("fail_canon_lens", &mut v),
            _ => {}
        });
        v
    }
    pub fn kinds(&self) -> Vec<&'static str> {
        let mut v = vec![];
        self.visit(&mut |i| v.push(match i {
            Instr::Call { .. } => "call", Instr::Seq(..) => "seq", Instr::Par(..) => "par", Instr::Xor(..) => "xor", Instr::Match(..) => "match",
            Instr::Mismatch(..) => "mismatch", Instr::Ap { out: Out::Stream(_), .. } => "ap_stream", Instr::Ap { .. } => "ap", Instr::ApMap { .. } => "ap_map",
            Instr::Canon { .. } => "canon", Instr::CanonMap { .. } => "canon_map", Instr::CanonMapScalar { .. } => "canon_map_scalar",
            Instr::FoldScalar { .. } => "fold_scalar", Instr::FoldStream { .. } => "fold_stream", Instr::FoldMap { .. } => "fold_map", Instr::Next(_) => "next",
            Instr::New(..) => "new", Instr::Fail(_) => "fail", Instr::Null => "null", Instr::Never => "never",
        }));
        v
    }
}

fn seq(a: Instr, b: Instr) -> Instr { Instr::Seq(Box::new(a), Box::new(b)) }
fn par(a: Instr, b: Instr) -> Instr { Instr::Par(Box::new(a), Box::new(b)) }
fn xor(a: Instr, b: Instr) -> Instr { Instr::Xor(Box::new(a), Box::new(b)) }

// ------------------------------------------------------------------------------------------------
// generator

#[derive(Clone, Copy, Debug, PartialEq)]
pub enum Kind { Peer, Peers, Obj, Arr, Str, Num, Any }

#[derive(Clone, Debug)]
pub struct GenCfg {
    pub peers: Vec<String>,
    /// allow streams / canon / stream folds / maps
    pub streams: bool,
    /// C16 fragment: every fallible instruction guarded by xor with no par in between
    pub fragment: bool,
    pub budget: usize,
    /// allow services that fail / return odd values
    pub failing_services: bool,
}

#[derive(Clone, Default)]
struct Env {
    scalars: Vec<(String, Kind)>,
    streams: Vec<String>,
    canons: Vec<String>,
    maps: Vec<String>,
    canon_maps: Vec<String>,
    /// fold iterators in scope: (name, element kind, is stream fold)
    iters: Vec<(String, Kind, bool)>,
    /// streams / maps being folded over by an enclosing stream fold: appending to them recurses
    folding: Vec<(String, String)>,
}

impl Env {
    /// streams that can be appended to without recursion
    fn free_streams(&self) -> Vec<String> { self.streams.iter().filter(|s| !self.folding.iter().any(|(f, _)| f == *s)).cloned().collect() }
    fn free_maps(&self) -> Vec<String> { self.maps.iter().filter(|s| !self.folding.iter().any(|(f, _)| f == *s)).cloned().collect() }
}

pub struct Gen<'a> { pub rng: &'a mut Rng, pub cfg: GenCfg, counter: usize, in_xor_left: bool }

impl<'a> Gen<'a> {
    pub fn new(rng: &'a mut Rng, cfg: GenCfg) -> Self { Gen { rng, cfg, counter: 0, in_xor_left: false } }
    fn fresh(&mut self, p: &str) -> String { self.counter += 1; format!("{p}{}", self.counter) }

    pub fn script(&mut self) -> Instr {
        let mut env = Env::default();
        let budget = self.cfg.budget;
        self.instr(&mut env, budget, 0)
    }

    fn peer_lit(&mut self) -> Val { let p = self.rng.pick(&self.cfg.peers).clone(); Val::Lit(p) }

    /// a value expression that resolves to a peer id
    fn target(&mut self, env: &Env) -> Val {
        let mut opts: Vec<Val> = vec![];
        for (n, k) in &env.scalars {
            match k {
                Kind::Peer => opts.push(Val::Scalar(n.clone())),
                Kind::Obj => opts.push(Val::ScalarLens(n.clone(), ".$.peer".into())),
                Kind::Peers => opts.push(Val::ScalarLens(n.clone(), ".$.[0]".into())),
                _ => {}
            }
        }
        for (n, k, _) in &env.iters { if *k == Kind::Peer { opts.push(Val::Scalar(n.clone())); } }
        if self.cfg.streams && !self.cfg.fragment {
            // canon lenses in a triplet part (a non-string value is a catchable error)
            for n in &env.canons { opts.push(Val::CanonLens(n.clone(), ".$.[0]".into())); }
            for n in &env.canon_maps { opts.push(Val::CanonMapLens(n.clone(), ".$.kp.[0]".into())); }
        }
        let r = self.rng.below(10);
        if r < 5 || (opts.is_empty() && r < 8) { self.peer_lit() }
        else if r < 7 || opts.is_empty() { Val::InitPeer }
        else { opts[self.rng.below(opts.len())].clone() }
    }

    fn arg(&mut self, env: &Env) -> (Val, Kind) {
        let mut opts: Vec<(Val, Kind)> = vec![];
        for (n, k) in &env.scalars {
            opts.push((Val::Scalar(n.clone()), *k));
            match k {
                Kind::Obj => {
                    opts.push((Val::ScalarLens(n.clone(), ".$.arr".into()), Kind::Arr));
                    opts.push((Val::ScalarLens(n.clone(), ".$.n".into()), Kind::Num));
                    opts.push((Val::ScalarLens(n.clone(), ".$.peers".into()), Kind::Peers));
                    opts.push((Val::ScalarLens(n.clone(), ".$.nested.a.[1]".into()), Kind::Num));
                    opts.push((Val::ScalarLens(n.clone(), ".$.arr.length".into()), Kind::Num));
                }
                Kind::Arr | Kind::Peers => {
                    opts.push((Val::ScalarLens(n.clone(), ".$.[0]".into()), Kind::Any));
                    opts.push((Val::ScalarLens(n.clone(), ".length".into()), Kind::Num));
                }
                _ => {}
            }
        }
        for (n, k, _) in &env.iters { opts.push((Val::Scalar(n.clone()), *k)); }
        for n in &env.canons {
            opts.push((Val::Canon(n.clone()), Kind::Arr));
            opts.push((Val::CanonLens(n.clone(), ".$.[0]".into()), Kind::Any));
            opts.push((Val::CanonLens(n.clone(), ".length".into()), Kind::Num));
        }
        for n in &env.canon_maps {
            opts.push((Val::CanonMap(n.clone()), Kind::Obj));
            if !self.cfg.fragment {
                let keyed = [".$.k0", ".$.k1.[0]", ".$.k2.[1]", ".$.[1]", ".$.[2].[0]", ".$.kp.[0]", ".$.nokey", ".$.nokey.[0]", ".length", ".$.k0.[0].arr.[1]", ".$.k1.[0].n"];
                opts.push((Val::CanonMapLens(n.clone(), keyed[self.rng.below(keyed.len())].into()), Kind::Any));
                // key / index taken from a scalar
                if let Some((s, _)) = env.scalars.iter().find(|(_, k)| matches!(k, Kind::Str | Kind::Num)) { opts.push((Val::CanonMapLens(n.clone(), format!(".$.[{s}]")), Kind::Any)); }
            }
        }
        if self.cfg.streams && !self.cfg.fragment {
            for n in &env.canons {
                let l = [".$.[1]", ".$.[0].n", ".$.[0].arr.[0]", ".$.[7]", ".$.field"];
                opts.push((Val::CanonLens(n.clone(), l[self.rng.below(l.len())].into()), Kind::Any));
                if let Some((s, _)) = env.scalars.iter().find(|(_, k)| matches!(k, Kind::Num)) { opts.push((Val::CanonLens(n.clone(), format!(".$.[{s}]")), Kind::Any)); }
            }
        }
        let r = self.rng.below(12);
        if !opts.is_empty() && r < 7 { return opts[self.rng.below(opts.len())].clone(); }
        match r % 7 {
            0 => (Val::Lit(format!("lit{}", self.rng.below(3))), Kind::Str),
            1 => (Val::Num(self.rng.range(-2, 5)), Kind::Num),
            2 => (Val::Bool(self.rng.chance(1, 2)), Kind::Any),
            3 => (Val::EmptyArr, Kind::Arr),
            4 => (Val::InitPeer, Kind::Peer),
            5 => (if self.rng.chance(1, 2) { Val::Ttl } else { Val::Timestamp }, Kind::Num),
            _ => (Val::Lit("x".into()), Kind::Str),
        }
    }

    fn call(&mut self, env: &mut Env, allow_stream_out: bool) -> Instr {
        let peer = self.target(env);
        let kinds = if self.cfg.failing_services { vec!["peer", "peers", "obj", "arr", "str", "num", "echo", "fail", "obj", "arr", "echo", "badjson"] }
                    else { vec!["peer", "peers", "obj", "arr", "str", "num", "echo", "obj", "arr"] };
        let mut fk = *self.rng.pick(&kinds);
        if (fk == "fail" || fk == "badjson") && self.cfg.fragment && !self.in_xor_left { fk = "str"; }
        let n_args = self.rng.below(3);
        let mut args = vec![];
        for _ in 0..n_args { args.push(self.arg(env).0); }
        if fk == "echo" && args.is_empty() { args.push(self.arg(env).0); }
        let func = Val::Lit(self.fresh(&format!("{fk}_")));
        let kind = match fk { "peer" => Kind::Peer, "peers" => Kind::Peers, "obj" => Kind::Obj, "arr" => Kind::Arr, "str" => Kind::Str, "num" => Kind::Num, _ => Kind::Any };
        let r = self.rng.below(10);
        let out = if r < 6 || (fk == "fail" || fk == "badjson") && r < 8 { let n = self.fresh("v"); env.scalars.push((n.clone(), kind)); Out::Scalar(n) }
                  else if r < 8 && allow_stream_out && self.cfg.streams && !env.free_streams().is_empty() { let fs = env.free_streams(); Out::Stream(self.rng.pick(&fs).clone()) }
                  else if r < 8 && allow_stream_out && self.cfg.streams { let n = self.fresh("$s"); env.streams.push(n.clone()); Out::Stream(n) }
                  else { Out::None };
        let mut svc = Val::Lit("svc".into());
        if self.cfg.streams && !self.cfg.fragment && self.rng.chance(1, 12) {
            // the service id through a canon lens / canon map lens (the simulated services ignore the service id)
            let mut o: Vec<Val> = vec![];
            for n in &env.canons { o.push(Val::CanonLens(n.clone(), ".$.[0]".into())); }
            for n in &env.canon_maps { o.push(Val::CanonMapLens(n.clone(), ".$.k0.[0]".into())); o.push(Val::CanonMapLens(n.clone(), ".$.kp.[0]".into())); }
            if !o.is_empty() { svc = o[self.rng.below(o.len())].clone(); }
        }
        Instr::Call { peer, svc, func, args, out }
    }

    /// guard a possibly failing instruction in fragment mode
    fn guard(&mut self, i: Instr, env: &mut Env) -> Instr {
        if self.cfg.fragment && !self.in_xor_left {
            let handler = if self.rng.chance(1, 2) { Instr::Null } else {
                let p = self.target(env);
                Instr::Call { peer: p, svc: Val::Lit("svc".into()), func: Val::Lit(self.fresh("str_")), args: vec![Val::Error(Some(".$.error_code".into()))], out: Out::None }
            };
            // the handler call may itself fail to resolve its target: keep handlers simple (literal targets) in fragment mode
            let handler = match handler { Instr::Call { svc, func, args, out, .. } => Instr::Call { peer: self.peer_lit(), svc, func, args, out }, h => h };
            xor(i, handler)
        } else { i }
    }

    fn instr(&mut self, env: &mut Env, budget: usize, depth: usize) -> Instr {
        if budget <= 1 || depth > 6 { return self.leaf(env); }
        let r = self.rng.below(100);
        if r < 30 {
            let lb = 1 + self.rng.below(budget - 1);
            let l = self.instr(env, lb, depth + 1);
            let rr = self.instr(env, budget - lb, depth + 1);
            seq(l, rr)
        } else if r < 42 {
            let lb = 1 + self.rng.below(budget - 1);
            // definitions made inside a par branch are visible afterwards (textually); keep them
            let saved = self.in_xor_left; self.in_xor_left = false;
            let l = self.instr(env, lb, depth + 1);
            let rr = self.instr(env, budget - lb, depth + 1);
            self.in_xor_left = saved;
            par(l, rr)
        } else if r < 54 {
            let lb = 1 + self.rng.below(budget - 1);
            let saved = self.in_xor_left; self.in_xor_left = true;
            let mut lenv = env.clone();
            let l = self.instr(&mut lenv, lb, depth + 1);
            self.in_xor_left = saved;
            // variables defined in the left branch may be undefined when the right branch runs: do not expose them
            let mut renv = env.clone();
            let rr = if self.rng.chance(1, 3) {
                let p = self.peer_lit();
                let e = if self.rng.chance(1, 2) { Val::Error(None) } else { Val::LastError(Some(".$.message".into())) };
                let c = Instr::Call { peer: p, svc: Val::Lit("svc".into()), func: Val::Lit(self.fresh("echo_")), args: vec![e], out: Out::None };
                if budget - lb > 2 { seq(c, self.instr(&mut renv, budget - lb - 1, depth + 1)) } else { c }
            } else { self.instr(&mut renv, budget - lb, depth + 1) };
            xor(l, rr)
        } else if r < 62 {
            let (a, _) = self.arg(env);
            let b = if self.rng.chance(1, 2) { a.clone() } else { self.arg(env).0 };
            let saved_env = env.clone();
            let body = self.instr(env, budget - 1, depth + 1);
            *env = saved_env; // body may not run
            let m = if self.rng.chance(1, 2) { Instr::Match(a, b, Box::new(body)) } else { Instr::Mismatch(a, b, Box::new(body)) };
            self.guard(m, env)
        } else if r < 76 {
            self.fold(env, budget, depth)
        } else if r < 82 {
            // new
            let kind = self.rng.below(if self.cfg.streams { if self.cfg.fragment { 3 } else { 5 } } else { 1 });
            match kind {
                0 => {
                    let n = self.fresh("v");
                    let mut inner = env.clone();
                    // inside the body the variable is undefined until set; only define through ap/call inside
                    let set = Instr::Ap { arg: self.arg(env).0, out: Out::Scalar(n.clone()) };
                    inner.scalars.push((n.clone(), Kind::Any));
                    let rest = self.instr(&mut inner, budget.saturating_sub(2).max(1), depth + 1);
                    Instr::New(NewVar::Scalar(n), Box::new(seq(set, rest)))
                }
                1 => {
                    // a fresh name, or (nested scopes of one name: the innermost instance is the one written and read) an existing one
                    let n = if !self.cfg.fragment && !env.streams.is_empty() && self.rng.chance(1, 3) { self.rng.pick(&env.streams).clone() } else { self.fresh("$s") };
                    let mut inner = env.clone(); if !inner.streams.contains(&n) { inner.streams.push(n.clone()); }
                    let body = self.instr(&mut inner, budget - 1, depth + 1);
                    Instr::New(NewVar::Stream(n), Box::new(body))
                }
                2 => {
                    let n = if !self.cfg.fragment && !env.maps.is_empty() && self.rng.chance(1, 3) { self.rng.pick(&env.maps).clone() } else { self.fresh("%m") };
                    let mut inner = env.clone(); if !inner.maps.contains(&n) { inner.maps.push(n.clone()); }
                    let body = self.instr(&mut inner, budget - 1, depth + 1);
                    Instr::New(NewVar::StreamMap(n), Box::new(body))
                }
                3 => {
                    // new #canon: an existing canon name is shadowed (uses before the inner canon fail catchably), or a fresh one
                    let n = if !env.canons.is_empty() && self.rng.chance(1, 2) { self.rng.pick(&env.canons).clone() } else { self.fresh("#c") };
                    let mut inner = env.clone();
                    let s = if !inner.streams.is_empty() { self.rng.pick(&inner.streams).clone() } else { let s = self.fresh("$s"); inner.streams.push(s.clone()); s };
                    let fill = Instr::Ap { arg: self.arg(env).0, out: Out::Stream(s.clone()) };
                    let canon = Instr::Canon { peer: self.target(env), stream: s, canon: n.clone() };
                    if !inner.canons.contains(&n) { inner.canons.push(n.clone()); }
                    let rest = self.instr(&mut inner, budget.saturating_sub(3).max(1), depth + 1);
                    let body = if self.rng.chance(1, 5) { seq(rest, seq(fill, canon)) } else { seq(fill, seq(canon, rest)) };
                    Instr::New(NewVar::Canon(n), Box::new(body))
                }
                _ => {
                    let n = if !env.canon_maps.is_empty() && self.rng.chance(1, 2) { self.rng.pick(&env.canon_maps).clone() } else { self.fresh("#%c") };
                    let mut inner = env.clone();
                    let m = if !inner.maps.is_empty() { self.rng.pick(&inner.maps).clone() } else { let m = self.fresh("%m"); inner.maps.push(m.clone()); m };
                    let fill = self.ap_map(env, m.clone());
                    let canon = Instr::CanonMap { peer: self.target(env), map: m, canon: n.clone() };
                    if !inner.canon_maps.contains(&n) { inner.canon_maps.push(n.clone()); }
                    let rest = self.instr(&mut inner, budget.saturating_sub(3).max(1), depth + 1);
                    let body = if self.rng.chance(1, 5) { seq(rest, seq(fill, canon)) } else { seq(fill, seq(canon, rest)) };
                    Instr::New(NewVar::CanonMap(n), Box::new(body))
                }
            }
        } else { self.leaf(env) }
    }

    fn fold(&mut self, env: &mut Env, budget: usize, depth: usize) -> Instr {
        // candidates to iterate over
        let mut scalar_iterables: Vec<(Val, Kind)> = vec![];
        for (n, k) in &env.scalars {
            match k {
                Kind::Peers => scalar_iterables.push((Val::Scalar(n.clone()), Kind::Peer)),
                Kind::Arr => scalar_iterables.push((Val::Scalar(n.clone()), Kind::Any)),
                Kind::Obj => { scalar_iterables.push((Val::ScalarLens(n.clone(), ".$.peers".into()), Kind::Peer)); scalar_iterables.push((Val::ScalarLens(n.clone(), ".$.arr".into()), Kind::Any)); }
                _ => {}
            }
        }
        for n in &env.canons { scalar_iterables.push((Val::Canon(n.clone()), Kind::Any)); }
        for n in &env.canon_maps {
            scalar_iterables.push((Val::CanonMap(n.clone()), Kind::Obj));
            if !self.cfg.fragment {
                let l = [".$.k0", ".$.k1", ".$.[1]", ".$.kp", ".$.nokey", ".$.k0.[0]", ".length"];
                scalar_iterables.push((Val::CanonMapLens(n.clone(), l[self.rng.below(l.len())].into()), Kind::Any));
            }
        }
        let it = self.fresh("i");
        let stream_fold = self.cfg.streams && !env.streams.is_empty() && self.rng.chance(2, 5);
        let map_fold = !stream_fold && self.cfg.streams && !env.maps.is_empty() && self.rng.chance(1, 5);
        if !stream_fold && !map_fold && scalar_iterables.is_empty() {
            // make an iterable first
            let p = self.target(env);
            let n = self.fresh("v");
            let fk = if self.rng.chance(1, 2) { "peers" } else { "arr" };
            let c = Instr::Call { peer: p, svc: Val::Lit("svc".into()), func: Val::Lit(self.fresh(&format!("{fk}_"))), args: vec![], out: Out::Scalar(n.clone()) };
            env.scalars.push((n, if fk == "peers" { Kind::Peers } else { Kind::Arr }));
            let f = self.fold(env, budget.saturating_sub(1).max(2), depth);
            return seq(c, f);
        }
        let (elem_kind, is_stream) = if stream_fold || map_fold { (Kind::Any, true) } else { (Kind::Any, false) };
        let mut inner = env.clone();
        let (iterable, ek) = if stream_fold || map_fold { (Val::EmptyArr, elem_kind) } else { scalar_iterables[self.rng.below(scalar_iterables.len())].clone() };
        inner.iters.push((it.clone(), ek, is_stream));
        let folded_name = if stream_fold { Some(self.rng.pick(&env.streams).clone()) } else if map_fold { Some(self.rng.pick(&env.maps).clone()) } else { None };
        if let Some(n) = &folded_name { inner.folding.push((n.clone(), it.clone())); }
        let body_budget = budget.saturating_sub(2).max(1);
        let saved = self.in_xor_left; if !self.cfg.fragment { self.in_xor_left = false; }
        let x = self.instr(&mut inner, body_budget, depth + 1);
        self.in_xor_left = saved;
        let next = Instr::Next(it.clone());
        let shape = self.rng.below(10);
        let body = if is_stream {
            // stream folds: nothing after next
            if shape < 5 { seq(x, next) } else if shape < 9 { par(x, next) } else { x }
        } else if shape < 4 { seq(x, next) } else if shape < 6 && !self.cfg.fragment { par(x, next) } else if shape < 8 { seq(next, x) }
          else if shape < 9 { let y = self.leaf(&mut inner); seq(x, seq(next, y)) } else { x };
        // the last instruction runs inside the fold: appends to the folded stream there recurse too
        let last = if self.rng.chance(1, 4) { let mut e2 = env.clone(); e2.folding = inner.folding.clone(); Some(Box::new(self.leaf(&mut e2))) } else { None };
        let f = if stream_fold { Instr::FoldStream { stream: folded_name.clone().unwrap(), iter: it, body: Box::new(body), last } }
                else if map_fold { Instr::FoldMap { map: folded_name.clone().unwrap(), iter: it, body: Box::new(body), last } }
                else { Instr::FoldScalar { iterable, iter: it, body: Box::new(body), last } };
        self.guard(f, env)
    }

    /// `(ap (key value) %map)`: string, integer and mixed keys (string keys never look like integers: `"1"` vs `1`
    /// collide in the canon map's JSON rendering — known finding canon-map-key-collision of C20, kept out of the
    /// generic generator); keys through scalars, scalar lenses and canon lenses (possibly of an unsupported type)
    fn ap_map(&mut self, env: &mut Env, m: String) -> Instr {
        let mut key = match self.rng.below(6) {
            0 | 1 => Val::Lit(format!("k{}", self.rng.below(3))),
            2 => Val::Num(self.rng.range(0, 3)),
            3 => Val::Lit("k0".into()),
            4 => Val::Num(self.rng.range(-2, 40)),
            _ => Val::Lit("k1".into()),
        };
        if !self.cfg.fragment && self.rng.chance(1, 4) {
            let mut o: Vec<Val> = vec![];
            for (n, k) in &env.scalars {
                match k {
                    Kind::Str | Kind::Num | Kind::Any | Kind::Peer => o.push(Val::Scalar(n.clone())),
                    Kind::Obj => { o.push(Val::ScalarLens(n.clone(), ".$.s".into())); o.push(Val::ScalarLens(n.clone(), ".$.n".into())); o.push(Val::ScalarLens(n.clone(), ".$.arr".into())); }
                    _ => {}
                }
            }
            for (n, _, _) in &env.iters { o.push(Val::Scalar(n.clone())); }
            for n in &env.canons { o.push(Val::CanonLens(n.clone(), ".$.[0]".into())); o.push(Val::CanonLens(n.clone(), ".length".into())); }
            if !o.is_empty() { key = o[self.rng.below(o.len())].clone(); }
        }
        // a peer-valued entry under "kp" feeds canon-map lenses in triplets
        let (key, val) = if self.rng.chance(1, 6) { (Val::Lit("kp".into()), if self.rng.chance(1, 2) { self.peer_lit() } else { Val::InitPeer }) } else { (key, self.arg(env).0) };
        Instr::ApMap { key, val, map: m }
    }

    fn leaf(&mut self, env: &mut Env) -> Instr {
        let r = self.rng.below(100);
        if r < 55 {
            let c = self.call(env, true);
            self.guard(c, env)
        } else if r < 67 {
            let (a, k) = self.arg(env);
            if self.cfg.streams && self.rng.chance(2, 5) {
                // bounded recursion: appending to a stream that an enclosing fold iterates is guarded by a match on its iterator
                if !env.folding.is_empty() && self.rng.chance(1, 4) {
                    let (st, it) = self.rng.pick(&env.folding).clone();
                    if st.starts_with('$') {
                        let i = Instr::Match(Val::Scalar(it), Val::Lit("lit0".into()), Box::new(Instr::Ap { arg: Val::Lit("lit1".into()), out: Out::Stream(st) }));
                        return self.guard(i, env);
                    }
                }
                let fs = env.free_streams();
                let n = if !fs.is_empty() && self.rng.chance(2, 3) { self.rng.pick(&fs).clone() } else { let n = self.fresh("$s"); env.streams.push(n.clone()); n };
                let i = Instr::Ap { arg: a, out: Out::Stream(n) }; self.guard(i, env)
            } else {
                let n = self.fresh("v");
                let i = Instr::Ap { arg: a, out: Out::Scalar(n.clone()) };
                let g = self.guard(i, env);
                if !self.cfg.fragment || self.in_xor_left { env.scalars.push((n, k)); }
                g
            }
        } else if r < 75 && self.cfg.streams {
            // canon
            if !env.streams.is_empty() && self.rng.chance(3, 4) {
                let s = self.rng.pick(&env.streams).clone();
                let c = self.fresh("#c");
                env.canons.push(c.clone());
                Instr::Canon { peer: self.target(env), stream: s, canon: c }
            } else if !env.maps.is_empty() {
                let m = self.rng.pick(&env.maps).clone();
                if self.rng.chance(1, 2) { let c = self.fresh("#%c"); env.canon_maps.push(c.clone()); Instr::CanonMap { peer: self.target(env), map: m, canon: c } }
                else { let v = self.fresh("v"); env.scalars.push((v.clone(), Kind::Obj)); Instr::CanonMapScalar { peer: self.target(env), map: m, scalar: v } }
            } else { self.call(env, true) }
        } else if r < 80 && self.cfg.streams {
            // bounded recursion into a map an enclosing fold iterates: guarded by a match on the iterated pair
            if !env.folding.is_empty() && self.rng.chance(1, 4) {
                let (st, it) = self.rng.pick(&env.folding).clone();
                if st.starts_with('%') {
                    let i = Instr::Match(Val::ScalarLens(it, ".$.key".into()), Val::Lit("k0".into()), Box::new(Instr::ApMap { key: Val::Lit("k1".into()), val: Val::Lit("lit1".into()), map: st }));
                    return self.guard(i, env);
                }
            }
            let fm = env.free_maps();
            let m = if !fm.is_empty() && self.rng.chance(2, 3) { self.rng.pick(&fm).clone() } else { let n = self.fresh("%m"); env.maps.push(n.clone()); n };
            let i = self.ap_map(env, m);
            self.guard(i, env)
        } else if r < 86 {
            let canon_fail = self.cfg.streams && !self.cfg.fragment && !env.canons.is_empty() && self.rng.chance(1, 4);
            let f = if canon_fail {
                // the element is rarely a well-formed error object: mostly InvalidErrorObjectError, sometimes UserError
                FailArg::CanonLens(self.rng.pick(&env.canons).clone(), if self.rng.chance(1, 2) { ".$.[0]".into() } else { ".$.[1]".into() })
            } else { match self.rng.below(4) {
                0 => FailArg::Lit(self.rng.range(1, 9), format!("msg{}", self.rng.below(3))),
                1 => FailArg::LastError,
                2 => FailArg::Error,
                _ => FailArg::Lit(1337, "boom".into()),
            } };
            if self.cfg.fragment && !self.in_xor_left { Instr::Null } else { Instr::Fail(f) }
        } else if r < 94 { Instr::Null }
        else if r < 96 { Instr::Never }
        else { let c = self.call(env, false); self.guard(c, env) }
    }
}

// ------------------------------------------------------------------------------------------------
// merge-stress templates: fan-out / fan-in shapes that make different versions of the particle converge

fn lit(s: &str) -> Val { Val::Lit(s.to_string()) }
fn callp(peer: &str, func: &str, args: Vec<Val>, out: Out) -> Instr { Instr::Call { peer: lit(peer), svc: lit("svc"), func: lit(func), args, out } }

/// switched on by the C13 check only (see template 8)
pub static MAP_FOLD_RECURSION: std::sync::atomic::AtomicBool = std::sync::atomic::AtomicBool::new(false);

pub fn template(rng: &mut Rng, peers: &[String]) -> Instr {
    let n = peers.len();
    let p = |rng: &mut Rng| peers[rng.below(n)].clone();
    let mut c = 0usize;
    let mut f = |k: &str| { c += 1; format!("{k}_{}", c + 100) };
    // the map / canon-lens templates (8, 9, 10) get a third of the weight
    let which = if rng.chance(1, 4) { 8 + rng.below(3) } else { rng.below(12) };
    match which {
        8 => {
            // a stream map filled on several peers (string and integer keys), folded (recursively: the body appends once), canonicalised both ways
            let w1 = seq(callp(&p(rng), &f("str"), vec![], Out::Scalar("a".into())), Instr::ApMap { key: lit("k0"), val: Val::Scalar("a".into()), map: "%m".into() });
            let w2 = seq(callp(&p(rng), &f("obj"), vec![], Out::Scalar("b".into())), Instr::ApMap { key: Val::Num(1), val: Val::Scalar("b".into()), map: "%m".into() });
            let w3 = Instr::ApMap { key: if rng.chance(1, 2) { lit("k0") } else { Val::Num(2) }, val: Val::Timestamp, map: "%m".into() };
            let fill = if rng.chance(1, 2) { par(w1, par(w2, w3)) } else { seq(w1, seq(w2, w3)) };
            // a key that is still pending when the `ap` is first met (joins), and nested scopes of the same map name
            let fill = if rng.chance(1, 2) { seq(fill, seq(par(callp(&p(rng), &f("str"), vec![], Out::Scalar("kx".into())), Instr::Null), Instr::ApMap { key: Val::Scalar("kx".into()), val: lit("late"), map: "%m".into() })) } else { fill };
            let fill = if rng.chance(1, 3) {
                let inner = Instr::New(NewVar::StreamMap("%m".into()), Box::new(seq(Instr::ApMap { key: lit("inner"), val: Val::Num(1), map: "%m".into() },
                    seq(Instr::CanonMap { peer: lit(&p(rng)), map: "%m".into(), canon: "#%in".into() }, callp(&p(rng), &f("echo"), vec![Val::CanonMap("#%in".into())], Out::None)))));
                seq(fill, Instr::New(NewVar::StreamMap("%m".into()), Box::new(seq(Instr::ApMap { key: lit("mid"), val: Val::Num(2), map: "%m".into() }, seq(inner, seq(Instr::ApMap { key: lit("mid2"), val: Val::Num(3), map: "%m".into() },
                    seq(Instr::CanonMap { peer: lit(&p(rng)), map: "%m".into(), canon: "#%mid".into() }, callp(&p(rng), &f("echo"), vec![Val::CanonMap("#%mid".into())], Out::None))))))))
            } else { fill };
            let rec = Instr::Match(Val::ScalarLens("i".into(), ".$.key".into()), lit("k0"), Box::new(Instr::ApMap { key: lit("k9"), val: Val::ScalarLens("i".into(), ".$.value".into()), map: "%m".into() }));
            let work = callp(&p(rng), &f("echo"), vec![Val::ScalarLens("i".into(), ".$.value".into()), Val::ScalarLens("i".into(), ".$.key".into())], if rng.chance(1, 2) { Out::Stream("$r".into()) } else { Out::None });
            // (a recursive append `rec` in the body makes the direct oracles of C05/C06/C07/C09 fail on the unchanged tree: call results of
            //  a fold iteration are lost when the fold over the map is re-entered — the defect behind the known finding
            //  recursive-fold-skips-value-below-generation-cursor of C13; the recursive variant is generated for C13 only, which classifies it)
            let inner = if MAP_FOLD_RECURSION.load(std::sync::atomic::Ordering::Relaxed) && rng.chance(1, 2) { seq(work, xor(rec, Instr::Null)) } else { let _ = &rec; work };
            let body = if rng.chance(1, 2) { par(inner, Instr::Next("i".into())) } else { seq(inner, Instr::Next("i".into())) };
            let fold = Instr::FoldMap { map: "%m".into(), iter: "i".into(), body: Box::new(body), last: if rng.chance(1, 3) { Some(Box::new(callp(&p(rng), &f("str"), vec![], Out::None))) } else { None } };
            let c1 = Instr::CanonMapScalar { peer: lit(&p(rng)), map: "%m".into(), scalar: "obj".into() };
            let c2 = Instr::CanonMap { peer: lit(&p(rng)), map: "%m".into(), canon: "#%cm".into() };
            let use_ = callp(&p(rng), &f("echo"), vec![Val::Scalar("obj".into()), Val::CanonMap("#%cm".into()), Val::CanonMapLens("#%cm".into(), ".length".into())], Out::None);
            seq(fill, seq(if rng.chance(1, 2) { par(fold, Instr::Null) } else { fold }, seq(c1, seq(c2, use_))))
        }
        9 => {
            // canon map lenses everywhere: call arguments, ap, match, fold iterables, triplet parts, keys taken from scalars
            let who = p(rng);
            let m = seq(Instr::ApMap { key: lit("k1"), val: lit(&who), map: "%m".into() },
                    seq(Instr::ApMap { key: Val::Num(2), val: Val::InitPeer, map: "%m".into() },
                    seq(callp(&p(rng), &f("obj"), vec![], Out::Scalar("o".into())),
                    seq(Instr::ApMap { key: Val::ScalarLens("o".into(), ".$.s".into()), val: Val::Scalar("o".into()), map: "%m".into() },
                        Instr::ApMap { key: lit("k1"), val: Val::ScalarLens("o".into(), ".$.peer".into()), map: "%m".into() }))));
            let canon = Instr::CanonMap { peer: lit(&p(rng)), map: "%m".into(), canon: "#%cm".into() };
            let args = vec![Val::CanonMapLens("#%cm".into(), ".$.k1".into()), Val::CanonMapLens("#%cm".into(), ".$.k1.[1]".into()), Val::CanonMapLens("#%cm".into(), ".$.[2]".into()),
                            Val::CanonMapLens("#%cm".into(), ".$.[2].[0]".into()), Val::CanonMapLens("#%cm".into(), ".length".into()), Val::CanonMapLens("#%cm".into(), ".$.nokey".into())];
            let u1 = callp(&p(rng), &f("echo"), args, Out::Scalar("e".into()));
            let u2 = Instr::Call { peer: Val::CanonMapLens("#%cm".into(), ".$.k1.[0]".into()), svc: Val::CanonMapLens("#%cm".into(), ".$.k1.[1]".into()), func: lit(&f("str")), args: vec![Val::CanonMapLens("#%cm".into(), ".$.s0.[0].nested.a.[1]".into())], out: Out::None };
            let u3 = seq(callp(&p(rng), &f("str"), vec![], Out::Scalar("key".into())), seq(Instr::Ap { arg: Val::CanonMapLens("#%cm".into(), ".$.[key]".into()), out: Out::Scalar("byk".into()) },
                         Instr::Ap { arg: Val::CanonMapLens("#%cm".into(), ".$.k1".into()), out: Out::Stream("$all".into()) }));
            let f1 = Instr::FoldScalar { iterable: Val::CanonMap("#%cm".into()), iter: "i".into(), body: Box::new(seq(callp(&p(rng), &f("echo"), vec![Val::Scalar("i".into())], Out::None), Instr::Next("i".into()))), last: None };
            let f2 = Instr::FoldScalar { iterable: Val::CanonMapLens("#%cm".into(), ".$.k1".into()), iter: "j".into(), body: Box::new(seq(callp(&p(rng), &f("echo"), vec![Val::Scalar("j".into())], Out::None), Instr::Next("j".into()))), last: None };
            let mm = Instr::Match(Val::CanonMapLens("#%cm".into(), ".$.k1.[0]".into()), lit(&who), Box::new(callp(&p(rng), &f("str"), vec![], Out::None)));
            let tail = match rng.below(4) { 0 => seq(u1, seq(u2, f1)), 1 => seq(u1, seq(xor(u3, Instr::Null), f2)), 2 => seq(par(u1, u2), xor(mm, Instr::Null)), _ => seq(f1, seq(f2, u1)) };
            seq(m, seq(canon, tail))
        }
        10 => {
            // canon stream lenses in ap / fail / map keys / triplets, `new` on canon names (a ONE-letter canon name with a lens, `#c.$.[0]`, is rejected by the lexer: "a canon name should be non empty" — reported)
            let fill = seq(callp(&p(rng), &f("peer"), vec![], Out::Stream("$s".into())), seq(callp(&p(rng), &f("obj"), vec![], Out::Stream("$s".into())), Instr::Ap { arg: Val::Num(7), out: Out::Stream("$s".into()) }));
            let canon = Instr::Canon { peer: lit(&p(rng)), stream: "$s".into(), canon: "#cs".into() };
            let k = Instr::ApMap { key: Val::CanonLens("#cs".into(), if rng.chance(1, 2) { ".$.[0]".into() } else { ".$.[2]".into() }), val: Val::CanonLens("#cs".into(), ".$.[1].n".into()), map: "%m".into() };
            let k2 = xor(Instr::ApMap { key: Val::CanonLens("#cs".into(), ".$.[1]".into()), val: lit("never"), map: "%m".into() }, callp(&p(rng), &f("echo"), vec![Val::Error(Some(".$.message".into()))], Out::None));
            let call = Instr::Call { peer: Val::CanonLens("#cs".into(), ".$.[0]".into()), svc: lit("svc"), func: lit(&f("str")), args: vec![Val::CanonLens("#cs".into(), ".length".into()), Val::CanonLens("#cs".into(), ".$.[1].arr".into())], out: Out::Scalar("r".into()) };
            let fl = xor(Instr::Fail(FailArg::CanonLens("#cs".into(), ".$.[1]".into())), callp(&p(rng), &f("echo"), vec![Val::LastError(None)], Out::None));
            let scoped = Instr::New(NewVar::CanonMap("#%cm".into()), Box::new(seq(Instr::CanonMap { peer: lit(&p(rng)), map: "%m".into(), canon: "#%cm".into() },
                            callp(&p(rng), &f("echo"), vec![Val::CanonMap("#%cm".into())], Out::None))));
            let scoped2 = Instr::New(NewVar::Canon("#cs".into()), Box::new(xor(callp(&p(rng), &f("echo"), vec![Val::Canon("#cs".into())], Out::None), Instr::Null)));
            let tail = match rng.below(3) { 0 => seq(k, seq(k2, scoped)), 1 => seq(call, seq(fl, scoped2)), _ => seq(k, seq(call, par(scoped, fl))) };
            seq(fill, seq(canon, tail))
        }
        6 => {
            // several values in one generation, sequential fold body with a call per value (stalls mid-generation), optional tail after next
            let n = 2 + rng.below(3);
            let mut fill = Instr::Ap { arg: lit("a0"), out: Out::Stream("$s".into()) };
            for k in 1..n { fill = seq(fill, Instr::Ap { arg: lit(&format!("a{k}")), out: Out::Stream("$s".into()) }); }
            let who = p(rng);
            let call = callp(&who, &f("echo"), vec![Val::Scalar("i".into())], if rng.chance(1, 2) { Out::Stream("$out".into()) } else { Out::Scalar("o".into()) });
            let body = match rng.below(3) {
                0 => seq(call, Instr::Next("i".into())),
                1 => seq(seq(call, callp(&p(rng), &f("str"), vec![], Out::None)), Instr::Next("i".into())),
                _ => seq(xor(call, Instr::Null), Instr::Next("i".into())),
            };
            let last = if rng.chance(1, 3) { Some(Box::new(callp(&p(rng), &f("str"), vec![], Out::None))) } else { None };
            seq(fill, Instr::FoldStream { stream: "$s".into(), iter: "i".into(), body: Box::new(body), last })
        }
        7 => {
            // two writers in parallel into one stream, then canon at a third peer and a fold over the canon stream
            let w = par(callp(&p(rng), &f("str"), vec![], Out::Stream("$s".into())), callp(&p(rng), &f("num"), vec![], Out::Stream("$s".into())));
            let canon = Instr::Canon { peer: lit(&p(rng)), stream: "$s".into(), canon: "#cs".into() };
            let fold = Instr::FoldScalar { iterable: Val::Canon("#cs".into()), iter: "i".into(), body: Box::new(seq(callp(&p(rng), &f("echo"), vec![Val::Scalar("i".into())], Out::None), Instr::Next("i".into()))), last: None };
            seq(w, seq(canon, fold))
        }
        0 => {
            // stream filled by calls on several peers, folded with parallel work per element, then a join
            let writers = 2 + rng.below(2);
            let mut fill = callp(&p(rng), &f("str"), vec![], Out::Stream("$s".into()));
            for _ in 1..writers { let w = callp(&p(rng), &f("num"), vec![], Out::Stream("$s".into())); fill = if rng.chance(1, 2) { par(fill, w) } else { seq(fill, w) }; }
            let body_work = par(callp(&p(rng), &f("echo"), vec![Val::Scalar("i".into())], if rng.chance(1, 2) { Out::Scalar("x".into()) } else { Out::None }),
                                callp(&p(rng), &f("echo"), vec![Val::Scalar("i".into())], if rng.chance(1, 2) { Out::Stream("$r".into()) } else { Out::None }));
            let body = if rng.chance(1, 2) { par(body_work, Instr::Next("i".into())) } else { seq(body_work, Instr::Next("i".into())) };
            let fold = Instr::FoldStream { stream: "$s".into(), iter: "i".into(), body: Box::new(body), last: None };
            let tail = callp(&p(rng), &f("str"), vec![], Out::None);
            seq(fill, if rng.chance(1, 2) { par(fold, tail) } else { seq(par(fold, Instr::Null), tail) })
        }
        1 => {
            // scalar fan-out / fan-in
            let a = callp(&p(rng), &f("str"), vec![], Out::Scalar("a".into()));
            let b = callp(&p(rng), &f("obj"), vec![], Out::Scalar("b".into()));
            let c2 = callp(&p(rng), &f("num"), vec![], Out::Scalar("c".into()));
            let join = callp(&p(rng), &f("echo"), vec![Val::Scalar("a".into()), Val::Scalar("b".into()), Val::Scalar("c".into())], Out::Scalar("j".into()));
            let after = par(callp(&p(rng), &f("echo"), vec![Val::Scalar("j".into())], Out::None), callp(&p(rng), &f("echo"), vec![Val::ScalarLens("b".into(), ".$.n".into())], Out::None));
            seq(par(a, par(b, c2)), seq(join, after))
        }
        2 => {
            // fold over a scalar array of peers, par body, calls on the iterated peer
            let src = callp(&p(rng), &f("peers"), vec![], Out::Scalar("ps".into()));
            let body = par(seq(Instr::Call { peer: Val::Scalar("i".into()), svc: lit("svc"), func: lit(&f("str")), args: vec![Val::Scalar("i".into())], out: Out::Stream("$acc".into()) },
                               callp(&p(rng), &f("echo"), vec![Val::Scalar("i".into())], Out::None)), Instr::Next("i".into()));
            let fold = Instr::FoldScalar { iterable: Val::Scalar("ps".into()), iter: "i".into(), body: Box::new(body), last: None };
            let canon = Instr::Canon { peer: lit(&p(rng)), stream: "$acc".into(), canon: "#acc".into() };
            seq(src, seq(fold, seq(canon, callp(&p(rng), &f("echo"), vec![Val::Canon("#acc".into())], Out::None))))
        }
        3 => {
            // xor with failing service inside par branches
            let l = xor(callp(&p(rng), &f("fail"), vec![], Out::Scalar("u".into())), callp(&p(rng), &f("echo"), vec![Val::Error(Some(".$.message".into()))], Out::Scalar("e1".into())));
            let r = xor(seq(callp(&p(rng), &f("str"), vec![], Out::Scalar("w".into())), Instr::Fail(FailArg::Lit(7, "stop".into()))), callp(&p(rng), &f("echo"), vec![Val::LastError(Some(".$.error_code".into()))], Out::Scalar("e2".into())));
            seq(par(l, r), callp(&p(rng), &f("str"), vec![], Out::None))
        }
        4 => {
            // two streams, nested stream folds, appends in the body to another stream
            let fill = par(callp(&p(rng), &f("str"), vec![], Out::Stream("$a".into())), seq(callp(&p(rng), &f("str"), vec![], Out::Stream("$a".into())), Instr::Ap { arg: lit("z"), out: Out::Stream("$b".into()) }));
            let inner = Instr::FoldStream { stream: "$b".into(), iter: "j".into(), body: Box::new(seq(callp(&p(rng), &f("echo"), vec![Val::Scalar("i".into()), Val::Scalar("j".into())], Out::Stream("$c".into())), Instr::Next("j".into()))), last: None };
            let outer = Instr::FoldStream { stream: "$a".into(), iter: "i".into(), body: Box::new(par(inner, Instr::Next("i".into()))), last: Some(Box::new(callp(&p(rng), &f("str"), vec![], Out::None))) };
            seq(fill, outer)
        }
        _ => {
            // stream map + canon map + new scope
            let m = seq(Instr::ApMap { key: lit("k1"), val: lit("v1"), map: "%m".into() }, par(Instr::ApMap { key: Val::Num(2), val: Val::InitPeer, map: "%m".into() },
                        seq(callp(&p(rng), &f("str"), vec![], Out::Scalar("s".into())), Instr::ApMap { key: lit("k1"), val: Val::Scalar("s".into()), map: "%m".into() })));
            let canon = Instr::CanonMap { peer: lit(&p(rng)), map: "%m".into(), canon: "#%cm".into() };
            let use_ = callp(&p(rng), &f("echo"), vec![Val::CanonMap("#%cm".into())], Out::None);
            Instr::New(NewVar::StreamMap("%m".into()), Box::new(seq(m, seq(canon, use_))))
        }
    }
}
