//! Views of interpreter data used by the direct oracles (independent of the Lean model):
//! decoded trace states, content ids, the structural well-formedness checker of DESIGN.md Appendix A.
use crate::host::*;
use serde_json::Value;
use std::collections::BTreeMap;

pub const GENERATION_STUB: u64 = 0xCAFEBABE;

#[derive(Clone, Debug, PartialEq)]
pub enum St {
    Par(u64, u64),
    /// sender peer, optional call id
    Sent(String, Option<u64>),
    Scalar(String),
    Stream(String, u64),
    Unused(String),
    Failed(String),
    Fold(Vec<(u64, (u64, u64), (u64, u64))>),
    Ap(Vec<u64>),
    CanonSent(String),
    Canon(String),
    Unknown(String),
}

pub struct Facts { pub json: Value, pub trace: Vec<St>, pub lcid: u64 }

fn u(v: &Value) -> u64 { v.as_u64().unwrap_or(u64::MAX) }

pub fn parse_state(v: &Value) -> St {
    if let Some(p) = v.get("par") { return St::Par(u(&p[0]), u(&p[1])); }
    if let Some(c) = v.get("call") {
        if let Some(s) = c.get("sent_by") {
            if let Some(p) = s.get("PeerId") { return St::Sent(p.as_str().unwrap_or("").into(), None); }
            if let Some(p) = s.get("PeerIdWithCallId") { return St::Sent(p["peer_id"].as_str().unwrap_or("").into(), Some(u(&p["call_id"]))); }
        }
        if let Some(e) = c.get("executed") {
            if let Some(x) = e.get("scalar") { return St::Scalar(x.as_str().unwrap_or("").into()); }
            if let Some(x) = e.get("stream") { return St::Stream(x["cid"].as_str().unwrap_or("").into(), u(&x["generation"])); }
            if let Some(x) = e.get("unused") { return St::Unused(x.as_str().unwrap_or("").into()); }
        }
        if let Some(f) = c.get("failed") { return St::Failed(f.as_str().unwrap_or("").into()); }
    }
    if let Some(f) = v.get("fold") {
        let lore = f["lore"].as_array().cloned().unwrap_or_default();
        return St::Fold(lore.iter().map(|l| {
            let d = &l["desc"];
            (u(&l["pos"]), (u(&d[0]["pos"]), u(&d[0]["len"])), (u(&d[1]["pos"]), u(&d[1]["len"])))
        }).collect());
    }
    if let Some(a) = v.get("ap") { return St::Ap(a["gens"].as_array().map(|g| g.iter().map(u).collect()).unwrap_or_default()); }
    if let Some(c) = v.get("canon") {
        if let Some(s) = c.get("sent_by") { return St::CanonSent(s.as_str().unwrap_or("").into()); }
        if let Some(e) = c.get("executed") { return St::Canon(e.as_str().unwrap_or("").into()); }
    }
    St::Unknown(v.to_string())
}

pub fn facts(bytes: &[u8]) -> Option<Facts> {
    let j = data_json(bytes);
    if j.is_null() || j.get("panic_while_printing_decoded_data").is_some() { return None; }
    let trace = j["data"]["trace"].as_array()?.iter().map(parse_state).collect();
    let lcid = u(&j["data"]["lcid"]);
    Some(Facts { json: j, trace, lcid })
}

impl Facts {
    pub fn store(&self, name: &str) -> &Value { &self.json["data"]["cid_info"][name] }
    /// (peer, service, function, lens) of a tetraplet cid
    pub fn tetraplet(&self, cid: &str) -> Option<(String, String, String, String)> {
        let t = self.store("tetraplet_store").get(cid)?;
        Some((t["peer_pk"].as_str()?.into(), t["service_id"].as_str()?.into(), t["function_name"].as_str()?.into(), t["lens"].as_str().unwrap_or("").into()))
    }
    /// service result aggregate: (value json text, argument hash, tetraplet)
    pub fn service_result(&self, cid: &str) -> Option<(String, String, (String, String, String, String))> {
        let a = self.store("service_result_store").get(cid)?;
        let value = self.store("value_store").get(a["value_cid"].as_str()?)?;
        let value_text = match value { Value::String(s) => s.clone(), v => v.to_string() };
        Some((value_text, a["argument_hash"].as_str()?.into(), self.tetraplet(a["tetraplet_cid"].as_str()?)?))
    }
    /// multiset of result content ids: ("call", cid) for executed scalar/stream/failed calls, ("unused", cid), ("canon", cid)
    pub fn result_cids(&self) -> BTreeMap<(String, String), usize> {
        let mut m = BTreeMap::new();
        for s in &self.trace {
            let k = match s {
                St::Scalar(c) | St::Stream(c, _) => ("call".to_string(), c.clone()),
                St::Failed(c) => ("failed".to_string(), c.clone()),
                St::Unused(c) => ("unused".to_string(), c.clone()),
                St::Canon(c) => ("canon".to_string(), c.clone()),
                _ => continue,
            };
            *m.entry(k).or_insert(0) += 1;
        }
        m
    }
}

pub fn multiset_le(a: &BTreeMap<(String, String), usize>, b: &BTreeMap<(String, String), usize>) -> Option<(String, String)> {
    for (k, n) in a { if b.get(k).cloned().unwrap_or(0) < *n { return Some(k.clone()); } }
    None
}

// ------------------------------------------------------------------------------------------------
// C10: structural well-formedness (DESIGN.md Appendix A)

/// Reads `t[from..to)` as a forest; returns Err(reason) when sizes do not tile.
fn read_forest(t: &[St], from: usize, to: usize, depth: usize) -> Result<(), String> {
    if depth > 4000 { return Err("nesting too deep".into()); }
    let mut p = from;
    while p < to {
        match &t[p] {
            St::Par(l, r) => {
                let (l, r) = (*l as usize, *r as usize);
                let end = p + 1 + l + r;
                if end > to { return Err(format!("par at {p} with sizes ({l},{r}) exceeds its parent's range ending at {to}")); }
                read_forest(t, p + 1, p + 1 + l, depth + 1).map_err(|e| format!("in left part of par at {p}: {e}"))?;
                read_forest(t, p + 1 + l, end, depth + 1).map_err(|e| format!("in right part of par at {p}: {e}"))?;
                p = end;
            }
            St::Fold(lore) => {
                let total: usize = lore.iter().map(|(_, b, a)| (b.1 + a.1) as usize).sum();
                let end = p + 1 + total;
                if end > to { return Err(format!("fold at {p} covering {total} states exceeds its parent's range ending at {to}")); }
                check_fold(t, p, lore, depth)?;
                p = end;
            }
            _ => p += 1,
        }
    }
    if p != to { return Err(format!("entries end at {p}, expected {to}")); }
    Ok(())
}

fn check_fold(t: &[St], f: usize, lore: &[(u64, (u64, u64), (u64, u64))], depth: usize) -> Result<(), String> {
    // the 2n ranges must tile [f+1, f+1+total) without gap or overlap
    let mut ranges: Vec<(usize, usize)> = vec![];
    for (vp, b, a) in lore {
        ranges.push((b.0 as usize, b.1 as usize));
        ranges.push((a.0 as usize, a.1 as usize));
        let vp = *vp as usize;
        if vp >= t.len() { return Err(format!("fold at {f}: value position {vp} is outside the trace")); }
        match &t[vp] {
            St::Ap(_) | St::Stream(..) => {}
            other => return Err(format!("fold at {f}: value position {vp} points at {other:?}, not a stream value entry")),
        }
        if vp >= b.0 as usize { return Err(format!("fold at {f}: value position {vp} is not before its iteration starting at {}", b.0)); }
    }
    let mut sorted = ranges.clone();
    sorted.sort();
    let mut cursor = f + 1;
    for (begin, len) in sorted.iter().filter(|(_, l)| *l > 0) {
        if *begin != cursor { return Err(format!("fold at {f}: iteration ranges leave a gap or overlap at {cursor} (next range starts at {begin})")); }
        cursor += len;
    }
    // empty ranges must lie inside [f+1, end]
    let end = cursor;
    for (begin, len) in &ranges { if *len == 0 && (*begin < f + 1 || *begin > end) { return Err(format!("fold at {f}: empty range positioned at {begin} outside [{},{}]", f + 1, end)); } }
    // frames: group lore entries into batches B1..Bk Ak..A1; read every frame as a forest with inner frames as units
    // a frame of iteration i is B_i ++ frame_{i+1} ++ A_i; we verify nesting by reading B_i ++ (skip inner) ++ A_i
    let n = lore.len();
    let mut i = 0;
    while i < n {
        // find the batch: consecutive entries with begin B_{j+1} = end B_j
        let mut k = i;
        while k + 1 < n && lore[k + 1].1 .0 == lore[k].1 .0 + lore[k].1 .1 && lore[k + 1].2 .0 + lore[k + 1].2 .1 == lore[k].2 .0 { k += 1; }
        // innermost frame k: B_k ++ A_k contiguous
        for j in (i..=k).rev() {
            let (b, a) = (lore[j].1, lore[j].2);
            let (bb, bl, ab, al) = (b.0 as usize, b.1 as usize, a.0 as usize, a.1 as usize);
            // the frame is [bb, ab+al); inner frame (if any) is [bb+bl, ab)
            let inner = if j < k { Some((bb + bl, ab)) } else { None };
            read_frame(t, bb, ab + al, inner, depth + 1).map_err(|e| format!("fold at {f}, iteration {j}: {e}"))?;
        }
        i = k + 1;
    }
    Ok(())
}

/// read [from,to) as a forest where `skip` is an opaque unit
fn read_frame(t: &[St], from: usize, to: usize, skip: Option<(usize, usize)>, depth: usize) -> Result<(), String> {
    if depth > 4000 { return Err("nesting too deep".into()); }
    let mut p = from;
    while p < to {
        if let Some((s, e)) = skip { if p == s && e > s { p = e; continue; } }
        match &t[p] {
            St::Par(l, r) => {
                let (l, r) = (*l as usize, *r as usize);
                let end = p + 1 + l + r;
                if end > to { return Err(format!("par at {p} with sizes ({l},{r}) exceeds the range ending at {to}")); }
                read_frame(t, p + 1, p + 1 + l, skip, depth + 1)?;
                read_frame(t, p + 1 + l, end, skip, depth + 1)?;
                p = end;
            }
            St::Fold(lore) => {
                let total: usize = lore.iter().map(|(_, b, a)| (b.1 + a.1) as usize).sum();
                if p + 1 + total > to { return Err(format!("fold at {p} exceeds the range ending at {to}")); }
                p += 1 + total;
            }
            _ => p += 1,
        }
        if let Some((s, e)) = skip { if p > s && p < e { return Err(format!("an entry straddles the inner iteration [{s},{e})")); } }
    }
    if p != to { return Err(format!("entries end at {p}, expected {to}")); }
    Ok(())
}

pub fn wf_trace(t: &[St]) -> Result<(), String> {
    for (i, s) in t.iter().enumerate() {
        match s {
            St::Ap(g) => {
                if g.len() != 1 { return Err(format!("ap at {i} has {} generations", g.len())); }
                if g[0] == GENERATION_STUB { return Err(format!("ap at {i} carries the placeholder generation")); }
            }
            St::Stream(_, g) if *g == GENERATION_STUB => return Err(format!("stream value at {i} carries the placeholder generation")),
            St::Unknown(x) => return Err(format!("unknown state at {i}: {x}")),
            _ => {}
        }
    }
    read_forest(t, 0, t.len(), 0)
}
