//! Views of interpreter data used by the direct oracles (independent of the Lean model):
//! decoded trace states, content ids, the structural well-formedness checker of DESIGN.md Appendix A.
use crate::host::*;
use serde_json::Value;
use std::collections::BTreeMap;

pub const GENERATION_STUB: u64 = 0xCAFEBABE;

#[derive(Clone, Debug, PartialEq)]
pub enum St {
    Par(u64, u64),
    /// sender peer, optional call id
    Sent(String, Option<u64>),
    Scalar(String),
    Stream(String, u64),
    Unused(String),
    Failed(String),
    Fold(Vec<(u64, (u64, u64), (u64, u64))>),
    Ap(Vec<u64>),
    CanonSent(String),
    Canon(String),
    Unknown(String),
}

pub struct Facts { pub json: Value, pub trace: Vec<St>, pub lcid: u64 }

fn u(v: &Value) -> u64 { v.as_u64().unwrap_or(u64::MAX) }

pub fn parse_state(v: &Value) -> St {
    if let Some(p) = v.get("par") { return St::Par(u(&p[0]), u(&p[1])); }
    if let Some(c) = v.get("call") {
        if let Some(s) = c.get("sent_by") {
            if let Some(p) = s.get("PeerId") { return St::Sent(p.as_str().unwrap_or("").into(), None); }
            if let Some(p) = s.get("PeerIdWithCallId") { return St::Sent(p["peer_id"].as_str().unwrap_or("").into(), Some(u(&p["call_id"]))); }
        }
        if let Some(e) = c.get("executed") {
            if let Some(x) = e.get("scalar") { return St::Scalar(x.as_str().unwrap_or("").into()); }
            if let Some(x) = e.get("stream") { return St::Stream(x["cid"].as_str().unwrap_or("").into(), u(&x["generation"])); }
            if let Some(x) = e.get("unused") { return St::Unused(x.as_str().unwrap_or("").into()); }
        }
        if let Some(f) = c.get("failed") { return St::Failed(f.as_str().unwrap_or("").into()); }
    }
    if let Some(f) = v.get("fold") {
        let lore = f["lore"].as_array().cloned().unwrap_or_default();
        return St::Fold(lore.iter().map(|l| {
            let d = &l["desc"];
            (u(&l["pos"]), (u(&d[0]["pos"]), u(&d[0]["len"])), (u(&d[1]["pos"]), u(&d[1]["len"])))
        }).collect());
    }
    if let Some(a) = v.get("ap") { return St::Ap(a["gens"].as_array().map(|g| g.iter().map(u).collect()).unwrap_or_default()); }
    if let Some(c) = v.get("canon") {
        if let Some(s) = c.get("sent_by") { return St::CanonSent(s.as_str().unwrap_or("").into()); }
        if let Some(e) = c.get("executed") { return St::Canon(e.as_str().unwrap_or("").into()); }
    }
    St::Unknown(v.to_string())
}

pub fn facts(bytes: &[u8]) -> Option<Facts> {
    let j = data_json(bytes);
    if j.is_null() || j.get("panic_while_printing_decoded_data").is_some() { return None; }
    let trace = j["data"]["trace"].as_array()?.iter().map(parse_state).collect();
    let lcid = u(&j["data"]["lcid"]);
    Some(Facts { json: j, trace, lcid })
}

impl Facts {
    pub fn store(&self, name: &str) -> &Value { &self.json["data"]["cid_info"][name] }
    /// (peer, service, function, lens) of a tetraplet cid
    pub fn tetraplet(&self, cid: &str) -> Option<(String, String, String, String)> {
        let t = self.store("tetraplet_store").get(cid)?;
        Some((t["peer_pk"].as_str()?.into(), t["service_id"].as_str()?.into(), t["function_name"].as_str()?.into(), t["lens"].as_str().unwrap_or("").into()))
    }
    /// service result aggregate: (value json text, argument hash, tetraplet)
    pub fn service_result(&self, cid: &str) -> Option<(String, String, (String, String, String, String))> {
        let a = self.store("service_result_store").get(cid)?;
        let value = self.store("value_store").get(a["value_cid"].as_str()?)?;
        let value_text = match value { Value::String(s) => s.clone(), v => v.to_string() };
        Some((value_text, a["argument_hash"].as_str()?.into(), self.tetraplet(a["tetraplet_cid"].as_str()?)?))
    }
    /// multiset of result content ids: ("call", cid) for executed scalar/stream/failed calls, ("unused", cid), ("canon", cid)
    pub fn result_cids(&self) -> BTreeMap<(String, String), usize> {
        let mut m = BTreeMap::new();
        for s in &self.trace {
            let k = match s {
                St::Scalar(c) | St::Stream(c, _) => ("call".to_string(), c.clone()),
                St::Failed(c) => ("failed".to_string(), c.clone()),
                St::Unused(c) => ("unused".to_string(), c.clone()),
                St::Canon(c) => ("canon".to_string(), c.clone()),
                _ => continue,
            };
            *m.entry(k).or_insert(0) += 1;
        }
        m
    }
}

pub fn multiset_le(a: &BTreeMap<(String, String), usize>, b: &BTreeMap<(String, String), usize>) -> Option<(String, String)> {
    for (k, n) in a { if b.get(k).cloned().unwrap_or(0) < *n { return Some(k.clone()); } }
    None
}

// ------------------------------------------------------------------------------------------------
// C10: structural well-formedness (DESIGN.md Appendix A) — the checker lives in `wf.rs`, a transcription of
// `lean/Aqua/Trace/WF.lean` (the earlier checker here did not look into nested folds, accepted swapped lore
// entries and did not group batches by generation)

pub fn wf_trace(t: &[St]) -> Result<(), String> { crate::wf::wf_trace(t) }
