//! Running the real interpreter in-process: peers, keys, run parameters, decoding of outcomes.
use air_interpreter_data::{InterpreterData, InterpreterDataEnvelope};
use air_interpreter_interface::{CallRequestParams, CallRequestsRepr, CallResults, CallResultsRepr, CallServiceResult, InterpreterOutcome, RunParameters};
use air_interpreter_sede::{FromSerialized, ToSerialized};
use air_interpreter_signatures::KeyPair;
use fluence_keypair::KeyFormat;
use serde_json::Value;
use std::collections::HashMap;

#[derive(Clone)]
pub struct Peer { pub name: String, pub kp: KeyPair, pub id: String }

impl Peer {
    pub fn new(name: &str) -> Peer {
        use sha2::{Digest, Sha256};
        let mut h = Sha256::new();
        h.update(b"aqua-verif-peer:");
        h.update(name.as_bytes());
        let secret: [u8; 32] = h.finalize().into();
        let kp = KeyPair::from_secret_key(secret.to_vec(), KeyFormat::Ed25519).expect("ed25519 key");
        let id = kp.public().to_peer_id().expect("peer id");
        Peer { name: name.to_string(), kp, id }
    }
}

#[derive(Clone, Copy, Debug)]
pub struct Limits { pub air: u64, pub particle: u64, pub call_result: u64, pub hard: bool }
impl Limits { pub fn unlimited() -> Limits { Limits { air: u64::MAX, particle: u64::MAX, call_result: u64::MAX, hard: false } } }

pub struct RunArgs<'a> {
    pub air: &'a str, pub prev: &'a [u8], pub cur: &'a [u8], pub init_peer_id: &'a str, pub peer: &'a Peer,
    pub particle_id: &'a str, pub timestamp: u64, pub ttl: u32, pub results: &'a CallResults, pub limits: Limits,
}

pub fn encode_results(results: &CallResults) -> Vec<u8> {
    let ser = CallResultsRepr.serialize(results).expect("call results serialize");
    ser.into()
}

pub fn run_raw(a: &RunArgs, raw_results: Vec<u8>) -> InterpreterOutcome {
    let params = RunParameters {
        init_peer_id: a.init_peer_id.to_string(), current_peer_id: a.peer.id.clone(), timestamp: a.timestamp, ttl: a.ttl,
        key_format: a.peer.kp.key_format().into(), secret_key_bytes: a.peer.kp.secret(), particle_id: a.particle_id.to_string(),
        air_size_limit: a.limits.air, particle_size_limit: a.limits.particle, call_result_size_limit: a.limits.call_result,
        hard_limit_enabled: a.limits.hard,
    };
    air::execute_air(a.air.to_string(), a.prev.to_vec(), a.cur.to_vec(), params, raw_results.into())
}

pub fn run(a: &RunArgs) -> InterpreterOutcome { run_raw(a, encode_results(a.results)) }

/// run under catch_unwind; Err(message) on panic
pub fn run_catch(a: &RunArgs) -> Result<InterpreterOutcome, String> {
    let raw = encode_results(a.results);
    std::panic::catch_unwind(std::panic::AssertUnwindSafe(|| run_raw(a, raw))).map_err(|e| {
        if let Some(s) = e.downcast_ref::<String>() { s.clone() } else if let Some(s) = e.downcast_ref::<&str>() { s.to_string() } else { "panic".into() }
    })
}

pub fn decode_requests(bytes: &[u8]) -> Option<HashMap<u32, CallRequestParams>> {
    CallRequestsRepr.deserialize(bytes).ok()
}

pub fn decode_data(bytes: &[u8]) -> Option<(air_interpreter_data::Versions, InterpreterData)> {
    if bytes.is_empty() { return None; }
    let env = InterpreterDataEnvelope::try_from_slice(bytes).ok()?;
    let data = InterpreterData::try_from_slice(&env.inner_data).ok()?;
    Some((env.versions, data))
}

pub fn data_json(bytes: &[u8]) -> Value {
    // serialising decoded data can panic when rkyv validation let a non-UTF-8 string through
    match std::panic::catch_unwind(|| data_json_inner(bytes)) {
        Ok(v) => v,
        Err(_) => serde_json::json!({"panic_while_printing_decoded_data": true}),
    }
}

fn data_json_inner(bytes: &[u8]) -> Value {
    match decode_data(bytes) {
        Some((v, d)) => serde_json::json!({"versions": {"data": v.data_version.to_string(), "interpreter": v.interpreter_version.to_string()},
                                           "data": serde_json::to_value(&d).unwrap()}),
        None => Value::Null,
    }
}

pub fn ok_result(v: &Value) -> CallServiceResult { CallServiceResult::ok(v) }
pub fn outcome_brief(o: &InterpreterOutcome) -> Value {
    serde_json::json!({"ret_code": o.ret_code, "error_message": o.error_message, "data_len": o.data.len(), "next_peer_pks": o.next_peer_pks,
        "flags": [o.air_size_limit_exceeded, o.particle_size_limit_exceeded, o.call_result_size_limit_exceeded]})
}

/// canonical form of a data blob: decoded and re-printed with sorted maps (byte order of the internal
/// hash maps is not part of any property); undecodable blobs are compared as bytes
pub fn canon_data(bytes: &[u8]) -> String {
    match decode_data(bytes) {
        Some(_) => serde_json::to_string(&data_json(bytes)).unwrap(),
        None => format!("raw:{}", crate::util::hex(bytes)),
    }
}
pub fn same_data(a: &[u8], b: &[u8]) -> bool { a == b || canon_data(a) == canon_data(b) }
