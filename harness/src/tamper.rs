//! Structure-aware tampering with honest interpreter data (re-encoded with the real codecs), used by the
//! fault streams of C01, C02, C14: the trace is edited while stores and signatures stay consistent.
use crate::util::Rng;
use air_interpreter_data::{ExecutedState, InterpreterData, InterpreterDataEnvelope, ParResult, CallResult, Sender};
use std::rc::Rc;

pub fn reencode(d: InterpreterData, version: semver::Version) -> Vec<u8> {
    InterpreterDataEnvelope::from_execution_result(d.trace, d.cid_info, d.signatures, d.last_call_request_id, version).serialize().unwrap_or_default()
}

/// trace-level edits that keep every CID and signature valid (signatures cover result CIDs only)
pub fn tamper_structure(bytes: &[u8], rng: &mut Rng) -> Option<(Vec<u8>, String)> {
    let (versions, mut d) = crate::host::decode_data(bytes)?;
    let mut states: Vec<ExecutedState> = d.trace.iter().cloned().collect();
    if states.is_empty() { return None; }
    let i = rng.below(states.len());
    let what;
    match rng.below(6) {
        0 => { // par sizes
            let pars: Vec<usize> = states.iter().enumerate().filter(|(_, s)| matches!(s, ExecutedState::Par(_))).map(|(i, _)| i).collect();
            if pars.is_empty() { return None; }
            let j = pars[rng.below(pars.len())];
            if let ExecutedState::Par(p) = &states[j] {
                let (l, r) = (p.left_size, p.right_size);
                let (nl, nr) = match rng.below(4) { 0 => (l + 1, r), 1 => (l, r + 1), 2 => (l.saturating_sub(1), r + 1), _ => (l + 7, r + 7) };
                states[j] = ExecutedState::Par(ParResult::new(nl, nr));
                what = format!("par sizes at {j}: ({l},{r}) -> ({nl},{nr})");
            } else { return None; }
        }
        1 => { states.remove(i); what = format!("dropped state {i}"); }
        2 => { let j = rng.below(states.len()); states.swap(i, j); what = format!("swapped states {i} and {j}"); }
        3 => { let s = states[i].clone(); states.insert(i, s); what = format!("duplicated state {i}"); }
        4 => { states[i] = ExecutedState::Call(CallResult::RequestSentBy(Sender::PeerId(Rc::new("12D3KooWUnknownPeer".to_string())))); what = format!("state {i} replaced by a sent-by entry"); }
        _ => { states[i] = ExecutedState::par(1, 1); what = format!("state {i} replaced by par(1,1)"); }
    }
    d.trace = states.into();
    Some((reencode(d, versions.interpreter_version), what))
}
