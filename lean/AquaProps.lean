import AquaProps.C22
