import Lean.Data.Json
import Aqua
import AquaDrv.Basic
import AquaDrv.TraceOps
import AquaDrv.AstJson
import AquaDrv.ExecOp
import AquaDrv.MiscOps
import AquaDrv.C26Ops
import AquaDrv.C24Ops
import AquaDrv.C25Ops
import AquaDrv.C23Ops
import AquaDrv.C18Ops
import AquaDrv.C16Ops
import AquaDrv.C01Ops
import AquaDrv.C10Ops
import AquaDrv.C28Ops
import AquaDrv.C14Ops
import AquaDrv.C27Ops
/-! Line-protocol driver of the model: one JSON request per line on stdin, one JSON answer per line. -/
open Lean Aqua

namespace Drv

def dispatch (j : Json) : Json :=
  match getStr j "op" with
  | "staged_run" => opStagedRun j
  | "semver" => opSemver j
  | "parse_data" => opParseData j
  | "trace_ops" => opTraceOps j
  | "exec" => opExec j
  | "sig_merge" => opSigMerge j
  | "json_float_queries" => opJsonFloatQueries j
  | "json_parse" => opJsonParse j
  | "lens" => C24.opLens j
  | "cid" => opCid j
  | "cid_verify" => opCidVerify j
  | "c23_parse" => C23.opParse j
  | "c23_validate" => C23.opValidate j
  | "c23_char_class" => C23.opCharClass j
  | "c18_exec" => opC18Exec j
  | "ref" => opRef j
  | "wf" => opWf j
  | "beautify" => opBeautify j
  | "verify_data" => opVerifyData j
  | "salted_data" => opSaltedData j
  | "c27" => opC27 j
  | "c01_exec" => opC01Exec j
  | "ping" => Json.mkObj [("pong", true)]
  | op => Json.mkObj [("error", s!"unknown op {op}")]


end Drv


partial def loop (h : IO.FS.Stream) (out : IO.FS.Stream) : IO Unit := do
  let line ← h.getLine
  if line.isEmpty then return ()
  let resp := match Json.parse line with
    | .error e => Json.mkObj [("protocol_error", Json.str e)]
    | .ok j => Drv.dispatch j
  out.putStrLn resp.compress
  out.flush
  loop h out

def main : IO Unit := do loop (← IO.getStdin) (← IO.getStdout)
