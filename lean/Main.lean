import Lean.Data.Json
import Aqua
open Lean

partial def loop (h : IO.FS.Stream) (out : IO.FS.Stream) : IO Unit := do
  let line ← h.getLine
  if line.isEmpty then return ()
  let resp := match Json.parse line with
    | .error e => Json.mkObj [("protocol_error", Json.str e)]
    | .ok j => Json.mkObj [("echo", j)]
  out.putStrLn resp.compress
  out.flush
  loop h out

def main : IO Unit := do loop (← IO.getStdin) (← IO.getStdout)
