import Aqua.Json.Value
/-!
# JSON text → `JVal`: model of `serde_json::from_str::<JValue>` (C26)

`air_interpreter_value::JValue` implements `Deserialize` with a visitor copied from `serde_json::Value`
(`crates/air-lib/interpreter-value/src/value/de.rs`); every place of the interpreter that reads JSON
text (`serde_json::from_str(&service_result.result)`, `RawValue::get_value`) runs
`serde_json::Deserializer<StrRead>` (serde_json 1.0.108, features `std`, `raw_value` only — no
`arbitrary_precision`, no `float_roundtrip`, no `preserve_order`, no `unbounded_depth`) against that
visitor.  This file follows that deserializer function by function (`de.rs`, `read.rs`), keeping the
names:

* `parse_whitespace`, `parse_ident`, `parse_integer`, `parse_number`, `parse_long_integer`,
  `parse_decimal`, `parse_decimal_overflow`, `parse_exponent`, `parse_exponent_overflow`,
* `SliceRead::parse_str_bytes` + `parse_escape` + `decode_hex_escape` (surrogate pairs; lone surrogates
  rejected because `validate = true` for `parse_str`),
* `deserialize_any` with `check_recursion!` (`remaining_depth` starts at 128), `SeqAccess::next_element_seed`,
  `MapAccess::next_key_seed`/`next_value_seed`, `end_seq`, `end_map`, `Deserializer::end`,
* the visitor: `visit_u64`/`visit_i64` ↦ `num`, `visit_f64` ↦ `float`, `visit_seq`, `visit_map`
  (`BTreeMap::insert` in text order: later duplicate keys win).

The text is a `List Char` (the Rust code works on the UTF-8 bytes of a `&str`; every byte it inspects
is ASCII and multi-byte sequences are copied verbatim, so the two views coincide).

**Floats.**  `f64` arithmetic is not modelled.  The lexer computes exactly what serde_json computes
before it touches floating point — the sign, the `u64` significand and the (saturated `i32`) decimal
exponent — and hands them to a parameter `fo : FloatOracle` standing for
`f64_from_parts(positive, significand, exponent)` followed by printing (`ryu`): `none` = the
`NumberOutOfRange` error, `some r` = the text serde_json prints for the resulting `f64`.  The harness
implements the oracle with serde_json itself (see `harness/src/props/c26.rs`).

Rejections are explicit (`Except PErr`); `PErr.fuel` is the totalisation artefact and is never
returned for the fuel `parseWith` supplies (theorem `C26_model_never_out_of_fuel`; the correspondence
also treats a `fuel` answer as a disagreement).
-/
namespace Aqua.Json

/-- `f64_from_parts positive significand exponent`, printed; `none` = `NumberOutOfRange` -/
abbrev FloatOracle := Bool → Nat → Int → Option String

inductive PErr where
  | syntax            -- any `ErrorCode` of category Syntax/Eof other than the two below
  | recursionLimit    -- `RecursionLimitExceeded`
  | numberOutOfRange  -- `NumberOutOfRange`
  | fuel              -- model artefact: out of fuel (unreachable from `parseWith`)
deriving DecidableEq, Repr, Inhabited

abbrev PRes (α : Type) := Except PErr (α × List Char)

def u64Max : Nat := 18446744073709551615
def i64MinAbs : Nat := 9223372036854775808
def i32Max : Nat := 2147483647

/-- `b' ' | b'\n' | b'\t' | b'\r'` -/
def isWs (c : Char) : Bool := c = ' ' || c = '\n' || c = '\t' || c = '\r'

/-- `parse_whitespace`: the input from the first non-whitespace character on -/
def skipWs : List Char → List Char
  | [] => []
  | c :: cs => if isWs c then skipWs cs else c :: cs

/-- `b'0'..=b'9'` -/
def isDigit (c : Char) : Bool := 48 ≤ c.toNat && c.toNat ≤ 57
def digitVal (c : Char) : Nat := c.toNat - 48

/-- `overflow!(a * 10 + b, c)` -/
def overflowMul (a b c : Nat) : Bool := a ≥ c / 10 && (a > c / 10 || b > c % 10)

/-- `while let b'0'..=b'9' = peek { eat_char }` -/
def dropDigits : List Char → List Char
  | [] => []
  | c :: cs => if isDigit c then dropDigits cs else c :: cs

/-- `parse_ident`: the remaining letters of `null`/`true`/`false` -/
def parseIdent : List Char → List Char → Option (List Char)
  | [], cs => some cs
  | _ :: _, [] => none
  | e :: es, c :: cs => if c = e then parseIdent es cs else none

/-! ## Numbers -/

/-- `f64_from_parts` + `visit_f64` (`Number::from_f64` of a finite value) -/
def f64FromParts (fo : FloatOracle) (positive : Bool) (significand : Nat) (exponent : Int) (rest : List Char) : PRes JVal :=
  match fo positive significand exponent with
  | some r => .ok (.float r, rest)
  | none => .error .numberOutOfRange

/-- saturating `i32` -/
def satI32 (x : Int) : Int := if x > 2147483647 then 2147483647 else if x < -2147483648 then -2147483648 else x

/-- `parse_exponent_overflow`: `±0.0` unless a non-zero significand has a huge positive exponent -/
def parseExponentOverflow (fo : FloatOracle) (positive zeroSignificand positiveExp : Bool) (cs : List Char) : PRes JVal :=
  if !zeroSignificand && positiveExp then .error .numberOutOfRange
  else f64FromParts fo positive 0 0 (dropDigits cs)     -- `Ok(if positive { 0.0 } else { -0.0 })`

/-- the exponent digit loop of `parse_exponent`; `none` = `overflow!(exp * 10 + digit, i32::MAX)` hit
(the offending digit is already eaten) -/
def expLoop (exp : Nat) : List Char → Option Nat × List Char
  | [] => (some exp, [])
  | c :: cs =>
    if isDigit c then
      if overflowMul exp (digitVal c) i32Max then (none, cs) else expLoop (exp * 10 + digitVal c) cs
    else (some exp, c :: cs)

/-- the optional sign of the exponent: `(positive_exp, input after the sign)` -/
def expSign : List Char → Bool × List Char
  | [] => (true, [])
  | c :: r => if c = '+' then (true, r) else if c = '-' then (false, r) else (true, c :: r)

/-- `parse_exponent` (input: after the `e`/`E`) -/
def parseExponent (fo : FloatOracle) (positive : Bool) (significand : Nat) (startingExp : Int) (cs : List Char) : PRes JVal :=
  match (expSign cs).2 with
  | [] => .error .syntax                                 -- EofWhileParsingValue
  | c :: cs2 =>
    if isDigit c then
      match expLoop (digitVal c) cs2 with
      | (none, rest) => parseExponentOverflow fo positive (significand == 0) (expSign cs).1 rest
      | (some exp, rest) =>
        let finalExp := if (expSign cs).1 then satI32 (startingExp + exp) else satI32 (startingExp - exp)
        f64FromParts fo positive significand finalExp rest
    else .error .syntax                                  -- InvalidNumber

/-- what follows the digits of a float: an exponent or nothing -/
def numberTail (fo : FloatOracle) (positive : Bool) (significand : Nat) (exponent : Int) (cs : List Char) : PRes JVal :=
  match cs with
  | [] => f64FromParts fo positive significand exponent []
  | c :: r => if c = 'e' || c = 'E' then parseExponent fo positive significand exponent r
              else f64FromParts fo positive significand exponent (c :: r)

/-- the fraction digit loop of `parse_decimal`: `(significand, digits eaten, overflow?, rest)` -/
def decLoop (significand n : Nat) : List Char → Nat × Nat × Bool × List Char
  | [] => (significand, n, false, [])
  | c :: cs =>
    if isDigit c then
      if overflowMul significand (digitVal c) u64Max then (significand, n, true, c :: cs)
      else decLoop (significand * 10 + digitVal c) (n + 1) cs
    else (significand, n, false, c :: cs)

/-- `parse_decimal` (input: after the `.`) with `parse_decimal_overflow` -/
def parseDecimal (fo : FloatOracle) (positive : Bool) (significand : Nat) (exponentBefore : Int) (cs : List Char) : PRes JVal :=
  match decLoop significand 0 cs with
  | (sig, n, true, rest) => numberTail fo positive sig (exponentBefore - n) (dropDigits rest)
  | (sig, n, false, rest) =>
    if n = 0 then .error .syntax                         -- no digit after the decimal point
    else numberTail fo positive sig (exponentBefore - n) rest

/-- `(significand as i64).wrapping_neg()` -/
def wrappingNegAsI64 (significand : Nat) : Int :=
  let asI64 : Int := if significand < i64MinAbs then significand else (significand : Int) - 18446744073709551616
  if asI64 = -9223372036854775808 then asI64 else -asI64

/-- `parse_number` -/
def parseNumber (fo : FloatOracle) (positive : Bool) (significand : Nat) (cs : List Char) : PRes JVal :=
  let int : PRes JVal :=
    if positive then .ok (.num significand, cs)                     -- `ParserNumber::U64`
    else
      let neg := wrappingNegAsI64 significand
      if neg ≥ 0 then f64FromParts fo false significand 0 cs        -- `-0` and underflow: `-(significand as f64)`
      else .ok (.num neg, cs)                                       -- `ParserNumber::I64`
  match cs with
  | [] => int
  | c :: r =>
    if c = '.' then parseDecimal fo positive significand 0 r
    else if c = 'e' || c = 'E' then parseExponent fo positive significand 0 r
    else int

/-- `parse_long_integer` (no `float_roundtrip`): further integer digits only move the exponent -/
def parseLongInteger (fo : FloatOracle) (positive : Bool) (significand : Nat) (exponent : Nat) : List Char → PRes JVal
  | [] => f64FromParts fo positive significand exponent []
  | c :: cs =>
    if isDigit c then parseLongInteger fo positive significand (exponent + 1) cs
    else if c = '.' then parseDecimal fo positive significand exponent cs
    else if c = 'e' || c = 'E' then parseExponent fo positive significand exponent cs
    else f64FromParts fo positive significand exponent (c :: cs)

/-- the digit loop of `parse_integer` -/
def intLoop (fo : FloatOracle) (positive : Bool) (significand : Nat) : List Char → PRes JVal
  | [] => parseNumber fo positive significand []
  | c :: cs =>
    if isDigit c then
      if overflowMul significand (digitVal c) u64Max then parseLongInteger fo positive significand 0 (c :: cs)
      else intLoop fo positive (significand * 10 + digitVal c) cs
    else parseNumber fo positive significand (c :: cs)

/-- `parse_integer` (= `parse_any_number` without `arbitrary_precision`) -/
def parseInteger (fo : FloatOracle) (positive : Bool) : List Char → PRes JVal
  | [] => .error .syntax                                 -- EofWhileParsingValue
  | c :: cs =>
    if c = '0' then
      match cs with
      | [] => parseNumber fo positive 0 []
      | d :: _ => if isDigit d then .error .syntax       -- leading zero
                  else parseNumber fo positive 0 cs
    else if isDigit c then intLoop fo positive (digitVal c) cs
    else .error .syntax                                  -- InvalidNumber

/-- the two number arms of `deserialize_any`: `b'-'` and `b'0'..=b'9'` -/
def parseNumTok (fo : FloatOracle) : List Char → PRes JVal
  | [] => .error .syntax
  | c :: cs => if c = '-' then parseInteger fo false cs
               else if isDigit c then parseInteger fo true (c :: cs)
               else .error .syntax

/-! ## Strings -/

/-- `decode_hex_val` (the `HEX` table) -/
def hexVal (c : Char) : Option Nat :=
  let n := c.toNat
  if 48 ≤ n ∧ n ≤ 57 then some (n - 48)
  else if 65 ≤ n ∧ n ≤ 70 then some (n - 55)
  else if 97 ≤ n ∧ n ≤ 102 then some (n - 87)
  else none

/-- `decode_hex_escape` on four characters -/
def hex4 (a b c d : Char) : Option Nat :=
  match hexVal a, hexVal b, hexVal c, hexVal d with
  | some x, some y, some z, some w => some (((x * 16 + y) * 16 + z) * 16 + w)
  | _, _, _, _ => none

/-- the one-letter escapes of `parse_escape` -/
def simpleEscape (c : Char) : Option Char :=
  if c = '"' then some '"'
  else if c = '\\' then some '\\'
  else if c = '/' then some '/'
  else if c = 'b' then some (Char.ofNat 8)
  else if c = 'f' then some (Char.ofNat 12)
  else if c = 'n' then some '\n'
  else if c = 'r' then some '\r'
  else if c = 't' then some '\t'
  else none

/-- `char::from_u32` -/
def charFromU32 (n : Nat) : Option Char := if n < 0xD800 ∨ (0xDFFF < n ∧ n < 0x110000) then some (Char.ofNat n) else none

def consChar (c : Char) (r : PRes (List Char)) : PRes (List Char) :=
  match r with
  | .ok (s, rest) => .ok (c :: s, rest)
  | .error e => .error e

/-- `parse_escape(validate = true)` (input: after the backslash): the decoded character and the input
after the escape sequence -/
def parseEscape : List Char → Option (Char × List Char)
  | [] => none                                           -- EofWhileParsingString
  | e :: cs1 =>
    if e = 'u' then
      match cs1 with
      | h1 :: h2 :: h3 :: h4 :: cs2 =>
        match hex4 h1 h2 h3 h4 with
        | none => none                                   -- InvalidEscape
        | some n1 =>
          if 0xDC00 ≤ n1 ∧ n1 ≤ 0xDFFF then none         -- LoneLeadingSurrogateInHexEscape
          else if 0xD800 ≤ n1 ∧ n1 ≤ 0xDBFF then
            match cs2 with
            | b :: u :: l1 :: l2 :: l3 :: l4 :: cs3 =>
              if b = '\\' ∧ u = 'u' then
                match hex4 l1 l2 l3 l4 with
                | none => none
                | some n2 =>
                  if n2 < 0xDC00 ∨ n2 > 0xDFFF then none
                  else
                    match charFromU32 (((n1 - 0xD800) * 1024 + (n2 - 0xDC00)) + 0x10000) with
                    | some ch => some (ch, cs3)
                    | none => none
              else none                                  -- UnexpectedEndOfHexEscape
            | _ => none
          else
            match charFromU32 n1 with
            | some ch => some (ch, cs2)
            | none => none
      | _ => none                                        -- EofWhileParsingString
    else
      match simpleEscape e with
      | some ch => some (ch, cs1)
      | none => none                                     -- InvalidEscape

theorem parseEscape_length {cs : List Char} {ch : Char} {rest : List Char}
    (h : parseEscape cs = some (ch, rest)) : rest.length < cs.length := by
  unfold parseEscape at h
  split at h
  · exact absurd h (by simp)
  · split at h
    · split at h
      · split at h
        · exact absurd h (by simp)
        · split at h
          · exact absurd h (by simp)
          · split at h
            · split at h
              · split at h
                · split at h
                  · exact absurd h (by simp)
                  · split at h
                    · exact absurd h (by simp)
                    · split at h
                      · simp only [Option.some.injEq, Prod.mk.injEq] at h; obtain ⟨_, rfl⟩ := h; simp only [List.length_cons]; omega
                      · exact absurd h (by simp)
                · exact absurd h (by simp)
              · exact absurd h (by simp)
            · split at h
              · simp only [Option.some.injEq, Prod.mk.injEq] at h; obtain ⟨_, rfl⟩ := h; simp only [List.length_cons]; omega
              · exact absurd h (by simp)
      · exact absurd h (by simp)
    · split at h
      · simp only [Option.some.injEq, Prod.mk.injEq] at h; obtain ⟨_, rfl⟩ := h; simp only [List.length_cons]; omega
      · exact absurd h (by simp)

/-- `SliceRead::parse_str_bytes(validate = true)`; input: after the opening quote; result: the characters
of the string and the input after the closing quote -/
def parseStrChars : List Char → PRes (List Char)
  | [] => .error .syntax                                 -- EofWhileParsingString
  | c :: cs =>
    if c = '"' then .ok ([], cs)
    else if c = '\\' then
      match h : parseEscape cs with
      | none => .error .syntax
      | some (ch, rest) => consChar ch (parseStrChars rest)
    else if c.toNat < 32 then .error .syntax             -- ControlCharacterWhileParsingString
    else consChar c (parseStrChars cs)
termination_by cs => cs.length
decreasing_by
  · have := parseEscape_length h; simp only [List.length_cons]; omega
  · simp only [List.length_cons]; omega

/-- `parse_str` + `visit_str` -/
def parseStr (cs : List Char) : PRes String :=
  match parseStrChars cs with
  | .ok (s, rest) => .ok (String.ofList s, rest)
  | .error e => .error e

/-! ## Values -/

mutual
/-- `deserialize_any` with `JValue`'s `ValueVisitor`; `depth` = `remaining_depth` -/
def parseValue (fo : FloatOracle) : Nat → Nat → List Char → PRes JVal
  | 0, _, _ => .error .fuel
  | fuel + 1, depth, cs =>
    match skipWs cs with
    | [] => .error .syntax                               -- EofWhileParsingValue
    | c :: rest =>
      if c = 'n' then
        match parseIdent ['u', 'l', 'l'] rest with
        | some r => .ok (.null, r)
        | none => .error .syntax
      else if c = 't' then
        match parseIdent ['r', 'u', 'e'] rest with
        | some r => .ok (.bool true, r)
        | none => .error .syntax
      else if c = 'f' then
        match parseIdent ['a', 'l', 's', 'e'] rest with
        | some r => .ok (.bool false, r)
        | none => .error .syntax
      else if c = '-' || isDigit c then parseNumTok fo (c :: rest)
      else if c = '"' then
        match parseStr rest with
        | .ok (s, r) => .ok (.str s, r)
        | .error e => .error e
      else if c = '[' then
        if depth ≤ 1 then .error .recursionLimit         -- `remaining_depth -= 1; if remaining_depth == 0`
        else
          match parseElems fo fuel (depth - 1) true rest with
          | .error e => .error e
          | .ok (vs, r) =>
            -- `end_seq`
            match skipWs r with
            | [] => .error .syntax
            | c' :: r' => if c' = ']' then .ok (.arr vs, r') else .error .syntax
      else if c = '{' then
        if depth ≤ 1 then .error .recursionLimit
        else
          match parseMembers fo fuel (depth - 1) true rest with
          | .error e => .error e
          | .ok (kvs, r) =>
            -- `end_map`
            match skipWs r with
            | [] => .error .syntax
            | c' :: r' => if c' = '}' then .ok (JVal.mkObj kvs, r') else .error .syntax
      else .error .syntax                                -- ExpectedSomeValue
/-- `visit_seq`: `SeqAccess::next_element_seed` until it yields `None` (at `]`, not consumed) -/
def parseElems (fo : FloatOracle) : Nat → Nat → Bool → List Char → PRes (List JVal)
  | 0, _, _, _ => .error .fuel
  | fuel + 1, depth, first, cs =>
    match skipWs cs with
    | [] => .error .syntax                               -- EofWhileParsingList
    | c :: rest =>
      if c = ']' then .ok ([], c :: rest)
      else
        let start : Option (List Char) :=
          if c = ',' && !first then some (skipWs rest)
          else if first then some (c :: rest)
          else none                                      -- ExpectedListCommaOrEnd
        match start with
        | none => .error .syntax
        | some [] => .error .syntax                      -- EofWhileParsingValue
        | some (c' :: rest') =>
          if c' = ']' then .error .syntax                -- TrailingComma
          else
            match parseValue fo fuel depth (c' :: rest') with
            | .error e => .error e
            | .ok (v, r) =>
              match parseElems fo fuel depth false r with
              | .error e => .error e
              | .ok (vs, r') => .ok (v :: vs, r')
/-- `visit_map`: `next_key_seed` / `next_value_seed` until `None` (at `}`, not consumed); the pairs in
text order -/
def parseMembers (fo : FloatOracle) : Nat → Nat → Bool → List Char → PRes (List (String × JVal))
  | 0, _, _, _ => .error .fuel
  | fuel + 1, depth, first, cs =>
    match skipWs cs with
    | [] => .error .syntax                               -- EofWhileParsingObject
    | c :: rest =>
      if c = '}' then .ok ([], c :: rest)
      else
        let start : Option (List Char) :=
          if c = ',' && !first then some (skipWs rest)
          else if first then some (c :: rest)
          else none                                      -- ExpectedObjectCommaOrEnd
        match start with
        | none => .error .syntax
        | some [] => .error .syntax
        | some (c' :: rest') =>
          if c' = '"' then
            match parseStr rest' with
            | .error e => .error e
            | .ok (k, r) =>
              -- `parse_object_colon`
              match skipWs r with
              | [] => .error .syntax
              | c'' :: r' =>
                if c'' = ':' then
                  match parseValue fo fuel depth r' with
                  | .error e => .error e
                  | .ok (v, r'') =>
                    match parseMembers fo fuel depth false r'' with
                    | .error e => .error e
                    | .ok (kvs, r''') => .ok ((k, v) :: kvs, r''')
                else .error .syntax
          else .error .syntax                            -- KeyMustBeAString / TrailingComma
end

/-- `Deserializer::new` starts with `remaining_depth: 128` -/
def recursionLimit : Nat := 128

/-- `serde_json::from_str::<JValue>` (`from_trait`: one value, then `Deserializer::end`), with the
recursion limit as a parameter -/
def JVal.parseList (fo : FloatOracle) (limit : Nat) (cs : List Char) : Except PErr JVal :=
  match parseValue fo (2 * cs.length + 8) limit cs with
  | .error e => .error e
  | .ok (v, rest) =>
    match skipWs rest with
    | [] => .ok v
    | _ :: _ => .error .syntax                           -- TrailingCharacters

def JVal.parseWith (fo : FloatOracle) (s : String) : Except PErr JVal := JVal.parseList fo recursionLimit s.toList

/-- accept/reject view -/
def JVal.parse (fo : FloatOracle) (s : String) : Option JVal :=
  match JVal.parseWith fo s with
  | .ok v => some v
  | .error _ => none

end Aqua.Json
