import Aqua.Base.Basic
/-
Model of `air_interpreter_value::JValue` (= `serde_json::Value` with `Rc` sharing, objects are
`BTreeMap`s): values, the compact printer of `serde_json` (`Display`/`to_string`, also the bytes that
are hashed into content ids), structural equality.
Numbers: integers in `[-2^63, 2^64)` (`PosInt`/`NegInt`); floats are carried as their printed text
(`f64` formatting is not modelled, see DESIGN.md trusted base).
Objects are association lists kept sorted by key with distinct keys (`JVal.mkObj` normalises).
-/
namespace Aqua.Json

inductive JVal where
  | null
  | bool (b : Bool)
  | num (i : Int)
  | float (repr : String)
  | str (s : String)
  | arr (l : List JVal)
  | obj (kvs : List (String × JVal))
deriving Repr, Inhabited

mutual
def JVal.beq : JVal → JVal → Bool
  | .null, .null => true
  | .bool a, .bool b => a == b
  | .num a, .num b => a == b
  | .float a, .float b => a == b
  | .str a, .str b => a == b
  | .arr a, .arr b => JVal.beqList a b
  | .obj a, .obj b => JVal.beqPairs a b
  | _, _ => false
def JVal.beqList : List JVal → List JVal → Bool
  | [], [] => true
  | a :: as, b :: bs => JVal.beq a b && JVal.beqList as bs
  | _, _ => false
def JVal.beqPairs : List (String × JVal) → List (String × JVal) → Bool
  | [], [] => true
  | (ka, a) :: as, (kb, b) :: bs => ka == kb && JVal.beq a b && JVal.beqPairs as bs
  | _, _ => false
end

instance : BEq JVal := ⟨JVal.beq⟩

/-- hex digit (lower case) -/
def hexDigit (n : Nat) : Char := if n < 10 then Char.ofNat (48 + n) else Char.ofNat (87 + n)

/-- `serde_json` string escaping (`format_escaped_str`): `"` `\\` `\b` `\f` `\n` `\r` `\t`,
other control characters as `\u00XX`, everything else verbatim -/
def escapeChar (c : Char) : List Char :=
  if c = '"' then ['\\', '"']
  else if c = '\\' then ['\\', '\\']
  else if c.toNat = 8 then ['\\', 'b']
  else if c.toNat = 12 then ['\\', 'f']
  else if c = '\n' then ['\\', 'n']
  else if c = '\r' then ['\\', 'r']
  else if c = '\t' then ['\\', 't']
  else if c.toNat < 32 then ['\\', 'u', '0', '0', hexDigit (c.toNat / 16), hexDigit (c.toNat % 16)]
  else [c]

def renderStr (s : String) : String := String.ofList ('"' :: (s.toList.flatMap escapeChar ++ ['"']))

mutual
/-- compact JSON text (`serde_json::to_string`) -/
def JVal.render : JVal → String
  | .null => "null"
  | .bool true => "true"
  | .bool false => "false"
  | .num i => toString i
  | .float r => r
  | .str s => renderStr s
  | .arr l => "[" ++ JVal.renderList l ++ "]"
  | .obj kvs => "{" ++ JVal.renderPairs kvs ++ "}"
def JVal.renderList : List JVal → String
  | [] => ""
  | [v] => JVal.render v
  | v :: vs => JVal.render v ++ "," ++ JVal.renderList vs
def JVal.renderPairs : List (String × JVal) → String
  | [] => ""
  | [(k, v)] => renderStr k ++ ":" ++ JVal.render v
  | (k, v) :: kvs => renderStr k ++ ":" ++ JVal.render v ++ "," ++ JVal.renderPairs kvs
end

instance : ToString JVal := ⟨JVal.render⟩

/-- byte-wise order of UTF-8 strings = code point order (`BTreeMap<Rc<str>, _>`) -/
def strLt (a b : String) : Bool := a < b

/-- insert into a sorted association list, replacing an existing key (`BTreeMap::insert`) -/
def insertSorted (k : String) (v : JVal) : List (String × JVal) → List (String × JVal)
  | [] => [(k, v)]
  | (k', v') :: rest =>
    if k == k' then (k, v) :: rest
    else if strLt k k' then (k, v) :: (k', v') :: rest
    else (k', v') :: insertSorted k v rest

/-- build an object from pairs in insertion order (later duplicates win) -/
def JVal.mkObj (kvs : List (String × JVal)) : JVal := .obj (kvs.foldl (fun acc (k, v) => insertSorted k v acc) [])

def JVal.getField (v : JVal) (k : String) : Option JVal :=
  match v with
  | .obj kvs => (kvs.find? (fun (k', _) => k' == k)).map (·.2)
  | _ => none

def JVal.asStr? : JVal → Option String
  | .str s => some s
  | _ => none

def JVal.asArr? : JVal → Option (List JVal)
  | .arr l => some l
  | _ => none

def utf8 (s : String) : Bytes := s.toUTF8.toList

end Aqua.Json
