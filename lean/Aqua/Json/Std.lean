import Aqua.Json.Parse
/-!
# `JValue` ↔ `serde_json::Value`, equality, the `partial_eq.rs` comparisons (C26)

`StdVal` mirrors `serde_json::Value` (1.0.108 without `preserve_order`: objects are
`BTreeMap<String, Value>`), `StdNum` mirrors `serde_json::number::N` (`PosInt(u64)`, `NegInt(i64)` —
"always less than zero" —, `Float(f64)`; floats carried as the text `ryu` prints, as in `JVal`).

`JValue::Number` holds the very same `serde_json::Number`; in the model `JVal.num i` stands for
`PosInt(i)` when `0 ≤ i` and for `NegInt(i)` when `i < 0`.

* `fromStd` — `impl From<&serde_json::Value> for JValue` (from.rs; `From<serde_json::Value>` delegates
  to it) and, extensionally, `JValue::deserialize(value)` (= `serde_json::from_value::<JValue>`):
  objects are rebuilt with `Map::from_iter`, i.e. inserts in iteration order.
* `toStd` — `serde_json::to_value(&jvalue)`: `impl Serialize for JValue` (ser.rs) driven by
  serde_json's value serializer: `serialize_u64`/`serialize_i64` (`From<i64> for Number` picks `PosInt`
  for non-negative values), `serialize_map` + `serialize_entry` = `Map::insert` in `BTreeMap` order.
* `JVal.valEq` — the derived `PartialEq` of `JValue` (`Number`'s `PartialEq`: same variant and equal
  payload; `f64` `==` identifies `0.0` and `-0.0`; canonical texts of other finite floats are equal iff
  the floats are — `ryu` is injective, trusted).
* `eqI64`, `eqU64`, `eqBool`, `eqStr` — partial_eq.rs (`as_i64`, `as_u64`, `as_bool`, `as_str`).  The
  `f32`/`f64` comparisons need float arithmetic (`n as f64`) and are compared against serde_json only.
-/
namespace Aqua.Json

inductive StdNum where
  | posInt (n : Nat)
  | negInt (i : Int)
  | float (repr : String)
deriving DecidableEq, Repr, Inhabited

inductive StdVal where
  | null
  | bool (b : Bool)
  | number (n : StdNum)
  | string (s : String)
  | array (l : List StdVal)
  | object (kvs : List (String × StdVal))
deriving Repr, Inhabited

/-- `BTreeMap::insert` on the sorted association list -/
def stdInsertSorted (k : String) (v : StdVal) : List (String × StdVal) → List (String × StdVal)
  | [] => [(k, v)]
  | (k', v') :: rest =>
    if k == k' then (k, v) :: rest
    else if strLt k k' then (k, v) :: (k', v') :: rest
    else (k', v') :: stdInsertSorted k v rest

def StdVal.mkObj (kvs : List (String × StdVal)) : StdVal :=
  .object (kvs.foldl (fun acc (k, v) => stdInsertSorted k v acc) [])

/-- `From<u64>` / `From<i64> for Number` -/
def StdNum.ofInt (i : Int) : StdNum := if 0 ≤ i then .posInt i.toNat else .negInt i

mutual
/-- `impl From<&serde_json::Value> for JValue` -/
def fromStd : StdVal → JVal
  | .null => .null
  | .bool b => .bool b
  | .number (.posInt n) => .num n
  | .number (.negInt i) => .num i
  | .number (.float r) => .float r
  | .string s => .str s
  | .array l => .arr (fromStdList l)
  | .object kvs => JVal.mkObj (fromStdPairs kvs)
def fromStdList : List StdVal → List JVal
  | [] => []
  | v :: vs => fromStd v :: fromStdList vs
def fromStdPairs : List (String × StdVal) → List (String × JVal)
  | [] => []
  | (k, v) :: kvs => (k, fromStd v) :: fromStdPairs kvs
end

mutual
/-- `serde_json::to_value(&JValue)` -/
def toStd : JVal → StdVal
  | .null => .null
  | .bool b => .bool b
  | .num i => .number (StdNum.ofInt i)
  | .float r => .number (.float r)
  | .str s => .string s
  | .arr l => .array (toStdList l)
  | .obj kvs => StdVal.mkObj (toStdPairs kvs)
def toStdList : List JVal → List StdVal
  | [] => []
  | v :: vs => toStd v :: toStdList vs
def toStdPairs : List (String × JVal) → List (String × StdVal)
  | [] => []
  | (k, v) :: kvs => (k, toStd v) :: toStdPairs kvs
end

/-- `Number`'s `Display`/`Serialize` (itoa for the integers) -/
def StdNum.render : StdNum → String
  | .posInt n => toString (n : Int)
  | .negInt i => toString i
  | .float r => r

mutual
/-- `serde_json::to_string(&Value)` -/
def StdVal.render : StdVal → String
  | .null => "null"
  | .bool true => "true"
  | .bool false => "false"
  | .number n => n.render
  | .string s => renderStr s
  | .array l => "[" ++ StdVal.renderList l ++ "]"
  | .object kvs => "{" ++ StdVal.renderPairs kvs ++ "}"
def StdVal.renderList : List StdVal → String
  | [] => ""
  | [v] => StdVal.render v
  | v :: vs => StdVal.render v ++ "," ++ StdVal.renderList vs
def StdVal.renderPairs : List (String × StdVal) → String
  | [] => ""
  | [(k, v)] => renderStr k ++ ":" ++ StdVal.render v
  | (k, v) :: kvs => renderStr k ++ ":" ++ StdVal.render v ++ "," ++ StdVal.renderPairs kvs
end

/-! ## Equality as the Rust code computes it -/

def isZeroRepr (r : String) : Bool := r == "0.0" || r == "-0.0"
/-- `f64 ==` on canonical texts of finite floats -/
def floatEq (a b : String) : Bool := a == b || (isZeroRepr a && isZeroRepr b)

mutual
/-- `#[derive(PartialEq)] enum JValue` -/
def JVal.valEq : JVal → JVal → Bool
  | .null, .null => true
  | .bool a, .bool b => a == b
  | .num a, .num b => a == b
  | .float a, .float b => floatEq a b
  | .str a, .str b => a == b
  | .arr a, .arr b => JVal.valEqList a b
  | .obj a, .obj b => JVal.valEqPairs a b
  | _, _ => false
def JVal.valEqList : List JVal → List JVal → Bool
  | [], [] => true
  | a :: as, b :: bs => JVal.valEq a b && JVal.valEqList as bs
  | _, _ => false
def JVal.valEqPairs : List (String × JVal) → List (String × JVal) → Bool
  | [], [] => true
  | (ka, a) :: as, (kb, b) :: bs => ka == kb && JVal.valEq a b && JVal.valEqPairs as bs
  | _, _ => false
end

def StdNum.valEq : StdNum → StdNum → Bool
  | .posInt a, .posInt b => a == b
  | .negInt a, .negInt b => a == b
  | .float a, .float b => floatEq a b
  | _, _ => false

mutual
/-- `#[derive(PartialEq)] enum Value` -/
def StdVal.valEq : StdVal → StdVal → Bool
  | .null, .null => true
  | .bool a, .bool b => a == b
  | .number a, .number b => StdNum.valEq a b
  | .string a, .string b => a == b
  | .array a, .array b => StdVal.valEqList a b
  | .object a, .object b => StdVal.valEqPairs a b
  | _, _ => false
def StdVal.valEqList : List StdVal → List StdVal → Bool
  | [], [] => true
  | a :: as, b :: bs => StdVal.valEq a b && StdVal.valEqList as bs
  | _, _ => false
def StdVal.valEqPairs : List (String × StdVal) → List (String × StdVal) → Bool
  | [], [] => true
  | (ka, a) :: as, (kb, b) :: bs => ka == kb && StdVal.valEq a b && StdVal.valEqPairs as bs
  | _, _ => false
end

mutual
/-- the two zeros identified: `v.valEq w ↔ v.normZero = w.normZero` (`C26_valEq_iff`) -/
def JVal.normZero : JVal → JVal
  | .float r => if isZeroRepr r then .float "0.0" else .float r
  | .arr l => .arr (JVal.normZeroList l)
  | .obj kvs => .obj (JVal.normZeroPairs kvs)
  | v => v
def JVal.normZeroList : List JVal → List JVal
  | [] => []
  | v :: vs => JVal.normZero v :: JVal.normZeroList vs
def JVal.normZeroPairs : List (String × JVal) → List (String × JVal)
  | [] => []
  | (k, v) :: kvs => (k, JVal.normZero v) :: JVal.normZeroPairs kvs
end

/-! ## partial_eq.rs -/

def i64Max : Int := 9223372036854775807

/-- `JValue::as_i64` (`Number::as_i64`) -/
def JVal.asI64 : JVal → Option Int
  | .num i => if i ≤ i64Max then some i else none      -- `PosInt(n)` above `i64::MAX` ↦ `None`; `NegInt` ↦ `Some`
  | _ => none
/-- `JValue::as_u64` -/
def JVal.asU64 : JVal → Option Int
  | .num i => if 0 ≤ i then some i else none
  | _ => none
def JVal.asBool : JVal → Option Bool
  | .bool b => some b
  | _ => none

/-- `eq_i64(value, other) = value.as_i64().map_or(false, |i| i == other)` -/
def eqI64 (v : JVal) (other : Int) : Bool := match v.asI64 with | some i => i == other | none => false
def eqU64 (v : JVal) (other : Int) : Bool := match v.asU64 with | some i => i == other | none => false
def eqBool (v : JVal) (other : Bool) : Bool := match v.asBool with | some b => b == other | none => false
def eqStr (v : JVal) (other : String) : Bool := match v.asStr? with | some s => s == other | none => false

end Aqua.Json
