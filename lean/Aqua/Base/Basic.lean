namespace Aqua

abbrev Bytes := List UInt8

/-- error value carried to the outcome: positional error code and rendered message -/
structure Err where
  code : Int
  msg : String
deriving Repr, DecidableEq, Inhabited

/-- index of the first element equal to `x` (the model of `iter().position(..)`) -/
def indexOf? [BEq α] (x : α) : List α → Option Nat
  | [] => none
  | y :: ys => if y == x then some 0 else (indexOf? x ys).map (· + 1)

theorem indexOf?_lt [BEq α] (x : α) (l : List α) (i : Nat) (h : indexOf? x l = some i) : i < l.length := by
  induction l generalizing i with
  | nil => simp [indexOf?] at h
  | cons y ys ih =>
    simp only [indexOf?] at h
    split at h
    · cases h; simp
    · cases h' : indexOf? x ys with
      | none => simp [h'] at h
      | some j =>
        simp [h'] at h
        subst h
        have := ih j h'
        simp; omega

end Aqua
