/-
`Res ε α`: the result of a modelled Rust computation — a value, an `Err(e)`, or a *panic* at a named
site (unwrap/expect/index/overflow with `overflow-checks = true`).  Panics are values so that
"never panics" is a theorem about the model and not an artefact of totalisation.
-/
namespace Aqua

inductive Res (ε α : Type) where
  | ok (a : α)
  | error (e : ε)
  | panic (site : String)
deriving Repr

namespace Res
variable {ε α β : Type}

@[inline] def bind (x : Res ε α) (f : α → Res ε β) : Res ε β :=
  match x with
  | .ok a => f a
  | .error e => .error e
  | .panic s => .panic s

instance : Monad (Res ε) where
  pure := .ok
  bind := bind

def mapErr {ε'} (f : ε → ε') : Res ε α → Res ε' α
  | .ok a => .ok a
  | .error e => .error (f e)
  | .panic s => .panic s

def isPanic : Res ε α → Bool
  | .panic _ => true
  | _ => false

def isOk : Res ε α → Bool
  | .ok _ => true
  | _ => false

/-- `Option::ok_or` -/
def ofOption (e : ε) : Option α → Res ε α
  | some a => .ok a
  | none => .error e

/-- `Option::unwrap` / `expect` -/
def unwrap (site : String) : Option α → Res ε α
  | some a => .ok a
  | none => .panic site

@[simp] theorem bind_ok (a : α) (f : α → Res ε β) : (Res.ok a >>= f) = f a := rfl
@[simp] theorem bind_error (e : ε) (f : α → Res ε β) : ((Res.error e : Res ε α) >>= f) = .error e := rfl
@[simp] theorem bind_panic (s : String) (f : α → Res ε β) : ((Res.panic s : Res ε α) >>= f) = .panic s := rfl

end Res

def u32Max : Nat := 4294967295

/-- `u32 + u32` with overflow checks -/
def addU32 {ε} (site : String) (a b : Nat) : Res ε Nat :=
  if a + b > u32Max then .panic site else .ok (a + b)

/-- `u32 - u32` with overflow checks -/
def subU32 {ε} (site : String) (a b : Nat) : Res ε Nat :=
  if a < b then .panic site else .ok (a - b)

/-- `usize as u32` -/
def truncU32 (n : Nat) : Nat := n % (u32Max + 1)

end Aqua
