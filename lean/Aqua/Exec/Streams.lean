import Aqua.Exec.Scalars
import Aqua.Gen.Consts
import Aqua.Gen.Lens
/-
Replica of `value_types/stream/{values_matrix,stream_definition,recursive_stream}.rs` and of
`execution_context/streams_variables.rs` (+ `stream_descriptor.rs`): generations of stream values,
the size limit, compaction of generations into the result trace, the recursive cursor that feeds
stream folds, and scoped stream instances (`new $stream`).

Stream maps (`value_types/stream_map.rs`, `execution_context/stream_maps_variables.rs`): `StreamMap` is a
newtype over `Stream` whose values are `{"key":…,"value":…}` objects, and `StreamMaps` is a copy of `Streams`.
The model keeps ONE store (`Ctx.streams`) for both Rust hash maps, keyed by the name as written in the
script: stream names start with `$`, map names with `%` (lexer), so the two key sets are disjoint and every
`stream_maps.*` operation is the `streams.*` operation on the same list.
-/
namespace Aqua.Exec
open Aqua Aqua.Json Aqua.Air Aqua.Data Aqua.Trace

namespace ValuesMatrix

def removeEmptyGenerations (m : ValuesMatrix) : ValuesMatrix := { m with values := m.values.filter (fun g => !g.isEmpty) }
def generationsCount (m : ValuesMatrix) : Nat := m.values.length
/-- `iter` -/
def all (m : ValuesMatrix) : List ValueAggregate := m.values.flatten
/-- `slice_iter(skip)`: non-empty generations, the first `skip` of them dropped -/
def sliceIter (m : ValuesMatrix) (skip : Nat) : List (List ValueAggregate) := (m.values.filter (fun g => !g.isEmpty)).drop skip

/-- `Vec::resize(n, vec![])` for `n ≥ len` -/
def padTo (l : List (List ValueAggregate)) (n : Nat) : List (List ValueAggregate) := l ++ List.replicate (n - l.length) []

/-- `add_value_to_generation`: generations up to the index are created on demand (`generation + 1` is a
checked add on `u32`; the resize allocates `generation + 1` vectors whatever the data says) -/
def addValueToGeneration (m : ValuesMatrix) (v : ValueAggregate) (g : Nat) : ER ValuesMatrix :=
  if g ≥ m.values.length ∧ g ≥ u32Max then .panic "values_matrix.rs:add_value_to_generation:generation_idx.checked_add(1).unwrap()"
  else
    let vals := if g ≥ m.values.length then padTo m.values (g + 1) else m.values
    .ok { values := vals.modify g (· ++ [v]), size := m.size + 1 }

/-! `NewValuesMatrix` -/
def addNewEmptyGeneration (m : ValuesMatrix) : ValuesMatrix := { m with values := m.values ++ [[]] }
def removeLastGeneration (m : ValuesMatrix) : ValuesMatrix := { m with values := m.values.dropLast }
/-- `last_non_empty_generation_idx` (despite its name: the index of the last generation) -/
def lastGenerationIdx (m : ValuesMatrix) : Nat := if m.values.isEmpty then 0 else m.values.length - 1
def lastGenerationIsEmpty (m : ValuesMatrix) : Bool :=
  match m.values.getLast? with
  | none => true
  | some g => g.isEmpty
def addToLastGeneration (m : ValuesMatrix) (v : ValueAggregate) : ER ValuesMatrix := m.addValueToGeneration v m.lastGenerationIdx

end ValuesMatrix

namespace Stream

/-- `iter`: previous, then current, then new values -/
def all (s : Stream) : List ValueAggregate := s.prev.all ++ s.cur.all ++ s.new.all

def sliceIter (s : Stream) (c : StreamCursor) : List (List ValueAggregate) :=
  s.prev.sliceIter c.prevStart ++ s.cur.sliceIter c.curStart ++ s.new.sliceIter c.newStart

def cursor (s : Stream) : StreamCursor := ⟨s.prev.generationsCount, s.cur.generationsCount, s.new.generationsCount⟩

def totalSize (s : Stream) : Nat := s.prev.size + s.cur.size + s.new.size

/-- `add_value`: the value goes to the named generation of the previous / current data, or to the last
generation of the new values -/
def addToSource (s : Stream) (v : ValueAggregate) : Generation → ER Stream
  | .previous i => (s.prev.addValueToGeneration v i).bind fun m => .ok { s with prev := m }
  | .current i => (s.cur.addValueToGeneration v i).bind fun m => .ok { s with cur := m }
  | .new => (s.new.addToLastGeneration v).bind fun m => .ok { s with new := m }

/-- `add_value` + `check_stream_size_limit` (the value is already in when the limit error is raised) -/
def addValue (s : Stream) (v : ValueAggregate) (g : Generation) : ER Stream :=
  (s.addToSource v g).bind fun s' =>
    if s'.totalSize ≥ Gen.streamMaxSize then uncatchable .streamSizeLimitExceeded else .ok s'

/-- `update_generations`: every value of the `i`-th slice gets generation `start + i` written into its
state of the result trace -/
def updateGenerations (slices : List (List ValueAggregate)) (start : Nat) (th : TraceHandler) : ER TraceHandler :=
  let rec go : List (List ValueAggregate) → Nat → TraceHandler → ER TraceHandler
    | [], _, th => .ok th
    | vs :: rest, g, th =>
      let rec inner : List ValueAggregate → TraceHandler → ER TraceHandler
        | [], th => .ok th
        | v :: more, th =>
          match th.updateGeneration v.tracePos g with
          | .ok th' => inner more th'
          | .error _ => uncatchable .generationCompactificationError
          | .panic s => .panic s
      match inner vs th with
      | .ok th' => go rest (g + 1) th'
      | .error e => .error e
      | .panic s => .panic s
  go slices start th

/-- `compactify`: empty generations are dropped, then generations are numbered previous → current → new -/
def compactify (s : Stream) (th : TraceHandler) : ER (Stream × TraceHandler) := do
  let s : Stream := { prev := s.prev.removeEmptyGenerations, cur := s.cur.removeEmptyGenerations, new := s.new.removeEmptyGenerations }
  let th ← updateGenerations (s.prev.sliceIter 0) 0 th
  let start := s.prev.generationsCount
  let th ← updateGenerations (s.cur.sliceIter 0) start th
  let start := start + s.cur.generationsCount   -- `checked_add(..).unwrap()` cannot overflow below the size limit
  let th ← updateGenerations (s.new.sliceIter 0) start th
  pure (s, th)

end Stream

/-! ## `RecursiveStreamCursor` -/

/-- `cursor_state`: the iterables of all generations at or after the cursor (`none` = exhausted) -/
def cursorState (c : StreamCursor) (s : Stream) : Option (List (List ValueAggregate)) :=
  let slices := s.sliceIter c
  if slices.isEmpty then none else some slices

/-- `met_fold_start` -/
def metFoldStart (s : Stream) : Option (List (List ValueAggregate)) × StreamCursor × Stream :=
  let st := cursorState {} s
  let c := s.cursor
  match st with
  | some _ => (st, c, { s with new := s.new.addNewEmptyGeneration })
  | none => (st, c, s)

/-- `met_iteration_end` -/
def metIterationEnd (c : StreamCursor) (s : Stream) : Option (List (List ValueAggregate)) × StreamCursor × Stream :=
  let st := cursorState c s
  let s := if s.new.lastGenerationIsEmpty then { s with new := s.new.removeLastGeneration } else s
  let c' := s.cursor
  (st, c', { s with new := s.new.addNewEmptyGeneration })

/-! ## `Streams` -/

/-- `Span::contains_position` (both bounds strict) -/
def spanContains (d : StreamDesc) (pos : Nat) : Bool := d.spanLeft < pos && pos < d.spanRight

/-- `usize::MAX` (the right end of the global span) -/
def usizeMax : Nat := 18446744073709551615

/-- index of the closest enclosing descriptor (`find_closest`: innermost first) -/
def findClosest (ds : List StreamDesc) (pos : Nat) : Option Nat :=
  let rec go : List StreamDesc → Nat → Option Nat → Option Nat
    | [], _, acc => acc
    | d :: rest, i, acc => go rest (i + 1) (if spanContains d pos then some i else acc)
  go ds 0 none

def Ctx.getStream (c : Ctx) (name : String) (pos : Nat) : Option Stream := do
  let ds ← lookup c.streams name
  let i ← findClosest ds pos
  (ds[i]?).map (·.stream)

/-- replace the stream instance `get_mut(name, position)` designates -/
def Ctx.setStream (c : Ctx) (name : String) (pos : Nat) (s : Stream) : Ctx :=
  match lookup c.streams name with
  | none => c
  | some ds =>
    match findClosest ds pos with
    | none => c
    | some i => { c with streams := upsert c.streams name (ds.modify i fun d => { d with stream := s }) }

/-- `add_stream_value` -/
def Ctx.addStreamValue (c : Ctx) (v : ValueAggregate) (name : String) (g : Generation) (pos : Nat) : ER Ctx :=
  match c.getStream name pos with
  | some s => do
    let s' ← s.addValue v g
    pure (c.setStream name pos s')
  | none => do
    let s' ← ({} : Stream).addValue v g
    -- the global embodiment goes in front of the descriptors of `new` scopes that are still open (`entry(name).or_default().insert(0, …)`;
    -- before the repair in /repo the whole vector was replaced and a later `meet_scope_end` panicked)
    pure { c with streams := upsert c.streams name (⟨0, usizeMax, s'⟩ :: (lookup c.streams name).getD []) }

/-- `meet_scope_start` -/
def Ctx.streamScopeStart (c : Ctx) (name : String) (spanLeft spanRight : Nat) : Ctx :=
  let d : StreamDesc := ⟨spanLeft, spanRight, {}⟩
  match lookup c.streams name with
  | some ds => { c with streams := upsert c.streams name (ds ++ [d]) }
  | none => { c with streams := c.streams ++ [(name, [d])] }

/-- `meet_scope_end` (`get_mut(&name).unwrap()` / `pop().unwrap()`), then compaction of the closed instance -/
def Ctx.streamScopeEnd (c : Ctx) (name : String) : ER Ctx :=
  match lookup c.streams name with
  | none => .panic "streams_variables.rs:meet_scope_end:get_mut(&name).unwrap()"
  | some ds =>
    match ds.getLast? with
    | none => .panic "streams_variables.rs:meet_scope_end:pop().unwrap()"
    | some last =>
      let rest := ds.dropLast
      let streams := if rest.isEmpty then c.streams.filter (fun (k, _) => k != name) else upsert c.streams name rest
      match last.stream.compactify c.th with
      | .ok (_, th) => .ok { c with streams := streams, th := th }
      | .error e => .error e
      | .panic s => .panic s

/-- `Streams::compactify` (farewell): every remaining instance, in map order (the order does not matter:
instances write to their own trace positions) -/
def Ctx.compactifyStreams (c : Ctx) : ER Ctx :=
  let rec descs : List StreamDesc → TraceHandler → ER (List StreamDesc × TraceHandler)
    | [], th => .ok ([], th)
    | d :: rest, th =>
      match d.stream.compactify th with
      | .ok (s, th') =>
        match descs rest th' with
        | .ok (ds, th'') => .ok ({ d with stream := s } :: ds, th'')
        | .error e => .error e
        | .panic p => .panic p
      | .error e => .error e
      | .panic p => .panic p
  let rec all : List (String × List StreamDesc) → TraceHandler → ER (List (String × List StreamDesc) × TraceHandler)
    | [], th => .ok ([], th)
    | (n, ds) :: rest, th =>
      match descs ds th with
      | .ok (ds', th') =>
        match all rest th' with
        | .ok (r, th'') => .ok ((n, ds') :: r, th'')
        | .error e => .error e
        | .panic p => .panic p
      | .error e => .error e
      | .panic p => .panic p
  match all c.streams c.th with
  | .ok (ss, th) => .ok { c with streams := ss, th := th }
  | .error e => .error e
  | .panic p => .panic p


/-! ## stream maps (`value_types/stream_map.rs`) -/

/-- `impl From<StreamMapKey> for JValue` -/
def Lens.StreamMapKey.toJVal : Lens.StreamMapKey → JVal
  | .str s => .str s
  | .u64 n => .num n
  | .i64 i => .num i

/-- `from_key_value`: the object `{"key": key, "value": value}` -/
def fromKeyValue (key : Lens.StreamMapKey) (value : JVal) : JVal :=
  JVal.mkObj [(Gen.streamMapValueFieldName, value), (Gen.streamMapKeyFieldName, key.toJVal)]

/-- `StreamMap::insert` + `StreamMaps::add_stream_map_value`: the key-value object takes over tetraplet,
trace position and provenance of the value and is appended like a stream value -/
def Ctx.addStreamMapValue (c : Ctx) (key : Lens.StreamMapKey) (v : ValueAggregate) (name : String) (g : Generation) (pos : Nat) : ER Ctx :=
  c.addStreamValue (ValueAggregate.new (fromKeyValue key v.result) v.tetraplet v.tracePos v.provenance) name g pos

/-- `StreamMap::iter_unique_key_object`: (rendered key, value) of the first pair of every rendered key; pairs that
are not objects or whose key is not a map key are skipped; a pair without a value still uses up its key -/
def iterUniqueKeyObject : List ValueAggregate → List String → List (String × JVal)
  | [], _ => []
  | va :: rest, met =>
    match va.result with
    | .obj _ =>
      match (va.result.getField Gen.streamMapKeyFieldName).bind Lens.StreamMapKey.fromValue with
      | none => iterUniqueKeyObject rest met
      | some key =>
        if met.contains key.toKey then iterUniqueKeyObject rest met
        else
          match va.result.getField Gen.streamMapValueFieldName with
          | none => iterUniqueKeyObject rest (key.toKey :: met)
          | some value => (key.toKey, value) :: iterUniqueKeyObject rest (key.toKey :: met)
    | _ => iterUniqueKeyObject rest met

end Aqua.Exec
