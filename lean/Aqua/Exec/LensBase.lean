import Aqua.Exec.Streams
/-
Replica of the scalar part of the lens applier (`lambda_applier/{applier,utils}.rs`), split off from
`Aqua/Exec/Instr.lean` so that the full applier (`Aqua/Exec/Lens.lean`: streams, canon maps) can be
used by the resolver in `Instr.lean`.
-/
namespace Aqua.Exec
open Aqua Aqua.Json Aqua.Air Aqua.Data Aqua.Trace

/-! ## lens applier (`lambda_applier/{applier,utils}.rs`) -/

def tryNumberToU32 (n : JVal) : Res LambdaErr Nat :=
  match n with
  | .num i => if 0 ≤ i ∧ i ≤ 4294967295 then .ok i.toNat else .error (.indexAccessNotU32 n)
  | _ => .error (.indexAccessNotU32 n)

def tryJvalueWithIdx (v : JVal) (idx : Nat) : Res LambdaErr JVal :=
  match v with
  | .arr a => match a[idx]? with
    | some x => .ok x
    | none => .error (.valueNotContainSuchArrayIdx v idx)
  | _ => .error (.arrayAccessorNotMatchValue v idx)

def tryJvalueWithFieldName (v : JVal) (field : String) : Res LambdaErr JVal :=
  match v with
  | .obj _ => match v.getField field with
    | some x => .ok x
    | none => .error (.valueNotContainSuchField v field)
  | _ => .error (.fieldAccessorNotMatchValue v field)

/-- `select_by_jvalue` -/
def selectByJvalue (v accessor : JVal) : Res LambdaErr JVal :=
  match accessor with
  | .str s => tryJvalueWithFieldName v s
  | .num _ => (tryNumberToU32 accessor).bind fun i => tryJvalueWithIdx v i
  | .float _ => .error (.indexAccessNotU32 accessor)
  | a => .error (.scalarAccessorHasInvalidType a)

def liftLambda {α} (r : Res LambdaErr α) : ER α := r.mapErr fun e => .catchable (.lambdaApplierError e)

/-- the JSON value a scalar name denotes (`ScalarRef` → `get_result()` / peeked item) -/
def scalarRefValue (r : ScalarRef) : ER JVal :=
  match r with
  | .value v => .ok v.result
  | .iterableValue f => do
    let x ← f.iterable.peekExpect
    pure (itemIntoResolvedResult x).result

/-- `select_by_path_from_scalar` -/
def selectByPathFromScalar (scalars : Scalars) (v : JVal) : List Accessor → ER JVal
  | [] => .ok v
  | .arrayAccess i :: rest => do
    let v' ← liftLambda (tryJvalueWithIdx v i)
    selectByPathFromScalar scalars v' rest
  | .fieldByName n :: rest => do
    let v' ← liftLambda (tryJvalueWithFieldName v n)
    selectByPathFromScalar scalars v' rest
  | .fieldByScalar s :: rest => do
    let r ← scalars.getValue s
    let a ← scalarRefValue r
    let v' ← liftLambda (selectByJvalue v a)
    selectByPathFromScalar scalars v' rest

/-- `select_by_lambda_from_scalar` -/
def selectByLambdaFromScalar (scalars : Scalars) (v : JVal) (l : Lambda) : ER JVal :=
  match l with
  | .path as => selectByPathFromScalar scalars v as
  | .functorLength =>
    match v with
    | .arr a => .ok (.num a.length)
    | _ => catchable (.lengthFunctorAppliedToNotArray v)

/-- `populate_tetraplet_with_lambda` -/
def populateTetrapletWithLambda (t : Tetraplet) (l : Lambda) : Tetraplet :=
  match l with
  | .path _ => t.addLens l.render
  | .functorLength => { peerPk := "", lens := l.render }

end Aqua.Exec
