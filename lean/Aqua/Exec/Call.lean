import Aqua.Exec.Monad
/-
`call` (`instructions/call.rs`, `call/{resolved_call,prev_result_handler,call_result_setter}.rs`).
-/
namespace Aqua.Exec
open Aqua Aqua.Json Aqua.Air Aqua.Data Aqua.Trace

/-- `update_state_with_service_result` -/
def updateStateWithServiceResult (env : Env) (t : Tetraplet) (argHash : String) (out : CallOutput)
    (sr : CallServiceResult) : M Unit :=
  -- handle_service_error
  if sr.retCode != 0 then do
    modifyCtx fun c =>
      let failed := callServiceFailedValue sr.retCode sr.result
      let (cid, cs) := trackServiceResult env c.cid failed t argHash
      let c := ({ c with cid := cs }).recordCallCid t.peerPk cid
      { c with th := c.th.meetCallEnd (.failed cid) }
    throwE (.catchable (.localServiceError sr.retCode sr.result))
  else
    -- try_to_service_result
    match env.parseJson sr.result with
    | none =>
      -- the result is not JSON: a `Failed` state with code `i32::MAX` is recorded (and, since the fix
      -- in /repo, registered for signing like every other own result); `env.parseErr` is serde's error text
      let msg := s!"call_service result 'ret_code: {sr.retCode}, result: '{sr.result}'' can't be serialized or deserialized with an error: {env.parseErr sr.result}"
      do
        modifyCtx fun c =>
          let failed := callServiceFailedValue i32Max msg
          let (cid, cs) := trackServiceResult env c.cid failed t argHash
          let c := ({ c with cid := cs }).recordCallCid t.peerPk cid
          { c with th := c.th.meetCallEnd (.failed cid) }
        throwE (.catchable (.localServiceError i32Max msg))
    | some result =>
      modifyER fun c => do
        let (cr, c') ← populateFromPeerServiceResult env c result t argHash c.th.tracePos out
        pure { c' with th := c'.th.meetCallEnd cr }

inductive StateDescriptor where
  | mk (shouldExecute : Bool) (prevState : Option CallResult)

def StateDescriptor.maybeSetPrevState : StateDescriptor → M Unit
  | .mk _ (some cr) => meetCallEnd cr
  | .mk _ none => pure ()

/-- the `RequestSentBy(..)` arm for a request that is not this peer's own pending one -/
def sentByOther (met : MetCallResult) (t : Tetraplet) : M StateDescriptor := do
  let me ← readCtx (·.currentPeerId)
  if t.peerPk == me then pure (.mk true (some met.result))
  else do
    makeSubgraphIncomplete
    pure (.mk false (some met.result))

def unwrapHash (site : String) : Option String → M String
  | some h => pure h
  | none => panicM site

/-- `handle_prev_state` -/
def handlePrevState (env : Env) (met : MetCallResult) (t : Tetraplet) (argHash : Option String) (out : CallOutput) :
    M StateDescriptor :=
  match met.result with
  | .failed failedCid => do
    let (errValue, curT, agg) ← readER fun c => resolveServiceInfo env c.cid failedCid
    let ah ← unwrapHash "prev_result_handler.rs:handle_prev_state:argument_hash.unwrap()(Failed)" argHash
    readER fun _ => verifyCall ah t agg.argumentHash curT
    -- serde_json::from_value::<CallServiceFailed>
    match errValue.getField "ret_code", errValue.getField "message" with
    | some (.num rc), some (.str msg) =>
      if rc < -2147483648 ∨ rc > 2147483647 then throwE (.uncatchable .malformedCallServiceFailed) else do
      -- (before the fix: commit in /repo this update also cleared `subgraphComplete`)
      modifyCtx fun c =>
        let c := c.recordCallCid t.peerPk failedCid
        { c with th := c.th.meetCallEnd met.result }
      throwE (.catchable (.localServiceError rc msg))
    | _, _ => throwE (.uncatchable .malformedCallServiceFailed)
  | .requestSentBy (.peerIdWithCallId peer callId) => do
    let me ← readCtx (·.currentPeerId)
    if peer == me then do
      let key := toString callId
      let found ← readCtx fun c => lookup c.callResults key
      match found with
      | some sr =>
        modifyCtx fun c => { c with callResults := c.callResults.filter (fun (k, _) => k != key) }
        let ah ← unwrapHash "prev_result_handler.rs:handle_prev_state:argument_hash.expect(Result for joinable error)" argHash
        updateStateWithServiceResult env t ah out sr
        pure (.mk false none)
      | none =>
        makeSubgraphIncomplete
        pure (.mk false (some met.result))
    else sentByOther met t
  | .requestSentBy _ => sentByOther met t
  | .executed value => do
    let ah ← unwrapHash "prev_result_handler.rs:handle_prev_state:argument_hash.unwrap()(Executed)" argHash
    modifyER fun c => populateFromData env c value ah t met.tracePos out met.source
    modifyCtx fun c =>
      let c := match value with
        | .scalar cid | .stream cid _ => c.recordCallCid t.peerPk cid
        | .unused _ => c
      { c with th := c.th.meetCallEnd (.executed value) }
    pure (.mk false none)

/-- `ResolvedCall::new`: the resolved triplet as a tetraplet + `check_output_name` -/
def resolveCall (c : Ctx) (peer svc func : Value) (out : CallOutput) : ER Tetraplet := do
  let p ← resolveToString c peer
  let s ← resolveToString c svc
  let f ← resolveToString c func
  checkOutputName c out
  pure { peerPk := p, serviceId := s, functionName := f }

/-- `check_args`: joinable errors are suppressed, others propagate -/
def checkArgs (c : Ctx) (args : List Value) : ER (Option (List JVal)) :=
  match collectArgs c args with
  | .ok (vs, _) => .ok (some vs)
  | .error e => if e.isJoinable then .ok none else .error e
  | .panic s => .panic s

/-- the local-call branch of `ResolvedCall::execute`: `prepare_request_params`, `next_call_request_id`,
insert the request, push `RequestSentBy(me, id)` -/
def issueRequest (t : Tetraplet) (args : List Value) : Ctx → ER Ctx := fun c =>
  match collectArgs c args with
  | .ok (vs, tss) =>
    if c.lastCallRequestId + 1 > u32Max then .panic "context.rs:next_call_request_id:last_call_request_id+=1" else
    let callId := c.lastCallRequestId + 1
    .ok { c with lastCallRequestId := callId,
                 callRequests := c.callRequests ++ [(callId, ⟨t.serviceId, t.functionName, vs, tss, t.peerPk⟩)],
                 subgraphComplete := false,
                 th := c.th.meetCallEnd (.requestSentBy (.peerIdWithCallId c.currentPeerId callId)) }
  | .error e => .error e
  | .panic s => .panic s

/-- `handle_remote_call` -/
def handleRemoteCall (t : Tetraplet) : M Unit :=
  modifyCtx fun c => { c with nextPeerPks := c.nextPeerPks ++ [t.peerPk], subgraphComplete := false,
                              th := c.th.meetCallEnd (.requestSentBy (.peerId c.currentPeerId)) }

/-- `ResolvedCall::execute` once the state says "execute": forward to the addressed peer or issue a
local request -/
def dispatch (t : Tetraplet) (args : List Value) (state : StateDescriptor) : M Unit := do
  let me ← readCtx (·.currentPeerId)
  if t.peerPk != me then handleRemoteCall t
  else do
    let r ← tryM (modifyER (issueRequest t args))
    match r with
    | .ok () => pure ()
    | .error e => if e.isJoinable then do state.maybeSetPrevState; throwE e else throwE e
    | .panic s => panicM s

/-- `prepare_current_executed_state` after `meet_call_start` -/
def prepareState (env : Env) (met : MergerCallResult) (t : Tetraplet) (argHash : Option String) (out : CallOutput) : M StateDescriptor :=
  match met with
  | .met m => handlePrevState env m t argHash out
  | .notMet => pure (StateDescriptor.mk true none)

def afterState (t : Tetraplet) (args : List Value) (state : StateDescriptor) : M Unit :=
  match state with
  | .mk shouldExecute _ => if !shouldExecute then state.maybeSetPrevState else dispatch t args state

/-- `ResolvedCall::execute` -/
def resolvedExecute (env : Env) (i : Instr) (t : Tetraplet) (args : List Value) (out : CallOutput) : M Unit :=
  readER (fun c => checkArgs c args) >>= fun checked =>
  liftTH i (fun th => th.meetCallStart) >>= fun met =>
  prepareState env met t (checked.map fun vs => env.hash (argsJson vs)) out >>= fun state =>
  afterState t args state

/-- `set_errors` of call.rs: joinable errors are turned into `Ok` by the caller before `map_err` runs -/
def callSetErrors (i : Instr) (t : Option Tetraplet) (e : ExecErr) (c : Ctx) : Ctx :=
  match e with
  | .catchable ce => if ce.isJoinable then c else c.setErrors ce i.render t true
  | _ => c

/-- `Call::execute` -/
def execCall (env : Env) (i : Instr) (peer svc func : Value) (args : List Value) (out : CallOutput) : M Unit := do
  let resolved ← joinable (onError (readER fun c => resolveCall c peer svc func out) (callSetErrors i none))
  match resolved with
  | none => pure ()
  | some t =>
    let _ ← joinable (onError (resolvedExecute env i t args out) (callSetErrors i (some t)))
    pure ()

end Aqua.Exec
