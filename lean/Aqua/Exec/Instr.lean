import Aqua.Exec.Streams
/-
Replica of the instruction executor (`air/src/execution_step/instructions/**`, `resolver/**`,
`lambda_applier/**`) for the stream-free fragment: call (scalar / no output), seq, par, xor, match,
mismatch, scalar ap, scalar fold + next, new on scalars, fail, null, never.  Anything else yields
`ExecErr.unmodelled`.  `exec` takes fuel because `next` re-enters the fold body.
-/
namespace Aqua.Exec
open Aqua Aqua.Json Aqua.Air Aqua.Data Aqua.Trace

/-! ## lens applier (`lambda_applier/{applier,utils}.rs`) -/

def tryNumberToU32 (n : JVal) : Res LambdaErr Nat :=
  match n with
  | .num i => if 0 ≤ i ∧ i ≤ 4294967295 then .ok i.toNat else .error (.indexAccessNotU32 n)
  | _ => .error (.indexAccessNotU32 n)

def tryJvalueWithIdx (v : JVal) (idx : Nat) : Res LambdaErr JVal :=
  match v with
  | .arr a => match a[idx]? with
    | some x => .ok x
    | none => .error (.valueNotContainSuchArrayIdx v idx)
  | _ => .error (.arrayAccessorNotMatchValue v idx)

def tryJvalueWithFieldName (v : JVal) (field : String) : Res LambdaErr JVal :=
  match v with
  | .obj _ => match v.getField field with
    | some x => .ok x
    | none => .error (.valueNotContainSuchField v field)
  | _ => .error (.fieldAccessorNotMatchValue v field)

/-- `select_by_jvalue` -/
def selectByJvalue (v accessor : JVal) : Res LambdaErr JVal :=
  match accessor with
  | .str s => tryJvalueWithFieldName v s
  | .num _ => (tryNumberToU32 accessor).bind fun i => tryJvalueWithIdx v i
  | .float _ => .error (.indexAccessNotU32 accessor)
  | a => .error (.scalarAccessorHasInvalidType a)

def liftLambda {α} (r : Res LambdaErr α) : ER α := r.mapErr fun e => .catchable (.lambdaApplierError e)

/-- the JSON value a scalar name denotes (`ScalarRef` → `get_result()` / peeked item) -/
def scalarRefValue (r : ScalarRef) : ER JVal :=
  match r with
  | .value v => .ok v.result
  | .iterableValue f => do
    let x ← f.iterable.peekExpect
    pure (itemIntoResolvedResult x).result

/-- `select_by_path_from_scalar` -/
def selectByPathFromScalar (scalars : Scalars) (v : JVal) : List Accessor → ER JVal
  | [] => .ok v
  | .arrayAccess i :: rest => do
    let v' ← liftLambda (tryJvalueWithIdx v i)
    selectByPathFromScalar scalars v' rest
  | .fieldByName n :: rest => do
    let v' ← liftLambda (tryJvalueWithFieldName v n)
    selectByPathFromScalar scalars v' rest
  | .fieldByScalar s :: rest => do
    let r ← scalars.getValue s
    let a ← scalarRefValue r
    let v' ← liftLambda (selectByJvalue v a)
    selectByPathFromScalar scalars v' rest

/-- `select_by_lambda_from_scalar` -/
def selectByLambdaFromScalar (scalars : Scalars) (v : JVal) (l : Lambda) : ER JVal :=
  match l with
  | .path as => selectByPathFromScalar scalars v as
  | .functorLength =>
    match v with
    | .arr a => .ok (.num a.length)
    | _ => catchable (.lengthFunctorAppliedToNotArray v)

/-- `populate_tetraplet_with_lambda` -/
def populateTetrapletWithLambda (t : Tetraplet) (l : Lambda) : Tetraplet :=
  match l with
  | .path _ => t.addLens l.render
  | .functorLength => { peerPk := "", lens := l.render }

/-! ## resolver (`resolver/resolvable_impl.rs`) -/

abbrev Resolved := JVal × List Tetraplet × Provenance

def resolveConst (c : Ctx) (v : JVal) : Resolved := (v, [Tetraplet.literal c.initPeerId], .literal)

def resolveErrors (c : Ctx) (ie : InstructionError) (lens : Option Lambda) : ER Resolved := do
  let v ← match lens with
    | some l => selectByLambdaFromScalar c.scalars ie.error l
    | none => pure ie.error
  let ts := match ie.tetraplet with
    | some t => [t]
    | none => [Tetraplet.literal c.initPeerId]
  pure (v, ts, ie.provenance)

def resolveValue (c : Ctx) (v : Value) : ER Resolved :=
  match v with
  | .initPeerId => .ok (resolveConst c (.str c.initPeerId))
  | .error lens => resolveErrors c c.error.error lens
  | .lastError lens => resolveErrors c c.lastError.error lens
  | .literal s => .ok (resolveConst c (.str s))
  | .timestamp => .ok (resolveConst c (.num c.timestamp))
  | .ttl => .ok (resolveConst c (.num c.ttl))
  | .boolean b => .ok (resolveConst c (.bool b))
  | .number n => .ok (resolveConst c (.num n))
  | .float r => .ok (resolveConst c (.float r))
  | .emptyArray => .ok (resolveConst c (.arr []))
  | .scalar name => do
    let r ← c.scalars.getValue name
    let (v, t, p) ← r.parts
    pure (v, [t], p)
  | .scalarWL name l => do
    let r ← c.scalars.getValue name
    let (v, t, p) ← r.parts
    let sel ← selectByLambdaFromScalar c.scalars v l
    pure (sel, [populateTetrapletWithLambda t l], p)
  | .canon name => do
    -- `Resolvable for ast::CanonStream`: the whole canon stream as an array, one tetraplet per element
    let cs ← c.scalars.getCanonStream name
    pure (.arr (cs.canonStream.values.map (·.result)), cs.canonStream.values.map (·.tetraplet), .canon cs.cid)
  | .canonWL .. | .canonMap _ | .canonMapWL .. => unmodelled "canon stream operand with lens / canon map"

/-- `try_jvalue_to_string` of triplet parts -/
def resolveToString (c : Ctx) (v : Value) : ER String :=
  match v with
  | .initPeerId => .ok c.initPeerId
  | .literal s => .ok s
  | .scalar name | .scalarWL name _ => do
    let (jv, _, _) ← resolveValue c v
    match jv with
    | .str s => pure s
    | _ => catchable (.nonStringValueInTripletResolution name jv)
  | .canonWL .. | .canonMapWL .. => unmodelled "canon stream in triplet"
  | _ => unmodelled "triplet part"

/-! ## errors → `:error:` / `%last_error%` (`context.rs: set_errors`) -/

def instructionErrorFromExec (e : CatchableErr) (instruction : String) (peerId : Option String) (t : Option Tetraplet) : InstructionError :=
  ⟨errorFromRawFields e.code e.render instruction peerId, t, .literal, none⟩

/-- `ExecutionCtx::set_errors` for a catchable error (uncatchable errors affect nothing):
`%last_error%` is set once until re-enabled, `:error:` is set if enabled and then disabled -/
def Ctx.setErrors (c : Ctx) (e : CatchableErr) (instruction : String) (tetraplet : Option Tetraplet) (useTetrapletAndLogPeerId : Bool) : Ctx :=
  let lastErrorPeerId : String := match tetraplet with
    | some t => if useTetrapletAndLogPeerId then t.peerPk else c.currentPeerId
    | none => c.currentPeerId
  let peerId := if useTetrapletAndLogPeerId then some lastErrorPeerId else none
  { c with
    lastError := if c.lastError.canBeSet && e.affectsLastError then
        { error := instructionErrorFromExec e instruction (some lastErrorPeerId) tetraplet, canBeSet := false }
      else c.lastError,
    error := if c.error.canBeSet then
        { error := instructionErrorFromExec e instruction peerId tetraplet, canBeSet := false }
      else { c.error with canBeSet := false } }

/-- the `execute!` macro: update errors when an instruction other than `call` fails -/
def Ctx.setErrorsOf (c : Ctx) (err : ExecErr) (i : Instr) : Ctx :=
  match err with
  | .catchable e => c.setErrors e i.render none i.logErrorsWithPeerId
  | _ => c

/-! ## CID state -/

def trackValue (env : Env) (s : CidState) (v : JVal) : Cid × CidState :=
  let raw := v.render
  let cid := env.hash raw
  (cid, { s with values := upsert s.values cid raw })

def trackTetraplet (env : Env) (s : CidState) (t : Tetraplet) : Cid × CidState :=
  let cid := env.hash t.json
  (cid, { s with tetraplets := upsert s.tetraplets cid t })

/-- `track_service_result` -/
def trackServiceResult (env : Env) (s : CidState) (v : JVal) (t : Tetraplet) (argumentHash : String) : Cid × CidState :=
  let (vc, s) := trackValue env s v
  let (tc, s) := trackTetraplet env s t
  let agg : ServiceResultAgg := ⟨vc, argumentHash, tc⟩
  let cid := env.hash agg.json
  (cid, { s with serviceResults := upsert s.serviceResults cid agg })

/-- `track_canon_value` -/
def trackCanonValue (env : Env) (s : CidState) (v : ValueAggregate) : Cid × CidState :=
  let (vc, s) := trackValue env s v.result
  let (tc, s) := trackTetraplet env s v.tetraplet
  let agg : CanonElemAgg := ⟨vc, tc, v.provenance⟩
  let cid := env.hash agg.json
  (cid, { s with canonElements := upsert s.canonElements cid agg })

/-- `populate_unseen_cid_context` without the registration: element ids, tetraplet id, canon result id -/
def trackCanonResult (env : Env) (s : CidState) (cs : CanonStream) : Cid × CidState :=
  let (vcs, s) := cs.values.foldl (fun (acc : List Cid × CidState) v => let (cid, s') := trackCanonValue env acc.2 v; (acc.1 ++ [cid], s')) ([], s)
  let (tc, s) := trackTetraplet env s cs.tetraplet
  let agg : CanonResultAgg := ⟨tc, vcs⟩
  let cid := env.hash agg.json
  (cid, { s with canonResults := upsert s.canonResults cid agg })

/-- `get_value_by_cid` -/
def getValueByCid (env : Env) (s : CidState) (cid : Cid) : ER JVal :=
  match lookup s.values cid with
  | none => uncatchable (.valueForCidNotFound "value" cid)
  | some raw =>
    match env.parseJson raw with
    | none => .panic "raw_value.rs:get_value:expect(TODO handle error)"
    | some v => .ok v

def getTetrapletByCid (s : CidState) (cid : Cid) : ER Tetraplet :=
  match lookup s.tetraplets cid with
  | none => uncatchable (.valueForCidNotFound "tetraplet" cid)
  | some t => .ok t

/-- `get_canon_value_by_cid` (the trace position of a canon element is the default `0`) -/
def getCanonValueByCid (env : Env) (s : CidState) (cid : Cid) : ER ValueAggregate :=
  match lookup s.canonElements cid with
  | none => uncatchable (.valueForCidNotFound "canon aggregate" cid)
  | some agg => do
    let v ← getValueByCid env s agg.value
    let t ← getTetrapletByCid s agg.tetraplet
    pure (ValueAggregate.new v t 0 agg.provenance)

/-- `verify_canon` -/
def verifyCanon (expected stored : Tetraplet) : ER Unit :=
  if expected != stored then uncatchable (.instructionParametersMismatch "canon tetraplet" expected.debug stored.debug)
  else .ok ()

/-- `resolve_service_info` (`RawValue::get_value` panics on text that is not JSON) -/
def resolveServiceInfo (env : Env) (s : CidState) (cid : Cid) : ER (JVal × Tetraplet × ServiceResultAgg) :=
  match lookup s.serviceResults cid with
  | none => uncatchable (.valueForCidNotFound "service result aggregate" cid)
  | some agg =>
    match lookup s.values agg.valueCid with
    | none => uncatchable (.valueForCidNotFound "value" agg.valueCid)
    | some raw =>
      match env.parseJson raw with
      | none => .panic "raw_value.rs:get_value:expect(TODO handle error)"
      | some v =>
        match lookup s.tetraplets agg.tetrapletCid with
        | none => uncatchable (.valueForCidNotFound "tetraplet" agg.tetrapletCid)
        | some t => .ok (v, t, agg)

/-- `verify_call` -/
def verifyCall (expectedHash : String) (expected : Tetraplet) (storedHash : String) (stored : Tetraplet) : ER Unit :=
  if expectedHash != storedHash then
    uncatchable (.instructionParametersMismatch "call argument_hash" expectedHash storedHash)
  else if expected != stored then
    uncatchable (.instructionParametersMismatch "call tetraplet" expected.debug stored.debug)
  else .ok ()

def Ctx.recordCallCid (c : Ctx) (peerId : String) (cid : Cid) : Ctx :=
  if peerId == c.currentPeerId then { c with peerCids := c.peerCids ++ [cid] } else c

/-! ## call -/

/-- arguments of a call: values and tetraplets (`collect_args`) -/
def collectArgs (c : Ctx) : List Value → ER (List JVal × List (List Tetraplet))
  | [] => .ok ([], [])
  | a :: rest => do
    let (v, ts, _) ← resolveValue c a
    let (vs, tss) ← collectArgs c rest
    pure (v :: vs, ts :: tss)

/-- `check_output_name` -/
def checkOutputName (c : Ctx) (out : CallOutput) : ER Unit :=
  match out with
  | .scalar name =>
    match c.scalars.getValue name with
    | .ok (.value _) => if c.scalars.variableCouldBeSet name then .ok () else uncatchable (.shadowingIsNotAllowed name)
    | .ok (.iterableValue _) => uncatchable (.iterableShadowing name)
    | .error _ => .ok ()
    | .panic s => .panic s
  | _ => .ok ()

def argsJson (args : List JVal) : String := (JVal.arr args).render

/-- `CallServiceFailed::to_value` -/
def callServiceFailedValue (retCode : Int) (msg : String) : JVal := JVal.mkObj [("ret_code", .num retCode), ("message", .str msg)]

def i32Max : Int := 2147483647

/-- `populate_context_from_peer_service_result` -/
def populateFromPeerServiceResult (env : Env) (c : Ctx) (result : JVal) (t : Tetraplet) (argHash : String) (tracePos : Nat)
    (out : CallOutput) : ER (CallResult × Ctx) :=
  match out with
  | .scalar name => do
    let (cid, cs) := trackServiceResult env c.cid result t argHash
    let c := { c with cid := cs }
    let va : ValueAggregate := ⟨result, t, tracePos, .serviceResult cid⟩
    let sc ← c.scalars.setScalarValue name va
    let c := ({ c with scalars := sc }).recordCallCid t.peerPk cid
    pure (.executed (.scalar cid), c)
  | .stream name pos => do
    let (cid, cs) := trackServiceResult env c.cid result t argHash
    let c := { c with cid := cs }
    let va : ValueAggregate := ⟨result, t, tracePos, .serviceResult cid⟩
    let c ← c.addStreamValue va name .new pos
    let c := c.recordCallCid t.peerPk cid
    -- `executed_stream_stub`: the generation is filled in by compaction
    pure (.executed (.stream cid generationStub), c)
  | .none =>
    let cid := env.hash result.render
    .ok (.executed (.unused cid), c)

/-- `populate_context_from_data` -/
def populateFromData (env : Env) (c : Ctx) (value : ValueRef) (argHash : String) (t : Tetraplet) (tracePos : Nat)
    (out : CallOutput) (src : ValueSource) : ER Ctx :=
  match out, value with
  | .scalar name, .scalar cid => do
    let (v, curT, agg) ← resolveServiceInfo env c.cid cid
    verifyCall argHash t agg.argumentHash curT
    let va : ValueAggregate := ⟨v, t, tracePos, .serviceResult cid⟩
    let sc ← c.scalars.setScalarValue name va
    pure { c with scalars := sc }
  | .stream name pos, .stream cid generation => do
    let (v, curT, agg) ← resolveServiceInfo env c.cid cid
    verifyCall argHash t agg.argumentHash curT
    let va : ValueAggregate := ⟨v, t, tracePos, .serviceResult cid⟩
    let g : Generation := match src with | .previousData => .previous generation | .currentData => .current generation
    c.addStreamValue va name g pos
  | .none, .unused _ => .ok c
  | _, _ => uncatchable .callResultNotCorrespondToInstr

end Aqua.Exec
