import Aqua.Exec.Scalars
/-
Replica of the instruction executor (`air/src/execution_step/instructions/**`, `resolver/**`,
`lambda_applier/**`) for the stream-free fragment: call (scalar / no output), seq, par, xor, match,
mismatch, scalar ap, scalar fold + next, new on scalars, fail, null, never.  Anything else yields
`ExecErr.unmodelled`.  `exec` takes fuel because `next` re-enters the fold body.
-/
namespace Aqua.Exec
open Aqua Aqua.Json Aqua.Air Aqua.Data Aqua.Trace

/-! ## lens applier (`lambda_applier/{applier,utils}.rs`) -/

def tryNumberToU32 (n : JVal) : Res LambdaErr Nat :=
  match n with
  | .num i => if 0 ≤ i ∧ i ≤ 4294967295 then .ok i.toNat else .error (.indexAccessNotU32 n)
  | _ => .error (.indexAccessNotU32 n)

def tryJvalueWithIdx (v : JVal) (idx : Nat) : Res LambdaErr JVal :=
  match v with
  | .arr a => match a[idx]? with
    | some x => .ok x
    | none => .error (.valueNotContainSuchArrayIdx v idx)
  | _ => .error (.arrayAccessorNotMatchValue v idx)

def tryJvalueWithFieldName (v : JVal) (field : String) : Res LambdaErr JVal :=
  match v with
  | .obj _ => match v.getField field with
    | some x => .ok x
    | none => .error (.valueNotContainSuchField v field)
  | _ => .error (.fieldAccessorNotMatchValue v field)

/-- `select_by_jvalue` -/
def selectByJvalue (v accessor : JVal) : Res LambdaErr JVal :=
  match accessor with
  | .str s => tryJvalueWithFieldName v s
  | .num _ => (tryNumberToU32 accessor).bind fun i => tryJvalueWithIdx v i
  | .float _ => .error (.indexAccessNotU32 accessor)
  | a => .error (.scalarAccessorHasInvalidType a)

def liftLambda {α} (r : Res LambdaErr α) : ER α := r.mapErr fun e => .catchable (.lambdaApplierError e)

/-- the JSON value a scalar name denotes (`ScalarRef` → `get_result()` / peeked item) -/
def scalarRefValue (r : ScalarRef) : ER JVal :=
  match r with
  | .value v => .ok v.result
  | .iterableValue f => do
    let x ← f.iterable.peekExpect
    pure (itemIntoResolvedResult x).result

/-- `select_by_path_from_scalar` -/
def selectByPathFromScalar (scalars : Scalars) (v : JVal) : List Accessor → ER JVal
  | [] => .ok v
  | .arrayAccess i :: rest => do
    let v' ← liftLambda (tryJvalueWithIdx v i)
    selectByPathFromScalar scalars v' rest
  | .fieldByName n :: rest => do
    let v' ← liftLambda (tryJvalueWithFieldName v n)
    selectByPathFromScalar scalars v' rest
  | .fieldByScalar s :: rest => do
    let r ← scalars.getValue s
    let a ← scalarRefValue r
    let v' ← liftLambda (selectByJvalue v a)
    selectByPathFromScalar scalars v' rest

/-- `select_by_lambda_from_scalar` -/
def selectByLambdaFromScalar (scalars : Scalars) (v : JVal) (l : Lambda) : ER JVal :=
  match l with
  | .path as => selectByPathFromScalar scalars v as
  | .functorLength =>
    match v with
    | .arr a => .ok (.num a.length)
    | _ => catchable (.lengthFunctorAppliedToNotArray v)

/-- `populate_tetraplet_with_lambda` -/
def populateTetrapletWithLambda (t : Tetraplet) (l : Lambda) : Tetraplet :=
  match l with
  | .path _ => t.addLens l.render
  | .functorLength => { peerPk := "", lens := l.render }

/-! ## resolver (`resolver/resolvable_impl.rs`) -/

abbrev Resolved := JVal × List Tetraplet × Provenance

def resolveConst (c : Ctx) (v : JVal) : Resolved := (v, [Tetraplet.literal c.initPeerId], .literal)

def resolveErrors (c : Ctx) (ie : InstructionError) (lens : Option Lambda) : ER Resolved := do
  let v ← match lens with
    | some l => selectByLambdaFromScalar c.scalars ie.error l
    | none => pure ie.error
  let ts := match ie.tetraplet with
    | some t => [t]
    | none => [Tetraplet.literal c.initPeerId]
  pure (v, ts, ie.provenance)

def resolveValue (c : Ctx) (v : Value) : ER Resolved :=
  match v with
  | .initPeerId => .ok (resolveConst c (.str c.initPeerId))
  | .error lens => resolveErrors c c.error.error lens
  | .lastError lens => resolveErrors c c.lastError.error lens
  | .literal s => .ok (resolveConst c (.str s))
  | .timestamp => .ok (resolveConst c (.num c.timestamp))
  | .ttl => .ok (resolveConst c (.num c.ttl))
  | .boolean b => .ok (resolveConst c (.bool b))
  | .number n => .ok (resolveConst c (.num n))
  | .float r => .ok (resolveConst c (.float r))
  | .emptyArray => .ok (resolveConst c (.arr []))
  | .scalar name => do
    let r ← c.scalars.getValue name
    let (v, t, p) ← r.parts
    pure (v, [t], p)
  | .scalarWL name l => do
    let r ← c.scalars.getValue name
    let (v, t, p) ← r.parts
    let sel ← selectByLambdaFromScalar c.scalars v l
    pure (sel, [populateTetrapletWithLambda t l], p)
  | .canon _ | .canonWL .. | .canonMap _ | .canonMapWL .. => unmodelled "canon stream operand"

/-- `try_jvalue_to_string` of triplet parts -/
def resolveToString (c : Ctx) (v : Value) : ER String :=
  match v with
  | .initPeerId => .ok c.initPeerId
  | .literal s => .ok s
  | .scalar name | .scalarWL name _ => do
    let (jv, _, _) ← resolveValue c v
    match jv with
    | .str s => pure s
    | _ => catchable (.nonStringValueInTripletResolution name jv)
  | .canonWL .. | .canonMapWL .. => unmodelled "canon stream in triplet"
  | _ => unmodelled "triplet part"

/-! ## errors → `:error:` / `%last_error%` (`context.rs: set_errors`) -/

def instructionErrorFromExec (e : CatchableErr) (instruction : String) (peerId : Option String) (t : Option Tetraplet) : InstructionError :=
  ⟨errorFromRawFields e.code e.render instruction peerId, t, .literal, none⟩

/-- `ExecutionCtx::set_errors` for a catchable error (uncatchable errors affect nothing) -/
def Ctx.setErrors (c : Ctx) (e : CatchableErr) (instruction : String) (tetraplet : Option Tetraplet) (useTetrapletAndLogPeerId : Bool) : Ctx :=
  let lastErrorPeerId : String := match tetraplet with
    | some t => if useTetrapletAndLogPeerId then t.peerPk else c.currentPeerId
    | none => c.currentPeerId
  let c := if c.lastError.canBeSet && e.affectsLastError then
      { c with lastError := { error := instructionErrorFromExec e instruction (some lastErrorPeerId) tetraplet, canBeSet := false } }
    else c
  let peerId := if useTetrapletAndLogPeerId then some lastErrorPeerId else none
  let c := if c.error.canBeSet then
      { c with error := { c.error with error := instructionErrorFromExec e instruction peerId tetraplet } }
    else c
  { c with error := { c.error with canBeSet := false } }

/-- the `execute!` macro: update errors when an instruction other than `call` fails -/
def Ctx.setErrorsOf (c : Ctx) (err : ExecErr) (i : Instr) : Ctx :=
  match err with
  | .catchable e => c.setErrors e i.render none i.logErrorsWithPeerId
  | _ => c

/-! ## CID state -/

def trackValue (env : Env) (s : CidState) (v : JVal) : Cid × CidState :=
  let raw := v.render
  let cid := env.hash raw
  (cid, { s with values := upsert s.values cid raw })

def trackTetraplet (env : Env) (s : CidState) (t : Tetraplet) : Cid × CidState :=
  let cid := env.hash t.json
  (cid, { s with tetraplets := upsert s.tetraplets cid t })

/-- `track_service_result` -/
def trackServiceResult (env : Env) (s : CidState) (v : JVal) (t : Tetraplet) (argumentHash : String) : Cid × CidState :=
  let (vc, s) := trackValue env s v
  let (tc, s) := trackTetraplet env s t
  let agg : ServiceResultAgg := ⟨vc, argumentHash, tc⟩
  let cid := env.hash agg.json
  (cid, { s with serviceResults := upsert s.serviceResults cid agg })

/-- `resolve_service_info` (`RawValue::get_value` panics on text that is not JSON) -/
def resolveServiceInfo (env : Env) (s : CidState) (cid : Cid) : ER (JVal × Tetraplet × ServiceResultAgg) :=
  match lookup s.serviceResults cid with
  | none => uncatchable (.valueForCidNotFound "service result aggregate" cid)
  | some agg =>
    match lookup s.values agg.valueCid with
    | none => uncatchable (.valueForCidNotFound "value" agg.valueCid)
    | some raw =>
      match env.parseJson raw with
      | none => .panic "raw_value.rs:get_value:expect(TODO handle error)"
      | some v =>
        match lookup s.tetraplets agg.tetrapletCid with
        | none => uncatchable (.valueForCidNotFound "tetraplet" agg.tetrapletCid)
        | some t => .ok (v, t, agg)

/-- `verify_call` -/
def verifyCall (expectedHash : String) (expected : Tetraplet) (storedHash : String) (stored : Tetraplet) : ER Unit :=
  if expectedHash != storedHash then
    uncatchable (.instructionParametersMismatch "call argument_hash" expectedHash storedHash)
  else if expected != stored then
    uncatchable (.instructionParametersMismatch "call tetraplet" expected.debug stored.debug)
  else .ok ()

def Ctx.recordCallCid (c : Ctx) (peerId : String) (cid : Cid) : Ctx :=
  if peerId == c.currentPeerId then { c with peerCids := c.peerCids ++ [cid] } else c

/-! ## call -/

/-- arguments of a call: values and tetraplets (`collect_args`) -/
def collectArgs (c : Ctx) : List Value → ER (List JVal × List (List Tetraplet))
  | [] => .ok ([], [])
  | a :: rest => do
    let (v, ts, _) ← resolveValue c a
    let (vs, tss) ← collectArgs c rest
    pure (v :: vs, ts :: tss)

/-- `check_output_name` -/
def checkOutputName (c : Ctx) (out : CallOutput) : ER Unit :=
  match out with
  | .scalar name =>
    match c.scalars.getValue name with
    | .ok (.value _) => if c.scalars.variableCouldBeSet name then .ok () else uncatchable (.shadowingIsNotAllowed name)
    | .ok (.iterableValue _) => uncatchable (.iterableShadowing name)
    | .error _ => .ok ()
    | .panic s => .panic s
  | _ => .ok ()

def argsJson (args : List JVal) : String := (JVal.arr args).render

/-- `CallServiceFailed::to_value` -/
def callServiceFailedValue (retCode : Int) (msg : String) : JVal := JVal.mkObj [("ret_code", .num retCode), ("message", .str msg)]

def i32Max : Int := 2147483647

/-- `populate_context_from_peer_service_result` -/
def populateFromPeerServiceResult (env : Env) (c : Ctx) (result : JVal) (t : Tetraplet) (argHash : String) (tracePos : Nat)
    (out : CallOutput) : ER (CallResult × Ctx) :=
  match out with
  | .scalar name => do
    let (cid, cs) := trackServiceResult env c.cid result t argHash
    let c := { c with cid := cs }
    let va : ValueAggregate := ⟨result, t, tracePos, .serviceResult cid⟩
    let sc ← c.scalars.setScalarValue name va
    let c := ({ c with scalars := sc }).recordCallCid t.peerPk cid
    pure (.executed (.scalar cid), c)
  | .stream .. => unmodelled "call with stream output"
  | .none =>
    let cid := env.hash result.render
    .ok (.executed (.unused cid), c)

/-- `populate_context_from_data` -/
def populateFromData (env : Env) (c : Ctx) (value : ValueRef) (argHash : String) (t : Tetraplet) (tracePos : Nat)
    (out : CallOutput) : ER Ctx :=
  match out, value with
  | .scalar name, .scalar cid => do
    let (v, curT, agg) ← resolveServiceInfo env c.cid cid
    verifyCall argHash t agg.argumentHash curT
    let va : ValueAggregate := ⟨v, t, tracePos, .serviceResult cid⟩
    let sc ← c.scalars.setScalarValue name va
    pure { c with scalars := sc }
  | .stream .., .stream .. => unmodelled "call with stream output"
  | .none, .unused _ => .ok c
  | _, _ => uncatchable .callResultNotCorrespondToInstr

/-! ## the execution monad: state survives errors (Rust mutates `&mut ExecutionCtx` and then returns `Err`) -/

def M (α : Type) := Ctx → Res ExecErr α × Ctx

instance : Monad M where
  pure a := fun c => (.ok a, c)
  bind m f := fun c =>
    match m c with
    | (.ok a, c') => f a c'
    | (.error e, c') => (.error e, c')
    | (.panic s, c') => (.panic s, c')

def getCtx : M Ctx := fun c => (.ok c, c)
def setCtx (c : Ctx) : M Unit := fun _ => (.ok (), c)
def modifyCtx (f : Ctx → Ctx) : M Unit := fun c => (.ok (), f c)
def throwE {α} (e : ExecErr) : M α := fun c => (.error e, c)
def liftER {α} (r : ER α) : M α := fun c => (r, c)
/-- run a computation and hand back its result instead of propagating the error -/
def tryM {α} (m : M α) : M (Res ExecErr α) := fun c => let (r, c') := m c; (.ok r, c')
/-- trace-handler operation that returns a value and a new handler -/
def liftTH {α} (i : Instr) (f : TraceHandler → TR (α × TraceHandler)) : M α := fun c =>
  match traceToExec (f c.th) i with
  | .ok (a, th) => (.ok a, { c with th := th })
  | .error e => (.error e, c)
  | .panic s => (.panic s, c)
def liftTH' (i : Instr) (f : TraceHandler → TR TraceHandler) : M Unit :=
  liftTH i (fun th => (f th).bind fun th' => .ok ((), th'))

def makeSubgraphIncomplete : M Unit := modifyCtx fun c => { c with subgraphComplete := false }

/-- the `joinable!` macro: joinable errors become `Ok(none)` with an incomplete subgraph -/
def joinable {α} (m : M α) : M (Option α) := fun c =>
  match m c with
  | (.ok a, c') => (.ok (some a), c')
  | (.error e, c') => if e.isJoinable then (.ok none, { c' with subgraphComplete := false }) else (.error e, c')
  | (.panic s, c') => (.panic s, c')

/-! ## call (`instructions/call.rs`, `call/{resolved_call,prev_result_handler,call_result_setter}.rs`) -/

def meetCallEnd (cr : CallResult) : M Unit := modifyCtx fun c => { c with th := c.th.meetCallEnd cr }

/-- `update_state_with_service_result` -/
def updateStateWithServiceResult (env : Env) (t : Tetraplet) (argHash : String) (out : CallOutput)
    (sr : CallServiceResult) : M Unit := do
  let c ← getCtx
  -- handle_service_error
  if sr.retCode != 0 then
    let failed := callServiceFailedValue sr.retCode sr.result
    let (cid, cs) := trackServiceResult env c.cid failed t argHash
    setCtx (({ c with cid := cs }).recordCallCid t.peerPk cid)
    meetCallEnd (.failed cid)
    throwE (.catchable (.localServiceError sr.retCode sr.result))
  else
    -- try_to_service_result
    match env.parseJson sr.result with
    | none =>
      -- `{service_result}` = "ret_code: {}, result: '{}'"; the serde error text is not modelled
      unmodelledM "service result that is not JSON (serde error text)"
    | some result =>
      let tracePos := c.th.tracePos
      let (cr, c') ← liftER (populateFromPeerServiceResult env c result t argHash tracePos out)
      setCtx c'
      meetCallEnd cr
where
  unmodelledM {α} (w : String) : M α := throwE (.unmodelled w)

inductive StateDescriptor where
  | mk (shouldExecute : Bool) (prevState : Option CallResult)

def StateDescriptor.maybeSetPrevState : StateDescriptor → M Unit
  | .mk _ (some cr) => meetCallEnd cr
  | .mk _ none => pure ()

/-- `handle_prev_state` -/
def handlePrevState (env : Env) (met : MetCallResult) (t : Tetraplet) (argHash : Option String) (out : CallOutput) :
    M StateDescriptor := do
  let c ← getCtx
  match met.result with
  | .failed failedCid =>
    let (errValue, curT, agg) ← liftER (resolveServiceInfo env c.cid failedCid)
    let ah ← match argHash with
      | some h => pure h
      | none => (fun c => (Res.panic "prev_result_handler.rs:handle_prev_state:argument_hash.unwrap()(Failed)", c) : M String)
    liftER (verifyCall ah t agg.argumentHash curT)
    -- serde_json::from_value::<CallServiceFailed>
    let retCode := errValue.getField "ret_code"
    let message := errValue.getField "message"
    match retCode, message with
    | some (.num rc), some (.str msg) =>
      if rc < -2147483648 ∨ rc > 2147483647 then throwE (.uncatchable .malformedCallServiceFailed) else
      makeSubgraphIncomplete
      modifyCtx fun c => c.recordCallCid t.peerPk failedCid
      meetCallEnd met.result
      throwE (.catchable (.localServiceError rc msg))
    | _, _ => throwE (.uncatchable .malformedCallServiceFailed)
  | .requestSentBy (.peerIdWithCallId peer callId) =>
    if peer == c.currentPeerId then
      let key := toString callId
      match lookup c.callResults key with
      | some sr =>
        setCtx { c with callResults := c.callResults.filter (fun (k, _) => k != key) }
        let ah ← match argHash with
          | some h => pure h
          | none => (fun c => (Res.panic "prev_result_handler.rs:handle_prev_state:argument_hash.expect(Result for joinable error)", c) : M String)
        updateStateWithServiceResult env t ah out sr
        pure (.mk false none)
      | none =>
        makeSubgraphIncomplete
        pure (.mk false (some met.result))
    else sentByOther c
  | .requestSentBy _ => sentByOther c
  | .executed value =>
    let ah ← match argHash with
      | some h => pure h
      | none => (fun c => (Res.panic "prev_result_handler.rs:handle_prev_state:argument_hash.unwrap()(Executed)", c) : M String)
    let c' ← liftER (populateFromData env c value ah t met.tracePos out)
    setCtx c'
    match value with
    | .scalar cid | .stream cid _ => modifyCtx fun c => c.recordCallCid t.peerPk cid
    | .unused _ => pure ()
    meetCallEnd (.executed value)
    pure (.mk false none)
where
  sentByOther (c : Ctx) : M StateDescriptor :=
    if t.peerPk == c.currentPeerId then pure (.mk true (some met.result))
    else do
      makeSubgraphIncomplete
      pure (.mk false (some met.result))

/-- `Call::execute` + `ResolvedCall::{new,execute}` + `set_errors` of call.rs -/
def execCall (env : Env) (i : Instr) (peer svc func : Value) (args : List Value) (out : CallOutput) : M Unit := do
  -- ResolvedCall::new (joinable, errors set without tetraplet)
  let resolved ← joinable (withCallErrors none (do
    let c ← getCtx
    let p ← liftER (resolveToString c peer)
    let s ← liftER (resolveToString c svc)
    let f ← liftER (resolveToString c func)
    liftER (checkOutputName c out)
    pure ({ peerPk := p, serviceId := s, functionName := f } : Tetraplet)))
  match resolved with
  | none => pure ()
  | some t =>
    let _ ← joinable (withCallErrors (some t) (resolvedExecute t))
    pure ()
where
  withCallErrors {α} (t : Option Tetraplet) (m : M α) : M α := fun c =>
    match m c with
    | (.error (.catchable e), c') =>
      -- joinable errors are turned into Ok by the caller *before* `map_err(set_errors)` runs
      if e.isJoinable then (.error (.catchable e), c')
      else (.error (.catchable e), c'.setErrors e i.render t true)
    | r => r
  resolvedExecute (t : Tetraplet) : M Unit := do
    let c ← getCtx
    -- check_args: joinable errors are suppressed, others propagate
    let checked : Option (List JVal) ← (fun c =>
      match collectArgs c args with
      | .ok (vs, _) => (.ok (some vs), c)
      | .error e => if e.isJoinable then (.ok none, c) else (.error e, c)
      | .panic s => (.panic s, c) : M (Option (List JVal)))
    let argHash : Option String := checked.map fun vs => env.hash (argsJson vs)
    -- prepare_current_executed_state
    let met ← liftTH i (fun th => th.meetCallStart)
    let state ← match met with
      | .met m => handlePrevState env m t argHash out
      | .notMet => pure (StateDescriptor.mk true none)
    let .mk shouldExecute _ := state
    if !shouldExecute then
      state.maybeSetPrevState
    else if t.peerPk != c.currentPeerId then
      -- handle_remote_call
      modifyCtx fun c => { c with nextPeerPks := c.nextPeerPks ++ [t.peerPk], subgraphComplete := false }
      let c ← getCtx
      meetCallEnd (.requestSentBy (.peerId c.currentPeerId))
    else
      -- prepare_request_params
      let c ← getCtx
      match collectArgs c args with
      | .ok (vs, tss) =>
        if c.lastCallRequestId + 1 > u32Max then (fun c => (Res.panic "context.rs:next_call_request_id:last_call_request_id+=1", c) : M Unit) else
        let callId := c.lastCallRequestId + 1
        setCtx { c with lastCallRequestId := callId,
                        callRequests := c.callRequests ++ [(callId, ⟨t.serviceId, t.functionName, vs, tss⟩)],
                        subgraphComplete := false }
        meetCallEnd (.requestSentBy (.peerIdWithCallId c.currentPeerId callId))
      | .error e =>
        if e.isJoinable then do state.maybeSetPrevState; throwE e else throwE e
      | .panic s => (fun c => (Res.panic s, c) : M Unit)

end Aqua.Exec
