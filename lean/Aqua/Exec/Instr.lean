import Aqua.Exec.Lens
/-
Replica of the instruction executor (`air/src/execution_step/instructions/**`, `resolver/**`,
`lambda_applier/**`): the resolver (scalars, canon streams, canon stream maps, with and without lens),
errors → `:error:` / `%last_error%`, the CID state, and the parts of `call` that bind results.
`exec` (in `Exec.lean`) takes fuel because `next` re-enters the fold body.
-/
namespace Aqua.Exec
open Aqua Aqua.Json Aqua.Air Aqua.Data Aqua.Trace

/-! ## canon streams / canon stream maps as values (`value_types/jvaluable/{canon_stream,canon_stream_map}.rs`,
`value_types/canon_stream_map.rs`, the tetraplet part of `lambda_applier/applier.rs`) -/

/-- the value part of a canon map, on which the lens applier of `Lens.lean` is specified -/
def CanonStreamMapAgg.toLens (m : CanonStreamMapAgg) : Lens.CanonStreamMap :=
  ⟨m.values.map (·.result), m.map.map fun x => (x.1, x.2.values.map (·.result))⟩

/-- `CanonStreamMap::index` (`HashMap::get`) -/
def CanonStreamMapAgg.index (m : CanonStreamMapAgg) (k : Lens.StreamMapKey) : Option CanonStream :=
  (m.map.find? (fun x => x.1 = k)).map (·.2)

/-- `CanonStreamMap::as_jvalue` (see `Lens.CanonStreamMap.asJvalue` for the hash-order caveat when two keys
render to the same text) -/
def CanonStreamMapAgg.asJvalue (m : CanonStreamMapAgg) : JVal := m.toLens.asJvalue

/-- `CanonStreamMap::is_empty` (`self.map.is_empty()`) -/
def CanonStreamMapAgg.isEmpty (m : CanonStreamMapAgg) : Bool := m.map.isEmpty

/-- `get_value_from_obj` on an aggregate: the `value` member with the pair's tetraplet, position, provenance -/
def getValueFromObjAgg (kv : ValueAggregate) : ER ValueAggregate :=
  (Lens.getValueFromObj kv.result).bind fun v => .ok (ValueAggregate.new v kv.tetraplet kv.tracePos kv.provenance)

/-- `map.entry(key).or_insert(CanonStream::new(vec![], tetraplet)).push(value)` -/
def entryPushAgg (m : List (Lens.StreamMapKey × CanonStream)) (t : Tetraplet) (k : Lens.StreamMapKey) (v : ValueAggregate) :
    List (Lens.StreamMapKey × CanonStream) :=
  match m with
  | [] => [(k, ⟨[v], t⟩)]
  | (k', cs) :: rest => if k' = k then (k', { cs with values := cs.values ++ [v] }) :: rest else (k', cs) :: entryPushAgg rest t k v

/-- the loop of `CanonStreamMap::from_canon_stream` -/
def fromCanonStreamLoopAgg (t : Tetraplet) (m : List (Lens.StreamMapKey × CanonStream)) : List ValueAggregate → ER (List (Lens.StreamMapKey × CanonStream))
  | [] => .ok m
  | kv :: rest =>
    match Lens.StreamMapKey.fromKvpairOwned kv.result with
    | none => uncatchable .streamMapKeyError
    | some key =>
      match getValueFromObjAgg kv with
      | .ok v => fromCanonStreamLoopAgg t (entryPushAgg m t key v) rest
      | .error e => .error e
      | .panic s => .panic s

/-- `CanonStreamMap::from_canon_stream` -/
def CanonStreamMapAgg.fromCanonStream (cs : CanonStream) : ER CanonStreamMapAgg :=
  match fromCanonStreamLoopAgg cs.tetraplet [] cs.values with
  | .ok m => .ok ⟨cs.values, m, cs.tetraplet⟩
  | .error e => .error e
  | .panic s => .panic s

def lensOfLambda {α} (l : Lambda) (k : Lens.LambdaAST → ER α) : ER α :=
  match Lens.LambdaAST.ofLambda l with
  | some lam => k lam
  | none => unmodelled "lens with an empty path (not constructible: `NonEmpty` in Rust)"

/-- `JValuable for &CanonStream :: apply_lambda_with_tetraplets`: an indexed element brings its own tetraplet and
provenance; the functor result gets the current peer with the lens text in the *service* field (sic) and the
root provenance -/
def canonStreamApplyLambda (c : Ctx) (cs : CanonStream) (l : Lambda) (rootProvenance : Provenance) : ER (JVal × Tetraplet × Provenance) :=
  lensOfLambda l fun lam =>
    match Lens.selectByLambdaFromStream c.scalars (cs.values.map (·.result)) lam with
    | .ok r =>
      match r.tetrapletIdx with
      | some idx =>
        match cs.values[idx]? with
        | some va => .ok (r.result, va.tetraplet, va.provenance)
        | none => .panic "jvaluable/canon_stream.rs:apply_lambda_with_tetraplets:nth(idx).expect(TETRAPLET_IDX_CORRECT)"
      | none => .ok (r.result, { peerPk := c.currentPeerId, serviceId := l.render }, rootProvenance)
    | .error e => .error e
    | .panic s => .panic s

/-- `update_tetraplet_with_path` -/
def updateTetrapletWithPath (t : Tetraplet) (path : String) (prefixWithPath : Bool) : Tetraplet :=
  { t with lens := if prefixWithPath then t.lens ++ path else path }

/-- tetraplet part of `select_by_path_from_canon_map_stream` (the value part is `Lens.selectByPathFromCanonMapStream`) -/
def canonMapStreamTetraplet (scalars : Scalars) (stream : List ValueAggregate) (h : Lens.ValueAccessor) (body : List Accessor) : ER Tetraplet :=
  match Lens.splitToIdx scalars h with
  | .ok idx =>
    match stream[idx]? with
    | none => lambdaErr (.canonStreamNotHaveEnoughValues stream.length idx)
    | some va =>
      if body.isEmpty then .ok va.tetraplet
      else .ok (updateTetrapletWithPath va.tetraplet ("." ++ ".".intercalate (body.map Accessor.render)) true)
  | .error e => .error e
  | .panic s => .panic s

/-- tetraplet part of `select_by_lambda_from_canon_map` (`MapLensResult.tetraplet`) -/
def canonMapLensTetraplet (c : Ctx) (m : CanonStreamMapAgg) (l : Lambda) : ER Tetraplet :=
  match l with
  | .functorLength => .ok { peerPk := c.currentPeerId, lens := "length" }     -- `MapLensResult::with_functor`: `functor.to_string()`
  | .path [] => unmodelled "lens with an empty path (not constructible: `NonEmpty` in Rust)"
  | .path (a :: body) =>
    match Lens.canonMapKeyOfPrefix c.scalars (.ofAccessor a) with
    | .ok key =>
      match body, m.index key with
      | b :: bs, some cs => canonMapStreamTetraplet c.scalars cs.values (.ofAccessor b) bs
      | [], _ => .ok (updateTetrapletWithPath m.tetraplet l.render false)
      | b :: bs, none => canonMapStreamTetraplet c.scalars [] (.ofAccessor b) bs
    | .error e => .error e
    | .panic s => .panic s

/-- `JValuable for &CanonStreamMap :: apply_lambda_with_tetraplets`: value by the lens applier of `Lens.lean`,
tetraplet as above, provenance borrowed from the map -/
def canonMapApplyLambda (c : Ctx) (m : CanonStreamMapAgg) (l : Lambda) (rootProvenance : Provenance) : ER (JVal × Tetraplet × Provenance) :=
  lensOfLambda l fun lam =>
    match Lens.selectByLambdaFromCanonMap c.scalars m.toLens lam with
    | .ok v => (canonMapLensTetraplet c m l).bind fun t => .ok (v, t, rootProvenance)
    | .error e => .error e
    | .panic s => .panic s

/-! ## resolver (`resolver/resolvable_impl.rs`) -/

abbrev Resolved := JVal × List Tetraplet × Provenance

def resolveConst (c : Ctx) (v : JVal) : Resolved := (v, [Tetraplet.literal c.initPeerId], .literal)

def resolveErrors (c : Ctx) (ie : InstructionError) (lens : Option Lambda) : ER Resolved := do
  let v ← match lens with
    | some l => selectByLambdaFromScalar c.scalars ie.error l
    | none => pure ie.error
  let ts := match ie.tetraplet with
    | some t => [t]
    | none => [Tetraplet.literal c.initPeerId]
  pure (v, ts, ie.provenance)

def resolveValue (c : Ctx) (v : Value) : ER Resolved :=
  match v with
  | .initPeerId => .ok (resolveConst c (.str c.initPeerId))
  | .error lens => resolveErrors c c.error.error lens
  | .lastError lens => resolveErrors c c.lastError.error lens
  | .literal s => .ok (resolveConst c (.str s))
  | .timestamp => .ok (resolveConst c (.num c.timestamp))
  | .ttl => .ok (resolveConst c (.num c.ttl))
  | .boolean b => .ok (resolveConst c (.bool b))
  | .number n => .ok (resolveConst c (.num n))
  | .float r => .ok (resolveConst c (.float r))
  | .emptyArray => .ok (resolveConst c (.arr []))
  | .scalar name => do
    let r ← c.scalars.getValue name
    let (v, t, p) ← r.parts
    pure (v, [t], p)
  | .scalarWL name l => do
    let r ← c.scalars.getValue name
    let (v, t, p) ← r.parts
    let sel ← selectByLambdaFromScalar c.scalars v l
    pure (sel, [populateTetrapletWithLambda t l], p)
  | .canon name => do
    -- `Resolvable for ast::CanonStream`: the whole canon stream as an array, one tetraplet per element
    let cs ← c.scalars.getCanonStream name
    pure (.arr (cs.canonStream.values.map (·.result)), cs.canonStream.values.map (·.tetraplet), .canon cs.cid)
  | .canonWL name l => do
    -- `Resolvable for ast::CanonStreamWithLambda`
    let cs ← c.scalars.getCanonStream name
    let (v, t, p) ← canonStreamApplyLambda c cs.canonStream l (.canon cs.cid)
    pure (v, [t], p)
  | .canonMap name => do
    -- `Resolvable for ast::CanonStreamMap`: the map as an object, one tetraplet per key-value pair
    let cm ← c.scalars.getCanonMap name
    pure (cm.canonStreamMap.asJvalue, cm.canonStreamMap.values.map (·.tetraplet), .canon cm.cid)
  | .canonMapWL name l => do
    -- `Resolvable for ast::CanonStreamMapWithLambda`
    let cm ← c.scalars.getCanonMap name
    let (v, t, p) ← canonMapApplyLambda c cm.canonStreamMap l (.canon cm.cid)
    pure (v, [t], p)

/-- `try_jvalue_to_string` of triplet parts -/
def resolveToString (c : Ctx) (v : Value) : ER String :=
  match v with
  | .initPeerId => .ok c.initPeerId
  | .literal s => .ok s
  | .scalar name | .scalarWL name _ | .canonWL name _ | .canonMapWL name _ => do
    let (jv, _, _) ← resolveValue c v
    match jv with
    | .str s => pure s
    | _ => catchable (.nonStringValueInTripletResolution name jv)
  | _ => unmodelled "triplet part (not in `ResolvableToPeerIdVariable` / `ResolvableToStringVariable`)"

/-! ## errors → `:error:` / `%last_error%` (`context.rs: set_errors`) -/

def instructionErrorFromExec (e : CatchableErr) (instruction : String) (peerId : Option String) (t : Option Tetraplet) : InstructionError :=
  ⟨errorFromRawFields e.code e.render instruction peerId, t, .literal, none⟩

/-- `ExecutionCtx::set_errors` for a catchable error (uncatchable errors affect nothing):
`%last_error%` is set once until re-enabled, `:error:` is set if enabled and then disabled -/
def Ctx.setErrors (c : Ctx) (e : CatchableErr) (instruction : String) (tetraplet : Option Tetraplet) (useTetrapletAndLogPeerId : Bool) : Ctx :=
  let lastErrorPeerId : String := match tetraplet with
    | some t => if useTetrapletAndLogPeerId then t.peerPk else c.currentPeerId
    | none => c.currentPeerId
  let peerId := if useTetrapletAndLogPeerId then some lastErrorPeerId else none
  { c with
    lastError := if c.lastError.canBeSet && e.affectsLastError then
        { error := instructionErrorFromExec e instruction (some lastErrorPeerId) tetraplet, canBeSet := false }
      else c.lastError,
    error := if c.error.canBeSet then
        { error := instructionErrorFromExec e instruction peerId tetraplet, canBeSet := false }
      else { c.error with canBeSet := false } }

/-- the `execute!` macro: update errors when an instruction other than `call` fails -/
def Ctx.setErrorsOf (c : Ctx) (err : ExecErr) (i : Instr) : Ctx :=
  match err with
  | .catchable e => c.setErrors e i.render none i.logErrorsWithPeerId
  | _ => c

/-! ## CID state -/

def trackValue (env : Env) (s : CidState) (v : JVal) : Cid × CidState :=
  let raw := v.render
  let cid := env.hash raw
  (cid, { s with values := upsert s.values cid raw })

def trackTetraplet (env : Env) (s : CidState) (t : Tetraplet) : Cid × CidState :=
  let cid := env.hash t.json
  (cid, { s with tetraplets := upsert s.tetraplets cid t })

/-- `track_service_result` -/
def trackServiceResult (env : Env) (s : CidState) (v : JVal) (t : Tetraplet) (argumentHash : String) : Cid × CidState :=
  let (vc, s) := trackValue env s v
  let (tc, s) := trackTetraplet env s t
  let agg : ServiceResultAgg := ⟨vc, argumentHash, tc⟩
  let cid := env.hash agg.json
  (cid, { s with serviceResults := upsert s.serviceResults cid agg })

/-- `track_canon_value` -/
def trackCanonValue (env : Env) (s : CidState) (v : ValueAggregate) : Cid × CidState :=
  let (vc, s) := trackValue env s v.result
  let (tc, s) := trackTetraplet env s v.tetraplet
  let agg : CanonElemAgg := ⟨vc, tc, v.provenance⟩
  let cid := env.hash agg.json
  (cid, { s with canonElements := upsert s.canonElements cid agg })

/-- `populate_unseen_cid_context` without the registration: element ids, tetraplet id, canon result id -/
def trackCanonResult (env : Env) (s : CidState) (cs : CanonStream) : Cid × CidState :=
  let (vcs, s) := cs.values.foldl (fun (acc : List Cid × CidState) v => let (cid, s') := trackCanonValue env acc.2 v; (acc.1 ++ [cid], s')) ([], s)
  let (tc, s) := trackTetraplet env s cs.tetraplet
  let agg : CanonResultAgg := ⟨tc, vcs⟩
  let cid := env.hash agg.json
  (cid, { s with canonResults := upsert s.canonResults cid agg })

/-- `get_value_by_cid` -/
def getValueByCid (env : Env) (s : CidState) (cid : Cid) : ER JVal :=
  match lookup s.values cid with
  | none => uncatchable (.valueForCidNotFound "value" cid)
  | some raw =>
    match env.parseJson raw with
    | none => .panic "raw_value.rs:get_value:expect(TODO handle error)"
    | some v => .ok v

def getTetrapletByCid (s : CidState) (cid : Cid) : ER Tetraplet :=
  match lookup s.tetraplets cid with
  | none => uncatchable (.valueForCidNotFound "tetraplet" cid)
  | some t => .ok t

/-- `get_canon_value_by_cid` (the trace position of a canon element is the default `0`) -/
def getCanonValueByCid (env : Env) (s : CidState) (cid : Cid) : ER ValueAggregate :=
  match lookup s.canonElements cid with
  | none => uncatchable (.valueForCidNotFound "canon aggregate" cid)
  | some agg => do
    let v ← getValueByCid env s agg.value
    let t ← getTetrapletByCid s agg.tetraplet
    pure (ValueAggregate.new v t 0 agg.provenance)

/-- `verify_canon` -/
def verifyCanon (expected stored : Tetraplet) : ER Unit :=
  if expected != stored then uncatchable (.instructionParametersMismatch "canon tetraplet" expected.debug stored.debug)
  else .ok ()

/-- `resolve_service_info` (`RawValue::get_value` panics on text that is not JSON) -/
def resolveServiceInfo (env : Env) (s : CidState) (cid : Cid) : ER (JVal × Tetraplet × ServiceResultAgg) :=
  match lookup s.serviceResults cid with
  | none => uncatchable (.valueForCidNotFound "service result aggregate" cid)
  | some agg =>
    match lookup s.values agg.valueCid with
    | none => uncatchable (.valueForCidNotFound "value" agg.valueCid)
    | some raw =>
      match env.parseJson raw with
      | none => .panic "raw_value.rs:get_value:expect(TODO handle error)"
      | some v =>
        match lookup s.tetraplets agg.tetrapletCid with
        | none => uncatchable (.valueForCidNotFound "tetraplet" agg.tetrapletCid)
        | some t => .ok (v, t, agg)

/-- `verify_call` -/
def verifyCall (expectedHash : String) (expected : Tetraplet) (storedHash : String) (stored : Tetraplet) : ER Unit :=
  if expectedHash != storedHash then
    uncatchable (.instructionParametersMismatch "call argument_hash" expectedHash storedHash)
  else if expected != stored then
    uncatchable (.instructionParametersMismatch "call tetraplet" expected.debug stored.debug)
  else .ok ()

def Ctx.recordCallCid (c : Ctx) (peerId : String) (cid : Cid) : Ctx :=
  if peerId == c.currentPeerId then { c with peerCids := c.peerCids ++ [cid] } else c

/-! ## call -/

/-- arguments of a call: values and tetraplets (`collect_args`) -/
def collectArgs (c : Ctx) : List Value → ER (List JVal × List (List Tetraplet))
  | [] => .ok ([], [])
  | a :: rest => do
    let (v, ts, _) ← resolveValue c a
    let (vs, tss) ← collectArgs c rest
    pure (v :: vs, ts :: tss)

/-- `check_output_name` -/
def checkOutputName (c : Ctx) (out : CallOutput) : ER Unit :=
  match out with
  | .scalar name =>
    match c.scalars.getValue name with
    | .ok (.value _) => if c.scalars.variableCouldBeSet name then .ok () else uncatchable (.shadowingIsNotAllowed name)
    | .ok (.iterableValue _) => uncatchable (.iterableShadowing name)
    | .error _ => .ok ()
    | .panic s => .panic s
  | _ => .ok ()

def argsJson (args : List JVal) : String := (JVal.arr args).render

/-- `CallServiceFailed::to_value` -/
def callServiceFailedValue (retCode : Int) (msg : String) : JVal := JVal.mkObj [("ret_code", .num retCode), ("message", .str msg)]

def i32Max : Int := 2147483647

/-- `populate_context_from_peer_service_result` -/
def populateFromPeerServiceResult (env : Env) (c : Ctx) (result : JVal) (t : Tetraplet) (argHash : String) (tracePos : Nat)
    (out : CallOutput) : ER (CallResult × Ctx) :=
  match out with
  | .scalar name => do
    let (cid, cs) := trackServiceResult env c.cid result t argHash
    let c := { c with cid := cs }
    let va : ValueAggregate := ⟨result, t, tracePos, .serviceResult cid⟩
    let sc ← c.scalars.setScalarValue name va
    let c := ({ c with scalars := sc }).recordCallCid t.peerPk cid
    pure (.executed (.scalar cid), c)
  | .stream name pos => do
    let (cid, cs) := trackServiceResult env c.cid result t argHash
    let c := { c with cid := cs }
    let va : ValueAggregate := ⟨result, t, tracePos, .serviceResult cid⟩
    let c ← c.addStreamValue va name .new pos
    let c := c.recordCallCid t.peerPk cid
    -- `executed_stream_stub`: the generation is filled in by compaction
    pure (.executed (.stream cid generationStub), c)
  | .none =>
    let cid := env.hash result.render
    .ok (.executed (.unused cid), c)

/-- `populate_context_from_data` -/
def populateFromData (env : Env) (c : Ctx) (value : ValueRef) (argHash : String) (t : Tetraplet) (tracePos : Nat)
    (out : CallOutput) (src : ValueSource) : ER Ctx :=
  match out, value with
  | .scalar name, .scalar cid => do
    let (v, curT, agg) ← resolveServiceInfo env c.cid cid
    verifyCall argHash t agg.argumentHash curT
    let va : ValueAggregate := ⟨v, t, tracePos, .serviceResult cid⟩
    let sc ← c.scalars.setScalarValue name va
    pure { c with scalars := sc }
  | .stream name pos, .stream cid generation => do
    let (v, curT, agg) ← resolveServiceInfo env c.cid cid
    verifyCall argHash t agg.argumentHash curT
    let va : ValueAggregate := ⟨v, t, tracePos, .serviceResult cid⟩
    let g : Generation := match src with | .previousData => .previous generation | .currentData => .current generation
    c.addStreamValue va name g pos
  | .none, .unused _ => .ok c
  | _, _ => uncatchable .callResultNotCorrespondToInstr

end Aqua.Exec
