import Aqua.Exec.Types
/-
Replica of `execution_context/scalar_variables.rs` and `scalar_variables/values_sparse_matrix.rs`,
and of the iterables of `value_types/iterable/*.rs`.
-/
namespace Aqua.Exec
open Aqua Aqua.Json Aqua.Air

namespace SparseMatrix
variable {α : Type}

def getCells (m : SparseMatrix α) (name : String) : Option (List (SparseCell α)) := lookup m.cells name

def shadowingAllowed (m : SparseMatrix α) : Bool := m.currentDepth != 0

/-- `variable_could_be_set` -/
def variableCouldBeSet (m : SparseMatrix α) (name : String) : Bool :=
  if m.shadowingAllowed then true
  else match m.getCells name with
    | some cells => match cells.getLast? with
      | some c => c.value.isNone
      | none => false
    | none => false

def setCells (m : SparseMatrix α) (name : String) (cells : List (SparseCell α)) : SparseMatrix α :=
  { m with cells := upsert m.cells name cells }

def removeName (m : SparseMatrix α) (name : String) : SparseMatrix α :=
  { m with cells := m.cells.filter (fun (k, _) => k != name) }

/-- `set_value`; `error` = `ShadowingIsNotAllowed` -/
def setValue (m : SparseMatrix α) (name : String) (v : α) : Res ExecErr (Bool × SparseMatrix α) :=
  let could := m.variableCouldBeSet name
  match m.getCells name with
  | none => .ok (false, m.setCells name [⟨m.currentDepth, some v⟩])
  | some cells =>
    if !could then uncatchable (.shadowingIsNotAllowed name)
    else match cells.getLast? with
      | none => .ok (false, m.setCells name [⟨m.currentDepth, some v⟩])   -- unreachable: stacks are non-empty
      | some last =>
        if last.depth == m.currentDepth then
          .ok (true, m.setCells name (cells.dropLast ++ [⟨last.depth, some v⟩]))
        else .ok (false, m.setCells name (cells ++ [⟨m.currentDepth, some v⟩]))

/-- `get_value`: `error` = `VariableNotFound`; `ok none` = cleared by `new` and not set -/
def getValue (m : SparseMatrix α) (name : String) : Res ExecErr (Option α) :=
  match m.getCells name with
  | none => catchable (.variableNotFound name)
  | some cells =>
    match cells.getLast? with
    | none => catchable (.variableNotFound name)
    | some last => if m.allowedDepths.contains last.depth then .ok last.value else catchable (.variableNotFound name)

/-- `cleanup_obsolete_values` -/
def cleanupObsoleteValues (m : SparseMatrix α) : SparseMatrix α :=
  let step (cells : List (String × List (SparseCell α))) : List (String × List (SparseCell α)) :=
    cells.filterMap fun (name, stack) =>
      match stack.getLast? with
      | none => none
      | some last =>
        if last.depth != 0 && last.depth > m.currentDepth then
          -- `NonEmpty::pop` refuses to remove the only element; then the whole entry is removed
          if stack.length ≤ 1 then none else some (name, stack.dropLast)
        else some (name, stack)
  { m with cells := step m.cells }

def erase (l : List Nat) (x : Nat) : List Nat := l.filter (· != x)
def insertSet (l : List Nat) (x : Nat) : List Nat := if l.contains x then l else l ++ [x]

def meetFoldStart (m : SparseMatrix α) : SparseMatrix α :=
  let d := m.currentDepth + 1
  { m with currentDepth := d, allowedDepths := insertSet m.allowedDepths d }

def meetNextBefore (m : SparseMatrix α) : SparseMatrix α :=
  let a := erase m.allowedDepths m.currentDepth
  let d := m.currentDepth + 1
  { m with currentDepth := d, allowedDepths := insertSet a d }

/-- `meet_next_after` (`current_depth -= 1` on `usize`) -/
def meetNextAfter (m : SparseMatrix α) : Res ExecErr (SparseMatrix α) :=
  if m.currentDepth = 0 then .panic "values_sparse_matrix.rs:meet_next_after:current_depth-=1"
  else
    let a := erase m.allowedDepths m.currentDepth
    let d := m.currentDepth - 1
    .ok (cleanupObsoleteValues { m with currentDepth := d, allowedDepths := insertSet a d })

def meetFoldEnd (m : SparseMatrix α) : Res ExecErr (SparseMatrix α) :=
  if m.currentDepth = 0 then .panic "values_sparse_matrix.rs:meet_fold_end:current_depth-=1"
  else
    let a := erase m.allowedDepths m.currentDepth
    .ok (cleanupObsoleteValues { m with currentDepth := m.currentDepth - 1, allowedDepths := a })

def meetNewStart (m : SparseMatrix α) (name : String) : SparseMatrix α :=
  let cell : SparseCell α := ⟨m.currentDepth, none⟩
  match m.getCells name with
  | none => m.setCells name [cell]
  | some cells => m.setCells name (cells ++ [cell])

/-- `meet_new_end`: returns the new matrix and whether it succeeded (`false` = `ScalarsStateCorrupted`;
the top cell may already have been popped when the depth mismatch is detected, and the caller can go on
if the instruction's own catchable error takes priority and is caught) -/
def meetNewEnd (m : SparseMatrix α) (name : String) : SparseMatrix α × Bool :=
  match m.getCells name with
  | none => (m, false)
  | some cells =>
    if cells.length ≥ 2 then
      match cells.getLast? with
      | some top => (m.setCells name cells.dropLast, top.depth == m.currentDepth)
      | none => (m, false)
    else
      match cells.getLast? with
      | some last => if last.depth == m.currentDepth then (m.removeName name, true) else (m, false)
      | none => (m, false)

end SparseMatrix

/-! ## iterables -/

namespace IterableValue

def len : IterableValue → Nat
  | .resolvedCall _ _ l => l
  | .lambdaResult vals _ _ _ => vals.length
  | .vec vals _ => vals.length

def cursor : IterableValue → Nat
  | .resolvedCall _ c _ | .lambdaResult _ _ _ c | .vec _ c => c

def setCursor (it : IterableValue) (c : Nat) : IterableValue :=
  match it with
  | .resolvedCall v _ l => .resolvedCall v c l
  | .lambdaResult vs t p _ => .lambdaResult vs t p c
  | .vec vs _ => .vec vs c

/-- `foldable_next!` -/
def next (it : IterableValue) : Bool × IterableValue :=
  if it.cursor + 1 < it.len then (true, it.setCursor (it.cursor + 1)) else (false, it)

/-- `foldable_prev!` -/
def prev (it : IterableValue) : Bool × IterableValue :=
  if it.cursor ≥ 1 then (true, it.setCursor (it.cursor - 1)) else (false, it)

/-- `peek()` → the item as (value, tetraplet, trace position, provenance);
`none` on an empty iterable; a panic when a resolved call is not an array / index out of range -/
def peek (it : IterableValue) : Res ExecErr (Option (JVal × Tetraplet × Nat × Provenance)) :=
  match it with
  | .resolvedCall v c l =>
    if l = 0 then .ok none
    else match v.result with
      | .arr a =>
        match a[c]? with
        | some x => .ok (some (x, v.tetraplet.addLens s!".$.[{c}]", v.tracePos, v.provenance))
        | none => .panic "iterable/resolved_call.rs:peek:array[cursor]"
      | _ => .panic "iterable/resolved_call.rs:peek:unimplemented(non-array)"
  | .lambdaResult vals t p c =>
    if vals.isEmpty then .ok none
    else match vals[c]? with
      | some x => .ok (some (x, t.addLens s!".$.[{c}]", 0, p))
      | none => .panic "iterable/lambda_result.rs:peek:jvalues[cursor]"
  | .vec vals c =>
    if vals.isEmpty then .ok none
    else match vals[c]? with
      | some x => .ok (some (x.result, x.tetraplet, x.tracePos, x.provenance))
      | none => .panic "iterable/vec_resolved_call.rs:peek:call_results[cursor]"

/-- `peek().expect(PEEK_ALLOWED_ON_NON_EMPTY)` -/
def peekExpect (it : IterableValue) : Res ExecErr (JVal × Tetraplet × Nat × Provenance) := do
  match ← it.peek with
  | some x => pure x
  | none => Res.panic "peek().expect(PEEK_ALLOWED_ON_NON_EMPTY)"

end IterableValue

/-- `IterableItem::into_resolved_result` -/
def itemIntoResolvedResult (x : JVal × Tetraplet × Nat × Provenance) : ValueAggregate :=
  ValueAggregate.new x.1 x.2.1 x.2.2.1 x.2.2.2

/-! ## Scalars -/

inductive ScalarRef where
  | value (v : ValueAggregate)
  | iterableValue (f : FoldState)

namespace Scalars

def getIterable (s : Scalars) (name : String) : ER FoldState :=
  match (s.iterable.find? (fun (k, _) => k == name)) with
  | some (_, f) => .ok f
  | none => uncatchable (.foldStateNotFound name)

def setIterableState (s : Scalars) (name : String) (f : FoldState) : Scalars :=
  { s with iterable := s.iterable.map fun (k, g) => if k == name then (k, f) else (k, g) }

/-- `set_iterable_value` -/
def setIterableValue (s : Scalars) (name : String) (f : FoldState) : ER Scalars :=
  if s.iterable.any (fun (k, _) => k == name) then uncatchable (.multipleIterableValues name)
  else .ok { s with iterable := s.iterable ++ [(name, f)] }

def removeIterableValue (s : Scalars) (name : String) : Scalars :=
  { s with iterable := s.iterable.filter (fun (k, _) => k != name) }

/-- `get_value` (the `(Ok(_), Some(_))` arm — a fold iterator named like a visible scalar — is `IterableShadowing` since /repo 66d8bd2) -/
def getValue (s : Scalars) (name : String) : ER ScalarRef :=
  let v := s.nonIterable.getValue name
  let it := s.iterable.find? (fun (k, _) => k == name)
  match v, it with
  | .panic site, _ => .panic site
  | .error _, none => catchable (.variableNotFound name)
  | .ok none, _ => catchable (.variableWasNotInitializedAfterNew name)
  | .ok (some x), none => .ok (.value x)
  | .error _, some (_, f) => .ok (.iterableValue f)
  | .ok (some _), some _ => uncatchable (.iterableShadowing name)

def setScalarValue (s : Scalars) (name : String) (v : ValueAggregate) : ER Scalars := do
  let (_, m) ← s.nonIterable.setValue name v
  pure { s with nonIterable := m }

def variableCouldBeSet (s : Scalars) (name : String) : Bool :=
  s.nonIterable.variableCouldBeSet name || s.canonStreams.variableCouldBeSet name

def meetFoldStart (s : Scalars) : Scalars :=
  { s with nonIterable := s.nonIterable.meetFoldStart, canonStreams := s.canonStreams.meetFoldStart,
           canonMaps := s.canonMaps.meetFoldStart }
def meetNextBefore (s : Scalars) : Scalars :=
  { s with nonIterable := s.nonIterable.meetNextBefore, canonStreams := s.canonStreams.meetNextBefore,
           canonMaps := s.canonMaps.meetNextBefore }
def meetNextAfter (s : Scalars) : ER Scalars := do
  pure { s with nonIterable := ← s.nonIterable.meetNextAfter, canonStreams := ← s.canonStreams.meetNextAfter,
                canonMaps := ← s.canonMaps.meetNextAfter }
def meetFoldEnd (s : Scalars) : ER Scalars := do
  pure { s with nonIterable := ← s.nonIterable.meetFoldEnd, canonStreams := ← s.canonStreams.meetFoldEnd,
                canonMaps := ← s.canonMaps.meetFoldEnd }
def meetNewStartScalar (s : Scalars) (n : String) : Scalars := { s with nonIterable := s.nonIterable.meetNewStart n }
def meetNewEndScalar (s : Scalars) (n : String) : Scalars × Bool :=
  let (m, ok) := s.nonIterable.meetNewEnd n
  ({ s with nonIterable := m }, ok)
def meetNewStartCanon (s : Scalars) (n : String) : Scalars := { s with canonStreams := s.canonStreams.meetNewStart n }
def meetNewEndCanon (s : Scalars) (n : String) : Scalars × Bool :=
  let (m, ok) := s.canonStreams.meetNewEnd n
  ({ s with canonStreams := m }, ok)

def meetNewStartCanonMap (s : Scalars) (n : String) : Scalars := { s with canonMaps := s.canonMaps.meetNewStart n }
def meetNewEndCanonMap (s : Scalars) (n : String) : Scalars × Bool :=
  let (m, ok) := s.canonMaps.meetNewEnd n
  ({ s with canonMaps := m }, ok)

/-- `get_canon_map` -/
def getCanonMap (s : Scalars) (name : String) : ER CanonStreamMapWP :=
  match s.canonMaps.getValue name with
  | .ok (some v) => .ok v
  | .ok none => catchable (.variableWasNotInitializedAfterNew name)
  | .error e => .error e
  | .panic p => .panic p

/-- `set_canon_map_value` -/
def setCanonMapValue (s : Scalars) (name : String) (v : CanonStreamMapWP) : ER Scalars := do
  let (_, m) ← s.canonMaps.setValue name v
  pure { s with canonMaps := m }

/-- `get_canon_stream` -/
def getCanonStream (s : Scalars) (name : String) : ER CanonStreamWP :=
  match s.canonStreams.getValue name with
  | .ok (some v) => .ok v
  | .ok none => catchable (.variableWasNotInitializedAfterNew name)
  | .error e => .error e
  | .panic p => .panic p

/-- `set_canon_value` -/
def setCanonValue (s : Scalars) (name : String) (v : CanonStreamWP) : ER Scalars := do
  let (_, m) ← s.canonStreams.setValue name v
  pure { s with canonStreams := m }

end Scalars

/-- `ScalarRef::into_jvaluable`: (value, tetraplet, provenance) of what the name denotes -/
def ScalarRef.parts (r : ScalarRef) : ER (JVal × Tetraplet × Provenance) :=
  match r with
  | .value v => .ok (v.result, v.tetraplet, v.provenance)
  | .iterableValue f => do
    let (v, t, _, p) ← f.iterable.peekExpect
    pure (v, t, p)

end Aqua.Exec
