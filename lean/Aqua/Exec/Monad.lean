import Aqua.Exec.Instr
/-
The execution monad `M`: a state transformer over `Ctx` whose state survives errors (Rust mutates
`&mut ExecutionCtx` and then returns `Err`).  All model code is built from the combinators below, so
that invariants can be proved combinator by combinator.
-/
namespace Aqua.Exec
open Aqua Aqua.Json Aqua.Air Aqua.Data Aqua.Trace

def M (α : Type) := Ctx → Res ExecErr α × Ctx

@[inline] def M.pure {α} (a : α) : M α := fun c => (.ok a, c)
@[inline] def M.bind {α β} (m : M α) (f : α → M β) : M β := fun c =>
  match m c with
  | (.ok a, c') => f a c'
  | (.error e, c') => (.error e, c')
  | (.panic s, c') => (.panic s, c')

instance : Monad M where
  pure := M.pure
  bind := M.bind

/-- read-only computation on the context that may fail (state unchanged) -/
def readER {α} (f : Ctx → ER α) : M α := fun c => (f c, c)
/-- total read -/
def readCtx {α} (f : Ctx → α) : M α := fun c => (.ok (f c), c)
/-- state update -/
def modifyCtx (f : Ctx → Ctx) : M Unit := fun c => (.ok (), f c)
/-- state update that may fail; on failure the state is unchanged -/
def modifyER (f : Ctx → ER Ctx) : M Unit := fun c =>
  match f c with
  | .ok c' => (.ok (), c')
  | .error e => (.error e, c)
  | .panic s => (.panic s, c)
/-- state update that also returns a value -/
def stateER {α} (f : Ctx → ER (α × Ctx)) : M α := fun c =>
  match f c with
  | .ok (a, c') => (.ok a, c')
  | .error e => (.error e, c)
  | .panic s => (.panic s, c)
def throwE {α} (e : ExecErr) : M α := fun c => (.error e, c)
def panicM {α} (site : String) : M α := fun c => (.panic site, c)
/-- run a computation and hand back its result instead of propagating the error -/
def tryM {α} (m : M α) : M (Res ExecErr α) := fun c => let r := m c; (.ok r.1, r.2)
/-- re-raise a captured result -/
def reraise {α} (r : Res ExecErr α) : M α := fun c => (r, c)

/-- trace-handler operation -/
def liftTH {α} (i : Instr) (f : TraceHandler → TR (α × TraceHandler)) : M α :=
  stateER fun c => (traceToExec (f c.th) i).bind fun (a, th) => .ok (a, { c with th := th })
def liftTH' (i : Instr) (f : TraceHandler → TR TraceHandler) : M Unit :=
  liftTH i (fun th => (f th).bind fun th' => .ok ((), th'))

def makeSubgraphIncomplete : M Unit := modifyCtx fun c => { c with subgraphComplete := false }

/-- the `joinable!` macro: joinable errors become `Ok(none)` with an incomplete subgraph -/
def joinable {α} (m : M α) : M (Option α) := fun c =>
  match m c with
  | (.ok a, c') => (.ok (some a), c')
  | (.error e, c') => if e.isJoinable then (.ok none, { c' with subgraphComplete := false }) else (.error e, c')
  | (.panic s, c') => (.panic s, c')

/-- post-process the context when the computation fails (`map_err(|e| set_errors(..))`) -/
def onError {α} (m : M α) (f : ExecErr → Ctx → Ctx) : M α := fun c =>
  match m c with
  | (.error e, c') => (.error e, f e c')
  | r => r

def meetCallEnd (cr : CallResult) : M Unit := modifyCtx fun c => { c with th := c.th.meetCallEnd cr }

end Aqua.Exec
