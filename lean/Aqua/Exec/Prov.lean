import Aqua.Exec.Instr
/-
Specification side of C17 ("security tetraplets describe where each argument came from"), written
from the PROPERTY TEXT and not from the resolver (`resolver/resolvable_impl.rs`):

* a *provenance environment* `ProvEnv` says, for every name in scope, which (peer, service, function)
  produced the value and which lens had already been applied when the value was bound — a
  `Tetraplet` is exactly such a quadruple; literals and built-ins are attributed to the init peer
  with empty service and function;
* `expectedTetraplets arg env` is what the property promises for one call argument;
* the *binding rules* (`bindCall`, `bindAp`, `iterElem`) say how the environment evolves when a call
  result, an `ap` or a fold iterator binds a name.

`prov c` reads the environment off an execution context through the scalar store's own accessors
(`Scalars.getValue`, `ScalarRef.parts`), not through `resolveValue`.
-/
namespace Aqua.Exec
open Aqua Aqua.Json Aqua.Air

structure ProvEnv where
  initPeer : String
  /-- scalar or fold iterator ↦ producer triplet + lens applied so far -/
  scalar : String → Option Tetraplet
  /-- producer of the value of `:error:` (`none`: no producer recorded → attributed like a literal) -/
  error : Option Tetraplet
  lastError : Option Tetraplet
  /-- canon stream ↦ the tetraplets of its elements, in stream order -/
  canon : String → Option (List Tetraplet) := fun _ => none
  /-- canon map ↦ the tetraplets of its key-value pairs, in map order -/
  canonMap : String → Option (List Tetraplet) := fun _ => none

/-- "the init peer with empty service and function" -/
def ProvEnv.literal (e : ProvEnv) : Tetraplet := { peerPk := e.initPeer, serviceId := "", functionName := "", lens := "" }

/-- "the exact lens applied": the lens text as written in the script, appended to what was applied before -/
def withLens (t : Tetraplet) (l : Lambda) : Tetraplet := { t with lens := t.lens ++ l.render }

def isFunctor : Lambda → Bool
  | .functorLength => true
  | .path _ => false

/-- What the property promises for one argument.  `none` = the property text does not say (functors;
names that are not bound; canon-stream lenses whose first accessor is not a literal index). -/
def expectedTetraplets (v : Value) (e : ProvEnv) : Option (List Tetraplet) :=
  match v with
  | .initPeerId | .literal _ | .timestamp | .ttl | .number _ | .float _ | .boolean _ | .emptyArray => some [e.literal]
  | .scalar n => (e.scalar n).map fun t => [t]
  | .scalarWL n l => if isFunctor l then none else (e.scalar n).map fun t => [withLens t l]
  | .error none => some [e.error.getD e.literal]
  | .lastError none => some [e.lastError.getD e.literal]
  | .error (some l) => if isFunctor l then none else some [withLens (e.error.getD e.literal) l]
  | .lastError (some l) => if isFunctor l then none else some [withLens (e.lastError.getD e.literal) l]
  | .canon n => e.canon n
  | .canonWL n (.path (.arrayAccess i :: rest)) =>
    (e.canon n).bind fun ts => (ts[i]?).map fun t =>
      [if rest.isEmpty then t else withLens t (.path rest)]
  | .canonWL _ _ => none
  | .canonMap n => e.canonMap n
  | .canonMapWL _ _ => none

/-- arguments for which the property's wording is unambiguous (canon streams and canon maps as a whole are
covered; for lenses into canon streams / canon maps the wording and the code differ — a canon-stream lens
`#c.$.[i].rest` hands out the element's tetraplet WITHOUT the rest of the lens, a canon-map lens rewrites the
lens field — so they are specified by the model functions `canonStreamApplyLambda` / `canonMapLensTetraplet`
and compared with the implementation by the correspondence runs instead) -/
def Covered : Value → Bool
  | .scalarWL _ l => !isFunctor l
  | .error (some _) | .lastError (some _) => false
  | .canonWL .. | .canonMapWL .. => false
  | _ => true

/-- arguments the property speaks about at all (everything but functors) -/
def SpecDefined : Value → Bool
  | .scalarWL _ l | .error (some l) | .lastError (some l) | .canonWL _ l | .canonMapWL _ l => !isFunctor l
  | _ => true

/-! ## binding rules -/

def ProvEnv.bind (e : ProvEnv) (name : String) (t : Tetraplet) : ProvEnv :=
  { e with scalar := fun n => if n == name then some t else e.scalar n }

/-- a call executed on `peer` of `(service, function)` binds its output: no lens applied yet -/
def ProvEnv.bindCall (e : ProvEnv) (name peer service function : String) : ProvEnv :=
  e.bind name { peerPk := peer, serviceId := service, functionName := function, lens := "" }

/-- `(ap arg name)`: the new name denotes what the argument denotes -/
def ProvEnv.bindAp (e : ProvEnv) (name : String) (arg : Value) : Option ProvEnv :=
  match expectedTetraplets arg e with
  | some [t] => some (e.bind name t)
  | _ => none

/-- the `k`-th element of an iterated array: the array's producer, lens extended by the element index
the way the interpreter writes it (`iterable/{resolved_call,lambda_result}.rs`: `.$.[k]` is appended even
after a lens, e.g. `.$.args.$.[9]`, cf. the repository's test `fold_lens`) -/
def iterElem (t : Tetraplet) (k : Nat) : Tetraplet := { t with lens := t.lens ++ s!".$.[{k}]" }

/-! ## reading the environment off a context -/

def scalarTetraplet (c : Ctx) (n : String) : Option Tetraplet :=
  match c.scalars.getValue n with
  | .ok r => match r.parts with
    | .ok (_, t, _) => some t
    | _ => none
  | _ => none

/-- the tetraplets of the elements of a bound canon stream, in stream order -/
def canonTetraplets (c : Ctx) (n : String) : Option (List Tetraplet) :=
  match c.scalars.getCanonStream n with
  | .ok cs => some (cs.canonStream.values.map (·.tetraplet))
  | _ => none

/-- the tetraplets of the key-value pairs of a bound canon map, in map (insertion) order -/
def canonMapTetraplets (c : Ctx) (n : String) : Option (List Tetraplet) :=
  match c.scalars.getCanonMap n with
  | .ok cm => some (cm.canonStreamMap.values.map (·.tetraplet))
  | _ => none

def prov (c : Ctx) : ProvEnv :=
  { initPeer := c.initPeerId, scalar := scalarTetraplet c,
    error := c.error.error.tetraplet, lastError := c.lastError.error.tetraplet,
    canon := canonTetraplets c, canonMap := canonMapTetraplets c }

/-! ## what the code does where the property is silent -/

/-- the tetraplet the interpreter attaches to `x.length` (`value_types/utils.rs`): every part of the
producer is erased -/
def functorTetraplet : Tetraplet := { peerPk := "", serviceId := "", functionName := "", lens := ".length" }

/-- the (peer, service, function) part of a tetraplet -/
def Tetraplet.triplet (t : Tetraplet) : Tetraplet := { t with lens := "" }

end Aqua.Exec
