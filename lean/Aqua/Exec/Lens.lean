import Aqua.Exec.LensBase
import Aqua.Gen.Lens
/-
C24 — replica of the lens applier, function by function:
  `air/src/execution_step/lambda_applier/utils.rs`    (`try_jvalue_with_idx`, `try_jvalue_with_field_name`,
      `select_by_scalar`, `try_scalar_ref_as_idx`, `try_scalar_ref_as_stream_map_key`, `select_by_jvalue`,
      `try_jvalue_as_idx`, `try_number_to_u32`)
  `air/src/execution_step/lambda_applier/applier.rs`  (`select_by_lambda_from_{stream,canon_map,scalar}`,
      `select_by_path_from_{stream,canon_map_stream,canon_map,scalar}`, `split_to_idx`,
      `select_by_functor_from_{stream,canon_map,scalar}`)
  `execution_context/stream_maps_variables/stream_map_key.rs` (`StreamMapKey`)
  `value_types/canon_stream_map.rs` (`CanonStreamMap::from_canon_stream`, `index`, `len`, `as_jvalue`)
  `crates/air-lib/lambda/ast/src/ast.rs` (`LambdaAST`, `ValueAccessor`, `Functor`)

The functions of `utils.rs` that the stream-free executor model already has (`tryJvalueWithIdx`,
`tryJvalueWithFieldName`, `selectByJvalue`, `tryNumberToU32` in `Aqua/Exec/Instr.lean`) are reused
unchanged; `Lens.selectByPathFromScalar` below is proved equal to the executor model's
`Exec.selectByPathFromScalar` on its accessor type (`AquaProps.C24.C24_agrees_with_executor_model`).

Only the selected *value* (and `LambdaResult.tetraplet_idx`) is modelled; the tetraplet text that the
canon-map applier builds belongs to the tetraplet property.
Rust panics are values: `ValueAccessor::Error => unreachable!()`, `peek().expect(..)`.
-/
namespace Aqua.Exec.Lens
open Aqua Aqua.Json Aqua.Air Aqua.Exec

/-! ## `air_lambda_ast` -/

/-- `ValueAccessor` -/
inductive ValueAccessor where
  | arrayAccess (idx : Nat)                      -- `idx: u32`
  | fieldAccessByName (fieldName : String)
  | fieldAccessByScalar (scalarName : String)
  | error
deriving Repr, DecidableEq, Inhabited

/-- `Functor` -/
inductive Functor where
  | length
deriving Repr, DecidableEq, Inhabited

/-- `LambdaAST`; `ValuePath(NonEmpty<ValueAccessor>)` is a head and a tail -/
inductive LambdaAST where
  | functor (f : Functor)
  | valuePath (head : ValueAccessor) (tail : List ValueAccessor)
deriving Repr, DecidableEq, Inhabited

def ValueAccessor.variant : ValueAccessor → String
  | .arrayAccess _ => "ArrayAccess" | .fieldAccessByName _ => "FieldAccessByName"
  | .fieldAccessByScalar _ => "FieldAccessByScalar" | .error => "Error"

def Functor.variant : Functor → String
  | .length => "Length"

/-- embedding of the executor model's accessors -/
def ValueAccessor.ofAccessor : Accessor → ValueAccessor
  | .arrayAccess i => .arrayAccess i
  | .fieldByName n => .fieldAccessByName n
  | .fieldByScalar s => .fieldAccessByScalar s

/-- embedding of the executor model's lambdas (`none` for the ill-formed empty path) -/
def LambdaAST.ofLambda : Lambda → Option LambdaAST
  | .functorLength => some (.functor .length)
  | .path [] => none
  | .path (a :: as) => some (.valuePath (.ofAccessor a) (as.map .ofAccessor))

/-! ## `LambdaError` variants (names as in `errors.rs`) -/

def lambdaErrVariant : LambdaErr → String
  | .canonStreamNotHaveEnoughValues .. => "CanonStreamNotHaveEnoughValues"
  | .emptyStream => "EmptyStream"
  | .fieldAccessorAppliedToStream _ => "FieldAccessorAppliedToStream"
  | .arrayAccessorNotMatchValue .. => "ArrayAccessorNotMatchValue"
  | .valueNotContainSuchArrayIdx .. => "ValueNotContainSuchArrayIdx"
  | .valueNotContainSuchField .. => "ValueNotContainSuchField"
  | .fieldAccessorNotMatchValue .. => "FieldAccessorNotMatchValue"
  | .indexAccessNotU32 _ => "IndexAccessNotU32"
  | .scalarAccessorHasInvalidType _ => "ScalarAccessorHasInvalidType"
  | .streamAccessorHasInvalidType _ => "StreamAccessorHasInvalidType"
  | .canonStreamMapAccessorHasInvalidType _ => "CanonStreamMapAccessorHasInvalidType"
  | .canonStreamMapAccessorMustNotBeIterable => "CanonStreamMapAccessorMustNotBeIterable"

/-! ## `stream_map_key.rs`: `StreamMapKey`, `fromValue`, `ofU32`, `toKey` live in `Aqua/Exec/Types.lean` (same namespace) -/

/-! ## `canon_stream_map.rs` -/

/-- `CanonStreamMap`: all key-value pair objects, and the index key ↦ canon stream of the values with that
key.  The `HashMap` is an association list in order of first insertion, used through keyed access only. -/
structure CanonStreamMap where
  values : List JVal
  map : List (StreamMapKey × List JVal)
deriving Repr, Inhabited

/-- `KEY_FIELD_NAME`, `VALUE_FIELD_NAME` (regenerated from the sources) -/
def keyFieldName : String := Gen.streamMapKeyFieldName
def valueFieldName : String := Gen.streamMapValueFieldName

/-- `StreamMapKey::from_kvpair_owned` -/
def StreamMapKey.fromKvpairOwned (kv : JVal) : Option StreamMapKey :=
  match kv with
  | .obj _ => (kv.getField keyFieldName).bind StreamMapKey.fromValue
  | _ => none

/-- `get_value_from_obj` (`StreamMapKeyError::{NotAnObject, ValueFieldIsAbsent}`) -/
def getValueFromObj (kv : JVal) : ER JVal :=
  match kv with
  | .obj _ =>
    match kv.getField valueFieldName with
    | some v => .ok v
    | none => uncatchable .streamMapKeyError
  | _ => uncatchable .streamMapKeyError

/-- `map.entry(key).or_insert(CanonStream::new(vec![], ..)).push(value)` -/
def entryPush (m : List (StreamMapKey × List JVal)) (k : StreamMapKey) (v : JVal) : List (StreamMapKey × List JVal) :=
  match m with
  | [] => [(k, [v])]
  | (k', vs) :: rest => if k' = k then (k', vs ++ [v]) :: rest else (k', vs) :: entryPush rest k v

/-- the loop of `CanonStreamMap::from_canon_stream` -/
def fromCanonStreamLoop (m : List (StreamMapKey × List JVal)) : List JVal → ER (List (StreamMapKey × List JVal))
  | [] => .ok m
  | kv :: rest =>
    match StreamMapKey.fromKvpairOwned kv with
    | none => uncatchable .streamMapKeyError
    | some key =>
      match getValueFromObj kv with
      | .ok v => fromCanonStreamLoop (entryPush m key v) rest
      | .error e => .error e
      | .panic s => .panic s

/-- `CanonStreamMap::from_canon_stream` -/
def CanonStreamMap.fromCanonStream (canonStream : List JVal) : ER CanonStreamMap :=
  match fromCanonStreamLoop [] canonStream with
  | .ok m => .ok ⟨canonStream, m⟩
  | .error e => .error e
  | .panic s => .panic s

/-- `CanonStreamMap::index` (`HashMap::get`) -/
def CanonStreamMap.index (m : CanonStreamMap) (k : StreamMapKey) : Option (List JVal) :=
  (m.map.find? (fun (k', _) => k' = k)).map (·.2)

/-- `CanonStreamMap::len`: the number of key-value pairs (not of keys) -/
def CanonStreamMap.len (m : CanonStreamMap) : Nat := m.values.length

/-- `CanonStreamMap::as_jvalue`: the object `to_key(k) ↦ [values of k]`.  The Rust code collects a `HashMap`
iteration into a `BTreeMap`; when two different keys render to the same string (`"1"` and `1`) the entry that
survives depends on the hash order (property C20), and this definition (later entries win) is *not* a replica
then.  It is used only under the hypothesis that the keys of the map render to distinct strings. -/
def CanonStreamMap.asJvalue (m : CanonStreamMap) : JVal :=
  JVal.mkObj (m.map.map fun x => (x.1.toKey, JVal.arr x.2))

/-! ## `utils.rs` (the rest) -/

/-- `select_by_scalar` -/
def selectByScalar (v : JVal) (r : ScalarRef) : Res ExecErr JVal :=
  match r with
  | .value lambdaValue => liftLambda (selectByJvalue v lambdaValue.result)
  | .iterableValue foldState =>
    match foldState.iterable.peekExpect with
    | .ok x => liftLambda (selectByJvalue v (itemIntoResolvedResult x).result)
    | .error e => .error e
    | .panic s => .panic s

/-- `try_jvalue_as_idx` -/
def tryJvalueAsIdx (v : JVal) : Res LambdaErr Nat :=
  match v with
  | .num _ => tryNumberToU32 v
  | .float _ => tryNumberToU32 v          -- `JValue::Number` holding an `f64`
  | a => .error (.streamAccessorHasInvalidType a)

/-- `try_scalar_ref_as_idx` -/
def tryScalarRefAsIdx (r : ScalarRef) : Res ExecErr Nat :=
  match r with
  | .value accessor => liftLambda (tryJvalueAsIdx accessor.result)
  | .iterableValue foldState =>
    match foldState.iterable.peekExpect with
    | .ok x => liftLambda (tryJvalueAsIdx (itemIntoResolvedResult x).result)
    | .error e => .error e
    | .panic s => .panic s

/-- `try_scalar_ref_as_stream_map_key` -/
def tryScalarRefAsStreamMapKey (r : ScalarRef) : Res LambdaErr StreamMapKey :=
  match r with
  | .value mapAccessor =>
    match StreamMapKey.fromValue mapAccessor.result with
    | some k => .ok k
    | none => .error (.canonStreamMapAccessorHasInvalidType mapAccessor.result)
  | .iterableValue _ => .error .canonStreamMapAccessorMustNotBeIterable

/-! ## `applier.rs` -/

/-- `LambdaResult` -/
structure LambdaResult where
  result : JVal
  tetrapletIdx : Option Nat
deriving Repr, Inhabited

def unreachableAccessor : String := "applier.rs:unreachable(should not execute if parsing succeeded. QED.)"

/-- `select_by_path_from_scalar` -/
def selectByPathFromScalar (scalars : Scalars) (value : JVal) : List ValueAccessor → ER JVal
  | [] => .ok value
  | .arrayAccess idx :: rest =>
    match liftLambda (tryJvalueWithIdx value idx) with
    | .ok v => selectByPathFromScalar scalars v rest
    | .error e => .error e
    | .panic s => .panic s
  | .fieldAccessByName fieldName :: rest =>
    match liftLambda (tryJvalueWithFieldName value fieldName) with
    | .ok v => selectByPathFromScalar scalars v rest
    | .error e => .error e
    | .panic s => .panic s
  | .fieldAccessByScalar scalarName :: rest =>
    match scalars.getValue scalarName with
    | .ok scalar =>
      match selectByScalar value scalar with
      | .ok v => selectByPathFromScalar scalars v rest
      | .error e => .error e
      | .panic s => .panic s
    | .error e => .error e
    | .panic s => .panic s
  | .error :: _ => .panic unreachableAccessor

/-- `select_by_functor_from_scalar` -/
def selectByFunctorFromScalar (value : JVal) (f : Functor) : ER JVal :=
  match f with
  | .length =>
    match value with
    | .arr a => .ok (.num a.length)
    | _ => catchable (.lengthFunctorAppliedToNotArray value)

/-- `select_by_lambda_from_scalar` -/
def selectByLambdaFromScalar (scalars : Scalars) (value : JVal) (lambda : LambdaAST) : ER JVal :=
  match lambda with
  | .valuePath h t => selectByPathFromScalar scalars value (h :: t)
  | .functor f => selectByFunctorFromScalar value f

/-- `split_to_idx` (the body is the tail of the non-empty path) -/
def splitToIdx (scalars : Scalars) (prefix_ : ValueAccessor) : ER Nat :=
  match prefix_ with
  | .arrayAccess idx => .ok idx
  | .fieldAccessByName fieldName => lambdaErr (.fieldAccessorAppliedToStream fieldName)
  | .fieldAccessByScalar scalarName =>
    match scalars.getValue scalarName with
    | .ok scalar => tryScalarRefAsIdx scalar
    | .error e => .error e
    | .panic s => .panic s
  | .error => .panic unreachableAccessor

/-- `select_by_path_from_stream` -/
def selectByPathFromStream (scalars : Scalars) (stream : List JVal) (h : ValueAccessor) (body : List ValueAccessor) : ER LambdaResult :=
  match splitToIdx scalars h with
  | .ok idx =>
    match stream[idx]? with
    | none => lambdaErr (.canonStreamNotHaveEnoughValues stream.length idx)
    | some value =>
      match selectByPathFromScalar scalars value body with
      | .ok r => .ok ⟨r, some idx⟩
      | .error e => .error e
      | .panic s => .panic s
  | .error e => .error e
  | .panic s => .panic s

/-- `select_by_functor_from_stream` -/
def selectByFunctorFromStream (stream : List JVal) (f : Functor) : LambdaResult :=
  match f with
  | .length => ⟨.num stream.length, none⟩

/-- `select_by_lambda_from_stream` -/
def selectByLambdaFromStream (scalars : Scalars) (stream : List JVal) (lambda : LambdaAST) : ER LambdaResult :=
  match lambda with
  | .valuePath h t => selectByPathFromStream scalars stream h t
  | .functor f => .ok (selectByFunctorFromStream stream f)

/-- `select_by_path_from_canon_map_stream` (value part) -/
def selectByPathFromCanonMapStream (scalars : Scalars) (stream : List JVal) (h : ValueAccessor) (body : List ValueAccessor) : ER JVal :=
  match splitToIdx scalars h with
  | .ok idx =>
    match stream[idx]? with
    | none => lambdaErr (.canonStreamNotHaveEnoughValues stream.length idx)
    | some value =>
      if body.isEmpty then .ok value
      else selectByPathFromScalar scalars value body
  | .error e => .error e
  | .panic s => .panic s

/-- the key the first accessor of a canon-map lens denotes (the `match prefix` of `select_by_path_from_canon_map`) -/
def canonMapKeyOfPrefix (scalars : Scalars) (prefix_ : ValueAccessor) : ER StreamMapKey :=
  match prefix_ with
  | .arrayAccess idx => .ok (.ofU32 idx)
  | .fieldAccessByName fieldName => .ok (.str fieldName)
  | .fieldAccessByScalar scalarName =>
    match scalars.getValue scalarName with
    | .ok scalar => liftLambda (tryScalarRefAsStreamMapKey scalar)
    | .error e => .error e
    | .panic s => .panic s
  | .error => .panic unreachableAccessor

/-- `select_by_path_from_canon_map` (value part) -/
def selectByPathFromCanonMap (scalars : Scalars) (canonMap : CanonStreamMap) (h : ValueAccessor) (body : List ValueAccessor) : ER JVal :=
  match canonMapKeyOfPrefix scalars h with
  | .ok streamMapKey =>
    match body, canonMap.index streamMapKey with
    | b :: bs, some canonStream => selectByPathFromCanonMapStream scalars canonStream b bs   -- csm.$.key... case
    | [], some canonStream => .ok (.arr canonStream)                                          -- csm.$.key case
    | b :: bs, none => selectByPathFromCanonMapStream scalars [] b bs                         -- csm.$.non_existing_key.[0]... case (the key group is empty)
    | [], none => .ok (.arr [])                                                               -- csm.$.non_existing_key case
  | .error e => .error e
  | .panic s => .panic s

/-- `select_by_functor_from_canon_map` (value part) -/
def selectByFunctorFromCanonMap (canonMap : CanonStreamMap) (f : Functor) : JVal :=
  match f with
  | .length => .num canonMap.len

/-- `select_by_lambda_from_canon_map` (value part) -/
def selectByLambdaFromCanonMap (scalars : Scalars) (canonMap : CanonStreamMap) (lambda : LambdaAST) : ER JVal :=
  match lambda with
  | .valuePath h t => selectByPathFromCanonMap scalars canonMap h t
  | .functor f => .ok (selectByFunctorFromCanonMap canonMap f)

/-! ## Plain JSON navigation (the specification; written without reference to the functions above) -/

inductive Step where
  | idx (i : Nat)
  | key (k : String)
  | length
deriving Repr, DecidableEq, Inhabited

/-- member `k` of an object given as its list of members -/
def member (k : String) : List (String × JVal) → Option JVal
  | [] => none
  | (k', v) :: rest => if k' = k then some v else member k rest

def navigateStep (v : JVal) (s : Step) : Option JVal :=
  match v, s with
  | .arr a, .idx i => a[i]?
  | .obj kvs, .key k => member k kvs
  | .arr a, .length => some (.num a.length)
  | _, _ => none

/-- follow the steps; `none` when a step is impossible on the value reached -/
def navigate (v : JVal) : List Step → Option JVal
  | [] => some v
  | s :: rest =>
    match navigateStep v s with
    | some v' => navigate v' rest
    | none => none

/-- the JSON value a scalar name denotes in the store (a plain scalar, or the element a fold iterator
points at); `none` when the name denotes nothing -/
def scalarValue (scalars : Scalars) (name : String) : Option JVal :=
  match scalars.getValue name with
  | .ok r =>
    match scalarRefValue r with
    | .ok v => some v
    | _ => none
  | _ => none

/-- a JSON value used as an accessor: a string is a member name, a non-negative integer that fits `u32`
is an array index, nothing else is an accessor -/
def stepOfValue : JVal → Option Step
  | .str k => some (.key k)
  | .num i => if 0 ≤ i ∧ i ≤ 4294967295 then some (.idx i.toNat) else none
  | _ => none

def resolveStep (scalars : Scalars) : ValueAccessor → Option Step
  | .arrayAccess i => some (.idx i)
  | .fieldAccessByName n => some (.key n)
  | .fieldAccessByScalar s => (scalarValue scalars s).bind stepOfValue
  | .error => none

def resolveSteps (scalars : Scalars) : List ValueAccessor → Option (List Step)
  | [] => some []
  | a :: rest =>
    match resolveStep scalars a, resolveSteps scalars rest with
    | some s, some ss => some (s :: ss)
    | _, _ => none

def resolveLambda (scalars : Scalars) : LambdaAST → Option (List Step)
  | .functor .length => some [.length]
  | .valuePath h t => resolveSteps scalars (h :: t)

/-- the typed key the first accessor of a canon-map lens denotes: a name, an integer, or the string /
integer held by a plain (non-iterator) scalar -/
def resolveMapKey (scalars : Scalars) : ValueAccessor → Option StreamMapKey
  | .arrayAccess i => some (.i64 i)
  | .fieldAccessByName n => some (.str n)
  | .fieldAccessByScalar s =>
    match scalars.getValue s with
    | .ok (.value v) => StreamMapKey.fromValue v.result
    | _ => none
  | .error => none

/-- the values inserted under `k`, in insertion order (plain filtering of the key-value pairs) -/
def keyGroup (pairs : List JVal) (k : StreamMapKey) : List JVal :=
  pairs.filterMap fun kv =>
    match StreamMapKey.fromKvpairOwned kv, kv.getField valueFieldName with
    | some k', some v => if k' = k then some v else none
    | _, _ => none

end Aqua.Exec.Lens
