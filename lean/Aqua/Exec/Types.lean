import Aqua.Base.Res
import Aqua.Json.Value
import Aqua.Air.Ast
import Aqua.Trace.Handler
import Aqua.Run.ErrorCodes
/-
Types of the execution step (replica of `air/src/execution_step`): tetraplets, provenance, value
aggregates, catchable/uncatchable errors with their rendered messages and positional codes, the
scalar store (`ValuesSparseMatrix`), fold states, CID state and the execution context.
-/
namespace Aqua.Exec
open Aqua Aqua.Json Aqua.Air Aqua.Data Aqua.Trace

structure Tetraplet where
  peerPk : String
  serviceId : String := ""
  functionName : String := ""
  lens : String := ""
deriving Repr, DecidableEq, Inhabited

def Tetraplet.literal (initPeerId : String) : Tetraplet := { peerPk := initPeerId }
def Tetraplet.addLens (t : Tetraplet) (l : String) : Tetraplet := { t with lens := t.lens ++ l }

/-- `{:?}` of `SecurityTetraplet` (used in `InstructionParametersMismatch`) -/
def Tetraplet.debug (t : Tetraplet) : String :=
  s!"SecurityTetraplet \{ peer_pk: {repr t.peerPk}, service_id: {repr t.serviceId}, function_name: {repr t.functionName}, lens: {repr t.lens} }"

/-- serde JSON of a tetraplet (field order of the struct), the text hashed into its CID -/
def Tetraplet.json (t : Tetraplet) : String :=
  "{\"peer_pk\":" ++ renderStr t.peerPk ++ ",\"service_id\":" ++ renderStr t.serviceId ++
  ",\"function_name\":" ++ renderStr t.functionName ++ ",\"lens\":" ++ renderStr t.lens ++ "}"

inductive Provenance where
  | literal
  | serviceResult (cid : Cid)
  | canon (cid : Cid)
deriving Repr, DecidableEq, Inhabited

/-- `ValueAggregate`: the three Rust variants store different parts of the tetraplet; `new` below
normalises accordingly, so a plain structure is enough -/
structure ValueAggregate where
  result : JVal
  tetraplet : Tetraplet
  tracePos : Nat
  provenance : Provenance
deriving Repr, Inhabited

/-- `ValueAggregate::new` + `get_tetraplet` of the variant it builds -/
def ValueAggregate.new (result : JVal) (t : Tetraplet) (pos : Nat) (p : Provenance) : ValueAggregate :=
  match p with
  | .literal => ⟨result, Tetraplet.literal t.peerPk, pos, p⟩
  | .serviceResult _ => ⟨result, t, pos, p⟩
  | .canon _ => ⟨result, { peerPk := t.peerPk, lens := t.lens }, pos, p⟩

/-! ## errors -/

inductive LambdaErr where
  | canonStreamNotHaveEnoughValues (size idx : Nat)
  | emptyStream
  | fieldAccessorAppliedToStream (field : String)
  | arrayAccessorNotMatchValue (v : JVal) (idx : Nat)
  | valueNotContainSuchArrayIdx (v : JVal) (idx : Nat)
  | valueNotContainSuchField (v : JVal) (field : String)
  | fieldAccessorNotMatchValue (v : JVal) (field : String)
  | indexAccessNotU32 (accessor : JVal)
  | scalarAccessorHasInvalidType (v : JVal)
  | streamAccessorHasInvalidType (v : JVal)
  | canonStreamMapAccessorHasInvalidType (v : JVal)
  | canonStreamMapAccessorMustNotBeIterable
deriving Repr, Inhabited

def LambdaErr.render : LambdaErr → String
  | .canonStreamNotHaveEnoughValues s i => s!"lambda is applied to a stream that have only '{s}' elements, but '{i}' requested"
  | .emptyStream => "lambda is applied to an empty stream"
  | .fieldAccessorAppliedToStream f => s!"field accessor (with field name = '{f}') can't be applied to a stream"
  | .arrayAccessorNotMatchValue v i => s!"value '{v.render}' is not an array-type to match array accessor with idx = '{i}'"
  | .valueNotContainSuchArrayIdx v i => s!"value '{v.render}' does not contain element for idx = '{i}'"
  | .valueNotContainSuchField v f => s!"value '{v.render}' does not contain element with field name = '{f}'"
  | .fieldAccessorNotMatchValue v f => s!"value '{v.render}' is not an map-type to match field accessor with field_name = '{f}'"
  | .indexAccessNotU32 a => s!"index accessor `{a.render} can't be converted to u32`"
  | .scalarAccessorHasInvalidType v => s!"scalar accessor `{v.render}` should has number or string type"
  | .streamAccessorHasInvalidType v => s!"stream accessor `{v.render}` should has number (u32) type"
  | .canonStreamMapAccessorHasInvalidType v => s!"canon stream map accessor `{v.render}` should be either string or number"
  | .canonStreamMapAccessorMustNotBeIterable => "canon stream map accessor must not be iterable"

inductive ErrorObjectErr where
  | scalarMustBeObject (v : JVal)
  | scalarMustContainField (v : JVal) (field : String)
  | scalarFieldIsWrongType (v : JVal) (field expected : String)
  | errorCodeMustBeNonZero
deriving Repr, Inhabited

def ErrorObjectErr.render : ErrorObjectErr → String
  | .scalarMustBeObject v => s!"scalar should have an object type to be converted into error object, but '{v.render}' doesn't have"
  | .scalarMustContainField v f => s!"scalar '{v.render}' must have field with name '{f}'"
  | .scalarFieldIsWrongType v f e => s!"{f} of scalar '{v.render}' must have {e} type"
  | .errorCodeMustBeNonZero => "error code must be non-zero, but it is zero"

inductive CatchableErr where
  | localServiceError (code : Int) (msg : String)
  | matchValuesNotEqual
  | mismatchValuesEqual
  | variableNotFound (name : String)
  | incompatibleJValueType (name : String) (actual : JVal) (expected : String)
  | foldIteratesOverNonArray (v : JVal) (expr : String)
  | userError (error : JVal)
  | lambdaApplierError (e : LambdaErr)
  | invalidErrorObjectError (e : ErrorObjectErr)
  | variableWasNotInitializedAfterNew (name : String)
  | lengthFunctorAppliedToNotArray (v : JVal)
  | nonStringValueInTripletResolution (name : String) (actual : JVal)
  | streamMapError (msg : String)
deriving Repr, Inhabited

def CatchableErr.variant : CatchableErr → String
  | .localServiceError .. => "LocalServiceError" | .matchValuesNotEqual => "MatchValuesNotEqual"
  | .mismatchValuesEqual => "MismatchValuesEqual" | .variableNotFound _ => "VariableNotFound"
  | .incompatibleJValueType .. => "IncompatibleJValueType" | .foldIteratesOverNonArray .. => "FoldIteratesOverNonArray"
  | .userError _ => "UserError" | .lambdaApplierError _ => "LambdaApplierError"
  | .invalidErrorObjectError _ => "InvalidErrorObjectError"
  | .variableWasNotInitializedAfterNew _ => "VariableWasNotInitializedAfterNew"
  | .lengthFunctorAppliedToNotArray _ => "LengthFunctorAppliedToNotArray"
  | .nonStringValueInTripletResolution .. => "NonStringValueInTripletResolution"
  | .streamMapError _ => "StreamMapError"

def CatchableErr.render : CatchableErr → String
  | .localServiceError c m => s!"Local service error, ret_code is {c}, error message is '{m}'"
  | .matchValuesNotEqual => "compared values do not match"
  | .mismatchValuesEqual => "compared values do not mismatch"
  | .variableNotFound n => s!"variable with name '{n}' wasn't defined during script execution"
  | .incompatibleJValueType n a e => s!"expected JValue type '{e}' for the variable `{n}`, but got '{a.render}'"
  | .foldIteratesOverNonArray v e => s!"expression '{e}' returned non-array value '{v.render}' for fold iterable"
  | .userError e => s!"fail with '{e.render}' is used without corresponding xor"
  | .lambdaApplierError e => e.render
  | .invalidErrorObjectError e => e.render
  | .variableWasNotInitializedAfterNew n => s!"variable with name '{n}' was cleared by new and then wasn't set"
  | .lengthFunctorAppliedToNotArray v => s!"the length functor could applied only to an array-like value, but it's applied to '{v.render}'"
  | .nonStringValueInTripletResolution n a => s!"call cannot resolve non-String triplet variable part `{n}` with value '{a.render}'"
  | .streamMapError m => m

def CatchableErr.code (e : CatchableErr) : Int := (Run.errorCode? .catchable e.variant).getD 0
def CatchableErr.isJoinable : CatchableErr → Bool
  | .variableNotFound _ => true
  | _ => false
def CatchableErr.affectsLastError : CatchableErr → Bool
  | .matchValuesNotEqual | .mismatchValuesEqual => false
  | _ => true

/-- uncatchable errors: only the variant (→ code) is observable; messages are compared for a few -/
inductive UncatchableErr where
  | traceError (e : TraceErr) (instruction : String)
  | generationCompactificationError
  | intConversionError
  | foldStateNotFound (name : String)
  | iterableShadowing (name : String)
  | multipleIterableValues (name : String)
  | callResultNotCorrespondToInstr
  | shadowingIsNotAllowed (name : String)
  | scalarsStateCorrupted (name : String) (depth : Nat)
  | cidError
  | valueForCidNotFound (kind : String) (cid : Cid)
  | streamDontHaveSuchGeneration
  | malformedCallServiceFailed
  | streamSizeLimitExceeded
  | streamMapKeyError
  | streamMapError
  | canonStreamMapError
  | instructionParametersMismatch (param expected stored : String)
  | signingError
deriving Repr, Inhabited

def UncatchableErr.variant : UncatchableErr → String
  | .traceError .. => "TraceError" | .generationCompactificationError => "GenerationCompactificationError"
  | .intConversionError => "IntConversionError" | .foldStateNotFound _ => "FoldStateNotFound"
  | .iterableShadowing _ => "IterableShadowing" | .multipleIterableValues _ => "MultipleIterableValues"
  | .callResultNotCorrespondToInstr => "CallResultNotCorrespondToInstr"
  | .shadowingIsNotAllowed _ => "ShadowingIsNotAllowed" | .scalarsStateCorrupted .. => "ScalarsStateCorrupted"
  | .cidError => "CidError" | .valueForCidNotFound .. => "ValueForCidNotFound"
  | .streamDontHaveSuchGeneration => "StreamDontHaveSuchGeneration"
  | .malformedCallServiceFailed => "MalformedCallServiceFailed" | .streamSizeLimitExceeded => "StreamSizeLimitExceeded"
  | .streamMapKeyError => "StreamMapKeyError" | .streamMapError => "StreamMapError"
  | .canonStreamMapError => "CanonStreamMapError"
  | .instructionParametersMismatch .. => "InstructionParametersMismatch" | .signingError => "SigningError"

def UncatchableErr.code (e : UncatchableErr) : Int := (Run.errorCode? .uncatchable e.variant).getD 0

inductive ExecErr where
  | catchable (e : CatchableErr)
  | uncatchable (e : UncatchableErr)
  /-- the script uses a feature outside the modelled fragment (never produced by the implementation;
  the correspondence run skips such cases and counts them) -/
  | unmodelled (what : String)
deriving Repr, Inhabited

def ExecErr.isCatchable : ExecErr → Bool
  | .catchable _ => true
  | _ => false
def ExecErr.isJoinable : ExecErr → Bool
  | .catchable e => e.isJoinable
  | _ => false
def ExecErr.code : ExecErr → Int
  | .catchable e => e.code
  | .uncatchable e => e.code
  | .unmodelled _ => -1

abbrev ER := Res ExecErr

def catchable {α} (e : CatchableErr) : ER α := .error (.catchable e)
def uncatchable {α} (e : UncatchableErr) : ER α := .error (.uncatchable e)
def lambdaErr {α} (e : LambdaErr) : ER α := catchable (.lambdaApplierError e)
def unmodelled {α} (what : String) : ER α := .error (.unmodelled what)

/-- `trace_to_exec_err!` -/
def traceToExec {α} (r : TR α) (instr : Instr) : ER α :=
  r.mapErr fun e => .uncatchable (.traceError e instr.render)

/-! ## instruction errors (`:error:` and `%last_error%`) -/

structure InstructionError where
  error : JVal
  tetraplet : Option Tetraplet
  provenance : Provenance
  origCatchable : Option CatchableErr
deriving Repr, Inhabited

def noErrorObject : JVal := JVal.mkObj [("error_code", .num 0), ("message", .str "")]
def noError : InstructionError := ⟨noErrorObject, none, .literal, none⟩

def errorFromRawFields (code : Int) (msg instruction : String) (peerId : Option String) : JVal :=
  JVal.mkObj ([("error_code", .num code), ("message", .str msg), ("instruction", .str instruction)] ++
    (match peerId with | some p => [("peer_id", JVal.str p)] | none => []))

structure ErrDescriptor where
  error : InstructionError := noError
  canBeSet : Bool := true
deriving Repr, Inhabited

/-! ## scalars -/

structure SparseCell (α : Type) where
  depth : Nat
  value : Option α
deriving Repr, Inhabited

/-- `ValuesSparseMatrix<T>`; `cells` maps a name to a non-empty stack (last = top) -/
structure SparseMatrix (α : Type) where
  cells : List (String × List (SparseCell α)) := []
  allowedDepths : List Nat := [0]
  currentDepth : Nat := 0
deriving Repr, Inhabited

inductive IterableValue where
  /-- `IterableResolvedCall`: an array-valued aggregate -/
  | resolvedCall (v : ValueAggregate) (cursor len : Nat)
  /-- `IterableLambdaResult` -/
  | lambdaResult (vals : List JVal) (tetraplet : Tetraplet) (prov : Provenance) (cursor : Nat)
  /-- `IterableVecResolvedCall` / canon stream: a list of aggregates -/
  | vec (vals : List ValueAggregate) (cursor : Nat)
deriving Repr, Inhabited

inductive IterableType | scalar | stream (foldId : Nat)
deriving Repr, DecidableEq, Inhabited

structure FoldState where
  iterable : IterableValue
  iterableType : IterableType
  backIterationStarted : Bool := false
  instrHead : Instr
  lastInstrHead : Option Instr
deriving Repr, Inhabited

/-! ## streams (`value_types/stream/*.rs`) and canon streams -/

/-- `ValuesMatrix`: values per generation; `size` counts the values ever added -/
structure ValuesMatrix where
  values : List (List ValueAggregate) := []
  size : Nat := 0
deriving Repr, Inhabited

/-- `Stream`: values from the previous data, from the current data, and produced in this run -/
structure Stream where
  prev : ValuesMatrix := {}
  cur : ValuesMatrix := {}
  new : ValuesMatrix := {}
deriving Repr, Inhabited

inductive Generation where
  | previous (g : Nat)
  | current (g : Nat)
  | new
deriving Repr, DecidableEq, Inhabited

/-- `StreamDescriptor`: a stream instance with the span of the `new` that scopes it (global: `0..usize::MAX`) -/
structure StreamDesc where
  spanLeft : Nat
  spanRight : Nat
  stream : Stream
deriving Repr, Inhabited

structure StreamCursor where
  prevStart : Nat := 0
  curStart : Nat := 0
  newStart : Nat := 0
deriving Repr, DecidableEq, Inhabited

structure CanonStream where
  values : List ValueAggregate
  tetraplet : Tetraplet
deriving Repr, Inhabited

/-- `CanonStreamWithProvenance` -/
structure CanonStreamWP where
  canonStream : CanonStream
  cid : Cid
deriving Repr, Inhabited

end Aqua.Exec

namespace Aqua.Exec.Lens
open Aqua Aqua.Json

/-! ## `stream_map_key.rs` -/

inductive StreamMapKey where
  | str (s : String)
  | u64 (n : Nat)
  | i64 (i : Int)
deriving Repr, DecidableEq, Inhabited

def i64Min : Int := -9223372036854775808
def i64Max : Int := 9223372036854775807
def u64Max : Int := 18446744073709551615

/-- `StreamMapKey::from_value` / `from_value_ref`: strings; numbers that are `i64`; else numbers that are
`u64`; nothing else (floats, null, booleans, arrays, objects) -/
def StreamMapKey.fromValue : JVal → Option StreamMapKey
  | .str s => some (.str s)
  | .num i =>
    if i64Min ≤ i ∧ i ≤ i64Max then some (.i64 i)
    else if 0 ≤ i ∧ i ≤ u64Max then some (.u64 i.toNat)
    else none
  | _ => none

/-- `impl From<u32> for StreamMapKey` (numeric lens accessor) -/
def StreamMapKey.ofU32 (idx : Nat) : StreamMapKey := .i64 idx

/-- `to_key` -/
def StreamMapKey.toKey : StreamMapKey → String
  | .str s => s
  | .u64 n => toString n
  | .i64 i => toString i

end Aqua.Exec.Lens

namespace Aqua.Exec
open Aqua Aqua.Json Aqua.Air Aqua.Data Aqua.Trace

/-- `CanonStreamMap` (`value_types/canon_stream_map.rs`): all key-value pair objects, the index key ↦ canon
stream of the values inserted under that key (the `HashMap` as an association list in order of first insertion,
used through keyed access; the one place that iterates it is `asJvalue`), and the canon's tetraplet.
(`Lens.CanonStreamMap` is its value part, on which the lens applier is specified.) -/
structure CanonStreamMapAgg where
  values : List ValueAggregate
  map : List (Lens.StreamMapKey × CanonStream)
  tetraplet : Tetraplet
deriving Repr, Inhabited

/-- `CanonStreamMapWithProvenance` -/
structure CanonStreamMapWP where
  canonStreamMap : CanonStreamMapAgg
  cid : Cid
deriving Repr, Inhabited

structure Scalars where
  nonIterable : SparseMatrix ValueAggregate := {}
  iterable : List (String × FoldState) := []
  canonStreams : SparseMatrix CanonStreamWP := {}
  canonMaps : SparseMatrix CanonStreamMapWP := {}
deriving Repr, Inhabited

/-! ## CID state -/

structure ServiceResultAgg where
  valueCid : Cid
  argumentHash : String
  tetrapletCid : Cid
deriving Repr, DecidableEq, Inhabited

def ServiceResultAgg.json (a : ServiceResultAgg) : String :=
  "{\"value_cid\":" ++ renderStr a.valueCid ++ ",\"argument_hash\":" ++ renderStr a.argumentHash ++
  ",\"tetraplet_cid\":" ++ renderStr a.tetrapletCid ++ "}"

def Provenance.json : Provenance → String
  | .literal => "{\"type\":\"literal\"}"
  | .serviceResult cid => "{\"type\":\"service_result\",\"cid\":" ++ renderStr cid ++ "}"
  | .canon cid => "{\"type\":\"canon\",\"cid\":" ++ renderStr cid ++ "}"

/-- `CanonCidAggregate`: one element of a canonicalised stream -/
structure CanonElemAgg where
  value : Cid
  tetraplet : Cid
  provenance : Provenance
deriving Repr, DecidableEq, Inhabited

def CanonElemAgg.json (a : CanonElemAgg) : String :=
  "{\"value\":" ++ renderStr a.value ++ ",\"tetraplet\":" ++ renderStr a.tetraplet ++ ",\"provenance\":" ++ a.provenance.json ++ "}"

/-- `CanonResultCidAggregate` -/
structure CanonResultAgg where
  tetraplet : Cid
  values : List Cid
deriving Repr, DecidableEq, Inhabited

def CanonResultAgg.json (a : CanonResultAgg) : String :=
  "{\"tetraplet\":" ++ renderStr a.tetraplet ++ ",\"values\":[" ++ ",".intercalate (a.values.map renderStr) ++ "]}"

/-- stores as association lists keyed by CID (`HashMap` with keyed access only) -/
structure CidState where
  values : List (Cid × String) := []              -- raw JSON text
  tetraplets : List (Cid × Tetraplet) := []
  serviceResults : List (Cid × ServiceResultAgg) := []
  canonElements : List (Cid × CanonElemAgg) := []
  canonResults : List (Cid × CanonResultAgg) := []
deriving Repr, Inhabited

def upsert {β} (l : List (String × β)) (k : String) (v : β) : List (String × β) :=
  if l.any (fun (k', _) => k' == k) then l.map (fun (k', v') => if k' == k then (k', v) else (k', v')) else l ++ [(k, v)]

def lookup {β} (l : List (String × β)) (k : String) : Option β := (l.find? (fun (k', _) => k' == k)).map (·.2)

/-- `CidTracker::from_cid_stores`: previous entries, overwritten / extended by current ones -/
def mergeStores {β} (prev cur : List (String × β)) : List (String × β) := cur.foldl (fun acc (k, v) => upsert acc k v) prev

/-! ## call requests / results, run parameters, context -/

structure CallServiceResult where
  retCode : Int
  result : String
deriving Repr, DecidableEq, Inhabited

structure CallRequest where
  serviceId : String
  functionName : String
  arguments : List JVal
  tetraplets : List (List Tetraplet)
  /-- ghost: the peer the resolved triplet addresses (not part of `CallRequestParams`) -/
  forPeer : String := ""
deriving Repr, Inhabited

/-- functions of the environment that are parameters of the model -/
structure Env where
  /-- CID text of JSON bytes (`raw_value_to_json_cid` / `value_to_json_cid` after serialisation) -/
  hash : String → Cid
  /-- `serde_json::from_str` -/
  parseJson : String → Option JVal
  /-- the error text `serde_json::from_str` reports for a text that is not JSON -/
  parseErr : String → String := fun _ => ""

structure Ctx where
  scalars : Scalars := {}
  nextPeerPks : List String := []
  initPeerId : String
  currentPeerId : String
  timestamp : Nat
  ttl : Nat
  lastError : ErrDescriptor := {}
  error : ErrDescriptor := {}
  subgraphComplete : Bool := true
  lastCallRequestId : Nat
  callResults : List (String × CallServiceResult)
  callRequests : List (Nat × CallRequest) := []
  cid : CidState
  /-- `PeerCidTracker.cids` (registered only for the current peer) -/
  peerCids : List Cid := []
  th : TraceHandler
  /-- `Streams`: name ↦ stack of descriptors (innermost `new` scope last) -/
  streams : List (String × List StreamDesc) := []
  /-- `InstructionTracker.fold.seen_stream_count` (source of fold ids) -/
  foldStreamCount : Nat := 0
deriving Repr

structure St where
  ctx : Ctx
deriving Repr

end Aqua.Exec
