import Aqua.Exec.Instr
/-
The instruction interpreter `exec` (fuelled) for the modelled fragment, and `runInstr`, the
execution stage of a run.
-/
namespace Aqua.Exec
open Aqua Aqua.Json Aqua.Air Aqua.Data Aqua.Trace

def panicM {α} (site : String) : M α := fun c => (.panic site, c)

/-- `check_error_object` -/
def checkErrorObject (v : JVal) : Res ErrorObjectErr Unit :=
  match v with
  | .obj _ =>
    match v.getField "error_code" with
    | none => .error (.scalarMustContainField v "error_code")
    | some code =>
      match code with
      | .num n =>
        -- `is_i64() | is_u64()` then `as_i64().unwrap()`: a u64 above i64::MAX panics
        if n > 9223372036854775807 then .panic "instruction_error_definition.rs:ensure_error_code_correct:as_i64().unwrap()"
        else if n == 0 then .error .errorCodeMustBeNonZero
        else
          match v.getField "message" with
          | none => .error (.scalarMustContainField v "message")
          | some (.str _) => .ok ()
          | some _ => .error (.scalarFieldIsWrongType v "message" "string")
      | _ => .error (.scalarFieldIsWrongType v "error_code" "integer")
  | _ => .error (.scalarMustBeObject v)

def liftErrObj {α} (r : Res ErrorObjectErr α) : M α := liftER (r.mapErr fun e => .catchable (.invalidErrorObjectError e))

/-- `fail_with_error_object` -/
def failWithErrorObject (error : JVal) (t : Option Tetraplet) (p : Provenance) : M Unit := do
  modifyCtx fun c => { c with lastError := { error := ⟨error, t, p, none⟩, canBeSet := false }, subgraphComplete := false }
  throwE (.catchable (.userError error))

def execFail (arg : FailArg) : M Unit := do
  let c ← getCtx
  match arg with
  | .scalar name =>
    let (v, ts, p) ← liftER (resolveValue c (.scalar name))
    liftErrObj (checkErrorObject v)
    failWithErrorObject v ts.head? p
  | .scalarWL name l =>
    let (v, ts, p) ← liftER (resolveValue c (.scalarWL name l))
    liftErrObj (checkErrorObject v)
    failWithErrorObject v ts.head? p
  | .literal code msg =>
    let obj := errorFromRawFields code msg (FailArg.literal code msg).render (some c.initPeerId)
    failWithErrorObject obj (some (Tetraplet.literal c.initPeerId)) .literal
  | .canonWL .. => throwE (.unmodelled "fail with canon stream")
  | .lastError =>
    let ie := c.lastError.error
    liftErrObj (checkErrorObject ie.error)
    failWithErrorObject ie.error ie.tetraplet ie.provenance
  | .error =>
    let ie := c.error.error
    liftErrObj (checkErrorObject ie.error)
    let r ← tryM (failWithErrorObject ie.error ie.tetraplet ie.provenance)
    modifyCtx fun c => { c with error := { c.error with canBeSet := false } }
    match ie.origCatchable with
    | some orig => throwE (.catchable orig)
    | none => match r with
      | .ok () => pure ()
      | .error e => throwE e
      | .panic s => panicM s

/-- `apply_to_arg` for the scalar-result `ap` -/
def applyToArg (c : Ctx) (arg : Value) : ER ValueAggregate :=
  let pos := c.th.tracePos
  let const (v : JVal) : ER ValueAggregate := .ok ⟨v, Tetraplet.literal c.initPeerId, pos, .literal⟩
  match arg with
  | .initPeerId => const (.str c.initPeerId)
  | .literal s => const (.str s)
  | .timestamp => const (.num c.timestamp)
  | .ttl => const (.num c.ttl)
  | .number n => const (.num n)
  | .float r => const (.float r)
  | .boolean b => const (.bool b)
  | .emptyArray => const (.arr [])
  | .error _ | .lastError _ | .scalarWL .. => do
    let (v, ts, p) ← resolveValue c arg
    match ts with
    | t :: _ => pure (ValueAggregate.new v t pos p)
    | [] => Res.panic "apply_to_arguments.rs:tetraplets.remove(0)"
  | .scalar name => do
    -- `apply_scalar`: the aggregate itself (its trace position is kept for scalar results)
    match ← c.scalars.getValue name with
    | .value v => pure v
    | .iterableValue f => do
      let x ← f.iterable.peekExpect
      pure (itemIntoResolvedResult x)
  | .canon _ | .canonWL .. | .canonMap _ | .canonMapWL .. => unmodelled "ap with canon stream argument"

def execAp (arg : Value) (out : CallOutput) : M Unit := do
  match out with
  | .scalar name =>
    let r ← joinable (do
      let c ← getCtx
      liftER (applyToArg c arg))
    match r with
    | none => pure ()
    | some v =>
      let c ← getCtx
      let sc ← liftER (c.scalars.setScalarValue name v)
      setCtx { c with scalars := sc }
  | _ => throwE (.unmodelled "ap into a stream")

/-- `are_matchable_eq` -/
def areMatchableEq (c : Ctx) (a b : Value) : ER Bool := do
  let (l, _, _) ← resolveValue c a
  let (r, _, _) ← resolveValue c b
  pure (l == r)

/-- scalar iterables of `fold` (`fold/utils.rs`) -/
def createScalarIterable (c : Ctx) (iterable : Value) : ER (Option IterableValue) :=
  let fromValue (v : ValueAggregate) (name : String) : ER (Option IterableValue) :=
    match v.result with
    | .arr a => if a.isEmpty then .ok none else .ok (some (.resolvedCall v 0 a.length))
    | other => catchable (.foldIteratesOverNonArray other name)
  match iterable with
  | .scalar name => do
    match ← c.scalars.getValue name with
    | .value v => fromValue v name
    | .iterableValue f => do
      let x ← f.iterable.peekExpect
      fromValue (itemIntoResolvedResult x) name
  | .scalarWL name l => do
    let r ← c.scalars.getValue name
    let (v, t, p) ← r.parts
    let sel ← selectByLambdaFromScalar c.scalars v l
    let t' := populateTetrapletWithLambda t l
    match sel with
    | .arr a => if a.isEmpty then pure none else pure (some (.lambdaResult a t' p 0))
    | other => catchable (.foldIteratesOverNonArray other l.render)
  | .emptyArray => .ok none
  | _ => unmodelled "fold over a canon stream"

mutual
/-- `Instruction::execute` with the `execute!` wrapper (errors of everything except `call` update
`%last_error%` / `:error:` on the way up) -/
def exec (env : Env) : Nat → Instr → M Unit
  | 0, _ => throwE (.unmodelled "out of fuel")
  | fuel + 1, i =>
    match i with
    | .call p s f args out => execCall env i p s f args out
    | _ => fun c =>
      match execInner env fuel i c with
      | (.error e, c') => (.error e, c'.setErrorsOf e i)
      | r => r

def execInner (env : Env) (fuel : Nat) (i : Instr) : M Unit :=
  match i with
  | .call .. => pure ()  -- handled in `exec`
  | .null => pure ()
  | .never => makeSubgraphIncomplete
  | .seq l r => do
    modifyCtx fun c => { c with subgraphComplete := true }
    exec env fuel l
    let c ← getCtx
    if c.subgraphComplete then exec env fuel r else pure ()
  | .xor l r => do
    modifyCtx fun c => { c with subgraphComplete := true }
    let res ← tryM (exec env fuel l)
    match res with
    | .error (.catchable e) =>
      modifyCtx fun c => { c with
        subgraphComplete := true,
        lastError := { c.lastError with canBeSet := true },
        error := { error := { c.error.error with origCatchable := some e }, canBeSet := true } }
      let right ← tryM (exec env fuel r)
      -- clear_error_object_if_needed
      modifyCtx fun c => if c.error.canBeSet then { c with error := { c.error with error := noError } } else c
      match right with
      | .ok () => modifyCtx fun c => { c with error := { c.error with canBeSet := true } }
      | .error e => throwE e
      | .panic s => panicM s
    | .ok () => pure ()
    | .error e => throwE e
    | .panic s => panicM s
  | .par l r => do
    liftTH' i (fun th => th.meetParStart)
    let left ← execSubgraph env fuel i l .left
    let right ← execSubgraph env fuel i r .right
    modifyCtx fun c => { c with subgraphComplete := left.2 || right.2 }
    match left.1, right.1 with
    | none, _ | _, none => modifyCtx fun c => { c with lastError := { c.lastError with canBeSet := true } }
    | some _, some e => throwE e
  | .match_ a b body => do
    let eq ← joinable (do let c ← getCtx; liftER (areMatchableEq c a b))
    match eq with
    | none => pure ()
    | some true => exec env fuel body
    | some false => throwE (.catchable .matchValuesNotEqual)
  | .mismatch a b body => do
    let eq ← joinable (do let c ← getCtx; liftER (areMatchableEq c a b))
    match eq with
    | none => pure ()
    | some false => exec env fuel body
    | some true => throwE (.catchable .mismatchValuesEqual)
  | .ap arg out => execAp arg out
  | .fail arg => execFail arg
  | .foldScalar iterable iterator body last => do
    let it ← joinable (do let c ← getCtx; liftER (createScalarIterable c iterable))
    match it with
    | none | some none => pure ()
    | some (some itv) =>
      let fs : FoldState := { iterable := itv, iterableType := .scalar, instrHead := body, lastInstrHead := last }
      modifyCtx fun c => { c with scalars := c.scalars.meetFoldStart }
      let c ← getCtx
      let sc ← liftER (c.scalars.setIterableValue iterator fs)
      setCtx { c with scalars := sc }
      let res ← tryM (exec env fuel body)
      modifyCtx fun c => { c with scalars := c.scalars.removeIterableValue iterator }
      let c ← getCtx
      let sc ← liftER c.scalars.meetFoldEnd
      setCtx { c with scalars := sc }
      match res with
      | .ok () => pure ()
      | .error e => throwE e
      | .panic s => panicM s
  | .next iterator => do
    let c ← getCtx
    let fs ← liftER (c.scalars.getIterable iterator)
    match fs.iterableType with
    | .stream _ => throwE (.unmodelled "next in a stream fold")
    | .scalar =>
      let (moved, it') := fs.iterable.next
      if !moved then
        match fs.lastInstrHead with
        | some lastInstr =>
          modifyCtx fun c => { c with subgraphComplete := true }
          exec env fuel lastInstr
        | none => pure ()
      else
        setCtx { c with scalars := (c.scalars.setIterableState iterator { fs with iterable := it' }).meetNextBefore }
        let res ← tryM (exec env fuel fs.instrHead)
        let c ← getCtx
        let sc ← liftER c.scalars.meetNextAfter
        setCtx { c with scalars := sc }
        match res with
        | .error e => throwE e
        | .panic s => panicM s
        | .ok () =>
          let c ← getCtx
          let fs ← liftER (c.scalars.getIterable iterator)
          let (_, it'') := fs.iterable.prev
          setCtx { c with scalars := c.scalars.setIterableState iterator { fs with iterable := it'' } }
  | .new arg body _ _ =>
    match arg with
    | .scalar name => do
      modifyCtx fun c => { c with scalars := c.scalars.meetNewStartScalar name }
      let res ← tryM (exec env fuel body)
      let c ← getCtx
      let (sc, ok) := c.scalars.meetNewEndScalar name
      setCtx { c with scalars := sc }
      match res with
      | .error e => throwE e
      | .panic s => panicM s
      | .ok () => if ok then pure () else throwE (.uncatchable (.scalarsStateCorrupted name c.scalars.nonIterable.currentDepth))
    | _ => throwE (.unmodelled "new on a stream / map / canon stream")
  | _ => throwE (.unmodelled ("instruction " ++ i.render))

/-- `execute_subgraph` of par.rs: returns (error of a failed subgraph, observed completeness) -/
def execSubgraph (env : Env) (fuel : Nat) (par sub : Instr) (t : SubgraphType) : M (Option ExecErr × Bool) := do
  let isNext := match sub with | .next _ => true | _ => false
  modifyCtx fun c => { c with subgraphComplete := !isNext }
  let res ← tryM (exec env fuel sub)
  match res with
  | .ok () =>
    liftTH' par (fun th => th.meetParSubgraphEnd t)
    let c ← getCtx
    pure (none, c.subgraphComplete)
  | .error (.catchable e) =>
    makeSubgraphIncomplete
    liftTH' par (fun th => th.meetParSubgraphEnd t)
    let c ← getCtx
    pure (some (.catchable e), c.subgraphComplete)
  | .error e => do makeSubgraphIncomplete; throwE e
  | .panic s => panicM s
end

end Aqua.Exec
