import Aqua.Exec.Call
/-
The instruction interpreter `exec` (fuelled) for the modelled fragment.
-/
namespace Aqua.Exec
open Aqua Aqua.Json Aqua.Air Aqua.Data Aqua.Trace

/-- `check_error_object` -/
def checkErrorObject (v : JVal) : Res ErrorObjectErr Unit :=
  match v with
  | .obj _ =>
    match v.getField "error_code" with
    | none => .error (.scalarMustContainField v "error_code")
    | some code =>
      match code with
      | .num n =>
        -- `is_i64() | is_u64()` then `as_i64().unwrap()`: a u64 above i64::MAX panics
        if n > 9223372036854775807 then .panic "instruction_error_definition.rs:ensure_error_code_correct:as_i64().unwrap()"
        else if n == 0 then .error .errorCodeMustBeNonZero
        else
          match v.getField "message" with
          | none => .error (.scalarMustContainField v "message")
          | some (.str _) => .ok ()
          | some _ => .error (.scalarFieldIsWrongType v "message" "string")
      | _ => .error (.scalarFieldIsWrongType v "error_code" "integer")
  | _ => .error (.scalarMustBeObject v)

def errObjER {α} (r : Res ErrorObjectErr α) : ER α := r.mapErr fun e => .catchable (.invalidErrorObjectError e)

/-- `fail_with_error_object` -/
def failWithErrorObject (error : JVal) (t : Option Tetraplet) (p : Provenance) : M Unit := do
  modifyCtx fun c => { c with lastError := { error := ⟨error, t, p, none⟩, canBeSet := false }, subgraphComplete := false }
  throwE (.catchable (.userError error))

/-- the error object a `fail` throws, with its tetraplet and provenance -/
def failOperand (c : Ctx) (arg : FailArg) : ER (JVal × Option Tetraplet × Provenance) :=
  match arg with
  | .scalar name => do
    let (v, ts, p) ← resolveValue c (.scalar name)
    errObjER (checkErrorObject v)
    pure (v, ts.head?, p)
  | .scalarWL name l => do
    let (v, ts, p) ← resolveValue c (.scalarWL name l)
    errObjER (checkErrorObject v)
    pure (v, ts.head?, p)
  | .literal code msg =>
    .ok (errorFromRawFields code msg (FailArg.literal code msg).render (some c.initPeerId), some (Tetraplet.literal c.initPeerId), .literal)
  | .canonWL .. => unmodelled "fail with canon stream"
  | .lastError => do
    let ie := c.lastError.error
    errObjER (checkErrorObject ie.error)
    pure (ie.error, ie.tetraplet, ie.provenance)
  | .error => do
    let ie := c.error.error
    errObjER (checkErrorObject ie.error)
    pure (ie.error, ie.tetraplet, ie.provenance)

/-- `fail :error:`: rethrows the original catchable error when there is one -/
def execFailError (v : JVal) (t : Option Tetraplet) (p : Provenance) : M Unit :=
  readCtx (fun c => c.error.error.origCatchable) >>= fun orig =>
  tryM (failWithErrorObject v t p) >>= fun r =>
  modifyCtx (fun c => { c with error := { c.error with canBeSet := false } }) >>= fun _ =>
  match orig with
  | some o => throwE (.catchable o)
  | none => reraise r

def execFail (arg : FailArg) : M Unit :=
  readER (fun c => failOperand c arg) >>= fun r =>
  match arg with
  | .error => execFailError r.1 r.2.1 r.2.2
  | _ => failWithErrorObject r.1 r.2.1 r.2.2

/-- `apply_to_arg` for the scalar-result `ap` -/
def applyToArg (c : Ctx) (arg : Value) : ER ValueAggregate :=
  let pos := c.th.tracePos
  let const (v : JVal) : ER ValueAggregate := .ok ⟨v, Tetraplet.literal c.initPeerId, pos, .literal⟩
  match arg with
  | .initPeerId => const (.str c.initPeerId)
  | .literal s => const (.str s)
  | .timestamp => const (.num c.timestamp)
  | .ttl => const (.num c.ttl)
  | .number n => const (.num n)
  | .float r => const (.float r)
  | .boolean b => const (.bool b)
  | .emptyArray => const (.arr [])
  | .error _ | .lastError _ | .scalarWL .. => do
    let (v, ts, p) ← resolveValue c arg
    match ts with
    | t :: _ => pure (ValueAggregate.new v t pos p)
    | [] => Res.panic "apply_to_arguments.rs:tetraplets.remove(0)"
  | .scalar name => do
    -- `apply_scalar`: the aggregate itself (its trace position is kept for scalar results)
    match ← c.scalars.getValue name with
    | .value v => pure v
    | .iterableValue f => do
      let x ← f.iterable.peekExpect
      pure (itemIntoResolvedResult x)
  | .canon _ | .canonWL .. | .canonMap _ | .canonMapWL .. => unmodelled "ap with canon stream argument"

/-- update of the scalar store only -/
def withScalars (c : Ctx) (g : Scalars → ER Scalars) : ER Ctx :=
  (g c.scalars).bind fun sc => .ok { c with scalars := sc }

/-- update of the scalar store only, with a returned value -/
def withScalarsRet {α} (c : Ctx) (g : Scalars → ER (α × Scalars)) : ER (α × Ctx) :=
  (g c.scalars).bind fun (a, sc) => .ok (a, { c with scalars := sc })

def setScalar (name : String) (v : ValueAggregate) : M Unit :=
  modifyER fun c => withScalars c (·.setScalarValue name v)

def execAp (arg : Value) (out : CallOutput) : M Unit :=
  match out with
  | .scalar name => do
    match ← joinable (readER fun c => applyToArg c arg) with
    | none => pure ()
    | some v => setScalar name v
  | _ => throwE (.unmodelled "ap into a stream")

/-- `are_matchable_eq` -/
def areMatchableEq (c : Ctx) (a b : Value) : ER Bool := do
  let (l, _, _) ← resolveValue c a
  let (r, _, _) ← resolveValue c b
  pure (l == r)

/-- scalar iterables of `fold` (`fold/utils.rs`) -/
def createScalarIterable (c : Ctx) (iterable : Value) : ER (Option IterableValue) :=
  let fromValue (v : ValueAggregate) (name : String) : ER (Option IterableValue) :=
    match v.result with
    | .arr a => if a.isEmpty then .ok none else .ok (some (.resolvedCall v 0 a.length))
    | other => catchable (.foldIteratesOverNonArray other name)
  match iterable with
  | .scalar name => do
    match ← c.scalars.getValue name with
    | .value v => fromValue v name
    | .iterableValue f => do
      let x ← f.iterable.peekExpect
      fromValue (itemIntoResolvedResult x) name
  | .scalarWL name l => do
    let r ← c.scalars.getValue name
    let (v, t, p) ← r.parts
    let sel ← selectByLambdaFromScalar c.scalars v l
    let t' := populateTetrapletWithLambda t l
    match sel with
    | .arr a => if a.isEmpty then pure none else pure (some (.lambdaResult a t' p 0))
    | other => catchable (.foldIteratesOverNonArray other l.render)
  | .emptyArray => .ok none
  | _ => unmodelled "fold over a canon stream"

/-- xor: state changes when the left branch failed catchably, before the right branch runs -/
def xorEnterRight (e : CatchableErr) (c : Ctx) : Ctx :=
  { c with subgraphComplete := true,
           lastError := { c.lastError with canBeSet := true },
           error := { error := { c.error.error with origCatchable := some e }, canBeSet := true } }

/-- xor: `clear_error_object_if_needed`, then re-enable error setting if the right branch succeeded -/
def xorLeaveRight (rightOk : Bool) (c : Ctx) : Ctx :=
  let c := if c.error.canBeSet then { c with error := { c.error with error := noError } } else c
  if rightOk then { c with error := { c.error with canBeSet := true } } else c

def foldEnter (iterator : String) (fs : FoldState) : Ctx → ER Ctx := fun c =>
  withScalars c fun s => (s.meetFoldStart).setIterableValue iterator fs

def foldLeave (iterator : String) : Ctx → ER Ctx := fun c =>
  withScalars c fun s => (s.removeIterableValue iterator).meetFoldEnd

/-- `next`: advance the iterable; `none` = exhausted -/
def nextAdvance (iterator : String) : Ctx → ER (Option FoldState × Ctx) := fun c =>
  withScalarsRet c fun s => do
    let fs ← s.getIterable iterator
    match fs.iterableType with
    | .stream _ => unmodelled "next in a stream fold"
    | .scalar =>
      let (moved, it') := fs.iterable.next
      if !moved then pure (none, s)
      else
        let fs' := { fs with iterable := it' }
        pure (some fs', (s.setIterableState iterator fs').meetNextBefore)

def nextAfter : Ctx → ER Ctx := fun c => withScalars c (·.meetNextAfter)

def nextBack (iterator : String) : Ctx → ER Ctx := fun c =>
  withScalars c fun s => do
    let fs ← s.getIterable iterator
    let (_, it) := fs.iterable.prev
    pure (s.setIterableState iterator { fs with iterable := it })

def newLeave (name : String) : Ctx → ER (Bool × Ctx) := fun c =>
  withScalarsRet c fun s => let (sc, ok) := s.meetNewEndScalar name; .ok (ok, sc)

def isNext : Instr → Bool
  | .next _ => true
  | _ => false

mutual
/-- `Instruction::execute` with the `execute!` wrapper (errors of everything except `call` update
`%last_error%` / `:error:` on the way up) -/
def exec (env : Env) : Nat → Instr → M Unit
  | 0, _ => throwE (.unmodelled "out of fuel")
  | fuel + 1, i =>
    match i with
    | .call p s f args out => execCall env i p s f args out
    | _ => onError (execInner env fuel i) (fun e c => c.setErrorsOf e i)

def execInner (env : Env) (fuel : Nat) (i : Instr) : M Unit :=
  match i with
  | .call .. => pure ()  -- handled in `exec`
  | .null => pure ()
  | .never => makeSubgraphIncomplete
  | .seq l r => do
    modifyCtx fun c => { c with subgraphComplete := true }
    exec env fuel l
    let complete ← readCtx (·.subgraphComplete)
    if complete then exec env fuel r else pure ()
  | .xor l r => do
    modifyCtx fun c => { c with subgraphComplete := true }
    let res ← tryM (exec env fuel l)
    match res with
    | .error (.catchable e) => do
      modifyCtx (xorEnterRight e)
      let right ← tryM (exec env fuel r)
      modifyCtx (xorLeaveRight right.isOk)
      reraise right
    | r => reraise r
  | .par l r => do
    liftTH' i (fun th => th.meetParStart)
    let left ← execSubgraph env fuel i l .left
    let right ← execSubgraph env fuel i r .right
    modifyCtx fun c => { c with subgraphComplete := left.2 || right.2 }
    match left.1, right.1 with
    | none, _ | _, none => modifyCtx fun c => { c with lastError := { c.lastError with canBeSet := true } }
    | some _, some e => throwE e
  | .match_ a b body => do
    match ← joinable (readER fun c => areMatchableEq c a b) with
    | none => pure ()
    | some true => exec env fuel body
    | some false => throwE (.catchable .matchValuesNotEqual)
  | .mismatch a b body => do
    match ← joinable (readER fun c => areMatchableEq c a b) with
    | none => pure ()
    | some false => exec env fuel body
    | some true => throwE (.catchable .mismatchValuesEqual)
  | .ap arg out => execAp arg out
  | .fail arg => execFail arg
  | .foldScalar iterable iterator body last => do
    match ← joinable (readER fun c => createScalarIterable c iterable) with
    | none | some none => pure ()
    | some (some itv) =>
      modifyER (foldEnter iterator { iterable := itv, iterableType := .scalar, instrHead := body, lastInstrHead := last })
      let res ← tryM (exec env fuel body)
      modifyER (foldLeave iterator)
      reraise res
  | .next iterator => do
    match ← stateER (nextAdvance iterator) with
    | none =>
      let fs ← readER fun c => c.scalars.getIterable iterator
      match fs.lastInstrHead with
      | some lastInstr =>
        modifyCtx fun c => { c with subgraphComplete := true }
        exec env fuel lastInstr
      | none => pure ()
    | some fs =>
      let res ← tryM (exec env fuel fs.instrHead)
      modifyER nextAfter
      match res with
      | .ok () => modifyER (nextBack iterator)
      | r => reraise r
  | .new arg body _ _ =>
    match arg with
    | .scalar name => do
      modifyCtx fun c => { c with scalars := c.scalars.meetNewStartScalar name }
      let res ← tryM (exec env fuel body)
      let ok ← stateER (newLeave name)
      match res with
      | .ok () =>
        if ok then pure ()
        else do
          let d ← readCtx fun c => c.scalars.nonIterable.currentDepth
          throwE (.uncatchable (.scalarsStateCorrupted name d))
      | r => reraise r
    | _ => throwE (.unmodelled "new on a stream / map / canon stream")
  | _ => throwE (.unmodelled ("instruction " ++ i.render))

/-- `execute_subgraph` of par.rs: returns (error of a failed subgraph, observed completeness) -/
def execSubgraph (env : Env) (fuel : Nat) (par sub : Instr) (t : SubgraphType) : M (Option ExecErr × Bool) := do
  modifyCtx fun c => { c with subgraphComplete := !(isNext sub) }
  let res ← tryM (exec env fuel sub)
  match res with
  | .ok () =>
    liftTH' par (fun th => th.meetParSubgraphEnd t)
    let complete ← readCtx (·.subgraphComplete)
    pure (none, complete)
  | .error (.catchable e) =>
    makeSubgraphIncomplete
    liftTH' par (fun th => th.meetParSubgraphEnd t)
    let complete ← readCtx (·.subgraphComplete)
    pure (some (.catchable e), complete)
  | .error e => do makeSubgraphIncomplete; throwE e
  | .panic s => panicM s
end

end Aqua.Exec
