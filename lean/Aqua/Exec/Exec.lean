import Aqua.Exec.Call
/-
The instruction interpreter `exec` (fuelled): every instruction of the AST.
-/
namespace Aqua.Exec
open Aqua Aqua.Json Aqua.Air Aqua.Data Aqua.Trace

/-- `check_error_object` -/
def checkErrorObject (v : JVal) : Res ErrorObjectErr Unit :=
  match v with
  | .obj _ =>
    match v.getField "error_code" with
    | none => .error (.scalarMustContainField v "error_code")
    | some code =>
      match code with
      | .num n =>
        -- `value.as_i64()`: a u64 above i64::MAX is not an integer error code (since /repo 0e86aa7; it panicked before)
        if n > 9223372036854775807 then .error (.scalarFieldIsWrongType v "error_code" "integer")
        else if n == 0 then .error .errorCodeMustBeNonZero
        else
          match v.getField "message" with
          | none => .error (.scalarMustContainField v "message")
          | some (.str _) => .ok ()
          | some _ => .error (.scalarFieldIsWrongType v "message" "string")
      | _ => .error (.scalarFieldIsWrongType v "error_code" "integer")
  | _ => .error (.scalarMustBeObject v)

def errObjER {α} (r : Res ErrorObjectErr α) : ER α := r.mapErr fun e => .catchable (.invalidErrorObjectError e)

/-- `fail_with_error_object` -/
def failWithErrorObject (error : JVal) (t : Option Tetraplet) (p : Provenance) : M Unit := do
  modifyCtx fun c => { c with lastError := { error := ⟨error, t, p, none⟩, canBeSet := false }, subgraphComplete := false }
  throwE (.catchable (.userError error))

/-- the error object a `fail` throws, with its tetraplet and provenance -/
def failOperand (c : Ctx) (arg : FailArg) : ER (JVal × Option Tetraplet × Provenance) :=
  match arg with
  | .scalar name => do
    let (v, ts, p) ← resolveValue c (.scalar name)
    errObjER (checkErrorObject v)
    pure (v, ts.head?, p)
  | .scalarWL name l => do
    let (v, ts, p) ← resolveValue c (.scalarWL name l)
    errObjER (checkErrorObject v)
    pure (v, ts.head?, p)
  | .literal code msg =>
    .ok (errorFromRawFields code msg (FailArg.literal code msg).render (some c.initPeerId), some (Tetraplet.literal c.initPeerId), .literal)
  | .canonWL name l => do
    -- `fail_with_canon_stream`
    let (v, ts, p) ← resolveValue c (.canonWL name l)
    errObjER (checkErrorObject v)
    pure (v, ts.head?, p)
  | .lastError => do
    let ie := c.lastError.error
    errObjER (checkErrorObject ie.error)
    pure (ie.error, ie.tetraplet, ie.provenance)
  | .error => do
    let ie := c.error.error
    errObjER (checkErrorObject ie.error)
    pure (ie.error, ie.tetraplet, ie.provenance)

/-- `fail :error:`: rethrows the original catchable error when there is one -/
def execFailError (v : JVal) (t : Option Tetraplet) (p : Provenance) : M Unit :=
  readCtx (fun c => c.error.error.origCatchable) >>= fun orig =>
  tryM (failWithErrorObject v t p) >>= fun r =>
  modifyCtx (fun c => { c with error := { c.error with canBeSet := false } }) >>= fun _ =>
  match orig with
  | some o => throwE (.catchable o)
  | none => reraise r

def execFail (arg : FailArg) : M Unit :=
  readER (fun c => failOperand c arg) >>= fun r =>
  match arg with
  | .error => execFailError r.1 r.2.1 r.2.2
  | _ => failWithErrorObject r.1 r.2.1 r.2.2

/-- `apply_to_arg` for the scalar-result `ap` -/
def applyToArg (c : Ctx) (arg : Value) : ER ValueAggregate :=
  let pos := c.th.tracePos
  let const (v : JVal) : ER ValueAggregate := .ok ⟨v, Tetraplet.literal c.initPeerId, pos, .literal⟩
  match arg with
  | .initPeerId => const (.str c.initPeerId)
  | .literal s => const (.str s)
  | .timestamp => const (.num c.timestamp)
  | .ttl => const (.num c.ttl)
  | .number n => const (.num n)
  | .float r => const (.float r)
  | .boolean b => const (.bool b)
  | .emptyArray => const (.arr [])
  | .error _ | .lastError _ | .scalarWL .. | .canonWL .. | .canonMapWL .. => do
    -- `apply_error` / `apply_last_error` / `apply_scalar_wl` / `apply_canon_stream_wl` / `apply_canon_stream_map_wl`
    let (v, ts, p) ← resolveValue c arg
    match ts with
    | t :: _ => pure (ValueAggregate.new v t pos p)
    | [] => Res.panic "apply_to_arguments.rs:tetraplets.remove(0)"
  | .scalar name => do
    -- `apply_scalar`: the aggregate itself (its trace position is kept for scalar results)
    match ← c.scalars.getValue name with
    | .value v => pure v
    | .iterableValue f => do
      let x ← f.iterable.peekExpect
      pure (itemIntoResolvedResult x)
  | .canon name => do
    -- `apply_canon_stream`: the whole canon stream as one value carrying the canon's tetraplet and id
    let cs ← c.scalars.getCanonStream name
    let v : JVal := .arr (cs.canonStream.values.map (·.result))
    pure (ValueAggregate.new v { peerPk := cs.canonStream.tetraplet.peerPk, lens := cs.canonStream.tetraplet.lens } pos (.canon cs.cid))
  | .canonMap name => do
    -- `apply_canon_stream_map`: the whole canon map as one object carrying the canon's tetraplet and id
    let cm ← c.scalars.getCanonMap name
    let t := cm.canonStreamMap.tetraplet
    pure (ValueAggregate.new cm.canonStreamMap.asJvalue { peerPk := t.peerPk, lens := t.lens } pos (.canon cm.cid))

/-- update of the scalar store only -/
def withScalars (c : Ctx) (g : Scalars → ER Scalars) : ER Ctx :=
  (g c.scalars).bind fun sc => .ok { c with scalars := sc }

/-- update of the scalar store only, with a returned value -/
def withScalarsRet {α} (c : Ctx) (g : Scalars → ER (α × Scalars)) : ER (α × Ctx) :=
  (g c.scalars).bind fun (a, sc) => .ok (a, { c with scalars := sc })

def setScalar (name : String) (v : ValueAggregate) : M Unit :=
  modifyER fun c => withScalars c (·.setScalarValue name v)

def execAp (arg : Value) (out : CallOutput) : M Unit :=
  match out with
  | .scalar name => do
    match ← joinable (readER fun c => applyToArg c arg) with
    | none => pure ()
    | some v => setScalar name v
  | _ => throwE (.unmodelled "ap without a result variable (not in `ApResult`; stream results are dispatched before)")

/-- `apply_to_arg(.., should_touch_trace = true)`: a scalar argument takes the position of the `ap` state -/
def applyToArgStream (c : Ctx) (arg : Value) : ER ValueAggregate :=
  match arg with
  | .scalar _ => (applyToArg c arg).bind fun v => .ok { v with tracePos := c.th.tracePos }
  | _ => applyToArg c arg

def generationOfAp : MergerApResult → Generation
  | .notMet => .new
  | .met r => match r.valueSource with
    | .previousData => .previous r.generation
    | .currentData => .current r.generation

/-- `ap` into a stream: merge the `ap` state, append the value to the generation the data names (a new
one otherwise), push the state with the stub generation (compaction fills it in) -/
def execApStream (i : Instr) (arg : Value) (name : String) (pos : Nat) : M Unit :=
  joinable (readER fun c => applyToArgStream c arg) >>= fun r =>
  match r with
  | none => pure ()
  | some v =>
    liftTH i (fun th => th.meetApStart) >>= fun met =>
    modifyER (fun c => c.addStreamValue v name (generationOfAp met) pos) >>= fun _ =>
    modifyCtx fun c => { c with th := c.th.meetApEnd [generationStub] }

/-! ## `ap` into a stream map (`ap_map.rs`) -/

/-- `unsupported_map_key_type` -/
def unsupportedMapKeyType (mapName : String) : CatchableErr := .streamMapError s!"unsupported type for {mapName} map's key"

/-- `resolve_key_if_needed` -/
def resolveKeyIfNeeded (c : Ctx) (key : Value) (mapName : String) : ER Lens.StreamMapKey :=
  match key with
  | .literal s => .ok (.str s)
  | .number n => .ok (.i64 n)
  | .scalar _ | .scalarWL .. | .canonWL .. => do
    let (v, _, _) ← resolveValue c key
    match Lens.StreamMapKey.fromValue v with
    | some k => pure k
    | none => catchable (unsupportedMapKeyType mapName)
  | _ => unmodelled "stream map key (not in `StreamMapKeyClause`)"

/-- `ApMap::execute`: the value and then the key are resolved first (both with `joinable!`; before the repair in /repo
the key was resolved after the `ap` state had been consumed), then the `ap` state is merged, the key-value object goes
to the generation the data names, the stub state is pushed -/
def execApMap (i : Instr) (key val : Value) (name : String) (pos : Nat) : M Unit :=
  joinable (readER fun c => applyToArgStream c val) >>= fun r =>
  match r with
  | none => pure ()
  | some v =>
    joinable (readER fun c => resolveKeyIfNeeded c key name) >>= fun k =>
    match k with
    | none => pure ()
    | some k =>
      liftTH i (fun th => th.meetApStart) >>= fun met =>
      modifyER (fun c => c.addStreamMapValue k v name (generationOfAp met) pos) >>= fun _ =>
      modifyCtx fun c => { c with th := c.th.meetApEnd [generationStub] }

/-! ## canon (`canon.rs`, `canon_map.rs`, `canon_stream_map_scalar.rs`, `canon_utils/mod.rs`) -/

/-- what a `canon` binds: a canon stream (`canon.rs`), a canon stream map (`canon_map.rs`) or a scalar holding the
map as one object (`canon_stream_map_scalar.rs`); the three instructions share `canon_utils` and differ in the
producer and epilog closures -/
inductive CanonTarget where
  | stream (name : String)
  | map (name : String)
  | scalar (name : String)
deriving Repr, DecidableEq, Inhabited

/-- the `create_canon_stream_producer` closures: a snapshot of the stream / of the stream map's pairs as the peer
sees them now (`iter()`: previous, current, new), or — for the scalar form — ONE literal value: the object of
the map's unique keys -/
def canonProduce (target : CanonTarget) (c : Ctx) (stream : String) (streamPos : Nat) (peerId : String) : CanonStream :=
  let values := match c.getStream stream streamPos with
    | some s => s.all
    | none => []
  match target with
  | .stream _ | .map _ => ⟨values, { peerPk := peerId }⟩
  | .scalar _ => ⟨[⟨JVal.mkObj (iterUniqueKeyObject values []), Tetraplet.literal peerId, 0, .literal⟩], { peerPk := peerId }⟩

/-- the epilog closures up to the trace: bind the canon stream / the canon map built from it / the scalar -/
def canonBind (target : CanonTarget) (cs : CanonStream) (cid : Cid) (c : Ctx) : ER Scalars :=
  match target with
  | .stream canonName => c.scalars.setCanonValue canonName ⟨cs, cid⟩
  | .map canonMapName => do
    let m ← CanonStreamMapAgg.fromCanonStream cs
    c.scalars.setCanonMapValue canonMapName ⟨m, cid⟩
  | .scalar scalarName =>
    match cs.values.head? with
    | none => uncatchable .canonStreamMapError          -- `NoDataToProduceScalar`
    | some first =>
      -- `CanonResultAggregate::new(value, peer_pk, &tetraplet.lens, position)` + `from_canon_result`
      c.scalars.setScalarValue scalarName ⟨first.result, { peerPk := cs.tetraplet.peerPk, lens := cs.tetraplet.lens }, c.th.tracePos, .canon cid⟩

def Ctx.recordCanonCid (c : Ctx) (peerId : String) (cid : Cid) : Ctx :=
  if peerId == c.currentPeerId then { c with peerCids := c.peerCids ++ [cid] } else c

/-- the epilog closure of `canon` together with the registration of the canon id that precedes it in
Rust (`record_canon_cid`, then `set_canon_value`, then `meet_canon_end`): one atomic update — if binding the
name fails (shadowing: an uncatchable error, the run returns the previous data) nothing is kept -/
def canonFinish (target : CanonTarget) (cs : CanonStream) (cid : Cid) (registerFor : String) : M Unit :=
  modifyER fun c => do
    let sc ← canonBind target cs cid c
    let c := c.recordCanonCid registerFor cid
    pure { c with scalars := sc, th := c.th.meetCanonEnd (.executed cid) }

/-- `create_canon_stream_for_first_time`: snapshot of the stream as the peer sees it now
(`stream.iter()`: previous, current, new), tracked in the CID stores, registered and bound -/
def createCanonFirstTime (env : Env) (target : CanonTarget) (stream : String) (streamPos : Nat) (peerId : String) : M Unit :=
  stateER (fun c =>
    let cs : CanonStream := canonProduce target c stream streamPos peerId
    let (cid, st) := trackCanonResult env c.cid cs
    .ok ((cs, cid), { c with cid := st })) >>= fun r =>
  canonFinish target r.1 r.2 peerId

/-- what `handle_canon_executed` reads: the resolved peer (for the tetraplet check) and the CID stores —
never the live stream -/
def canonRead (env : Env) (peer : Value) (cid : Cid) (c : Ctx) : ER CanonStream := do
  let peerId ← resolveToString c peer
  let expected : Tetraplet := { peerPk := peerId }
  match lookup c.cid.canonResults cid with
  | none => uncatchable (.valueForCidNotFound "canon result aggregate" cid)
  | some agg => do
    let t ← getTetrapletByCid c.cid agg.tetraplet
    verifyCanon expected t
    let values ← agg.values.mapM (getCanonValueByCid env c.cid)
    pure (({ values := values, tetraplet := t } : CanonStream))

/-- `handle_canon_executed`: the canon stream is rebuilt from the stores alone (never from the live stream) -/
def canonExecuted (env : Env) (target : CanonTarget) (peer : Value) (cid : Cid) : M Unit :=
  readER (canonRead env peer cid) >>= fun cs =>
  canonFinish target cs cid cs.tetraplet.peerPk

def execCanon (env : Env) (i : Instr) (peer : Value) (stream : String) (streamPos : Nat) (canonName : CanonTarget) : M Unit :=
  liftTH i (fun th => th.meetCanonStart) >>= fun met =>
  match met with
  | .canonResult (.executed cid) => canonExecuted env canonName peer cid
  | .canonResult (.requestSentBy sender) =>
    -- `handle_canon_request_sent_by`: the peer id is resolved without `joinable!`
    readER (fun c => resolveToString c peer) >>= fun peerId =>
    readCtx (·.currentPeerId) >>= fun me =>
    if me != peerId then
      modifyCtx fun c => { c with subgraphComplete := false, th := c.th.meetCanonEnd (.requestSentBy sender) }
    else createCanonFirstTime env canonName stream streamPos peerId
  | .empty =>
    joinable (readER fun c => resolveToString c peer) >>= fun r =>
    match r with
    | none => pure ()
    | some peerId =>
      readCtx (·.currentPeerId) >>= fun me =>
      if me != peerId then
        modifyCtx fun c => { c with subgraphComplete := false, nextPeerPks := c.nextPeerPks ++ [peerId],
                                    th := c.th.meetCanonEnd (.requestSentBy c.currentPeerId) }
      else createCanonFirstTime env canonName stream streamPos peerId

/-- `are_matchable_eq` -/
def areMatchableEq (c : Ctx) (a b : Value) : ER Bool := do
  let (l, _, _) ← resolveValue c a
  let (r, _, _) ← resolveValue c b
  pure (l == r)

/-- the loop of `create_canon_stream_map_iterable_value` run over the REVERSED pairs: the first pair met of every
key is kept (pairs without a map key are skipped); the result is in reversed order -/
def firstPairPerKey : List ValueAggregate → List Lens.StreamMapKey → List ValueAggregate
  | [], _ => []
  | va :: rest, met =>
    match Lens.StreamMapKey.fromKvpairOwned va.result with
    | some key => if met.contains key then firstPairPerKey rest met else va :: firstPairPerKey rest (key :: met)
    | none => firstPairPerKey rest met

def lastPairPerKey (values : List ValueAggregate) : List ValueAggregate := (firstPairPerKey values.reverse []).reverse

/-- scalar iterables of `fold` (`fold/utils.rs`) -/
def createScalarIterable (c : Ctx) (iterable : Value) : ER (Option IterableValue) :=
  let fromValue (v : ValueAggregate) (name : String) : ER (Option IterableValue) :=
    match v.result with
    | .arr a => if a.isEmpty then .ok none else .ok (some (.resolvedCall v 0 a.length))
    | other => catchable (.foldIteratesOverNonArray other name)
  match iterable with
  | .scalar name => do
    match ← c.scalars.getValue name with
    | .value v => fromValue v name
    | .iterableValue f => do
      let x ← f.iterable.peekExpect
      fromValue (itemIntoResolvedResult x) name
  | .scalarWL name l => do
    let r ← c.scalars.getValue name
    let (v, t, p) ← r.parts
    let sel ← selectByLambdaFromScalar c.scalars v l
    let t' := populateTetrapletWithLambda t l
    match sel with
    | .arr a => if a.isEmpty then pure none else pure (some (.lambdaResult a t' p 0))
    | other => catchable (.foldIteratesOverNonArray other l.render)
  | .emptyArray => .ok none
  | .canon name => do
    let cs ← c.scalars.getCanonStream name
    if cs.canonStream.values.isEmpty then pure none else pure (some (.vec cs.canonStream.values 0))
  | .canonMap name => do
    -- `create_canon_stream_map_iterable_value`: the LAST pair of every key, in the order of these last occurrences
    let cm ← c.scalars.getCanonMap name
    if cm.canonStreamMap.isEmpty then pure none else pure (some (.vec (lastPairPerKey cm.canonStreamMap.values) 0))
  | .canonMapWL name l => do
    -- `create_canon_stream_map_wl_iterable_value`
    let cm ← c.scalars.getCanonMap name
    if cm.canonStreamMap.isEmpty then pure none
    else do
      -- `JValuable::apply_lambda` (the value part only)
      let sel ← lensOfLambda l fun lam => Lens.selectByLambdaFromCanonMap c.scalars cm.canonStreamMap.toLens lam
      let t' := populateTetrapletWithLambda cm.canonStreamMap.tetraplet l
      match sel with
      | .arr a => if a.isEmpty then pure none else pure (some (.lambdaResult a t' (.canon cm.cid) 0))
      | other => catchable (.foldIteratesOverNonArray other l.render)
  | _ => unmodelled "fold iterable (not in `FoldScalarIterable`)"

/-- xor: state changes when the left branch failed catchably, before the right branch runs -/
def xorEnterRight (e : CatchableErr) (c : Ctx) : Ctx :=
  { c with subgraphComplete := true,
           lastError := { c.lastError with canBeSet := true },
           error := { error := { c.error.error with origCatchable := some e }, canBeSet := true } }

/-- xor: `clear_error_object_if_needed`, then re-enable error setting if the right branch succeeded -/
def xorLeaveRight (rightOk : Bool) (c : Ctx) : Ctx :=
  let c := if c.error.canBeSet then { c with error := { c.error with error := noError } } else c
  if rightOk then { c with error := { c.error with canBeSet := true } } else c

def foldEnter (iterator : String) (fs : FoldState) : Ctx → ER Ctx := fun c =>
  withScalars c fun s => (s.meetFoldStart).setIterableValue iterator fs

def foldLeave (iterator : String) : Ctx → ER Ctx := fun c =>
  withScalars c fun s => (s.removeIterableValue iterator).meetFoldEnd

/-- `next`: advance the iterable; `none` = exhausted -/
def nextAdvance (iterator : String) : Ctx → ER (Option FoldState × Ctx) := fun c =>
  withScalarsRet c fun s => do
    let fs ← s.getIterable iterator
    let (moved, it') := fs.iterable.next
    if !moved then pure (none, s)
    else
      let fs' := { fs with iterable := it' }
      pure (some fs', (s.setIterableState iterator fs').meetNextBefore)

def nextAfter : Ctx → ER Ctx := fun c => withScalars c (·.meetNextAfter)

def nextBack (iterator : String) : Ctx → ER Ctx := fun c =>
  withScalars c fun s => do
    let fs ← s.getIterable iterator
    let (_, it) := fs.iterable.prev
    pure (s.setIterableState iterator { fs with iterable := it })

def newLeave (name : String) : Ctx → ER (Bool × Ctx) := fun c =>
  withScalarsRet c fun s => let (sc, ok) := s.meetNewEndScalar name; .ok (ok, sc)

/-- `throw_error_if_not_catchable` -/
def throwIfNotCatchable (res : Res ExecErr Unit) : M Unit :=
  match res with
  | .ok () => pure ()
  | .error (.catchable _) => pure ()
  | r => reraise r

/-- the fold id of a stream-type fold state (`maybe_meet_*` of next.rs act on those only) -/
def streamFoldId (fs : FoldState) : Option Nat :=
  match fs.iterableType with
  | .stream id => some id
  | .scalar => none

/-- `maybe_meet_iteration_end` / `maybe_meet_back_iterator` / `maybe_meet_iteration_start` -/
def maybeTH (i : Instr) (fs : FoldState) (f : Nat → TraceHandler → TR TraceHandler) : M Unit :=
  match streamFoldId fs with
  | some id => liftTH' i (f id)
  | none => pure ()

/-- the `else` branch of `next` when the iterable is exhausted and there is no last instruction -/
def nextMarkBackIteration (iterator : String) : M Unit :=
  modifyER fun c =>
    (c.scalars.getIterable iterator).bind fun fs =>
      match fs.iterableType with
      | .stream _ =>
        if !fs.backIterationStarted then
          .ok { c with scalars := c.scalars.setIterableState iterator { fs with backIterationStarted := true }, subgraphComplete := false }
        else .ok c
      | .scalar => .ok c

/-- `get_mut_stream` of fold_stream.rs (`unwrap`) -/
def foldStreamGet (name : String) (pos : Nat) : M Stream :=
  readER fun c => match c.getStream name pos with
    | some s => .ok s
    | none => .panic "fold_stream.rs:get_mut_stream:streams.get_mut(..).unwrap()"

def newLeaveCanon (name : String) : Ctx → ER (Bool × Ctx) := fun c =>
  withScalarsRet c fun s => let (sc, ok) := s.meetNewEndCanon name; .ok (ok, sc)

def newLeaveCanonMap (name : String) : Ctx → ER (Bool × Ctx) := fun c =>
  withScalarsRet c fun s => let (sc, ok) := s.meetNewEndCanonMap name; .ok (ok, sc)

def isNext : Instr → Bool
  | .next _ => true
  | _ => false

mutual
/-- `Instruction::execute` with the `execute!` wrapper (errors of everything except `call` update
`%last_error%` / `:error:` on the way up) -/
def exec (env : Env) : Nat → Instr → M Unit
  | 0, _ => throwE (.unmodelled "out of fuel")
  | fuel + 1, i =>
    match i with
    | .call p s f args out => execCall env i p s f args out
    | _ => onError (execInner env fuel i) (fun e c => c.setErrorsOf e i)

def execInner (env : Env) (fuel : Nat) (i : Instr) : M Unit :=
  match i with
  | .call .. => pure ()  -- handled in `exec`
  | .null => pure ()
  | .never => makeSubgraphIncomplete
  | .seq l r => do
    modifyCtx fun c => { c with subgraphComplete := true }
    exec env fuel l
    let complete ← readCtx (·.subgraphComplete)
    if complete then exec env fuel r else pure ()
  | .xor l r => do
    modifyCtx fun c => { c with subgraphComplete := true }
    let res ← tryM (exec env fuel l)
    match res with
    | .error (.catchable e) => do
      modifyCtx (xorEnterRight e)
      let right ← tryM (exec env fuel r)
      modifyCtx (xorLeaveRight right.isOk)
      reraise right
    | r => reraise r
  | .par l r => do
    liftTH' i (fun th => th.meetParStart)
    let left ← execSubgraph env fuel i l .left
    let right ← execSubgraph env fuel i r .right
    modifyCtx fun c => { c with subgraphComplete := left.2 || right.2 }
    match left.1, right.1 with
    | none, _ | _, none => modifyCtx fun c => { c with lastError := { c.lastError with canBeSet := true } }
    | some _, some e => throwE e
  | .match_ a b body => do
    match ← joinable (readER fun c => areMatchableEq c a b) with
    | none => pure ()
    | some true => exec env fuel body
    | some false => throwE (.catchable .matchValuesNotEqual)
  | .mismatch a b body => do
    match ← joinable (readER fun c => areMatchableEq c a b) with
    | none => pure ()
    | some false => exec env fuel body
    | some true => throwE (.catchable .mismatchValuesEqual)
  | .ap arg out =>
    match out with
    | .stream name pos => execApStream i arg name pos
    | _ => execAp arg out
  | .apMap key val name pos => execApMap i key val name pos
  | .canon peer stream streamPos canonName => execCanon env i peer stream streamPos (.stream canonName)
  | .canonMap peer map mapPos canonMapName => execCanon env i peer map mapPos (.map canonMapName)
  | .canonMapScalar peer map mapPos scalarName => execCanon env i peer map mapPos (.scalar scalarName)
  | .fail arg => execFail arg
  | .foldScalar iterable iterator body last => do
    match ← joinable (readER fun c => createScalarIterable c iterable) with
    | none | some none => pure ()
    | some (some itv) =>
      modifyER (foldEnter iterator { iterable := itv, iterableType := .scalar, instrHead := body, lastInstrHead := last })
      let res ← tryM (exec env fuel body)
      modifyER (foldLeave iterator)
      reraise res
  | .next iterator => do
    let fs0 ← readER fun c => c.scalars.getIterable iterator
    maybeTH i fs0 (fun id th => th.meetIterationEnd id)
    match ← stateER (nextAdvance iterator) with
    | none =>
      maybeTH i fs0 (fun id th => th.meetBackIterator id)
      let fs ← readER fun c => c.scalars.getIterable iterator
      match fs.lastInstrHead with
      | some lastInstr =>
        modifyCtx fun c => { c with subgraphComplete := true }
        exec env fuel lastInstr
      | none => nextMarkBackIteration iterator
    | some fs =>
      -- `maybe_meet_iteration_start` (before `meet_next_before` in Rust; they touch different parts of the state)
      let item ← readER fun _ => fs.iterable.peekExpect
      maybeTH i fs (fun id th => th.meetIterationStart id item.2.2.1)
      let res ← tryM (exec env fuel fs.instrHead)
      modifyER nextAfter
      match res with
      | .ok () =>
        modifyER (nextBack iterator)
        maybeTH i fs (fun id th => th.meetBackIterator id)
      | r => reraise r
  | .new arg body spanLeft spanRight =>
    match arg with
    | .scalar name => do
      modifyCtx fun c => { c with scalars := c.scalars.meetNewStartScalar name }
      let res ← tryM (exec env fuel body)
      let ok ← stateER (newLeave name)
      match res with
      | .ok () =>
        if ok then pure ()
        else do
          let d ← readCtx fun c => c.scalars.nonIterable.currentDepth
          throwE (.uncatchable (.scalarsStateCorrupted name d))
      | r => reraise r
    | .stream name | .streamMap name => do
      -- `streams.meet_scope_start` / `stream_maps.meet_scope_start` (one store, see `Streams.lean`)
      modifyCtx fun c => c.streamScopeStart name spanLeft spanRight
      let res ← tryM (exec env fuel body)
      -- epilog: the scope is closed and its stream instance compactified whatever the body returned
      let ep ← tryM (modifyER fun c => c.streamScopeEnd name)
      match res, ep with
      | .ok (), .ok () => pure ()
      | .ok (), e => reraise e
      | r, _ => reraise r
    | .canon name => do
      modifyCtx fun c => { c with scalars := c.scalars.meetNewStartCanon name }
      let res ← tryM (exec env fuel body)
      let ok ← stateER (newLeaveCanon name)
      match res with
      | .ok () =>
        if ok then pure ()
        else do
          let d ← readCtx fun c => c.scalars.canonStreams.currentDepth
          throwE (.uncatchable (.scalarsStateCorrupted name d))
      | r => reraise r
    | .canonMap name => do
      modifyCtx fun c => { c with scalars := c.scalars.meetNewStartCanonMap name }
      let res ← tryM (exec env fuel body)
      let ok ← stateER (newLeaveCanonMap name)
      match res with
      | .ok () =>
        if ok then pure ()
        else do
          let d ← readCtx fun c => c.scalars.canonMaps.currentDepth
          throwE (.uncatchable (.scalarsStateCorrupted name d))
      | r => reraise r
  | .foldStream stream streamPos iterator body last _ | .foldMap stream streamPos iterator body last _ => do
    let exists_ ← readCtx fun c => (c.getStream stream streamPos).isSome
    if !exists_ then makeSubgraphIncomplete
    else do
      -- `tracker.meet_fold_stream()`
      let foldId ← stateER fun c => .ok (c.foldStreamCount + 1, { c with foldStreamCount := c.foldStreamCount + 1 })
      liftTH' i (fun th => th.meetFoldStart foldId)
      let s ← foldStreamGet stream streamPos
      let (st, cur, s') := metFoldStart s
      modifyCtx fun c => c.setStream stream streamPos s'
      let complete ← execFoldStreamLoop env fuel fuel i stream streamPos iterator body last foldId st cur false
      modifyCtx fun c => { c with subgraphComplete := complete }
      liftTH' i (fun th => th.meetFoldEnd foldId)

/-- the `while let Continue(iterables)` loop of `execute_with_stream`; `n` bounds the number of rounds
(each round consumes at least one new generation; the stream size limit bounds them) -/
def execFoldStreamLoop (env : Env) (fuel : Nat) : Nat → Instr → String → Nat → String → Instr → Option Instr → Nat →
    Option (List (List ValueAggregate)) → StreamCursor → Bool → M Bool
  | _, _, _, _, _, _, _, _, none, _, acc => pure acc
  | 0, _, _, _, _, _, _, _, some _, _, _ => throwE (.unmodelled "out of fuel")
  | n + 1, i, stream, streamPos, iterator, body, last, foldId, some iterables, cur, acc => do
    let acc' ← execFoldIterations env fuel i iterator body last foldId iterables acc
    let s ← foldStreamGet stream streamPos
    let (st, cur', s') := metIterationEnd cur s
    modifyCtx fun c => c.setStream stream streamPos s'
    execFoldStreamLoop env fuel n i stream streamPos iterator body last foldId st cur' acc'

/-- `execute_iterations`: one `fold` per generation slice -/
def execFoldIterations (env : Env) (fuel : Nat) (i : Instr) (iterator : String) (body : Instr) (last : Option Instr) (foldId : Nat) :
    List (List ValueAggregate) → Bool → M Bool
  | [], acc => pure acc
  | vals :: rest, acc =>
    match vals with
    | [] => execFoldIterations env fuel i iterator body last foldId rest acc   -- `peek()` is `None`: skipped
    | v :: _ => do
      liftTH' i (fun th => th.meetIterationStart foldId v.tracePos)
      -- `fold(..)` of fold_scalar.rs with `IterableType::Stream(fold_id)`
      modifyER (foldEnter iterator { iterable := .vec vals 0, iterableType := .stream foldId, instrHead := body, lastInstrHead := last })
      let res ← tryM (exec env fuel body)
      modifyER (foldLeave iterator)
      throwIfNotCatchable res
      liftTH' i (fun th => th.meetGenerationEnd foldId)
      let complete ← readCtx (·.subgraphComplete)
      execFoldIterations env fuel i iterator body last foldId rest (acc || complete)

/-- `execute_subgraph` of par.rs: returns (error of a failed subgraph, observed completeness) -/
def execSubgraph (env : Env) (fuel : Nat) (par sub : Instr) (t : SubgraphType) : M (Option ExecErr × Bool) := do
  modifyCtx fun c => { c with subgraphComplete := !(isNext sub) }
  let res ← tryM (exec env fuel sub)
  match res with
  | .ok () =>
    liftTH' par (fun th => th.meetParSubgraphEnd t)
    let complete ← readCtx (·.subgraphComplete)
    pure (none, complete)
  | .error (.catchable e) =>
    makeSubgraphIncomplete
    liftTH' par (fun th => th.meetParSubgraphEnd t)
    let complete ← readCtx (·.subgraphComplete)
    pure (some (.catchable e), complete)
  | .error e => do makeSubgraphIncomplete; throwE e
  | .panic s => panicM s
end

end Aqua.Exec
