import Aqua.Exec.Exec
/-
The execution stage of a run (`ExecutionCtx::new` + `TraceHandler::from_trace` + `air.execute`),
on decoded data.
-/
namespace Aqua.Exec
open Aqua Aqua.Json Aqua.Air Aqua.Data Aqua.Trace

/-- the parts of `InterpreterData` the execution stage reads -/
structure DataIn where
  trace : Trace := []
  lcid : Nat := 0
  cid : CidState := {}
deriving Repr, Inhabited

structure RunParams where
  initPeerId : String
  currentPeerId : String
  timestamp : Nat
  ttl : Nat
deriving Repr, Inhabited

/-- `ExecutionCtx::new`: the request-id counter comes from the *previous* data only -/
def initCtx (prev cur : DataIn) (p : RunParams) (callResults : List (String × CallServiceResult)) : Ctx :=
  { initPeerId := p.initPeerId, currentPeerId := p.currentPeerId, timestamp := p.timestamp, ttl := p.ttl,
    lastCallRequestId := prev.lcid, callResults := callResults,
    cid := { values := mergeStores prev.cid.values cur.cid.values,
             tetraplets := mergeStores prev.cid.tetraplets cur.cid.tetraplets,
             serviceResults := mergeStores prev.cid.serviceResults cur.cid.serviceResults,
             canonElements := mergeStores prev.cid.canonElements cur.cid.canonElements,
             canonResults := mergeStores prev.cid.canonResults cur.cid.canonResults },
    th := TraceHandler.fromTrace prev.trace cur.trace }

/-- fuel that suffices for scripts of this size on these inputs: every `next` re-entry is paid for by
an iterable element; elements come from JSON arrays inside the data, bounded by its text size -/
def defaultFuel (script : Instr) (prev cur : DataIn) : Nat :=
  let rec size : Instr → Nat
    | .seq l r | .par l r | .xor l r => 1 + size l + size r
    | .match_ _ _ i | .mismatch _ _ i | .new _ i _ _ => 1 + size i
    | .foldScalar _ _ b l => 1 + size b + (match l with | some x => size x | none => 0)
    | .foldStream _ _ _ b l _ | .foldMap _ _ _ b l _ => 1 + size b + (match l with | some x => size x | none => 0)
    | _ => 1
  let dataSize := (prev.cid.values ++ cur.cid.values).foldl (fun n (_, raw) => n + raw.length) 0
  (size script + 2) * (dataSize + prev.trace.length + cur.trace.length + 16)

/-- `air.execute(&mut exec_ctx, &mut trace_handler)` -/
def runExec (env : Env) (fuel : Nat) (script : Instr) (prev cur : DataIn) (p : RunParams)
    (callResults : List (String × CallServiceResult)) : Res ExecErr Unit × Ctx :=
  exec env fuel script (initCtx prev cur p callResults)

/-- the farewell step's `compactify_streams` (runner.rs runs it after a successful execution and after
a catchable error; an uncatchable error returns the previous data instead).  A compaction failure is the
"internal error" exit of farewell_step/outcome.rs. -/
def runExecFarewell (env : Env) (fuel : Nat) (script : Instr) (prev cur : DataIn) (p : RunParams)
    (callResults : List (String × CallServiceResult)) : Res ExecErr Unit × Ctx :=
  let (res, c) := runExec env fuel script prev cur p callResults
  match res with
  | .ok () | .error (.catchable _) =>
    match c.compactifyStreams with
    | .ok c' => (res, c')
    | .error e => (.error e, c)
    | .panic s => (.panic s, c)
  | _ => (res, c)

end Aqua.Exec
