import Aqua.Base.Basic
/-
Replica of `crates/air-lib/interpreter-data/src/executed_state.rs` (+ `impls.rs`).  Content ids are
their text form.  `u32` fields are `Nat`s (range kept by the decoder).
-/
namespace Aqua.Data

abbrev Cid := String

inductive Sender where
  | peerId (peer : String)
  | peerIdWithCallId (peer : String) (callId : Nat)
deriving Repr, DecidableEq, Inhabited

inductive ValueRef where
  | scalar (cid : Cid)
  | stream (cid : Cid) (generation : Nat)
  | unused (cid : Cid)
deriving Repr, DecidableEq, Inhabited

inductive CallResult where
  | requestSentBy (s : Sender)
  | executed (v : ValueRef)
  | failed (cid : Cid)
deriving Repr, DecidableEq, Inhabited

structure SubTraceDesc where
  beginPos : Nat
  subtraceLen : Nat
deriving Repr, DecidableEq, Inhabited

structure FoldSubTraceLore where
  valuePos : Nat
  subtracesDesc : List SubTraceDesc
deriving Repr, DecidableEq, Inhabited

inductive CanonResult where
  | requestSentBy (peer : String)
  | executed (cid : Cid)
deriving Repr, DecidableEq, Inhabited

inductive ExecutedState where
  | par (left right : Nat)
  | call (c : CallResult)
  | fold (lore : List FoldSubTraceLore)
  | ap (gens : List Nat)
  | canon (c : CanonResult)
deriving Repr, DecidableEq, Inhabited

abbrev Trace := List ExecutedState

/-- `GenerationIdx::stub()` -/
def generationStub : Nat := 0xCAFEBABE

def CallResult.getCid : CallResult → Option Cid
  | .requestSentBy _ => none
  | .executed (.scalar c) => some c
  | .executed (.stream c _) => some c
  | .executed (.unused _) => none
  | .failed c => some c

end Aqua.Data
