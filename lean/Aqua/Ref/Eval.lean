import Aqua.Json.Value
import Aqua.Air.Ast
/-
# Reference semantics of the stream-free AIR fragment (C16)

A sequential big-step evaluator written from the *documented meaning* of the instructions
(`/repo/docs/AIR.md`, `/repo/docs/fold.md`), NOT from the executor model in `Aqua/Exec`.  It shares
with the rest of the model only the JSON value type and the abstract syntax.

The sequential reading (one evaluator, one environment, every service answers at once):

* `call p (s f) args out` resolves the triplet and the arguments, asks the service oracle
  `O peer service function args`, records the call, binds the answer to `out`; a failing service makes
  the call fail.  ("moves execution to the peer … the result is saved")
* `seq l r`: `r` is evaluated iff `l` *finished successfully* (docs).  `l` may also fail (then `seq`
  fails) or be *blocked* (`never`, or a value that is not there yet) — then `r` is not reached.
* `par l r`: "`r` will be executed independently of the completion of `l`": both are evaluated, left
  then right, in the same environment (scalars are "fully consistent"), whatever the outcome of the
  left one.  `par` fails only if both fail; it is complete if one of them is
  (`par/completeness_updater.rs`: left or right complete); otherwise blocked.
* `xor l r`: `r` is evaluated iff `l` failed.
* `match / mismatch a b i`: `i` iff the values are equal / different, otherwise the instruction fails.
* `fail …` fails.  `null` does nothing.  `never` blocks ("marks a subgraph as incomplete").
* `ap v x` binds.  `new x i` scopes `x`: inside `i` the variable is fresh (reading it before it is set
  is an error), afterwards the outer `x` is back.
* `fold it x body [last]` iterates over the array: `body` is evaluated with `x` = first element,
  `next x` inside it evaluates `body` for the next element (nested: what follows `next` runs
  afterwards, `x` is the earlier element again); after the last element `next` evaluates `last`
  (default: nothing; under `par` the default is `never`, docs/fold.md).  Scalars bound inside an
  iteration live in that iteration's frame only (anchor `values_sparse_matrix.rs`: scoping by fold
  depth; an iteration started by `next` does not see the frame of the iteration that started it).
* a variable that is not defined (yet) blocks the instruction that reads it (the "join" behaviour:
  `instructions/mod.rs` — joinable errors wait); the exception is `fail x`, which fails.

The evaluator returns the list of service calls it makes, in order: `Ref.calls`.
-/
namespace Aqua.Ref
open Aqua.Json Aqua.Air

/-- answer of a service -/
inductive Ans where
  | ok (v : JVal)
  | fail (code : Int) (msg : String)
deriving Repr, Inhabited

/-- deterministic service oracle: peer, service, function, argument values ↦ answer -/
abbrev Oracle := String → String → String → List JVal → Ans

structure Call where
  peer : String
  service : String
  function : String
  args : List JVal
deriving Repr, Inhabited

/-- parameters of the particle that scripts can read -/
structure Params where
  initPeerId : String
  timestamp : Nat
  ttl : Nat
deriving Repr, Inhabited

inductive Outcome where
  | done
  | blocked
  | failed
  /-- evaluation stops altogether: out of fuel, instruction outside the fragment, a scalar bound twice in
  the global scope, `next` without its fold -/
  | abort (why : String)
deriving Repr, Inhabited

/-- result of reading an operand -/
inductive Got (α : Type) where
  | val (a : α)
  /-- not defined (yet): the reader waits -/
  | undefined
  /-- the read fails (lens does not apply, variable cleared by `new` and not set, …) -/
  | error
deriving Repr, Inhabited

def Got.bind {α β} (g : Got α) (f : α → Got β) : Got β :=
  match g with
  | .val a => f a
  | .undefined => .undefined
  | .error => .error

/-- one scope of scalars: the global scope or one fold iteration; `none` = declared by `new`, not set -/
structure Frame where
  vars : List (String × Option JVal) := []
  hidden : Bool := false
deriving Repr, Inhabited

/-- an active fold -/
structure Loop where
  iterator : String
  items : List JVal
  cursor : Nat
  body : Instr
  last : Option Instr
deriving Repr, Inhabited

structure State where
  /-- innermost first; the last one is the global scope -/
  frames : List Frame := [{}]
  loops : List Loop := []
  calls : List Call := []
deriving Repr, Inhabited

/-! ## environment -/

def findVar (vars : List (String × Option JVal)) (name : String) : Option (Option JVal) :=
  match vars with
  | [] => none
  | (k, v) :: rest => if k == name then some v else findVar rest name

def setVar (vars : List (String × Option JVal)) (name : String) (v : Option JVal) : List (String × Option JVal) :=
  match vars with
  | [] => [(name, v)]
  | (k, w) :: rest => if k == name then (k, v) :: rest else (k, w) :: setVar rest name v

def eraseVar (vars : List (String × Option JVal)) (name : String) : List (String × Option JVal) :=
  vars.filter fun (k, _) => k != name

/-- the innermost visible scope that knows the name -/
def lookupFrames (frames : List Frame) (name : String) : Option (Option JVal) :=
  match frames with
  | [] => none
  | f :: rest =>
    if f.hidden then lookupFrames rest name
    else match findVar f.vars name with
      | some v => some v
      | none => lookupFrames rest name

def findLoop (loops : List Loop) (name : String) : Option Loop :=
  match loops with
  | [] => none
  | l :: rest => if l.iterator == name then some l else findLoop rest name

def setLoopCursor (loops : List Loop) (name : String) (c : Nat) : List Loop :=
  match loops with
  | [] => []
  | l :: rest => if l.iterator == name then { l with cursor := c } :: rest else l :: setLoopCursor rest name c

def removeLoop (loops : List Loop) (name : String) : List Loop :=
  match loops with
  | [] => []
  | l :: rest => if l.iterator == name then rest else l :: removeLoop rest name

/-- the value a name denotes: a scalar, or the current element of the fold it is the iterator of -/
def State.lookup (s : State) (name : String) : Got JVal :=
  match lookupFrames s.frames name with
  | some (some v) => .val v
  | some none => .error              -- declared by `new` and not set
  | none =>
    match findLoop s.loops name with
    | some l =>
      match l.items[l.cursor]? with
      | some v => .val v
      | none => .undefined
    | none => .undefined

/-- can `name` be bound now?  Scalars are single-assignment in the global scope; inside a fold
iteration a name may be bound again (each iteration has its own frame); iterators cannot be rebound. -/
def State.canBind (s : State) (name : String) : Bool :=
  if (findLoop s.loops name).isSome then false
  else match s.frames with
    | [] => false
    | [g] => match findVar g.vars name with
      | some (some _) => false
      | _ => true
    | _ :: _ => true

/-- bind in the innermost scope -/
def State.bind (s : State) (name : String) (v : JVal) : State :=
  match s.frames with
  | [] => s
  | f :: rest => { s with frames := { f with vars := setVar f.vars name (some v) } :: rest }

/-! ## operands -/

/-- array element / object field / element or field named by a value -/
def index (v : JVal) (i : Nat) : Got JVal :=
  match v with
  | .arr a => match a[i]? with
    | some x => .val x
    | none => .error
  | _ => .error

def field (v : JVal) (name : String) : Got JVal :=
  match v with
  | .obj _ => match v.getField name with
    | some x => .val x
    | none => .error
  | _ => .error

def selectBy (v key : JVal) : Got JVal :=
  match key with
  | .str s => field v s
  | .num i => if 0 ≤ i ∧ i ≤ 4294967295 then index v i.toNat else .error
  | _ => .error

def applyPath (s : State) (v : JVal) : List Accessor → Got JVal
  | [] => .val v
  | .arrayAccess i :: rest => (index v i).bind fun w => applyPath s w rest
  | .fieldByName n :: rest => (field v n).bind fun w => applyPath s w rest
  | .fieldByScalar x :: rest => (s.lookup x).bind fun key => (selectBy v key).bind fun w => applyPath s w rest

def applyLens (s : State) (v : JVal) (l : Lambda) : Got JVal :=
  match l with
  | .path as => applyPath s v as
  | .functorLength =>
    match v with
    | .arr a => .val (.num a.length)
    | _ => .error

/-- value of an operand; `none` = operand kind outside the fragment (streams, canon streams, error
objects `%last_error%` / `:error:`) -/
def operand (p : Params) (s : State) (v : Value) : Option (Got JVal) :=
  match v with
  | .initPeerId => some (.val (.str p.initPeerId))
  | .literal x => some (.val (.str x))
  | .timestamp => some (.val (.num p.timestamp))
  | .ttl => some (.val (.num p.ttl))
  | .number n => some (.val (.num n))
  | .float r => some (.val (.float r))
  | .boolean b => some (.val (.bool b))
  | .emptyArray => some (.val (.arr []))
  | .scalar name => some (s.lookup name)
  | .scalarWL name l => some ((s.lookup name).bind fun x => applyLens s x l)
  | _ => none

/-- operands of a call, left to right; the first one that is undefined / fails decides -/
def operands (p : Params) (s : State) : List Value → Option (Got (List JVal))
  | [] => some (.val [])
  | a :: rest =>
    match operand p s a with
    | none => none
    | some g =>
      match g with
      | .undefined => some .undefined
      | .error => some .error
      | .val v =>
        match operands p s rest with
        | none => none
        | some gs => some (gs.bind fun vs => .val (v :: vs))

/-- a part of the call triplet must be a string -/
def asString (g : Got JVal) : Got String :=
  g.bind fun v => match v with
    | .str x => .val x
    | _ => .error

/-! ## the evaluator -/

def pushCall (s : State) (c : Call) : State := { s with calls := s.calls ++ [c] }

def hideTop (frames : List Frame) (h : Bool) : List Frame :=
  match frames with
  | [] => []
  | f :: rest => { f with hidden := h } :: rest

/-- leave `new name`: the binding the innermost scope had before is back -/
def restoreVar (s : State) (name : String) (old : Option (Option JVal)) : State :=
  match s.frames with
  | [] => s
  | f :: rest =>
    let vars := match old with
      | some o => setVar f.vars name o
      | none => eraseVar f.vars name
    { s with frames := { f with vars := vars } :: rest }

/-- `eval fuel underPar i s`: outcome and final state; `underPar` = `i` is a direct branch of a `par`
(only `next` looks at it: the default last instruction of a fold is `never` there) -/
def eval (O : Oracle) (p : Params) : Nat → Bool → Instr → State → Outcome × State
  | 0, _, _, s => (.abort "out of fuel", s)
  | fuel + 1, underPar, i, s =>
    match i with
    | .null => (.done, s)
    | .never => (.blocked, s)
    | .fail arg =>
      match arg with
      | .canonWL .. => (.abort "fail with a canon stream", s)
      | _ => (.failed, s)
    | .seq l r =>
      match eval O p fuel false l s with
      | (.done, s1) => eval O p fuel false r s1
      | r1 => r1
    | .xor l r =>
      match eval O p fuel false l s with
      | (.failed, s1) => eval O p fuel false r s1
      | r1 => r1
    | .par l r =>
      match eval O p fuel true l s with
      | (.abort w, s1) => (.abort w, s1)
      | (o1, s1) =>
        match eval O p fuel true r s1 with
        | (.abort w, s2) => (.abort w, s2)
        | (o2, s2) =>
          match o1, o2 with
          | .failed, .failed => (.failed, s2)
          | .done, _ | _, .done => (.done, s2)
          | _, _ => (.blocked, s2)
    | .match_ a b body =>
      match operand p s a, operand p s b with
      | some ga, some gb =>
        match ga with
        | .undefined => (.blocked, s)
        | .error => (.failed, s)
        | .val x =>
          match gb with
          | .undefined => (.blocked, s)
          | .error => (.failed, s)
          | .val y => if x == y then eval O p fuel false body s else (.failed, s)
      | _, _ => (.abort "operand outside the fragment", s)
    | .mismatch a b body =>
      match operand p s a, operand p s b with
      | some ga, some gb =>
        match ga with
        | .undefined => (.blocked, s)
        | .error => (.failed, s)
        | .val x =>
          match gb with
          | .undefined => (.blocked, s)
          | .error => (.failed, s)
          | .val y => if x == y then (.failed, s) else eval O p fuel false body s
      | _, _ => (.abort "operand outside the fragment", s)
    | .ap arg out =>
      match out with
      | .scalar name =>
        match operand p s arg with
        | none => (.abort "operand outside the fragment", s)
        | some .undefined => (.blocked, s)
        | some .error => (.failed, s)
        | some (.val v) => if s.canBind name then (.done, s.bind name v) else (.abort ("scalar bound twice: " ++ name), s)
      | _ => (.abort "ap into a stream", s)
    | .call peer svc func args out =>
      match out with
      | .stream .. => (.abort "call with stream output", s)
      | _ =>
      match operand p s peer, operand p s svc, operand p s func with
      | some gp, some gs, some gf =>
        match asString gp with
        | .undefined => (.blocked, s)
        | .error => (.failed, s)
        | .val peerId =>
        match asString gs with
        | .undefined => (.blocked, s)
        | .error => (.failed, s)
        | .val service =>
        match asString gf with
        | .undefined => (.blocked, s)
        | .error => (.failed, s)
        | .val function =>
          let outOk := match out with
            | .scalar name => s.canBind name
            | _ => true
          if !outOk then (.abort "output scalar bound twice", s) else
          match operands p s args with
          | none => (.abort "operand outside the fragment", s)
          | some .undefined => (.blocked, s)
          | some .error => (.failed, s)
          | some (.val vs) =>
            let s1 := pushCall s ⟨peerId, service, function, vs⟩
            match O peerId service function vs with
            | .fail _ _ => (.failed, s1)
            | .ok v =>
              match out with
              | .scalar name => (.done, s1.bind name v)
              | _ => (.done, s1)
      | _, _, _ => (.abort "operand outside the fragment", s)
    | .new arg body _ _ =>
      match arg with
      | .scalar name =>
        match s.frames with
        | [] => (.abort "no scope", s)
        | f :: rest =>
          let old := findVar f.vars name
          let s0 := { s with frames := { f with vars := setVar f.vars name none } :: rest }
          match eval O p fuel false body s0 with
          | (.abort w, s1) => (.abort w, s1)
          | (o, s1) => (o, restoreVar s1 name old)
      | _ => (.abort "new on a stream", s)
    | .foldScalar iterable iterator body last =>
      let items : Option (Got JVal) := match iterable with
        | .scalar _ | .scalarWL .. | .emptyArray => operand p s iterable
        | _ => none
      match items with
      | none => (.abort "fold over something outside the fragment", s)
      | some .undefined => (.blocked, s)
      | some .error => (.failed, s)
      | some (.val (.arr [])) => (.done, s)
      | some (.val (.arr (x :: xs))) =>
        if (findLoop s.loops iterator).isSome then (.abort "iterator used twice", s) else
        let s0 := { s with frames := {} :: s.frames,
                           loops := ⟨iterator, x :: xs, 0, body, last⟩ :: s.loops }
        match eval O p fuel false body s0 with
        | (.abort w, s1) => (.abort w, s1)
        | (o, s1) => (o, { s1 with frames := s1.frames.drop 1, loops := removeLoop s1.loops iterator })
      | some (.val _) => (.failed, s)
    | .next iterator =>
      match findLoop s.loops iterator with
      | none => (.abort "next without its fold", s)
      | some l =>
        if l.cursor + 1 < l.items.length then
          let s0 := { s with frames := {} :: hideTop s.frames true,
                             loops := setLoopCursor s.loops iterator (l.cursor + 1) }
          match eval O p fuel false l.body s0 with
          | (.abort w, s1) => (.abort w, s1)
          | (o, s1) => (o, { s1 with frames := hideTop (s1.frames.drop 1) false,
                                     loops := setLoopCursor s1.loops iterator l.cursor })
        else
          match l.last with
          | some lastInstr => eval O p fuel false lastInstr s
          | none => (if underPar then .blocked else .done, s)
    | _ => (.abort "instruction outside the fragment", s)

/-- the sequential run of a script -/
def run (O : Oracle) (p : Params) (fuel : Nat) (script : Instr) : Outcome × State :=
  eval O p fuel false script {}

/-- **the calls of the sequential reading**, in evaluation order -/
def calls (O : Oracle) (p : Params) (fuel : Nat) (script : Instr) : List Call :=
  (run O p fuel script).2.calls

end Aqua.Ref
