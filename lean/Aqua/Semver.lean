/-
Model of the `semver` crate (1.0.21) as used by AquaVM: `Version::from_str`
(parse.rs) and the derived lexicographic `Ord` on
`(major, minor, patch, pre, build)` with the hand-written orders on `Prerelease`
and `BuildMetadata` (impls.rs).  Text is a `List Char`; identifiers are kept as
lists of dot-separated segments (`[]` = empty identifier).
-/
namespace Aqua.Semver

structure Version where
  major : Nat
  minor : Nat
  patch : Nat
  pre   : List (List Char)   -- [] = no prerelease
  build : List (List Char)   -- [] = no build metadata
deriving Repr, DecidableEq

def u64Max : Nat := 18446744073709551615

def isDigit (c : Char) : Bool := '0' ≤ c && c ≤ '9'
def isIdentChar (c : Char) : Bool :=
  isDigit c || ('A' ≤ c && c ≤ 'Z') || ('a' ≤ c && c ≤ 'z') || c == '-'

/-- loop of `numeric_identifier`: returns (len, value, rest) or `none` on leading zero / overflow -/
def numLoop (len value : Nat) : List Char → Option (Nat × Nat × List Char)
  | [] => some (len, value, [])
  | c :: cs =>
    if isDigit c then
      if value == 0 && len > 0 then none            -- LeadingZero
      else
        let v := value * 10 + (c.toNat - '0'.toNat)
        if v > u64Max then none                     -- Overflow
        else numLoop (len + 1) v cs
    else some (len, value, c :: cs)

def numericIdentifier (input : List Char) : Option (Nat × List Char) :=
  match numLoop 0 0 input with
  | none => none
  | some (len, value, rest) => if len > 0 then some (value, rest) else none

def dot : List Char → Option (List Char)
  | '.' :: rest => some rest
  | _ => none

/-- split on '.', keeping empty segments -/
def splitDots : List Char → List (List Char)
  | [] => [[]]
  | c :: cs =>
    match splitDots cs with
    | [] => [[c]]  -- unreachable
    | seg :: segs => if c == '.' then [] :: seg :: segs else (c :: seg) :: segs

def allDigits (s : List Char) : Bool := s.all isDigit

/-- `identifier(input, pos)`: maximal run of identifier characters and dots, split into non-empty
segments; in `Pre` position numeric segments must not have a leading zero. -/
def identifier (isPre : Bool) (input : List Char) : Option (List (List Char) × List Char) :=
  let (run, rest) := input.span (fun c => isIdentChar c || c == '.')
  let segs := splitDots run
  if segs.any (·.isEmpty) then none   -- EmptySegment (also the caller's check for an empty identifier)
  else if isPre && segs.any (fun s => s.length > 1 && allDigits s && s.head? == some '0') then none
  else some (segs, rest)

def parse (text : List Char) : Option Version := do
  let (major, t) ← numericIdentifier text
  let t ← dot t
  let (minor, t) ← numericIdentifier t
  let t ← dot t
  let (patch, t) ← numericIdentifier t
  let (pre, t) ← (match t with
    | '-' :: t' => identifier true t'
    | _ => some ([], t))
  let (build, t) ← (match t with
    | '+' :: t' => identifier false t'
    | _ => some ([], t))
  if t.isEmpty then some ⟨major, minor, patch, pre, build⟩ else none

/-! ### Ordering -/

/-- byte-wise string order (`Ord for str`); identifier characters are ASCII -/
def cmpStr : List Char → List Char → Ordering
  | [], [] => .eq
  | [], _ :: _ => .lt
  | _ :: _, [] => .gt
  | a :: as, b :: bs => if a.toNat < b.toNat then .lt else if a.toNat > b.toNat then .gt else cmpStr as bs

def cmpNat (a b : Nat) : Ordering := if a < b then .lt else if a > b then .gt else .eq

def thenWith (o : Ordering) (f : Unit → Ordering) : Ordering :=
  match o with
  | .eq => f ()
  | o => o

def cmpPreSeg (l r : List Char) : Ordering :=
  match allDigits l, allDigits r with
  | true, true => thenWith (cmpNat l.length r.length) (fun _ => cmpStr l r)
  | true, false => .lt
  | false, true => .gt
  | false, false => cmpStr l r

def trimZeros : List Char → List Char
  | '0' :: cs => trimZeros cs
  | cs => cs

def cmpBuildSeg (l r : List Char) : Ordering :=
  match allDigits l, allDigits r with
  | true, true =>
    let lv := trimZeros l
    let rv := trimZeros r
    thenWith (thenWith (cmpNat lv.length rv.length) (fun _ => cmpStr lv rv))
      (fun _ => cmpNat l.length r.length)
  | true, false => .lt
  | false, true => .gt
  | false, false => cmpStr l r

def cmpSegs (seg : List Char → List Char → Ordering) : List (List Char) → List (List Char) → Ordering
  | [], [] => .eq
  | [], _ :: _ => .lt
  | _ :: _, [] => .gt
  | a :: as, b :: bs => thenWith (seg a b) (fun _ => cmpSegs seg as bs)

def cmpPre (l r : List (List Char)) : Ordering :=
  match l, r with
  | [], [] => .eq
  | [], _ => .gt
  | _, [] => .lt
  | l, r => cmpSegs cmpPreSeg l r

/-- `BuildMetadata::cmp`.  The empty identifier is the single empty segment `""` in Rust
(`"".split('.')` yields one empty string); we normalise `[]` to `[[]]` to say the same. -/
def cmpBuild (l r : List (List Char)) : Ordering :=
  let norm := fun (x : List (List Char)) => if x.isEmpty then [[]] else x
  cmpSegs cmpBuildSeg (norm l) (norm r)

def cmp (a b : Version) : Ordering :=
  thenWith (cmpNat a.major b.major) fun _ =>
  thenWith (cmpNat a.minor b.minor) fun _ =>
  thenWith (cmpNat a.patch b.patch) fun _ =>
  thenWith (cmpPre a.pre b.pre) fun _ => cmpBuild a.build b.build

def lt (a b : Version) : Bool := cmp a b == .lt

end Aqua.Semver
