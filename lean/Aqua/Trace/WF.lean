import Aqua.Data.ExecutedState
/-
C10 — structural well-formedness `wfTrace : Trace → Bool` of a produced trace (DESIGN.md Appendix A).

The Appendix-A reading is split into named clauses, each a `Bool`-valued executable definition; the
Rust oracle (`harness/src/wf.rs`) is a line-by-line transcription and the harness compares both on every
produced trace and on mutated traces (driver op `wf`).

* `wfPar`        rule 1 for `par`: the recursive-descent reading of the trace as a forest.  Only `Par(l, r)`
                 has children (`l` entries read recursively, ending exactly at their bound, then `r` entries);
                 every other entry — also a `Fold` entry itself — is a single node and the entries of a fold's
                 region are read as the siblings that follow it (they are the pre-order listing of what the
                 fold body executed, in the par branch the fold instruction sits in).
* `wfFold`       rule 2, tiling: for every `Fold(lore)` at `F` the lore entries, grouped into maximal runs of
                 equal value generation (the way the merger's `compute_lens_convolution` re-reads them), are
                 batches `B₁ … B_k A_k … A₁` laid out contiguously from `F+1`: `begin B₁ = cursor`,
                 `begin B_{i+1} = end B_i`, `begin A_k = end B_k`, `begin A_i = end A_{i+1}`, the next batch starts
                 at `end A₁`; the last batch ends inside the trace.  Hence the `2n` ranges tile
                 `[F+1, F+1+Σ)` without gap or overlap.
* `wfNesting`    rules 1+2, nesting with respect to frames and parents: the frame of iteration `i` is
                 `[begin B_i, end A_i)`; a `par` entry inside a frame stays inside it, a frame that begins after a
                 `par` entry is disjoint from that par or lies inside exactly one of its two parts; a fold entry
                 inside a par part or inside a frame of another fold has its whole region inside it.
* `wfValuePos`   rule 3: `value_pos < begin B_i` and `t[value_pos]` is `Ap` or `Call(Executed(Stream))`.
* `wfGenerations` rule 4: no `0xCAFEBABE`, every `Ap` has exactly one generation.
-/
namespace Aqua.Trace
open Aqua.Data

/-! ## rule 1: the par forest -/

/-- `(left, right)` sizes of an entry in the forest reading; everything but `Par` is a leaf -/
def parSizes : ExecutedState → Nat × Nat
  | .par l r => (l, r)
  | _ => (0, 0)

/-- `readForest fuel t n`: read exactly `n` entries of `t` as a sequence of trees (an entry `(l, r)` is followed
by `l` entries forming its left part and `r` entries forming its right part, both read recursively and ending
exactly at their bounds); returns the unread rest.  `fuel > |t|` is enough. -/
def readForest : Nat → List (Nat × Nat) → Nat → Option (List (Nat × Nat))
  | _, t, 0 => some t
  | 0, _, _ + 1 => none
  | _ + 1, [], _ + 1 => none
  | fuel + 1, (l, r) :: rest, n + 1 =>
    if l + r ≤ n then
      (readForest fuel rest l).bind fun r1 =>
      (readForest fuel r1 r).bind fun r2 =>
      readForest fuel r2 (n - (l + r))
    else none

def wfPar (t : Trace) : Bool :=
  readForest (t.length + 1) (t.map parSizes) t.length == some []

/-! ## rule 2: fold lore tiling -/

/-- one lore entry: value position, `B = [b, b+bl)`, `A = [a, a+al)` -/
structure Iter where
  vp : Nat
  b : Nat
  bl : Nat
  a : Nat
  al : Nat
deriving Repr, DecidableEq, Inhabited

def loreIter (l : FoldSubTraceLore) : Option Iter :=
  match l.subtracesDesc with
  | [d0, d1] => some ⟨l.valuePos, d0.beginPos, d0.subtraceLen, d1.beginPos, d1.subtraceLen⟩
  | _ => none

/-- generation carried by the stream value entry at `p` (`MergeCtx::try_get_generation`) -/
def valueGeneration (t : Trace) (p : Nat) : Option Nat :=
  match t[p]? with
  | some (.ap (g :: _)) => some g
  | some (.call (.executed (.stream _ g))) => some g
  | _ => none

/-- before-parts ascending from the cursor -/
def batchBefore (c : Nat) : List Iter → Option Nat
  | [] => some c
  | it :: rest => if it.b = c then batchBefore (c + it.bl) rest else none

/-- after-parts from the cursor, given innermost first -/
def batchAfter (c : Nat) : List Iter → Option Nat
  | [] => some c
  | it :: rest => if it.a = c then batchAfter (c + it.al) rest else none

/-- a batch `B₁ … B_k A_k … A₁` laid out from the cursor; returns its end -/
def batchEnd (c : Nat) (batch : List Iter) : Option Nat :=
  (batchBefore c batch).bind fun c' => batchAfter c' batch.reverse

/-- the longest prefix of entries with generation `g`, and the rest -/
def spanGen (g : Nat) : List (Nat × Iter) → List Iter × List (Nat × Iter)
  | [] => ([], [])
  | (g', it) :: rest =>
    if g' = g then
      let (a, b) := spanGen g rest
      (it :: a, b)
    else ([], (g', it) :: rest)

/-- batches (maximal runs of one generation) follow each other contiguously from the cursor -/
def tileLore : Nat → Nat → List (Nat × Iter) → Option Nat
  | _, c, [] => some c
  | 0, _, _ :: _ => none
  | fuel + 1, c, (g, it) :: rest =>
    let (batch, rest') := spanGen g rest
    (batchEnd c (it :: batch)).bind fun c' => tileLore fuel c' rest'

/-- lore entries with the generation of their value; `none` when an entry has not exactly two sub-trace
descriptors or its value position does not name a stream value entry -/
def loreIters (t : Trace) (lore : List FoldSubTraceLore) : Option (List (Nat × Iter)) :=
  lore.mapM fun l =>
    (loreIter l).bind fun it => (valueGeneration t it.vp).map fun g => (g, it)

/-- the fold entry at `F`: its lore tiles `[F+1, e)` with `e ≤ |t|` -/
def wfFoldAt (t : Trace) (F : Nat) (lore : List FoldSubTraceLore) : Bool :=
  match loreIters t lore with
  | none => false
  | some its =>
    match tileLore its.length (F + 1) its with
    | some e => e ≤ t.length
    | none => false

/-- all `(position, state)` pairs -/
def indexed (t : Trace) : List (Nat × ExecutedState) := (List.range t.length).zip t

def wfFold (t : Trace) : Bool :=
  (indexed t).all fun (F, s) =>
    match s with
    | .fold lore => wfFoldAt t F lore
    | _ => true

/-! ## nesting of pars, fold regions and frames -/

/-- number of entries covered by a lore (`Σ (|B| + |A|)`) -/
def loreTotal (lore : List FoldSubTraceLore) : Nat :=
  (lore.map fun l => (l.subtracesDesc.map (·.subtraceLen)).sum).sum

/-- non-empty frames `[begin B, end A)` of a lore (entries that do not have two descriptors give none) -/
def loreFrames (lore : List FoldSubTraceLore) : List (Nat × Nat) :=
  lore.filterMap fun l =>
    match loreIter l with
    | some it => if it.b < it.a + it.al then some (it.b, it.a + it.al) else none
    | none => none

/-- all frames of all folds, tagged with the fold position -/
def allFrames (t : Trace) : List (Nat × Nat × Nat) :=
  (indexed t).flatMap fun (F, s) =>
    match s with
    | .fold lore => (loreFrames lore).map fun (a, b) => (F, a, b)
    | _ => []

/-- `[p, e)` stays inside `[a, b)` if it starts inside -/
def insideIfStarts (p e a b : Nat) : Bool := !(a ≤ p && p < b) || e ≤ b

def wfNesting (t : Trace) : Bool :=
  let frames := allFrames t
  (indexed t).all fun (p, s) =>
    match s with
    | .par l r =>
      let e := p + 1 + l + r
      frames.all fun (_, a, b) =>
        if a ≤ p && p < b then e ≤ b
        else if p < a then e ≤ a || (p + 1 ≤ a && b ≤ p + 1 + l) || (p + 1 + l ≤ a && b ≤ e)
        else true
    | .fold lore =>
      let e := p + 1 + loreTotal lore
      -- inside a frame of another fold → the whole region is inside that frame
      (frames.all fun (F, a, b) => F == p || insideIfStarts p e a b) &&
      -- inside a par part → the whole region is inside that part
      ((indexed t).all fun (q, s') =>
        match s' with
        | .par l r => insideIfStarts p e (q + 1) (q + 1 + l) && insideIfStarts p e (q + 1 + l) (q + 1 + l + r)
        | _ => true)
    | _ => true

/-! ## rule 3: value positions -/

def isStreamValue : ExecutedState → Bool
  | .ap _ => true
  | .call (.executed (.stream _ _)) => true
  | _ => false

def wfValuePosAt (t : Trace) (lore : List FoldSubTraceLore) : Bool :=
  lore.all fun l =>
    (match t[l.valuePos]? with
     | some s => isStreamValue s
     | none => false) &&
    (match l.subtracesDesc with
     | d0 :: _ => l.valuePos < d0.beginPos
     | [] => false)

def wfValuePos (t : Trace) : Bool :=
  t.all fun s =>
    match s with
    | .fold lore => wfValuePosAt t lore
    | _ => true

/-! ## rule 4: generations -/

def wfGenerationState : ExecutedState → Bool
  | .ap [g] => g != generationStub
  | .ap _ => false
  | .call (.executed (.stream _ g)) => g != generationStub
  | _ => true

def wfGenerations (t : Trace) : Bool := t.all wfGenerationState

/-! ## WF -/

def wfTrace (t : Trace) : Bool :=
  wfPar t && wfFold t && wfNesting t && wfValuePos t && wfGenerations t

/-- name of the first violated clause (for the driver / reports) -/
def wfVerdict (t : Trace) : String :=
  if !wfGenerations t then "generations"
  else if !wfPar t then "par"
  else if !wfValuePos t then "value_pos"
  else if !wfFold t then "fold"
  else if !wfNesting t then "nesting"
  else "ok"

end Aqua.Trace
