import Aqua.Base.Res
import Aqua.Data.ExecutedState
/-
Replica of the `air-trace-handler` crate: `TraceSlider`, `MergeCtx`, `DataKeeper`, the per-state
mergers (call / ap / canon / par / fold + fold-lore resolver), `ParFSM`, `FoldFSM` (lore constructor,
queue, appliers), `FSMKeeper` and the `TraceHandler` entry points.  Function names follow the Rust
names (snake_case → camelCase).  `TracePos`/`TraceLen` are `u32`: unchecked `+`/`-` on them panic on
overflow (the workspace builds with `overflow-checks = true`), modelled by `addU32`/`subU32`.
-/
namespace Aqua.Trace
open Aqua Aqua.Data

/-! ## errors (kinds only; messages are not modelled — trace errors are uncatchable and reported by code) -/

inductive KeeperErr
  | setSubtraceLenAndPosFailed | setSubtraceLenFailed | noElementAtPosition | noStreamState
deriving Repr, DecidableEq

inductive MergeErr
  | incompatibleStates (expected : String)
  | incorrectApResult
  | incompatibleCalls | notEqualValues
  | incorrectCanonResult
  | foldIncorrectSubtracesCount | severalRecordsWithSamePos | subtraceLenOverflow
  | keeper (e : KeeperErr)
deriving Repr, DecidableEq

inductive FsmErr
  | parQueueIsEmpty | foldFSMNotFound
  | parLenOverflow | parPosOverflow | parLenUnderflow
  | foldPosOverflow | foldLenUnderflow
  | keeper (e : KeeperErr)
deriving Repr, DecidableEq

inductive TraceErr
  | merge (e : MergeErr)
  | fsm (e : FsmErr)
deriving Repr, DecidableEq

abbrev TR := Res TraceErr

/-! ## TraceSlider -/

structure TraceSlider where
  trace : Trace
  position : Nat := 0
  subtraceLen : Nat
  seenElements : Nat := 0
deriving Repr, DecidableEq

namespace TraceSlider

def new (trace : Trace) : TraceSlider := { trace := trace, subtraceLen := trace.length }

def traceLen (s : TraceSlider) : Nat := s.trace.length

/-- `next_state` -/
def nextState (s : TraceSlider) : Option ExecutedState × TraceSlider :=
  if s.seenElements ≥ s.subtraceLen ∨ s.position ≥ s.trace.length then (none, s)
  else
    match s.trace[s.position]? with
    | none => (none, s)  -- unreachable: guarded above
    | some st => (some st, { s with position := s.position + 1, seenElements := s.seenElements + 1 })

/-- `set_position_and_len` (since /repo 95e5498 the sum is a `checked_add`: an overflow counts as "out of the
trace"; an empty sub-trace may still carry any position) -/
def setPositionAndLen (s : TraceSlider) (position subtraceLen : Nat) : Res KeeperErr TraceSlider :=
  let outOfTrace := position + subtraceLen > u32Max || position + subtraceLen > s.trace.length
  if subtraceLen != 0 && outOfTrace then Res.error .setSubtraceLenAndPosFailed
  else .ok { s with position := position, subtraceLen := subtraceLen, seenElements := 0 }

/-- `set_subtrace_len` (since /repo d774f34 `trace_len.saturating_sub(position)`: a position beyond the trace
leaves nothing) -/
def setSubtraceLen (s : TraceSlider) (subtraceLen : Nat) : Res KeeperErr TraceSlider :=
  let remainder := s.trace.length - s.position
  if remainder < subtraceLen then Res.error .setSubtraceLenFailed
  else .ok { s with seenElements := 0, subtraceLen := subtraceLen }

/-- `subtrace_len()` = remaining elements of the current subtrace -/
def remaining (s : TraceSlider) : Nat := s.subtraceLen - s.seenElements

def stateAtPosition (s : TraceSlider) (p : Nat) : Option ExecutedState := s.trace[p]?

end TraceSlider

/-- `MergeCtx::try_get_generation` (since /repo 8502764 an `Ap` without generations is "no stream state") -/
def tryGetGeneration (s : TraceSlider) (position : Nat) : Res KeeperErr Nat :=
  match s.stateAtPosition position with
  | none => .error .noElementAtPosition
  | some (.call (.executed (.stream _ g))) => .ok g
  | some (.ap gens) =>
    match gens with
    | g :: _ => .ok g
    | [] => .error .noStreamState
  | some _ => .error .noStreamState

/-! ## DataKeeper -/

/-- `BiHashMap<TracePos, TracePos>`: inserting removes pairs sharing the left or the right value -/
abbrev BiMap := List (Nat × Nat)

def BiMap.insert (m : BiMap) (l r : Nat) : BiMap :=
  (l, r) :: m.filter (fun (a, b) => a != l && b != r)

def BiMap.getByLeft (m : BiMap) (l : Nat) : Option Nat := (m.find? (fun (a, _) => a == l)).map (·.2)

structure DataKeeper where
  prev : TraceSlider
  cur : TraceSlider
  newToPrevPos : BiMap := []
  newToCurrentPos : BiMap := []
  resultTrace : Trace := []
deriving Repr

namespace DataKeeper
def fromTrace (prev cur : Trace) : DataKeeper := { prev := TraceSlider.new prev, cur := TraceSlider.new cur }
/-- `result_trace_next_pos` (`trace_states_count()` expects the length to fit `u32`) -/
def resultTraceNextPos (k : DataKeeper) : Nat := k.resultTrace.length
end DataKeeper

inductive PreparationScheme | previous | current | both
deriving Repr, DecidableEq

inductive ValueSource | previousData | currentData
deriving Repr, DecidableEq

def PreparationScheme.toSource : PreparationScheme → ValueSource
  | .previous | .both => .previousData
  | .current => .currentData

/-- `prepare_positions_mapping` (`position() - 1` on `TracePos`) -/
def preparePositionsMapping (scheme : PreparationScheme) (k : DataKeeper) : TR DataKeeper := do
  let newPos := k.resultTraceNextPos
  match scheme with
  | .previous =>
    let p ← subU32 "position_mapping.rs:prev_position-1" k.prev.position 1
    pure { k with newToPrevPos := k.newToPrevPos.insert newPos p }
  | .current =>
    let c ← subU32 "position_mapping.rs:current_position-1" k.cur.position 1
    pure { k with newToCurrentPos := k.newToCurrentPos.insert newPos c }
  | .both =>
    let p ← subU32 "position_mapping.rs:prev_position-1" k.prev.position 1
    let c ← subU32 "position_mapping.rs:current_position-1" k.cur.position 1
    pure { k with newToPrevPos := k.newToPrevPos.insert newPos p, newToCurrentPos := k.newToCurrentPos.insert newPos c }

/-- both sliders advance by one state -/
def nextStates (k : DataKeeper) : Option ExecutedState × Option ExecutedState × DataKeeper :=
  let (p, ps) := k.prev.nextState
  let (c, cs) := k.cur.nextState
  (p, c, { k with prev := ps, cur := cs })

/-! ## call merger -/

/-- `merge_executed` -/
def mergeExecuted (p c : ValueRef) : Res MergeErr CallResult :=
  match p, c with
  | .scalar _, .scalar _ => if p = c then .ok (.executed p) else .error .notEqualValues
  | .stream pc _, .stream cc _ => if pc = cc then .ok (.executed p) else .error .notEqualValues
  | .unused _, .unused _ => if p = c then .ok (.executed p) else .error .notEqualValues
  | _, _ => .error .notEqualValues

/-- `merge_call_results` -/
def mergeCallResults (p c : CallResult) : Res MergeErr (CallResult × PreparationScheme) :=
  match p, c with
  | .failed _, .failed _ => if p = c then .ok (p, .previous) else .error .incompatibleCalls
  | .requestSentBy _, .failed _ => .ok (c, .current)
  | .failed _, .requestSentBy _ => .ok (p, .previous)
  | .requestSentBy _, .requestSentBy _ => .ok (p, .previous)
  | .requestSentBy _, .executed _ => .ok (c, .current)
  | .executed _, .requestSentBy _ => .ok (p, .previous)
  | .executed pv, .executed cv => (mergeExecuted pv cv).bind fun m => .ok (m, .both)
  | _, _ => .error .incompatibleCalls

structure MetCallResult where
  result : CallResult
  tracePos : Nat
  source : ValueSource
deriving Repr, DecidableEq

inductive MergerCallResult
  | notMet
  | met (r : MetCallResult)
deriving Repr, DecidableEq

def prepareCallResult (r : CallResult) (scheme : PreparationScheme) (k : DataKeeper) : TR (MergerCallResult × DataKeeper) := do
  let tracePos := k.resultTraceNextPos
  let k ← preparePositionsMapping scheme k
  pure (.met ⟨r, tracePos, scheme.toSource⟩, k)

/-- `try_merge_next_state_as_call` -/
def tryMergeNextStateAsCall (k : DataKeeper) : TR (MergerCallResult × DataKeeper) :=
  let (p, c, k) := nextStates k
  match p, c with
  | some (.call pc), some (.call cc) =>
    match mergeCallResults pc cc with
    | .ok (m, scheme) => prepareCallResult m scheme k
    | .error e => .error (.merge e)
    | .panic s => .panic s
  | none, some (.call cc) => prepareCallResult cc .current k
  | some (.call pc), none => prepareCallResult pc .previous k
  | none, none => .ok (.notMet, k)
  | _, _ => .error (.merge (.incompatibleStates "call"))

/-! ## ap merger -/

structure MetApResult where
  generation : Nat
  valueSource : ValueSource
deriving Repr, DecidableEq

inductive MergerApResult
  | notMet
  | met (r : MetApResult)
deriving Repr, DecidableEq

def prepareApMergeResult (gens : List Nat) (scheme : PreparationScheme) (k : DataKeeper) : TR (MergerApResult × DataKeeper) := do
  let k ← preparePositionsMapping scheme k
  match gens with
  | [g] => pure (.met ⟨g, scheme.toSource⟩, k)
  | _ => Res.error (.merge .incorrectApResult)

/-- `try_merge_next_state_as_ap` -/
def tryMergeNextStateAsAp (k : DataKeeper) : TR (MergerApResult × DataKeeper) :=
  let (p, c, k) := nextStates k
  match p, c with
  | some (.ap pg), some (.ap _) => prepareApMergeResult pg .both k
  | some (.ap pg), none => prepareApMergeResult pg .previous k
  | none, some (.ap cg) => prepareApMergeResult cg .current k
  | none, none => .ok (.notMet, k)
  | _, _ => .error (.merge (.incompatibleStates "ap"))

/-! ## canon merger -/

inductive MergerCanonResult
  | empty
  | canonResult (c : CanonResult)
deriving Repr, DecidableEq

/-- `merge_canon_results` -/
def mergeCanonResults (p c : CanonResult) : Res MergeErr CanonResult :=
  match p, c with
  | .executed pc, .executed cc => if pc = cc then .ok p else .error .incorrectCanonResult
  | .requestSentBy _, .executed _ => .ok c
  | .requestSentBy _, .requestSentBy _ => .ok p
  | .executed _, .requestSentBy _ => .ok p

/-- `try_merge_next_state_as_canon` -/
def tryMergeNextStateAsCanon (k : DataKeeper) : TR (MergerCanonResult × DataKeeper) :=
  let (p, c, k) := nextStates k
  match p, c with
  | some (.canon pc), some (.canon cc) =>
    match mergeCanonResults pc cc with
    | .ok m => .ok (.canonResult m, k)
    | .error e => .error (.merge e)
    | .panic s => .panic s
  | some (.canon pc), none => .ok (.canonResult pc, k)
  | none, some (.canon cc) => .ok (.canonResult cc, k)
  | none, none => .ok (.empty, k)
  | _, _ => .error (.merge (.incompatibleStates "canon"))

/-! ## par merger and ParFSM -/

structure ParResult where
  left : Nat := 0
  right : Nat := 0
deriving Repr, DecidableEq, Inhabited

/-- `try_merge_next_state_as_par` → (prev_par, current_par) with defaults already applied -/
def tryMergeNextStateAsPar (k : DataKeeper) : TR (ParResult × ParResult × DataKeeper) :=
  let (p, c, k) := nextStates k
  match p, c with
  | some (.par pl pr), some (.par cl cr) => .ok (⟨pl, pr⟩, ⟨cl, cr⟩, k)
  | none, some (.par cl cr) => .ok ({}, ⟨cl, cr⟩, k)
  | some (.par pl pr), none => .ok (⟨pl, pr⟩, {}, k)
  | none, none => .ok ({}, {}, k)
  | _, _ => .error (.merge (.incompatibleStates "par"))

structure CtxState where
  pos : Nat := 0
  subtraceLen : Nat := 0
deriving Repr, DecidableEq, Inhabited

structure CtxStatesPair where
  prev : CtxState := {}
  cur : CtxState := {}
deriving Repr, DecidableEq, Inhabited

/-- `update_ctx_states`: errors of `set_position_and_len` are dropped (`let _ =`), a panic is not -/
def updateCtxStates (p : CtxStatesPair) (k : DataKeeper) : TR DataKeeper :=
  let upd (s : TraceSlider) (c : CtxState) : TR TraceSlider :=
    match s.setPositionAndLen c.pos c.subtraceLen with
    | .ok s' => .ok s'
    | .error _ => .ok s
    | .panic site => .panic site
  do
    let ps ← upd k.prev p.prev
    let cs ← upd k.cur p.cur
    pure { k with prev := ps, cur := cs }

inductive SubgraphType | left | right
deriving Repr, DecidableEq

/-- par_fsm `compute_new_state` -/
def parComputeNewState (par : ParResult) (t : SubgraphType) (s : TraceSlider) : Res FsmErr CtxState := do
  let len ← match t with
    | .left => pure par.left
    | .right => if par.left + par.right > u32Max then Res.error .parLenOverflow else pure (par.left + par.right)
  let newPos ← if s.position + len > u32Max then Res.error .parPosOverflow else pure (s.position + len)
  let newLen ← match t with
    | .left => pure len
    | .right => if s.remaining < len then Res.error .parLenUnderflow else pure (s.remaining - len)
  pure ⟨newPos, newLen⟩

structure ParFSM where
  prevPar : ParResult
  currentPar : ParResult
  /-- `StateInserter.position` -/
  inserterPos : Nat
  leftPair : CtxStatesPair
  rightPair : CtxStatesPair
  /-- `ParBuilder` -/
  savedStatesCount : Nat
  leftSize : Nat := 0
  rightSize : Nat := 0
deriving Repr, DecidableEq

def liftFsm {α} (r : Res FsmErr α) : TR α := r.mapErr .fsm
def liftKeeperF {α} (r : Res KeeperErr α) : TR α := r.mapErr (fun e => .fsm (.keeper e))

def parPrepareSliders (f : ParFSM) (t : SubgraphType) (k : DataKeeper) : TR DataKeeper := do
  let (pl, cl) := match t with
    | .left => (f.prevPar.left, f.currentPar.left)
    | .right => (f.prevPar.right, f.currentPar.right)
  let ps ← liftKeeperF (k.prev.setSubtraceLen pl)
  let k := { k with prev := ps }
  let cs ← liftKeeperF (k.cur.setSubtraceLen cl)
  pure { k with cur := cs }

/-- `ParFSM::from_left_started` -/
def ParFSM.fromLeftStarted (prevPar currentPar : ParResult) (k : DataKeeper) : TR (ParFSM × DataKeeper) := do
  -- StateInserter::from_keeper
  let inserterPos := k.resultTraceNextPos
  let k := { k with resultTrace := k.resultTrace ++ [.par 0 0] }
  -- CtxStateHandler::prepare
  let lp ← liftFsm (parComputeNewState prevPar .left k.prev)
  let lc ← liftFsm (parComputeNewState currentPar .left k.cur)
  let rp ← liftFsm (parComputeNewState prevPar .right k.prev)
  let rc ← liftFsm (parComputeNewState currentPar .right k.cur)
  let f : ParFSM := { prevPar := prevPar, currentPar := currentPar, inserterPos := inserterPos,
                      leftPair := ⟨lp, lc⟩, rightPair := ⟨rp, rc⟩, savedStatesCount := k.resultTrace.length }
  let k ← parPrepareSliders f .left k
  pure (f, k)

def ParFSM.track (f : ParFSM) (k : DataKeeper) (t : SubgraphType) : ParFSM :=
  let n := k.resultTrace.length - f.savedStatesCount
  match t with
  | .left => { f with leftSize := n, savedStatesCount := k.resultTrace.length }
  | .right => { f with rightSize := n, savedStatesCount := k.resultTrace.length }

/-- `left_completed` (the result of `prepare_sliders` is dropped: `let _ =`) -/
def ParFSM.leftCompleted (f : ParFSM) (k : DataKeeper) : TR (ParFSM × DataKeeper) := do
  let f := f.track k .left
  let k ← updateCtxStates f.leftPair k
  match parPrepareSliders f .right k with
  | .ok k' => pure (f, k')
  | .error _ =>
    -- the first `set_subtrace_len` may have succeeded before the second failed: replay the partial effect
    match k.prev.setSubtraceLen f.prevPar.right with
    | .ok ps => pure (f, { k with prev := ps })
    | .error _ => pure (f, k)
    | .panic s => Res.panic s
  | .panic s => Res.panic s

def setAt {α} (l : List α) (i : Nat) (x : α) : List α := l.set i x

/-- `right_completed` -/
def ParFSM.rightCompleted (f : ParFSM) (k : DataKeeper) : TR DataKeeper := do
  let f := f.track k .right
  let st := ExecutedState.par (truncU32 f.leftSize) (truncU32 f.rightSize)
  let k := { k with resultTrace := setAt k.resultTrace f.inserterPos st }
  updateCtxStates f.rightPair k

/-! ## fold merger: lore resolver -/

structure ResolvedSubTraceDescs where
  before : SubTraceDesc
  after : SubTraceDesc
deriving Repr, DecidableEq, Inhabited

structure ResolvedFold where
  /-- `HashMap<TracePos, ResolvedSubTraceDescs>` (keyed access only) -/
  lore : List (Nat × ResolvedSubTraceDescs) := []
  foldStatesCount : Nat := 0
deriving Repr, DecidableEq, Inhabited

structure LoresLen where
  beforeLen : Nat
  afterLen : Nat
deriving Repr, DecidableEq, Inhabited

/-- `compute_before_lens` over `lens[begin..=end]` -/
def computeBeforeLens (lens : List LoresLen) (beginPos endPos : Nat) : List LoresLen :=
  let afterLen := (lens.getD endPos default).afterLen
  -- walk ids from endPos down to beginPos accumulating before lens
  let rec go (ids : List Nat) (cum : Nat) (ls : List LoresLen) : List LoresLen :=
    match ids with
    | [] => ls
    | i :: rest =>
      let b := (ls.getD i default).beforeLen
      let cum' := cum + b
      go rest cum' (ls.set i { (ls.getD i default) with beforeLen := cum' + afterLen })
  go ((List.range (endPos + 1 - beginPos)).map (fun d => endPos - d)) 0 lens

structure ConvState where
  lens : List LoresLen := []
  foldStatesCount : Nat := 0
  lastSeenGeneration : Nat := 0
  lastSeenGenerationPos : Nat := 0
  cumAfterLen : Nat := 0
deriving Repr

/-- `compute_lens_convolution` -/
def computeLensConvolution (lore : List FoldSubTraceLore) (s : TraceSlider) : Res MergeErr (Nat × List LoresLen) := do
  let rec loop (id : Nat) (ls : List FoldSubTraceLore) (st : ConvState) : Res MergeErr ConvState :=
    match ls with
    | [] => .ok st
    | l :: rest => do
      if l.subtracesDesc.length != 2 then Res.error .foldIncorrectSubtracesCount else
      let gen ← (tryGetGeneration s l.valuePos).mapErr MergeErr.keeper
      let st := if st.lastSeenGeneration != gen then
          let lens := if id > 0 then computeBeforeLens st.lens st.lastSeenGenerationPos (id - 1) else st.lens
          { st with lens := lens, lastSeenGeneration := gen, lastSeenGenerationPos := id, cumAfterLen := 0 }
        else st
      let beforeLen := (l.subtracesDesc.getD 0 default).subtraceLen
      let afterLen := (l.subtracesDesc.getD 1 default).subtraceLen
      let cnt := st.foldStatesCount + beforeLen + afterLen
      if st.foldStatesCount + beforeLen > u32Max ∨ cnt > u32Max then Res.error .subtraceLenOverflow else
      let cum ← addU32 "fold_lore_resolver.rs:cum_after_len+=after_len" st.cumAfterLen afterLen
      loop (id + 1) rest { st with foldStatesCount := cnt, cumAfterLen := cum, lens := st.lens ++ [⟨beforeLen, cum⟩] }
  let st ← loop 0 lore {}
  let lens := if lore.length > 0 then computeBeforeLens st.lens st.lastSeenGenerationPos (lore.length - 1) else st.lens
  pure (st.foldStatesCount, lens)

/-- `resolve_fold_lore` -/
def resolveFoldLore (lore : List FoldSubTraceLore) (s : TraceSlider) : Res MergeErr ResolvedFold := do
  let (cnt, lens) ← computeLensConvolution lore s
  let rec build (ls : List (FoldSubTraceLore × LoresLen)) (acc : List (Nat × ResolvedSubTraceDescs)) :
      Res MergeErr (List (Nat × ResolvedSubTraceDescs)) :=
    match ls with
    | [] => .ok acc
    | (l, len) :: rest =>
      let d : ResolvedSubTraceDescs :=
        { before := ⟨(l.subtracesDesc.getD 0 default).beginPos, truncU32 len.beforeLen⟩,
          after := ⟨(l.subtracesDesc.getD 1 default).beginPos, truncU32 len.afterLen⟩ }
      if acc.any (fun (k, _) => k == l.valuePos) then .error .severalRecordsWithSamePos
      else build rest (acc ++ [(l.valuePos, d)])
  let resolved ← build (lore.zip lens) []
  pure { lore := resolved, foldStatesCount := cnt }

/-- `try_merge_next_state_as_fold` → (prev_fold_lore, current_fold_lore) -/
def tryMergeNextStateAsFold (k : DataKeeper) : TR (ResolvedFold × ResolvedFold × DataKeeper) :=
  let (p, c, k) := nextStates k
  let lift {α} (r : Res MergeErr α) : TR α := r.mapErr .merge
  match p, c with
  | some (.fold pl), some (.fold cl) => do
    let pf ← lift (resolveFoldLore pl k.prev)
    let cf ← lift (resolveFoldLore cl k.cur)
    pure (pf, cf, k)
  | none, some (.fold cl) => do
    let cf ← lift (resolveFoldLore cl k.cur)
    pure ({}, cf, k)
  | some (.fold pl), none => do
    let pf ← lift (resolveFoldLore pl k.prev)
    pure (pf, {}, k)
  | none, none => .ok ({}, {}, k)
  | _, _ => .error (.merge (.incompatibleStates "fold"))

/-! ## FoldFSM -/

inductive CtorState | beforeStarted | beforeCompleted | afterStarted | afterCompleted
deriving Repr, DecidableEq, Inhabited

def CtorState.next : CtorState → CtorState
  | .beforeStarted => .beforeCompleted
  | .beforeCompleted => .afterStarted
  | .afterStarted => .afterCompleted
  | .afterCompleted => .afterCompleted

structure SubTraceLoreCtor where
  valuePos : Nat
  beforeStart : Nat
  beforeEnd : Nat := 0
  afterStart : Nat := 0
  afterEnd : Nat := 0
  state : CtorState := .beforeStarted
deriving Repr, DecidableEq, Inhabited

namespace SubTraceLoreCtor
def beforeEnd' (c : SubTraceLoreCtor) (k : DataKeeper) : SubTraceLoreCtor := { c with beforeEnd := k.resultTraceNextPos, state := c.state.next }
def maybeBeforeEnd (c : SubTraceLoreCtor) (k : DataKeeper) : SubTraceLoreCtor := if c.state != .beforeStarted then c else c.beforeEnd' k
def afterStart' (c : SubTraceLoreCtor) (k : DataKeeper) : SubTraceLoreCtor := { c with afterStart := k.resultTraceNextPos, state := c.state.next }
def afterEnd' (c : SubTraceLoreCtor) (k : DataKeeper) : SubTraceLoreCtor := { c with afterEnd := k.resultTraceNextPos, state := c.state.next }
def finish (c : SubTraceLoreCtor) (k : DataKeeper) : SubTraceLoreCtor :=
  match c.state with
  | .beforeStarted => ((c.beforeEnd' k).afterStart' k).afterEnd' k
  | .beforeCompleted => (c.afterStart' k).afterEnd' k
  | .afterStarted => c.afterEnd' k
  | .afterCompleted => c
/-- `into_subtrace_lore` (`end_pos - start_pos` on `TracePos`) -/
def intoSubtraceLore (c : SubTraceLoreCtor) : TR FoldSubTraceLore := do
  let bl ← subU32 "lore_ctor.rs:PositionsTracker::len(before)" c.beforeEnd c.beforeStart
  let al ← subU32 "lore_ctor.rs:PositionsTracker::len(after)" c.afterEnd c.afterStart
  pure { valuePos := c.valuePos, subtracesDesc := [⟨c.beforeStart, truncU32 bl⟩, ⟨c.afterStart, truncU32 al⟩] }
end SubTraceLoreCtor

structure LoreCtorDesc where
  ctor : SubTraceLoreCtor
  prevLore : Option ResolvedSubTraceDescs
  currentLore : Option ResolvedSubTraceDescs
deriving Repr, DecidableEq, Inhabited

structure FoldFSM where
  prevFold : ResolvedFold
  currentFold : ResolvedFold
  inserterPos : Nat
  queue : List LoreCtorDesc := []
  backTraversalPos : Nat := 0
  backTraversalStarted : Bool := false
  resultLore : List FoldSubTraceLore := []
  finalStates : CtxStatesPair
deriving Repr, DecidableEq

/-- fold_fsm/state_handler `compute_new_state` -/
def foldComputeNewState (fold : ResolvedFold) (s : TraceSlider) : Res FsmErr CtxState :=
  if s.position + fold.foldStatesCount > u32Max then .error .foldPosOverflow
  else if s.remaining < fold.foldStatesCount then .error .foldLenUnderflow
  else .ok ⟨s.position + fold.foldStatesCount, s.remaining - fold.foldStatesCount⟩

/-- `FoldFSM::from_fold_start` -/
def FoldFSM.fromFoldStart (pf cf : ResolvedFold) (k : DataKeeper) : TR (FoldFSM × DataKeeper) := do
  let inserterPos := k.resultTraceNextPos
  let k := { k with resultTrace := k.resultTrace ++ [.par 0 0] }
  let ps ← liftFsm (foldComputeNewState pf k.prev)
  let cs ← liftFsm (foldComputeNewState cf k.cur)
  pure ({ prevFold := pf, currentFold := cf, inserterPos := inserterPos, finalStates := ⟨ps, cs⟩ }, k)

inductive ByNextPosition | before | after

def applyFoldLoreOne (s : TraceSlider) (lore : Option ResolvedSubTraceDescs) (w : ByNextPosition) : Res KeeperErr TraceSlider :=
  match lore with
  | some l =>
    match w with
    | .before => s.setPositionAndLen l.before.beginPos l.before.subtraceLen
    | .after => s.setPositionAndLen l.after.beginPos l.after.subtraceLen
  | none => s.setSubtraceLen 0

def applyFoldLore (k : DataKeeper) (pl cl : Option ResolvedSubTraceDescs) (w : ByNextPosition) : TR DataKeeper := do
  let ps ← liftKeeperF (applyFoldLoreOne k.prev pl w)
  let k := { k with prev := ps }
  let cs ← liftKeeperF (applyFoldLoreOne k.cur cl w)
  pure { k with cur := cs }

def removeKey {β} (l : List (Nat × β)) (key : Nat) : Option β × List (Nat × β) :=
  match l.find? (fun (a, _) => a == key) with
  | some (_, v) => (some v, l.filter (fun (a, _) => a != key))
  | none => (none, l)

/-- `meet_iteration_start` -/
def FoldFSM.meetIterationStart (f : FoldFSM) (valuePos : Nat) (k : DataKeeper) : TR (FoldFSM × DataKeeper) := do
  let prevPos := k.newToPrevPos.getByLeft valuePos
  let curPos := k.newToCurrentPos.getByLeft valuePos
  let (prevLore, pf) := match prevPos with
    | some p => let (v, l) := removeKey f.prevFold.lore p; (v, { f.prevFold with lore := l })
    | none => (none, f.prevFold)
  let (curLore, cf) := match curPos with
    | some p => let (v, l) := removeKey f.currentFold.lore p; (v, { f.currentFold with lore := l })
    | none => (none, f.currentFold)
  let f := { f with prevFold := pf, currentFold := cf }
  let k ← applyFoldLore k prevLore curLore .before
  let ctor : SubTraceLoreCtor := { valuePos := valuePos, beforeStart := k.resultTraceNextPos }
  pure ({ f with queue := f.queue ++ [⟨ctor, prevLore, curLore⟩], backTraversalPos := f.backTraversalPos + 1 }, k)

/-- `SubTraceLoreCtorQueue::current` (`queue[back_traversal_pos - 1]`) -/
def FoldFSM.current (f : FoldFSM) : TR (Nat × LoreCtorDesc) :=
  if f.backTraversalPos = 0 then .panic "lore_ctor_queue.rs:current:back_traversal_pos-1"
  else match f.queue[f.backTraversalPos - 1]? with
    | some d => .ok (f.backTraversalPos - 1, d)
    | none => .panic "lore_ctor_queue.rs:current:index"

def FoldFSM.setCtor (f : FoldFSM) (i : Nat) (c : SubTraceLoreCtor) : FoldFSM :=
  { f with queue := f.queue.set i { (f.queue.getD i default) with ctor := c } }

/-- `meet_iteration_end` -/
def FoldFSM.meetIterationEnd (f : FoldFSM) (k : DataKeeper) : TR FoldFSM := do
  let (i, d) ← f.current
  pure (f.setCtor i (d.ctor.beforeEnd' k))

/-- `meet_back_iterator` -/
def FoldFSM.meetBackIterator (f : FoldFSM) (k : DataKeeper) : TR (FoldFSM × DataKeeper) := do
  let (i, d) ← f.current
  if !f.backTraversalStarted then
    let c := (d.ctor.maybeBeforeEnd k).afterStart' k
    let f := f.setCtor i c
    let k ← applyFoldLore k d.prevLore d.currentLore .after
    pure ({ f with backTraversalStarted := true }, k)
  else
    let f := f.setCtor i (d.ctor.afterEnd' k)
    -- traverse_back: `back_traversal_pos -= 1` on usize
    let pos ← subU32 "lore_ctor_queue.rs:traverse_back" f.backTraversalPos 1
    let f := { f with backTraversalPos := pos }
    let (j, d2) ← f.current
    let f := f.setCtor j (d2.ctor.afterStart' k)
    let k ← applyFoldLore k d2.prevLore d2.currentLore .after
    pure (f, k)

/-- `meet_generation_end` -/
def FoldFSM.meetGenerationEnd (f : FoldFSM) (k : DataKeeper) : TR FoldFSM := do
  let finished := f.queue.map fun d => d.ctor.finish k
  let lore ← finished.mapM SubTraceLoreCtor.intoSubtraceLore
  pure { f with queue := [], backTraversalPos := 0, backTraversalStarted := false, resultLore := f.resultLore ++ lore }

/-- `meet_fold_end` -/
def FoldFSM.meetFoldEnd (f : FoldFSM) (k : DataKeeper) : TR DataKeeper := do
  let k := { k with resultTrace := setAt k.resultTrace f.inserterPos (.fold f.resultLore) }
  updateCtxStates f.finalStates k

/-! ## TraceHandler -/

structure TraceHandler where
  keeper : DataKeeper
  parStack : List ParFSM := []
  foldMap : List (Nat × FoldFSM) := []
deriving Repr

namespace TraceHandler

def fromTrace (prev cur : Trace) : TraceHandler := { keeper := DataKeeper.fromTrace prev cur }

def tracePos (h : TraceHandler) : Nat := h.keeper.resultTrace.length

def meetCallStart (h : TraceHandler) : TR (MergerCallResult × TraceHandler) := do
  let (r, k) ← tryMergeNextStateAsCall h.keeper
  pure (r, { h with keeper := k })

def pushState (h : TraceHandler) (s : ExecutedState) : TraceHandler :=
  { h with keeper := { h.keeper with resultTrace := h.keeper.resultTrace ++ [s] } }

def meetCallEnd (h : TraceHandler) (c : CallResult) : TraceHandler := h.pushState (.call c)

def meetApStart (h : TraceHandler) : TR (MergerApResult × TraceHandler) := do
  let (r, k) ← tryMergeNextStateAsAp h.keeper
  pure (r, { h with keeper := k })

def meetApEnd (h : TraceHandler) (gens : List Nat) : TraceHandler := h.pushState (.ap gens)

def meetCanonStart (h : TraceHandler) : TR (MergerCanonResult × TraceHandler) := do
  let (r, k) ← tryMergeNextStateAsCanon h.keeper
  pure (r, { h with keeper := k })

def meetCanonEnd (h : TraceHandler) (c : CanonResult) : TraceHandler := h.pushState (.canon c)

def meetParStart (h : TraceHandler) : TR TraceHandler := do
  let (pp, cp, k) ← tryMergeNextStateAsPar h.keeper
  let (f, k) ← ParFSM.fromLeftStarted pp cp k
  pure { h with keeper := k, parStack := f :: h.parStack }

def meetParSubgraphEnd (h : TraceHandler) (t : SubgraphType) : TR TraceHandler :=
  match h.parStack with
  | [] => .error (.fsm .parQueueIsEmpty)
  | f :: rest =>
    match t with
    | .left => do
      let (f, k) ← f.leftCompleted h.keeper
      pure { h with keeper := k, parStack := f :: rest }
    | .right => do
      let k ← f.rightCompleted h.keeper
      pure { h with keeper := k, parStack := rest }

def meetFoldStart (h : TraceHandler) (foldId : Nat) : TR TraceHandler := do
  let (pf, cf, k) ← tryMergeNextStateAsFold h.keeper
  let (f, k) ← FoldFSM.fromFoldStart pf cf k
  pure { h with keeper := k, foldMap := (foldId, f) :: h.foldMap.filter (fun (i, _) => i != foldId) }

def foldMut (h : TraceHandler) (foldId : Nat) : TR FoldFSM :=
  match h.foldMap.find? (fun (i, _) => i == foldId) with
  | some (_, f) => .ok f
  | none => .error (.fsm .foldFSMNotFound)

def setFold (h : TraceHandler) (foldId : Nat) (f : FoldFSM) : TraceHandler :=
  { h with foldMap := h.foldMap.map fun (i, g) => if i == foldId then (i, f) else (i, g) }

def meetIterationStart (h : TraceHandler) (foldId valuePos : Nat) : TR TraceHandler := do
  let f ← h.foldMut foldId
  let (f, k) ← f.meetIterationStart valuePos h.keeper
  pure (({ h with keeper := k }).setFold foldId f)

def meetIterationEnd (h : TraceHandler) (foldId : Nat) : TR TraceHandler := do
  let f ← h.foldMut foldId
  let f ← f.meetIterationEnd h.keeper
  pure (h.setFold foldId f)

def meetBackIterator (h : TraceHandler) (foldId : Nat) : TR TraceHandler := do
  let f ← h.foldMut foldId
  let (f, k) ← f.meetBackIterator h.keeper
  pure (({ h with keeper := k }).setFold foldId f)

def meetGenerationEnd (h : TraceHandler) (foldId : Nat) : TR TraceHandler := do
  let f ← h.foldMut foldId
  let f ← f.meetGenerationEnd h.keeper
  pure (h.setFold foldId f)

def meetFoldEnd (h : TraceHandler) (foldId : Nat) : TR TraceHandler := do
  let f ← h.foldMut foldId
  let k ← f.meetFoldEnd h.keeper
  pure { h with keeper := k, foldMap := h.foldMap.filter (fun (i, _) => i != foldId) }

inductive CompactErr | pointsToNowhere | pointsToInvalidState
deriving Repr, DecidableEq

/-- `update_generation` -/
def updateGeneration (h : TraceHandler) (tracePos generation : Nat) : Res CompactErr TraceHandler :=
  match h.keeper.resultTrace[tracePos]? with
  | none => .error .pointsToNowhere
  | some (.ap _) => .ok { h with keeper := { h.keeper with resultTrace := setAt h.keeper.resultTrace tracePos (.ap [generation]) } }
  | some (.call (.executed (.stream cid _))) =>
    .ok { h with keeper := { h.keeper with resultTrace := setAt h.keeper.resultTrace tracePos (.call (.executed (.stream cid generation))) } }
  | some _ => .error .pointsToInvalidState

/-- `subgraph_sizes` -/
def subgraphSizes (h : TraceHandler) : Nat × Nat := (h.keeper.prev.remaining, h.keeper.cur.remaining)

end TraceHandler

end Aqua.Trace
