import Aqua.Air.Spanned
/-
Replica of `air-parser/src/parser/validator.rs`: `VariableValidator` (the `met_*` handlers called by
the grammar actions), `AfterNextCheckMachine`, and `ValidatorErrorBuilder` (`finalize`).

Containers: `HashMap<&str, Span>` is an association list with unique keys; `MultiMap<&str, Span>`
(crate `multimap` 0.9: a `HashMap<K, Vec<V>>`) is the list of inserted pairs in insertion order, so
* `get_vec(k)`   = the values inserted under `k`, in insertion order,
* `iter()`       = **one pair per key: the key with the FIRST value inserted under it**
                   (`multimap::Iter` yields `(k, &v[0])`),
* `iter_all()`   = every key with its whole vector.
The order in which a `HashMap` yields its keys is unspecified; it only affects the order of the
reported errors, which the correspondence compares as a multiset.
-/
namespace Aqua.Air

abbrev SpanMap := List (String × Span)

namespace SpanMap

/-- `HashMap::get` / first value of a key -/
def get? (m : SpanMap) (k : String) : Option Span :=
  match m with
  | [] => none
  | (k', v) :: rest => if k' == k then some v else get? rest k

/-- `MultiMap::get_vec` (`none` and the empty vector are not distinguished by the callers) -/
def getVec (m : SpanMap) (k : String) : List Span :=
  match m with
  | [] => []
  | (k', v) :: rest => if k' == k then v :: getVec rest k else getVec rest k

/-- `HashMap::insert` (replace) -/
def set (m : SpanMap) (k : String) (v : Span) : SpanMap :=
  match m with
  | [] => [(k, v)]
  | (k', v') :: rest => if k' == k then (k', v) :: rest else (k', v') :: set rest k v

/-- `HashMap::remove` -/
def erase (m : SpanMap) (k : String) : SpanMap :=
  match m with
  | [] => []
  | (k', v') :: rest => if k' == k then erase rest k else (k', v') :: erase rest k

/-- `MultiMap::insert` -/
def push (m : SpanMap) (k : String) (v : Span) : SpanMap := m ++ [(k, v)]

def firstPerKeyAux (seen : List String) : SpanMap → SpanMap
  | [] => []
  | (k, v) :: rest =>
    if seen.contains k then firstPerKeyAux seen rest else (k, v) :: firstPerKeyAux (k :: seen) rest

/-- `MultiMap::iter()`: each key once, with the first value inserted under it -/
def firstPerKey (m : SpanMap) : SpanMap := firstPerKeyAux [] m

/-- distinct keys, in order of first insertion -/
def keys (m : SpanMap) : List String := (firstPerKey m).map (·.1)

end SpanMap

-- ------------------------------------------------------------------------------------------------
-- AfterNextCheckMachine

inductive CheckInstructionKind where
  | pivotalNext (name : String)
  | merging
  | popStack1
  | popStack2
  | replacing
  | replacingWithCheck (name : String)
  | xoring
  | popStack1ReplacingWithCheck (name : String)
  | simple
deriving Repr, DecidableEq, Inhabited

structure AfterNextCheckMachine where
  /-- head = top of the Rust `Vec` -/
  stack : List (CheckInstructionKind × Span) := []
  potentiallyMalformedSpans : SpanMap := []
  malformedSpans : List Span := []
  isEnabled : Bool := true
deriving Repr, Inhabited

namespace AfterNextCheckMachine
open CheckInstructionKind

def disable (m : AfterNextCheckMachine) : AfterNextCheckMachine := { m with stack := [], isEnabled := false }

/-- `Vec::pop` -/
def pop (m : AfterNextCheckMachine) : Option (CheckInstructionKind × Span) × AfterNextCheckMachine :=
  match m.stack with
  | [] => (none, m)
  | x :: rest => (some x, { m with stack := rest })

def push (m : AfterNextCheckMachine) (k : CheckInstructionKind) (sp : Span) : AfterNextCheckMachine :=
  { m with stack := (k, sp) :: m.stack }

def processReplacing (m : AfterNextCheckMachine) (span : Span) : AfterNextCheckMachine :=
  let (child, m) := m.pop
  match child with
  | some (.pivotalNext n, _) => m.push (.pivotalNext n) span
  | some _ => m.push .replacing span
  | none => m.disable

def processXoring (m : AfterNextCheckMachine) (span : Span) : AfterNextCheckMachine :=
  let (rightBranch, m) := m.pop
  let (leftBranch, m) := m.pop
  match leftBranch, rightBranch with
  | some (.pivotalNext _, _), some (.pivotalNext _, _) => m.disable
  | some (.pivotalNext n, _), some _ => m.push (.pivotalNext n) span
  | some _, some (.pivotalNext n, _) => m.push (.pivotalNext n) span
  | some _, some _ => m.push .xoring span
  | _, _ => m.disable

def processMerging (m : AfterNextCheckMachine) (span : Span) : AfterNextCheckMachine :=
  let (rightBranch, m) := m.pop
  let (leftBranch, m) := m.pop
  match leftBranch, rightBranch with
  | some (.pivotalNext leftIterable, _), some (.pivotalNext rightIterable, _) =>
    if leftIterable == rightIterable then m.push (.pivotalNext leftIterable) span
    else
      -- second arm: the left branch is a `next`
      let m := m.push .merging span
      { m with potentiallyMalformedSpans :=
          if (m.potentiallyMalformedSpans.get? leftIterable).isSome then m.potentiallyMalformedSpans
          else m.potentiallyMalformedSpans ++ [(leftIterable, span)] }
  | some (.pivotalNext iterator, _), some _ =>
    let m := m.push .merging span
    { m with potentiallyMalformedSpans :=
        if (m.potentiallyMalformedSpans.get? iterator).isSome then m.potentiallyMalformedSpans
        else m.potentiallyMalformedSpans ++ [(iterator, span)] }
  | some _, some (.pivotalNext n, _) => m.push (.pivotalNext n) span
  | some _, some _ => m.push .merging span
  | _, _ => m.disable

def afterNextCheck (m : AfterNextCheckMachine) (iterable : String) : AfterNextCheckMachine :=
  match m.potentiallyMalformedSpans.get? iterable with
  | some span => { m with malformedSpans := m.malformedSpans ++ [span] }
  | none => m

def replacingWithCheckCommon (m : AfterNextCheckMachine) (iteratorName : String) (span : Span)
    (instrKind : CheckInstructionKind) : AfterNextCheckMachine :=
  let (child, m) := m.pop
  match child with
  | some (.pivotalNext pivotalNextIteratorName, _) =>
    if pivotalNextIteratorName == iteratorName then
      let m := m.afterNextCheck iteratorName
      let m := { m with potentiallyMalformedSpans := m.potentiallyMalformedSpans.erase iteratorName }
      m.push .simple span
    else
      let m := m.afterNextCheck iteratorName
      m.push (.pivotalNext pivotalNextIteratorName) span
  | some _ =>
    let m := m.afterNextCheck iteratorName
    m.push instrKind span
  | none => { m with isEnabled := false }

def metInstructionKind (m : AfterNextCheckMachine) (instrKind : CheckInstructionKind) (span : Span) :
    AfterNextCheckMachine :=
  if !m.isEnabled then m
  else match instrKind with
    | .replacing => m.processReplacing span
    | .xoring => m.processXoring span
    | .merging => m.processMerging span
    | .replacingWithCheck iteratorName => m.replacingWithCheckCommon iteratorName span instrKind
    | .popStack1ReplacingWithCheck iteratorName =>
      (m.pop.2).replacingWithCheckCommon iteratorName span instrKind
    | .pivotalNext _ | .simple => m.push instrKind span
    | .popStack1 => (m.pop.2).push instrKind span
    | .popStack2 => ((m.pop.2).pop.2).push instrKind span

end AfterNextCheckMachine

-- ------------------------------------------------------------------------------------------------
-- VariableValidator

structure VariableValidator where
  /-- `HashMap`: the most left definition of a variable -/
  metVariableDefinitions : SpanMap := []
  /-- `MultiMap`: fold spans per iterator name -/
  metIteratorDefinitions : SpanMap := []
  /-- `MultiMap` -/
  unresolvedVariables : SpanMap := []
  /-- `MultiMap` -/
  unresolvedIterables : SpanMap := []
  /-- `MultiMap` -/
  multipleNextCandidates : SpanMap := []
  /-- `Vec` -/
  notIteratorsCandidates : SpanMap := []
  /-- `Vec<(i64, Span)>` -/
  unsupportedLiteralErrcodes : List (Int × Span) := []
  afterNextMachine : AfterNextCheckMachine := {}
deriving Repr, Inhabited
-- `unsupported_map_keys` is never written by the Rust code (the check over it is dead) and is left out.

/-- the scalar names a lens mentions: `FieldAccessByScalar { scalar_name }` accessors of a value path -/
def Lambda.scalarNames : Lambda → List String
  | .functorLength => []
  | .path as => as.filterMap fun
    | .fieldByScalar s => some s
    | _ => none

namespace VariableValidator

def containsVariable (v : VariableValidator) (key : String) (keySpan : Span) : Bool :=
  (match v.metVariableDefinitions.get? key with
   | some foundSpan => foundSpan.lt keySpan
   | none => false)
  || (v.metIteratorDefinitions.getVec key).any fun s => s.lt keySpan

def metVariableName (v : VariableValidator) (name : String) (span : Span) : VariableValidator :=
  if !v.containsVariable name span then { v with unresolvedVariables := v.unresolvedVariables.push name span }
  else v

def metLambda (v : VariableValidator) (lambda : Lambda) (span : Span) : VariableValidator :=
  lambda.scalarNames.foldl (fun v n => v.metVariableName n span) v

def metVariableNameDefinition (v : VariableValidator) (name : String) (span : Span) : VariableValidator :=
  match v.metVariableDefinitions.get? name with
  | some occupied =>
    if occupied.gt span then { v with metVariableDefinitions := v.metVariableDefinitions.set name span } else v
  | none => { v with metVariableDefinitions := v.metVariableDefinitions ++ [(name, span)] }

def metIteratorDefinition (v : VariableValidator) (iterator : String) (span : Span) : VariableValidator :=
  { v with metIteratorDefinitions := v.metIteratorDefinitions.push iterator span }

/-- `met_peer_id_resolvable_value`, `met_string_resolvable_value`, `met_instr_arg_value`,
`met_matchable`, `met_map_key` and the matches on `ApArgument` / `FoldScalarIterable`: on every
variant its operand type allows, each of them calls `met_variable_name(name)` for a variable and
additionally `met_lambda` for a `*WithLambda`; none of them looks into the lens of `%last_error%` /
`:error:`, and literals, numbers, … are skipped -/
def metValue (v : VariableValidator) (value : Value) (span : Span) : VariableValidator :=
  match value with
  | .scalar n | .canon n | .canonMap n => v.metVariableName n span
  | .scalarWL n l | .canonWL n l | .canonMapWL n l => (v.metVariableName n span).metLambda l span
  | _ => v

def metArgs (v : VariableValidator) (args : List Value) (span : Span) : VariableValidator :=
  args.foldl (fun v a => v.metValue a span) v

def machine (v : VariableValidator) (k : CheckInstructionKind) (span : Span) : VariableValidator :=
  { v with afterNextMachine := v.afterNextMachine.metInstructionKind k span }

def metSimpleInstr (v : VariableValidator) (span : Span) := v.machine .simple span
def metMergingInstr (v : VariableValidator) (span : Span) := v.machine .merging span
def metXoringInstr (v : VariableValidator) (span : Span) := v.machine .xoring span
def metReplacingInstr (v : VariableValidator) (span : Span) := v.machine .replacing span
def metPivotalnextInstr (v : VariableValidator) (n : String) (span : Span) := v.machine (.pivotalNext n) span

def metCall (v : VariableValidator) (peer svc func : Value) (args : List Value) (out : CallOutput) (span : Span) :=
  let v := v.metValue peer span
  let v := v.metValue svc span
  let v := v.metValue func span
  let v := v.metArgs args span
  let v := v.metSimpleInstr span
  match out with
  | .scalar n => v.metVariableNameDefinition n span
  | .stream n _ => v.metVariableNameDefinition n span
  | .none => v

/-- `met_canon`, `met_canon_map`, `met_canon_map_scalar`: only the result name is looked at
("canon doesn't check stream to be defined"); the peer operand is not visited -/
def metCanon (v : VariableValidator) (result : String) (span : Span) :=
  (v.metVariableNameDefinition result span).metSimpleInstr span

def metMatch (v : VariableValidator) (a b : Value) (span : Span) :=
  ((v.metValue a span).metValue b span).metReplacingInstr span

def metFold (v : VariableValidator) (iterable : FoldIterable) (iterator : String) (hasLast : Bool) (span : Span) :=
  match iterable with
  | .scalar it =>
    -- met_fold_scalar
    let v := v.metValue it span
    let v := v.metIteratorDefinition iterator span
    v.machine (if hasLast then .popStack2 else .popStack1) span
  | .stream name _ | .streamMap name _ =>
    -- meet_fold_stream / meet_fold_stream_map
    let v := v.metVariableName name span
    let v := v.metIteratorDefinition iterator span
    v.machine (if hasLast then .popStack1ReplacingWithCheck iterator else .replacingWithCheck iterator) span

def metNew (v : VariableValidator) (arg : NewArg) (span : Span) :=
  let v := { v with notIteratorsCandidates := v.notIteratorsCandidates ++ [(arg.name, span)] }
  (v.metVariableNameDefinition arg.name span).metReplacingInstr span

def metNext (v : VariableValidator) (iterator : String) (span : Span) :=
  let v := { v with unresolvedIterables := v.unresolvedIterables.push iterator span,
                    multipleNextCandidates := v.multipleNextCandidates.push iterator span }
  v.metPivotalnextInstr iterator span

def metAp (v : VariableValidator) (arg : Value) (result : ApResult) (span : Span) :=
  ((v.metValue arg span).metVariableNameDefinition result.name span).metSimpleInstr span

/-- the value operand of `(ap (key value) %map)` is not visited -/
def metApMap (v : VariableValidator) (key : Value) (map : String) (span : Span) :=
  ((v.metValue key span).metVariableNameDefinition map span).metSimpleInstr span

/-- `met_fail_literal`: the operand is inspected only for the literal code 0 -/
def metFailLiteral (v : VariableValidator) (arg : FailArg) (span : Span) :=
  let v := match arg with
    | .literal retCode _ => if retCode == 0 then { v with unsupportedLiteralErrcodes := v.unsupportedLiteralErrcodes ++ [(retCode, span)] } else v
    | _ => v
  v.metSimpleInstr span

/-- the validator call of one grammar action -/
def step (v : VariableValidator) : Event → VariableValidator
  | .call sp p s f a o => v.metCall p s f a o sp
  | .seq sp | .par sp => v.metMergingInstr sp
  | .xor sp => v.metXoringInstr sp
  | .match_ sp a b | .mismatch sp a b => v.metMatch a b sp
  | .ap sp a r => v.metAp a r sp
  | .apMap sp k _ m => v.metApMap k m sp
  | .canon sp _ _ c | .canonMap sp _ _ c | .canonMapScalar sp _ _ c => v.metCanon c sp
  | .fold sp it i hasLast => v.metFold it i hasLast sp
  | .next sp i => v.metNext i sp
  | .new sp a => v.metNew a sp
  | .fail sp a => v.metFailLiteral a sp
  | .null sp | .never sp => v.metSimpleInstr sp
  | .error => v

def run (events : List Event) : VariableValidator := events.foldl step {}

end VariableValidator

-- ------------------------------------------------------------------------------------------------
-- ValidatorErrorBuilder

/-- the `ParserError`s `finalize` can produce -/
inductive ValidatorError where
  | undefinedVariable (span : Span) (name : String)
  | undefinedIterable (span : Span) (name : String)
  | multipleNextInFold (span : Span) (name : String)
  | iteratorRestrictionNotAllowed (span : Span) (name : String)
  | multipleIterableValuesForOneIterator (span : Span) (name : String)
  | unsupportedLiteralErrCodes (span : Span)
  | foldHasInstructionAfterNext (span : Span)
deriving Repr, DecidableEq, Inhabited

/-- `[Span]::sort()`: a stable sort whose `is_less` is `a < b` (i.e. by the smaller end).  Insertion
sort from the right: an element goes in front of the first element that is not smaller than it, so
elements inserted earlier stay in front of later "equal" ones. -/
def insertSpan (x : Span) : List Span → List Span
  | [] => [x]
  | y :: ys => if y.lt x then y :: insertSpan x ys else x :: y :: ys

def sortSpans (l : List Span) : List Span := l.foldr insertSpan []

namespace VariableValidator

/-- `sort_iterator_definitions` + `get_vec` -/
def sortedIteratorSpans (v : VariableValidator) (key : String) : List Span :=
  sortSpans (v.metIteratorDefinitions.getVec key)

/-- `find_closest_fold_span` -/
def findClosestFoldSpan (v : VariableValidator) (key : String) (keySpan : Span) : Option Span :=
  ((v.sortedIteratorSpans key).filter fun s => s.containsSpan keySpan).getLast?

def checkUndefinedVariables (v : VariableValidator) : List ValidatorError :=
  v.unresolvedVariables.firstPerKey.filterMap fun (name, span) =>
    if !v.containsVariable name span then some (.undefinedVariable span name) else none

def checkUndefinedIterables (v : VariableValidator) : List ValidatorError :=
  v.unresolvedIterables.firstPerKey.filterMap fun (name, span) =>
    if (v.findClosestFoldSpan name span).isNone then some (.undefinedIterable span name) else none

def multipleNextScan (v : VariableValidator) (name : String) : List Span → List Span → List ValidatorError
  | [], _ => []
  | span :: rest, collected =>
    match v.findClosestFoldSpan name span with
    | some foldSpan =>
      if collected.contains foldSpan then .multipleNextInFold span name :: multipleNextScan v name rest collected
      else multipleNextScan v name rest (foldSpan :: collected)
    | none => multipleNextScan v name rest collected

def checkMultipleNextInFold (v : VariableValidator) : List ValidatorError :=
  v.multipleNextCandidates.keys.flatMap fun name =>
    v.multipleNextScan name (v.multipleNextCandidates.getVec name) []

def checkNewOnIterators (v : VariableValidator) : List ValidatorError :=
  v.notIteratorsCandidates.filterMap fun (name, span) =>
    if (v.findClosestFoldSpan name span).isSome then some (.iteratorRestrictionNotAllowed span name) else none

def multipleDefinitionsScan (name : String) : List Span → Option Span → List ValidatorError
  | [], _ => []
  | span :: rest, prev =>
    match prev with
    | some prevSpan =>
      if prevSpan.containsSpan span then
        .multipleIterableValuesForOneIterator span name :: multipleDefinitionsScan name rest prev
      else multipleDefinitionsScan name rest (some span)
    | none => multipleDefinitionsScan name rest (some span)

def checkIteratorForMultipleDefinitions (v : VariableValidator) : List ValidatorError :=
  v.metIteratorDefinitions.keys.flatMap fun name =>
    multipleDefinitionsScan name (v.sortedIteratorSpans name) none

def checkForUnsupportedLiteralErrcodes (v : VariableValidator) : List ValidatorError :=
  v.unsupportedLiteralErrcodes.map fun (_, span) => .unsupportedLiteralErrCodes span

def checkAfterNextInstr (v : VariableValidator) : List ValidatorError :=
  v.afterNextMachine.malformedSpans.map .foldHasInstructionAfterNext

/-- `VariableValidator::finalize` -/
def finalize (v : VariableValidator) : List ValidatorError :=
  v.checkUndefinedVariables ++ v.checkUndefinedIterables ++ v.checkMultipleNextInFold ++
  v.checkNewOnIterators ++ v.checkIteratorForMultipleDefinitions ++
  v.checkForUnsupportedLiteralErrcodes ++ v.checkAfterNextInstr

end VariableValidator

/-- the validator errors of a syntax tree: feed the actions' calls in reduction order, then `finalize` -/
def validate (ast : SInstr) : List ValidatorError := (VariableValidator.run ast.events).finalize

end Aqua.Air
