import Aqua.Air.Ast
import Aqua.Gen.Beautifier
/-!
# The AIR beautifier (replica of `crates/beautifier/src/{beautifier,virtual}.rs`)

`beautifyWalker` follows `Beautifier::beautify_walker` method by method; the `Display` impls it prints
operands and instruction heads with (`air-parser/src/ast/**/traits.rs`, `lambda/ast/src/ast/traits.rs`)
are replicated as `…Text` functions over `List Char` (the texts are what the theorems reason about).

Output = list of lines `(indent, text)`; the byte output of the real beautifier is `render` of it
(`fmt_indent` writes `indent` spaces, `writeln!` the text and a `'\n'`).

Not modelled (trusted, see C28 report): `f64` `Display` (the decimal text of a float literal is an
input of the model: `Value.float repr`), `io::Error` (the writer is a `Vec`), `Instruction::Error`
(never present in an AST returned by `air_parser::parse`).
-/
namespace Aqua.Air.Beautifier
open Aqua.Air

abbrev Text := List Char

structure Line where
  indent : Nat
  text : Text
deriving Repr, DecidableEq, Inhabited

/-- `Beautifier { indent_step, try_hopon }` -/
structure Cfg where
  indentStep : Nat := Aqua.Gen.Beautifier.defaultIndentStep
  tryHopon : Bool := false
deriving Repr, DecidableEq, Inhabited

/-! ## `Display` of operands -/

/-- `Display for u32 / usize` -/
def natText (n : Nat) : Text := Nat.toDigits 10 n

/-- `Display for i64` -/
def intText : Int → Text
  | .ofNat n => natText n
  | .negSucc n => '-' :: natText (n + 1)

/-- `Itertools::join(sep)` / `Itertools::format(sep)` -/
def joinText (sep : Text) : List Text → Text
  | [] => []
  | [x] => x
  | x :: y :: xs => x ++ sep ++ joinText sep (y :: xs)

/-- `Display for ValueAccessor` -/
def accessorText : Accessor → Text
  | .arrayAccess i => '[' :: natText i ++ [']']
  | .fieldByName n => n.toList
  | .fieldByScalar s => '[' :: s.toList ++ [']']

/-- `Display for LambdaAST` -/
def lambdaText : Lambda → Text
  | .functorLength => ".length".toList
  | .path as => ".$.".toList ++ joinText ['.'] (as.map accessorText)

def optLambdaText : Option Lambda → Text
  | none => []
  | some l => lambdaText l

def quoted (s : Text) : Text := '"' :: s ++ ['"']

/-- `Display for ImmutableValue / ApArgument / ResolvableTo…Variable / StreamMapKeyClause /
FoldScalarIterable` (one model type for all operand positions, as in `Aqua.Air.Value`) -/
def valueText : Value → Text
  | .initPeerId => "%init_peer_id%".toList
  | .lastError l => "%last_error%".toList ++ optLambdaText l
  | .error l => ":error:".toList ++ optLambdaText l
  | .literal s => quoted s.toList
  | .timestamp => "%timestamp%".toList
  | .ttl => "%ttl%".toList
  | .number n => intText n
  | .float r => r.toList
  | .boolean true => "true".toList
  | .boolean false => "false".toList
  | .emptyArray => "[]".toList
  | .scalar n => n.toList
  | .scalarWL n l => n.toList ++ lambdaText l
  | .canon n => n.toList
  | .canonWL n l => n.toList ++ lambdaText l
  | .canonMap n => n.toList
  | .canonMapWL n l => n.toList ++ lambdaText l

/-- `Display for CallOutputValue / ApResult` -/
def outputText : CallOutput → Text
  | .none => []
  | .scalar n => n.toList
  | .stream n _ => n.toList

/-- `Display for Fail` -/
def failText : FailArg → Text
  | .scalar n => "fail ".toList ++ n.toList
  | .scalarWL n l => "fail ".toList ++ (n.toList ++ lambdaText l)
  | .literal c m => "fail ".toList ++ intText c ++ ' ' :: quoted m.toList
  | .canonWL n l => "fail ".toList ++ (n.toList ++ lambdaText l)
  | .lastError => "fail %last_error%".toList
  | .error => "fail :error:".toList

/-- `Display for Instruction` (only the head of a compound instruction is printed) -/
def instrText : Instr → Text
  | .call p s f args out =>
    "call ".toList ++ valueText p ++ " (".toList ++ valueText s ++ ' ' :: valueText f ++ ") [".toList ++
      joinText [' '] (args.map valueText) ++ "] ".toList ++ outputText out
  | .seq _ _ => "seq".toList
  | .par _ _ => "par".toList
  | .xor _ _ => "xor".toList
  | .match_ a b _ => "match ".toList ++ valueText a ++ ' ' :: valueText b
  | .mismatch a b _ => "mismatch ".toList ++ valueText a ++ ' ' :: valueText b
  | .ap arg out => "ap ".toList ++ valueText arg ++ ' ' :: outputText out
  | .apMap k v m _ => "ap (".toList ++ valueText k ++ ' ' :: valueText v ++ ") ".toList ++ m.toList
  | .canon p s _ c => "canon ".toList ++ valueText p ++ ' ' :: s.toList ++ ' ' :: c.toList
  | .canonMap p m _ c => "canon ".toList ++ valueText p ++ ' ' :: m.toList ++ ' ' :: c.toList
  | .canonMapScalar p m _ s => "canon ".toList ++ valueText p ++ ' ' :: m.toList ++ ' ' :: s.toList
  | .foldScalar it i _ _ => "fold ".toList ++ valueText it ++ ' ' :: i.toList
  | .foldStream s _ i _ _ _ => "fold ".toList ++ s.toList ++ ' ' :: i.toList
  | .foldMap m _ i _ _ _ => "fold ".toList ++ m.toList ++ ' ' :: i.toList
  | .next i => "next ".toList ++ i.toList
  | .new a _ _ _ => "new ".toList ++ a.name.toList
  | .fail a => failText a
  | .null => "null".toList
  | .never => "never".toList

/-! ## the beautifier proper -/

/-- `beautify_call`: `[out <- ]call {CallTriplet} [{CallArgs}]` with
`CallTriplet = "{peer} ({service}, {function})"`, `CallArgs = args.format(", ")` -/
def callText (p s f : Value) (args : List Value) (out : CallOutput) : Text :=
  (match out with
   | .none => []
   | .scalar n => n.toList ++ " <- ".toList
   | .stream n _ => n.toList ++ " <- ".toList) ++
  ("call ".toList ++ (valueText p ++ " (".toList ++ valueText s ++ ", ".toList ++ valueText f ++ [')']) ++
    " [".toList ++ joinText ", ".toList (args.map valueText) ++ [']'])

/-- `canon_shadows_peer_id` -/
def canonShadowsPeerId (canonName : String) : Value → Bool
  | .canonWL n _ => n == canonName
  | _ => false

/-- `try_hopon`: `(new $s (new #c (canon peer $s #c)))` ↦ the peer of the virtual `hopon` -/
def tryHopon (arg : NewArg) (body : Instr) : Option Value :=
  match arg, body with
  | .stream streamName, .new (.canon nestedCanonName) (.canon peer stream _ canonStream) _ _ =>
    if canonStream == nestedCanonName && stream == streamName && !canonShadowsPeerId nestedCanonName peer then
      some peer
    else none
  | _, _ => none

/-- `Display for HopOn` -/
def hopOnText (peer : Value) : Text := "hopon ".toList ++ valueText peer

/-- the `compound!` head line: `"{instruction}:"` -/
def headLine (i : Instr) (indent : Nat) : Line := ⟨indent, instrText i ++ [':']⟩

/-- `Beautifier::beautify_walker` -/
def beautifyWalker (cfg : Cfg) : Instr → Nat → List Line
  | .call p s f args out, indent => [⟨indent, callText p s f args out⟩]
  | .seq l r, indent => beautifyWalker cfg l indent ++ beautifyWalker cfg r indent
  | .par l r, indent =>
    ⟨indent, "par:".toList⟩ :: beautifyWalker cfg l (indent + cfg.indentStep) ++
      ⟨indent, "|".toList⟩ :: beautifyWalker cfg r (indent + cfg.indentStep)
  | .xor l r, indent =>
    ⟨indent, "try:".toList⟩ :: beautifyWalker cfg l (indent + cfg.indentStep) ++
      ⟨indent, "catch:".toList⟩ :: beautifyWalker cfg r (indent + cfg.indentStep)
  | .match_ a b i, indent => headLine (.match_ a b i) indent :: beautifyWalker cfg i (indent + cfg.indentStep)
  | .mismatch a b i, indent => headLine (.mismatch a b i) indent :: beautifyWalker cfg i (indent + cfg.indentStep)
  | .foldScalar it i body last, indent =>
    headLine (.foldScalar it i body last) indent :: beautifyWalker cfg body (indent + cfg.indentStep) ++
      (match last with
       | none => []
       | some l => ⟨indent, "last:".toList⟩ :: beautifyWalker cfg l (indent + cfg.indentStep))
  | .foldStream s sp i body last sl, indent =>
    headLine (.foldStream s sp i body last sl) indent :: beautifyWalker cfg body (indent + cfg.indentStep) ++
      (match last with
       | none => []
       | some l => ⟨indent, "last:".toList⟩ :: beautifyWalker cfg l (indent + cfg.indentStep))
  | .foldMap m mp i body last sl, indent =>
    headLine (.foldMap m mp i body last sl) indent :: beautifyWalker cfg body (indent + cfg.indentStep) ++
      (match last with
       | none => []
       | some l => ⟨indent, "last:".toList⟩ :: beautifyWalker cfg l (indent + cfg.indentStep))
  | .new arg body sl sr, indent =>
    match (if cfg.tryHopon then tryHopon arg body else none) with
    | some peer => [⟨indent, hopOnText peer⟩]
    | none => headLine (.new arg body sl sr) indent :: beautifyWalker cfg body (indent + cfg.indentStep)
  | .ap arg out, indent => [⟨indent, instrText (.ap arg out)⟩]
  | .apMap k v m p, indent => [⟨indent, instrText (.apMap k v m p)⟩]
  | .canon p s sp c, indent => [⟨indent, instrText (.canon p s sp c)⟩]
  | .canonMap p m mp c, indent => [⟨indent, instrText (.canonMap p m mp c)⟩]
  | .canonMapScalar p m mp s, indent => [⟨indent, instrText (.canonMapScalar p m mp s)⟩]
  | .next i, indent => [⟨indent, instrText (.next i)⟩]
  | .fail a, indent => [⟨indent, instrText (.fail a)⟩]
  | .null, indent => [⟨indent, instrText .null⟩]
  | .never, indent => [⟨indent, instrText .never⟩]

/-- `Beautifier::beautify_ast` -/
def beautifyAst (cfg : Cfg) (ast : Instr) : List Line := beautifyWalker cfg ast 0

/-- the bytes written: per line `fmt_indent` (that many spaces), the text, `'\n'` -/
def renderLine (l : Line) : Text := List.replicate l.indent ' ' ++ l.text ++ ['\n']
def render (ls : List Line) : Text := ls.flatMap renderLine

end Aqua.Air.Beautifier
