import Aqua.Air.Ast
import Aqua.Air.LexBase
/-
Replica of the lens ("lambda") parser: `lambda/parser/src/parser/lexer/lambda_ast_lexer.rs`
(`LambdaASTLexer`), the grammar `va_lambda.lalrpop` and `lambda_parser.rs::parse`.

`tokenize_until` slices `&input[start_offset..end_pos]` with `end_pos` advanced by `len_utf8()` of
every accepted character (before the repair 5981066 it was `[start_offset..end_pos + 1]` with the
offset of the last accepted character, which panicked inside a multi-byte character).  The model
keeps the checked slice (`Lex.sliceBytes`); that it never fails is a theorem.

The LALRPOP automaton (with its error recovery) is not modelled: only the language it accepts — the
grammar is LR(1), the recogniser below follows its productions and rejects at the first token that
cannot continue a sentence, as an LR parser does.  Every recovery action pushes to `errors`, so a
sentence outside the language is `Err`.  After a syntax error the recovering parser may keep pulling
tokens; whether it reaches a later panicking token is not modelled (`Outcome.errOrPanic`).
-/
namespace Aqua.Air.LambdaParser
open Aqua.Gen

inductive LToken where
  | lengthFunctor
  | valuePathStarter
  | valuePathSelector
  | openSquareBracket
  | closeSquareBracket
  | numberAccessor (n : Nat)
  | stringAccessor (s : String)
  | flatteningSign
deriving Repr, DecidableEq, Inhabited

/-- how the token stream ends -/
inductive LexEnd where
  | eof
  | lexerError (msg : String)
  | panic (site : String)
deriving Repr, DecidableEq, Inhabited

def u32Max : Nat := 4294967295

/-- the peek loop of `tokenize_until`: `end_pos = pos + ch.len_utf8()` for every accepted character;
returns `end_pos` and the rest of the iterator -/
def tokenizeUntilLoop (cond : Char → Bool) (endPos : Nat) : List (Nat × Char) → Nat × List (Nat × Char)
  | [] => (endPos, [])
  | (pos, ch) :: rest => if !cond ch then (endPos, (pos, ch) :: rest) else tokenizeUntilLoop cond (pos + ch.utf8Size) rest

/-- `tokenize_until` (as repaired in 5981066): the token starts with the already consumed character at
`start_offset`, whose length is read from `&self.input[start_offset..]`; the result is
`&self.input[start_offset..end_pos]`.  `none` = one of the two slices panics (proved impossible:
`AquaProps.C23.C23_totality_full`). -/
def tokenizeUntil (input : List Char) (startOffset : Nat) (cond : Char → Bool) (chars : List (Nat × Char)) :
    Option (List Char) × List (Nat × Char) :=
  match Lex.sliceBytes input startOffset (Lex.utf8Len input) with
  | none => (none, chars)
  | some tail =>
    -- `.chars().next().map(char::len_utf8).unwrap_or_default()`
    let firstCharLen := match tail with
      | c :: _ => c.utf8Size
      | [] => 0
    let (endPos, rest) := tokenizeUntilLoop cond (startOffset + firstCharLen) chars
    (Lex.sliceBytes input startOffset endPos, rest)

def panicSite : String := "lambda_ast_lexer.rs tokenize_until: byte index is not a char boundary"

/-- tokens after the first one -/
def lexRest (input : List Char) : Nat → List (Nat × Char) → List LToken × LexEnd
  | 0, _ => ([], .eof)
  | _, [] => ([], .eof)
  | fuel + 1, (startOffset, ch) :: rest =>
    let cont (t : LToken) (rest : List (Nat × Char)) : List LToken × LexEnd :=
      let (ts, e) := lexRest input fuel rest
      (t :: ts, e)
    if ch == '[' then cont .openSquareBracket rest
    else if ch == ']' then cont .closeSquareBracket rest
    else if ch == '.' then cont .valuePathSelector rest
    else if Lex.isDigitBase ch then
      -- tokenize_arrays_idx
      match tokenizeUntil input startOffset Lex.isDigitBase rest with
      | (some digits, rest') =>
        let v := digits.foldl (fun acc d => acc * AirLexer.arrayIdxBase + (d.toNat - '0'.toNat)) 0
        if v > u32Max then ([], .lexerError "ParseIntError:number too large to fit in target type")
        else cont (.numberAccessor v) rest'
      | (none, _) => ([], .panic panicSite)
    else if Lex.isLambdaAlphanumeric ch then
      -- tokenize_field_name
      match tokenizeUntil input startOffset Lex.isLambdaAlphanumeric rest with
      | (some name, rest') => cont (.stringAccessor (String.ofList name)) rest'
      | (none, _) => ([], .panic panicSite)
    else if ch == '!' then cont .flatteningSign rest
    else ([], .lexerError "UnexpectedSymbol")

/-- the whole token stream of `LambdaASTLexer` (non-empty input) -/
def lex (input : List Char) : List LToken × LexEnd :=
  -- try_parse_first_token
  if input == AirLexer.lengthFunctor.toList then
    let (ts, e) := lexRest input (input.length + 1) ((Lex.charIndices input 0).drop AirLexer.lengthFunctor.length)
    (.lengthFunctor :: ts, e)
  else if AirLexer.valuePathStarter.toList.isPrefixOf input then
    let (ts, e) := lexRest input (input.length + 1) ((Lex.charIndices input 0).drop AirLexer.valuePathStarter.length)
    (.valuePathStarter :: ts, e)
  else ([], .lexerError "UnexpectedSymbol")

/-- outcome of recognising a token list -/
inductive Recog where
  /-- all tokens consumed, the sentence is complete -/
  | complete (accessors : List Accessor)
  /-- all tokens consumed, more are needed (the end of input is the syntax error) -/
  | incomplete
  /-- a token that cannot continue a sentence was met (syntax error before the end of the list) -/
  | syntaxError
deriving Repr, Inhabited

/-- `ValueAccessor*` after `".$"`:
`"."? "[" number "]" "!"?` | `"."? "[" string "]" "!"?` | `"." string "!"?` -/
def accessors : Nat → List LToken → List Accessor → Recog
  | 0, _, _ => .syntaxError
  | _, [], acc => .complete acc.reverse
  | fuel + 1, ts, acc =>
    let afterBracket (ts : List LToken) : Recog :=
      match ts with
      | [] => .incomplete
      | .numberAccessor n :: ts' =>
        (match ts' with
         | [] => .incomplete
         | .closeSquareBracket :: ts'' =>
           (match ts'' with
            | .flatteningSign :: ts3 => accessors fuel ts3 (.arrayAccess n :: acc)
            | _ => accessors fuel ts'' (.arrayAccess n :: acc))
         | _ => .syntaxError)
      | .stringAccessor s :: ts' =>
        (match ts' with
         | [] => .incomplete
         | .closeSquareBracket :: ts'' =>
           (match ts'' with
            | .flatteningSign :: ts3 => accessors fuel ts3 (.fieldByScalar s :: acc)
            | _ => accessors fuel ts'' (.fieldByScalar s :: acc))
         | _ => .syntaxError)
      | _ => .syntaxError
    match ts with
    | .openSquareBracket :: ts' => afterBracket ts'
    | .valuePathSelector :: ts' =>
      (match ts' with
       | [] => .incomplete
       | .openSquareBracket :: ts'' => afterBracket ts''
       | .stringAccessor s :: ts'' =>
         (match ts'' with
          | .flatteningSign :: ts3 => accessors fuel ts3 (.fieldByName s :: acc)
          | _ => accessors fuel ts'' (.fieldByName s :: acc))
       | _ => .syntaxError)
    | _ => .syntaxError

/-- `RawLambdaAST`: `".$" ValueAccessor*` | `length_functor` -/
inductive RawRecog where
  | valuePath (r : Recog)
  | functor
  | incomplete
  | syntaxError
deriving Repr, Inhabited

def recognise (ts : List LToken) : RawRecog :=
  match ts with
  | [] => .incomplete
  | .valuePathStarter :: rest => .valuePath (accessors (rest.length + 1) rest [])
  | .lengthFunctor :: rest => if rest.isEmpty then .functor else .syntaxError
  | _ => .syntaxError

inductive Outcome where
  | ok (l : Lambda)
  | err (msg : String)
  | panic (site : String)
  /-- syntax error at some token, and the lexer panics on a later one -/
  | errOrPanic (msg : String) (site : String)
deriving Repr, Inhabited

/-- `air_lambda_parser::parse` -/
def parse (input : List Char) : Outcome :=
  let (ts, e) := lex input
  let syntaxErr : Outcome :=
    match e with
    | .panic s => .errOrPanic "syntax error" s
    | _ => .err "syntax error"
  let atEnd (complete : Option Lambda) (emptyLambda : Bool) : Outcome :=
    -- every token was consumed without a syntax error: the next thing pulled is the end of the stream
    match e with
    | .panic s => .panic s
    | .lexerError m => .err m
    | .eof =>
      match complete with
      | some l => .ok l
      | none => if emptyLambda then .err "EmptyLambda" else .err "syntax error"
  match recognise ts with
  | .syntaxError => syntaxErr
  | .incomplete => atEnd none false
  | .functor => atEnd (some .functorLength) false
  | .valuePath .syntaxError => syntaxErr
  | .valuePath .incomplete => atEnd none false
  | .valuePath (.complete as) => if as.isEmpty then atEnd none true else atEnd (some (.path as)) false

end Aqua.Air.LambdaParser
