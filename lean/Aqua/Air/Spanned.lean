import Aqua.Air.Ast
/-
AIR syntax tree *with instruction spans* (`Span { left, right }` of `air-parser/src/parser/span.rs`),
as the grammar actions of `air.lalrpop` see it: every action computes `Span::new(left, right)` from
`@L`/`@R` of the instruction's parentheses and hands it to the `VariableValidator`.  The operand
types are those of `Aqua.Air.Ast` (`Value`, `CallOutput`, `FailArg`, `NewArg`); `SInstr.erase` drops
the spans and yields the `Instr` the executor model runs (there is no `Instr` for `Instruction::Error`).

`events` is the order in which the grammar actions fire: LALRPOP reduces bottom-up, a production is
reduced when its last symbol `")"` has been shifted, hence children before parents, left to right.
-/
namespace Aqua.Air

/-- `parser::Span` (positions are byte offsets, `AirPos`) -/
structure Span where
  left : Nat
  right : Nat
deriving Repr, DecidableEq, Inhabited

namespace Span

/-- `Span::contains_position` -/
def containsPosition (s : Span) (position : Nat) : Bool := s.left < position && position < s.right

/-- `Span::contains_span` -/
def containsSpan (s span : Span) : Bool := s.containsPosition span.left && s.containsPosition span.right

def minPos (s : Span) : Nat := min s.left s.right

/-- `impl Ord for Span`: `Less` if the smaller end is smaller, `Equal` only for identical spans,
`Greater` otherwise (so two different spans with the same start are `Greater` both ways) -/
def cmp (a b : Span) : Ordering :=
  if a.minPos < b.minPos then .lt else if a = b then .eq else .gt

/-- `a < b` -/
def lt (a b : Span) : Bool := a.minPos < b.minPos
/-- `a > b` -/
def gt (a b : Span) : Bool := !(a.minPos < b.minPos) && a != b

theorem lt_iff_cmp (a b : Span) : a.lt b = (a.cmp b == .lt) := by
  unfold lt cmp; by_cases h : a.minPos < b.minPos <;> simp [h] <;> split <;> simp
theorem gt_iff_cmp (a b : Span) : a.gt b = (a.cmp b == .gt) := by
  unfold gt cmp; by_cases h : a.minPos < b.minPos <;> simp [h]
  by_cases h2 : a = b <;> simp [h2]

end Span

/-- `ApResult` -/
inductive ApResult where
  | scalar (name : String)
  | stream (name : String) (position : Nat)
deriving Repr, DecidableEq, Inhabited

def ApResult.name : ApResult → String
  | .scalar n | .stream n _ => n

def ApResult.toCallOutput : ApResult → CallOutput
  | .scalar n => .scalar n
  | .stream n p => .stream n p

/-- the iterable of the three `fold` productions -/
inductive FoldIterable where
  /-- `FoldScalarIterable`: scalar, scalar with lens, canon stream, canon map, canon map with lens, `[]` -/
  | scalar (v : Value)
  | stream (name : String) (position : Nat)
  | streamMap (name : String) (position : Nat)
deriving Repr, DecidableEq, Inhabited

inductive SInstr where
  | call (sp : Span) (peer svc func : Value) (args : List Value) (out : CallOutput)
  | seq (sp : Span) (l r : SInstr)
  | par (sp : Span) (l r : SInstr)
  | xor (sp : Span) (l r : SInstr)
  | match_ (sp : Span) (a b : Value) (i : SInstr)
  | mismatch (sp : Span) (a b : Value) (i : SInstr)
  | ap (sp : Span) (arg : Value) (result : ApResult)
  | apMap (sp : Span) (key val : Value) (map : String) (position : Nat)
  | canon (sp : Span) (peer : Value) (stream : String) (streamPos : Nat) (canonStream : String)
  | canonMap (sp : Span) (peer : Value) (map : String) (mapPos : Nat) (canonMap : String)
  | canonMapScalar (sp : Span) (peer : Value) (map : String) (mapPos : Nat) (scalar : String)
  /-- `fold … instruction)` without a last instruction -/
  | fold (sp : Span) (iterable : FoldIterable) (iterator : String) (body : SInstr)
  /-- `fold … instruction last_instruction)` -/
  | foldLast (sp : Span) (iterable : FoldIterable) (iterator : String) (body last : SInstr)
  | next (sp : Span) (iterator : String)
  | new (sp : Span) (arg : NewArg) (body : SInstr)
  | fail (sp : Span) (arg : FailArg)
  | null (sp : Span)
  | never (sp : Span)
  /-- `Instruction::Error`, built only by the recovery action `! => { errors.push(<>); Instruction::Error }` -/
  | error
deriving Repr, Inhabited, DecidableEq

/-- what a grammar action hands to the validator: the head of the reduced instruction -/
inductive Event where
  | call (sp : Span) (peer svc func : Value) (args : List Value) (out : CallOutput)
  | seq (sp : Span)
  | par (sp : Span)
  | xor (sp : Span)
  | match_ (sp : Span) (a b : Value)
  | mismatch (sp : Span) (a b : Value)
  | ap (sp : Span) (arg : Value) (result : ApResult)
  | apMap (sp : Span) (key val : Value) (map : String)
  | canon (sp : Span) (peer : Value) (stream : String) (canonStream : String)
  | canonMap (sp : Span) (peer : Value) (map : String) (canonMap : String)
  | canonMapScalar (sp : Span) (peer : Value) (map : String) (scalar : String)
  | fold (sp : Span) (iterable : FoldIterable) (iterator : String) (hasLast : Bool)
  | next (sp : Span) (iterator : String)
  | new (sp : Span) (arg : NewArg)
  | fail (sp : Span) (arg : FailArg)
  | null (sp : Span)
  | never (sp : Span)
  /-- the recovery action: pushes a parse error, does not call the validator -/
  | error
deriving Repr, Inhabited, DecidableEq

/-- reduction order of the grammar actions (post-order, left to right) -/
def SInstr.events : SInstr → List Event
  | .call sp p s f a o => [.call sp p s f a o]
  | .seq sp l r => l.events ++ r.events ++ [.seq sp]
  | .par sp l r => l.events ++ r.events ++ [.par sp]
  | .xor sp l r => l.events ++ r.events ++ [.xor sp]
  | .match_ sp a b i => i.events ++ [.match_ sp a b]
  | .mismatch sp a b i => i.events ++ [.mismatch sp a b]
  | .ap sp a r => [.ap sp a r]
  | .apMap sp k v m _ => [.apMap sp k v m]
  | .canon sp p s _ c => [.canon sp p s c]
  | .canonMap sp p m _ c => [.canonMap sp p m c]
  | .canonMapScalar sp p m _ s => [.canonMapScalar sp p m s]
  | .fold sp it i b => b.events ++ [.fold sp it i false]
  | .foldLast sp it i b l => b.events ++ l.events ++ [.fold sp it i true]
  | .next sp i => [.next sp i]
  | .new sp a b => b.events ++ [.new sp a]
  | .fail sp a => [.fail sp a]
  | .null sp => [.null sp]
  | .never sp => [.never sp]
  | .error => [.error]

/-- no `Instruction::Error` node anywhere in the tree -/
def SInstr.noErrorNode : SInstr → Bool
  | .seq _ l r | .par _ l r | .xor _ l r => l.noErrorNode && r.noErrorNode
  | .match_ _ _ _ i | .mismatch _ _ _ i | .new _ _ i | .fold _ _ _ i => i.noErrorNode
  | .foldLast _ _ _ b l => b.noErrorNode && l.noErrorNode
  | .error => false
  | _ => true

/-- number of `Instruction::Error` nodes = number of `errors.push(..)` executed by recovery actions -/
def SInstr.errorNodes : SInstr → Nat
  | .seq _ l r | .par _ l r | .xor _ l r => l.errorNodes + r.errorNodes
  | .match_ _ _ _ i | .mismatch _ _ _ i | .new _ _ i | .fold _ _ _ i => i.errorNodes
  | .foldLast _ _ _ b l => b.errorNodes + l.errorNodes
  | .error => 1
  | _ => 0

/-- drop the spans (the executor's AST keeps only the spans of `new` and stream/map folds) -/
def SInstr.erase : SInstr → Option Instr
  | .call _ p s f a o => some (.call p s f a o)
  | .seq _ l r => do pure (.seq (← l.erase) (← r.erase))
  | .par _ l r => do pure (.par (← l.erase) (← r.erase))
  | .xor _ l r => do pure (.xor (← l.erase) (← r.erase))
  | .match_ _ a b i => do pure (.match_ a b (← i.erase))
  | .mismatch _ a b i => do pure (.mismatch a b (← i.erase))
  | .ap _ a r => some (.ap a r.toCallOutput)
  | .apMap _ k v m p => some (.apMap k v m p)
  | .canon _ p s sp c => some (.canon p s sp c)
  | .canonMap _ p m mp c => some (.canonMap p m mp c)
  | .canonMapScalar _ p m mp s => some (.canonMapScalar p m mp s)
  | .fold sp it i b => do
    let b ← b.erase
    pure (match it with
      | .scalar v => .foldScalar v i b none
      | .stream n p => .foldStream n p i b none sp.left
      | .streamMap n p => .foldMap n p i b none sp.left)
  | .foldLast sp it i b l => do
    let b ← b.erase
    let l ← l.erase
    pure (match it with
      | .scalar v => .foldScalar v i b (some l)
      | .stream n p => .foldStream n p i b (some l) sp.left
      | .streamMap n p => .foldMap n p i b (some l) sp.left)
  | .next _ i => some (.next i)
  | .new sp a b => do pure (.new a (← b.erase) sp.left sp.right)
  | .fail _ a => some (.fail a)
  | .null _ => some .null
  | .never _ => some .never
  | .error => none

theorem SInstr.erase_isSome_of_noErrorNode (i : SInstr) (h : i.noErrorNode = true) : i.erase.isSome = true := by
  induction i with
  | seq _ l r ihl ihr | par _ l r ihl ihr | xor _ l r ihl ihr =>
    simp only [noErrorNode, Bool.and_eq_true] at h
    have h1 := ihl h.1; have h2 := ihr h.2
    rw [Option.isSome_iff_exists] at h1 h2
    obtain ⟨a, ha⟩ := h1; obtain ⟨b, hb⟩ := h2
    simp [erase, ha, hb]
  | match_ _ _ _ i ih | mismatch _ _ _ i ih | new _ _ i ih | fold _ _ _ i ih =>
    simp only [noErrorNode] at h
    have h1 := ih h
    rw [Option.isSome_iff_exists] at h1
    obtain ⟨a, ha⟩ := h1
    simp [erase, ha]
  | foldLast _ _ _ b l ihb ihl =>
    simp only [noErrorNode, Bool.and_eq_true] at h
    have h1 := ihb h.1; have h2 := ihl h.2
    rw [Option.isSome_iff_exists] at h1 h2
    obtain ⟨a, ha⟩ := h1; obtain ⟨b, hb⟩ := h2
    simp [erase, ha, hb]
  | error => simp [noErrorNode] at h
  | _ => simp [erase]

end Aqua.Air
