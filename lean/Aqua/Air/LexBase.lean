import Aqua.Gen.AirLexer
import Aqua.Gen.Unicode
/-
Character classes of Rust's `char` (`core::char::methods`, tables of `core::unicode::unicode_data`
regenerated into `Aqua.Gen.Unicode`) and `str` byte slicing, shared by the AIR lexer and the lens lexer.
-/
namespace Aqua.Air.Lex
open Aqua.Gen

/-- membership in a sorted list of inclusive ranges (stops at the first range starting above `c`) -/
def inRanges : List (Nat × Nat) → Nat → Bool
  | [], _ => false
  | (lo, hi) :: rest, c => if c < lo then false else if c ≤ hi then true else inRanges rest c

def isAsciiDigit (c : Char) : Bool := '0' ≤ c && c ≤ '9'

/-- `char::is_whitespace` -/
def isWhitespace (c : Char) : Bool :=
  c == ' ' || ('\x09' ≤ c && c ≤ '\x0d') || (c.toNat > 0x7f && inRanges Unicode.whiteSpace c.toNat)

/-- `char::is_alphabetic` -/
def isAlphabetic (c : Char) : Bool :=
  ('a' ≤ c && c ≤ 'z') || ('A' ≤ c && c ≤ 'Z') || (c.toNat > 0x7f && inRanges Unicode.alphabetic c.toNat)

/-- `char::is_numeric` -/
def isNumeric (c : Char) : Bool :=
  isAsciiDigit c || (c.toNat > 0x7f && inRanges Unicode.numeric c.toNat)

/-- `char::is_alphanumeric` -/
def isAlphanumeric (c : Char) : Bool := isAlphabetic c || isNumeric c

/-- `is_air_alphanumeric` of air-parser's `lexer/utils.rs` -/
def isAirAlphanumeric (c : Char) : Bool := isAlphanumeric c || AirLexer.airAlphanumericExtra.contains c

/-- `is_air_alphanumeric` of the lambda parser's `lexer/utils.rs` -/
def isLambdaAlphanumeric (c : Char) : Bool := isAlphanumeric c || AirLexer.lambdaAlphanumericExtra.contains c

/-- `is_lens_allowed_char` -/
def isLensAllowedChar (c : Char) : Bool := AirLexer.lensAllowedChars.contains c || isAirAlphanumeric c

/-- `char::is_digit(ARRAY_IDX_BASE)` for a base ≤ 10 -/
def isDigitBase (c : Char) : Bool := '0' ≤ c && c.toNat < '0'.toNat + AirLexer.arrayIdxBase

/-- `str::len()` -/
def utf8Len (cs : List Char) : Nat := cs.foldl (fun n c => n + c.utf8Size) 0

/-- `str::char_indices()` starting at byte offset `off` -/
def charIndices : List Char → Nat → List (Nat × Char)
  | [], _ => []
  | c :: cs, off => (off, c) :: charIndices cs (off + c.utf8Size)

/-- split a `str` at byte offset `n`; `none` if `n` is past the end or inside a character -/
def splitAtByte : List Char → Nat → Option (List Char × List Char)
  | cs, 0 => some ([], cs)
  | [], _ + 1 => none
  | c :: cs, n + 1 =>
    if c.utf8Size ≤ n + 1 then (splitAtByte cs (n + 1 - c.utf8Size)).map fun (l, r) => (c :: l, r) else none

/-- `&s[a..b]`: `none` stands for the panic of `str` indexing (`a > b`, out of range, or not on a
character boundary) -/
def sliceBytes (cs : List Char) (a b : Nat) : Option (List Char) :=
  if a ≤ b then
    match splitAtByte cs a with
    | some (_, r) => (splitAtByte r (b - a)).map (·.1)
    | none => none
  else none

end Aqua.Air.Lex
