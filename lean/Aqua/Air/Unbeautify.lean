import Aqua.Air.Beautifier
/-!
# An independent reader of the beautifier's output language (C28)

Written from the description of the *output format* only (one instruction per line, the children of a
compound instruction are the following lines with a larger indentation, `par:`/`|`, `try:`/`catch:`,
`<head>:`, optional `last:` section), not from the beautifier model: it classifies a line by its first
word, reads `call` lines token by token, and rebuilds the instruction tree.

`skeleton` is the same tree computed from the script's AST: sequences flattened into the item list of
the enclosing block, compound instructions as nodes carrying their head text.
-/
namespace Aqua.Air.Unbeautify
open Aqua.Air Aqua.Air.Beautifier

/-- instruction tree without `seq` (a `List Sk` is a flattened sequence) -/
inductive Sk where
  /-- a non-compound instruction other than `call`: the whole head text -/
  | instr (text : Text)
  /-- `call`: output variable, triplet and arguments as operand texts -/
  | call (out : Option Text) (peer svc fn : Text) (args : List Text)
  | par (l r : List Sk)
  | xor (l r : List Sk)
  /-- `match` / `mismatch` / `fold` / `new`: head text (keyword and operands), body, `last` section of folds -/
  | block (head : Text) (body : List Sk) (hasLast : Bool) (last : List Sk)
deriving Repr, Inhabited

/-! ## from text to lines -/

/-- cut a text at every `'\n'`; `none` if the last line is not terminated -/
def splitLines : Text → Text → Option (List Text)
  | [], [] => some []
  | _ :: _, [] => none
  | acc, '\n' :: cs => (splitLines [] cs).map (acc.reverse :: ·)
  | acc, c :: cs => splitLines (c :: acc) cs

def parseLine (l : Text) : Line := ⟨(l.takeWhile (· == ' ')).length, l.dropWhile (· == ' ')⟩

def linesOf (t : Text) : Option (List Line) := (splitLines [] t).map (·.map parseLine)

/-- a line survives the trip through text: no line break inside, and it does not start with a blank -/
def lineOK (l : Line) : Bool :=
  !(l.text.contains '\n') && (match l.text with | [] => false | c :: _ => c != ' ')

/-! ## words and tokens -/

def firstWord (t : Text) : Text := t.takeWhile (· != ' ')
def afterFirstWord (t : Text) : Text := (t.dropWhile (· != ' ')).drop 1
def secondWord (t : Text) : Text := firstWord (afterFirstWord t)

def expect (pre t : Text) : Option Text :=
  if pre.isPrefixOf t then some (t.drop pre.length) else none

def isTokChar (c : Char) : Bool := c != ' ' && c != ',' && c != ')' && c != '"'

/-- one operand: a quoted literal (up to the next `"`) or a run of non-delimiter characters -/
def readTok : Text → Option (Text × Text)
  | '"' :: cs =>
    match cs.dropWhile (· != '"') with
    | '"' :: rest => some ('"' :: cs.takeWhile (· != '"') ++ ['"'], rest)
    | _ => none
  | cs =>
    let tok := cs.takeWhile isTokChar
    if tok.isEmpty then none else some (tok, cs.dropWhile isTokChar)

/-- `a, b, c` (possibly empty) -/
def readArgs : Nat → Text → Option (List Text)
  | 0, _ => none
  | _ + 1, [] => some []
  | f + 1, t =>
    (readTok t).bind fun (a, rest) =>
      match rest with
      | [] => some [a]
      | _ => (expect ", ".toList rest).bind fun rest' =>
          match rest' with
          | [] => none
          | _ => (readArgs f rest').map (a :: ·)

/-- `call <peer> (<service>, <function>) [<args>]` -/
def readCallRest (t : Text) : Option (Text × Text × Text × List Text) :=
  (expect "call ".toList t).bind fun t =>
  (readTok t).bind fun (peer, t) =>
  (expect " (".toList t).bind fun t =>
  (readTok t).bind fun (svc, t) =>
  (expect ", ".toList t).bind fun t =>
  (readTok t).bind fun (fn, t) =>
  (expect ") [".toList t).bind fun t =>
  match t.getLast? with
  | some ']' => (readArgs (t.length + 1) t.dropLast).map fun args => (peer, svc, fn, args)
  | _ => none

inductive Kind where
  | par | xor | sep | simple | block | call | callOut | unknown
deriving Repr, DecidableEq

def kwSimple : List Text := ["ap".toList, "canon".toList, "fail".toList, "next".toList, "null".toList, "never".toList, "hopon".toList]
def kwBlock : List Text := ["match".toList, "mismatch".toList, "fold".toList, "new".toList]

/-- what a line is, by its first word(s) -/
def classify (t : Text) : Kind :=
  if t = "par:".toList then .par
  else if t = "try:".toList then .xor
  else if t = "|".toList ∨ t = "catch:".toList ∨ t = "last:".toList then .sep
  else if firstWord t ∈ kwSimple then .simple
  else if firstWord t ∈ kwBlock then .block
  else if firstWord t = "call".toList then .call
  else if secondWord t = "<-".toList then .callOut
  else .unknown

/-- head of a compound instruction: the line without its final `:` -/
def stripColon (t : Text) : Option Text :=
  match t.getLast? with
  | some ':' => some t.dropLast
  | _ => none

/-! ## lines to tree -/

/-- children of a compound line at indentation `d`: the following lines, all deeper than `d`, at the
indentation of the first one -/
def childrenOf (rec : Nat → List Line → Option (List Sk × List Line)) (d : Nat) :
    List Line → Option (List Sk × List Line)
  | [] => none
  | c :: cs => if d < c.indent then rec c.indent (c :: cs) else none

/-- a separator line `sep` at indentation `d` -/
def separatorAt (d : Nat) (sep : Text) : List Line → Option (List Line)
  | [] => none
  | s :: rest => if s.indent = d ∧ s.text = sep then some rest else none

/-- one step of the block reader, `rec d ls` being the reader of a (nested or following) block.

Reads the items of one block: consecutive lines at indentation exactly `d` (each with its nested lines),
up to the end or the first line indented less than `d`; returns the items and the unread lines. -/
def readStep (rec : Nat → List Line → Option (List Sk × List Line)) (d : Nat) :
    List Line → Option (List Sk × List Line)
  | [] => some ([], [])
  | l :: ls =>
    if l.indent < d then some ([], l :: ls)
    else if d < l.indent then none
    else
      let children := childrenOf rec d
      let separator := separatorAt d
      match classify l.text with
      | .simple => (rec d ls).map fun (items, rest) => (.instr l.text :: items, rest)
      | .call =>
        (readCallRest l.text).bind fun (p, s, fn, args) =>
        (rec d ls).map fun (items, rest) => (.call none p s fn args :: items, rest)
      | .callOut =>
        (readCallRest (afterFirstWord (afterFirstWord l.text))).bind fun (p, s, fn, args) =>
        (rec d ls).map fun (items, rest) => (.call (some (firstWord l.text)) p s fn args :: items, rest)
      | .par =>
        (children ls).bind fun (a, rest) =>
        (separator "|".toList rest).bind fun rest =>
        (children rest).bind fun (b, rest) =>
        (rec d rest).map fun (items, rest) => (.par a b :: items, rest)
      | .xor =>
        (children ls).bind fun (a, rest) =>
        (separator "catch:".toList rest).bind fun rest =>
        (children rest).bind fun (b, rest) =>
        (rec d rest).map fun (items, rest) => (.xor a b :: items, rest)
      | .block =>
        (stripColon l.text).bind fun head =>
        (children ls).bind fun (body, rest) =>
          -- an optional `last:` section at the indentation of the head
          match separator "last:".toList rest with
          | some rest' =>
            (children rest').bind fun (last, rest'') =>
            (rec d rest'').map fun (items, r) => (.block head body true last :: items, r)
          | none => (rec d rest).map fun (items, r) => (.block head body false [] :: items, r)
      | .sep | .unknown => none

/-- the block reader; `fuel` bounds the recursion (any value larger than the number of lines works) -/
def readItems : Nat → Nat → List Line → Option (List Sk × List Line)
  | 0 => fun _ _ => none
  | f + 1 => readStep (readItems f)

/-- the whole output: all lines must be consumed -/
def unbeautify (ls : List Line) : Option (List Sk) :=
  match readItems (ls.length + 1) 0 ls with
  | some (items, []) => some items
  | _ => none

def unbeautifyText (t : Text) : Option (List Sk) := (linesOf t).bind unbeautify

/-! ## the script's own tree -/

/-- is this `new` the hop-on idiom `(new $s (new #c (canon peer $s #c)))` (with `#c` not used by `peer`)? -/
def hopOnPeer : Instr → Option Value
  | .new (.stream s) (.new (.canon c) (.canon peer s' _ c') _ _) _ _ =>
    let usesCanon := match peer with | .canonWL n _ => n == c | _ => false
    if s' == s && c' == c && !usesCanon then some peer else none
  | _ => none

/-- instruction tree of a script, sequences flattened; with `hop`, the hop-on idiom counts as one
virtual instruction `hopon peer` -/
def skeleton (hop : Bool) : Instr → List Sk
  | .seq l r => skeleton hop l ++ skeleton hop r
  | .par l r => [.par (skeleton hop l) (skeleton hop r)]
  | .xor l r => [.xor (skeleton hop l) (skeleton hop r)]
  | .match_ a b i => [.block (instrText (.match_ a b i)) (skeleton hop i) false []]
  | .mismatch a b i => [.block (instrText (.mismatch a b i)) (skeleton hop i) false []]
  | .foldScalar it i body last =>
    [.block (instrText (.foldScalar it i body last)) (skeleton hop body) last.isSome
      (match last with | none => [] | some l => skeleton hop l)]
  | .foldStream s sp i body last sl =>
    [.block (instrText (.foldStream s sp i body last sl)) (skeleton hop body) last.isSome
      (match last with | none => [] | some l => skeleton hop l)]
  | .foldMap m mp i body last sl =>
    [.block (instrText (.foldMap m mp i body last sl)) (skeleton hop body) last.isSome
      (match last with | none => [] | some l => skeleton hop l)]
  | .new arg body sl sr =>
    match (if hop then hopOnPeer (.new arg body sl sr) else none) with
    | some peer => [.instr ("hopon ".toList ++ valueText peer)]
    | none => [.block (instrText (.new arg body sl sr)) (skeleton hop body) false []]
  | .call p s f args out =>
    [.call (match out with | .none => none | .scalar n => some n.toList | .stream n _ => some n.toList)
      (valueText p) (valueText s) (valueText f) (args.map valueText)]
  | .ap arg out => [.instr (instrText (.ap arg out))]
  | .apMap k v m p => [.instr (instrText (.apMap k v m p))]
  | .canon p s sp c => [.instr (instrText (.canon p s sp c))]
  | .canonMap p m mp c => [.instr (instrText (.canonMap p m mp c))]
  | .canonMapScalar p m mp s => [.instr (instrText (.canonMapScalar p m mp s))]
  | .next i => [.instr (instrText (.next i))]
  | .fail a => [.instr (instrText (.fail a))]
  | .null => [.instr (instrText .null)]
  | .never => [.instr (instrText .never)]

/-- every non-`seq` instruction of a script with its nesting depth, in script order (pre-order); with `hop`
the hop-on idiom is one instruction (its two inner instructions are not listed) -/
def flat (hop : Bool) : Instr → Nat → List (Nat × Instr)
  | .seq l r, d => flat hop l d ++ flat hop r d
  | .par l r, d => (d, .par l r) :: flat hop l (d + 1) ++ flat hop r (d + 1)
  | .xor l r, d => (d, .xor l r) :: flat hop l (d + 1) ++ flat hop r (d + 1)
  | .match_ a b i, d => (d, .match_ a b i) :: flat hop i (d + 1)
  | .mismatch a b i, d => (d, .mismatch a b i) :: flat hop i (d + 1)
  | .foldScalar it i body last, d =>
    (d, .foldScalar it i body last) :: flat hop body (d + 1) ++
      (match last with | none => [] | some l => flat hop l (d + 1))
  | .foldStream s sp i body last sl, d =>
    (d, .foldStream s sp i body last sl) :: flat hop body (d + 1) ++
      (match last with | none => [] | some l => flat hop l (d + 1))
  | .foldMap m mp i body last sl, d =>
    (d, .foldMap m mp i body last sl) :: flat hop body (d + 1) ++
      (match last with | none => [] | some l => flat hop l (d + 1))
  | .new arg body sl sr, d =>
    match (if hop then hopOnPeer (.new arg body sl sr) else none) with
    | some _ => [(d, .new arg body sl sr)]
    | none => (d, .new arg body sl sr) :: flat hop body (d + 1)
  | .call p s f args out, d => [(d, .call p s f args out)]
  | .ap arg out, d => [(d, .ap arg out)]
  | .apMap k v m p, d => [(d, .apMap k v m p)]
  | .canon p s sp c, d => [(d, .canon p s sp c)]
  | .canonMap p m mp c, d => [(d, .canonMap p m mp c)]
  | .canonMapScalar p m mp s, d => [(d, .canonMapScalar p m mp s)]
  | .next i, d => [(d, .next i)]
  | .fail a, d => [(d, .fail a)]
  | .null, d => [(d, .null)]
  | .never, d => [(d, .never)]

/-- the line that introduces an instruction in the output language: the instruction's text, `keyword:` /
`head:` for compound instructions, `out <- call …` for calls -/
def ownText (hop : Bool) : Instr → Text
  | .seq _ _ => []
  | .par _ _ => "par:".toList
  | .xor _ _ => "try:".toList
  | .call p s f args out => callText p s f args out
  | .new arg body sl sr =>
    match (if hop then hopOnPeer (.new arg body sl sr) else none) with
    | some peer => "hopon ".toList ++ valueText peer
    | none => instrText (.new arg body sl sr) ++ [':']
  | .match_ a b i => instrText (.match_ a b i) ++ [':']
  | .mismatch a b i => instrText (.mismatch a b i) ++ [':']
  | .foldScalar it i body last => instrText (.foldScalar it i body last) ++ [':']
  | .foldStream s sp i body last sl => instrText (.foldStream s sp i body last sl) ++ [':']
  | .foldMap m mp i body last sl => instrText (.foldMap m mp i body last sl) ++ [':']
  | i => instrText i

def isSep (t : Text) : Bool := t == "|".toList || t == "catch:".toList || t == "last:".toList

/-! ## well-formedness of operands (what the lexer guarantees; monitored on every real AST by the harness) -/

/-- an operand text is one token for the `call`-line reader: a quoted literal without inner quote, or a
non-empty run without blank, comma, closing parenthesis and quote -/
def tokWF (t : Text) : Bool :=
  match t with
  | '"' :: rest => (match rest.getLast? with | some '"' => !(rest.dropLast.contains '"') | _ => false)
  | _ => !t.isEmpty && t.all isTokChar

def reserved : List Text :=
  ["par:".toList, "try:".toList, "|".toList, "catch:".toList, "last:".toList, "call".toList] ++ kwSimple ++ kwBlock

/-- an output variable name: a word that is not a keyword of the output language -/
def outWF (t : Text) : Bool := !t.isEmpty && t.all (· != ' ') && !(reserved.contains t)

/-- operands of all `call` instructions of a script are single tokens -/
def WF : Instr → Bool
  | .call p s f args out =>
    tokWF (valueText p) && tokWF (valueText s) && tokWF (valueText f) && args.all (fun a => tokWF (valueText a)) &&
      (match out with | .none => true | .scalar n => outWF n.toList | .stream n _ => outWF n.toList)
  | .seq l r | .par l r | .xor l r => WF l && WF r
  | .match_ _ _ i | .mismatch _ _ i | .new _ i _ _ => WF i
  | .foldScalar _ _ body last | .foldStream _ _ _ body last _ | .foldMap _ _ _ body last _ =>
    WF body && (match last with | none => true | some l => WF l)
  | _ => true

end Aqua.Air.Unbeautify
