import Aqua.Json.Value
/-
AIR abstract syntax (replica of `air-parser/src/ast`) and its `Display` rendering
(`ast/**/traits.rs`), which is observable: the `instruction` field of `:error:` / `%last_error%`.
-/
namespace Aqua.Air
open Aqua.Json

inductive Accessor where
  | arrayAccess (idx : Nat)
  | fieldByName (name : String)
  | fieldByScalar (scalar : String)
deriving Repr, DecidableEq, Inhabited

inductive Lambda where
  | functorLength
  | path (accessors : List Accessor)   -- non-empty
deriving Repr, DecidableEq, Inhabited

def Accessor.render : Accessor → String
  | .arrayAccess i => s!"[{i}]"
  | .fieldByName n => n
  | .fieldByScalar s => s!"[{s}]"

def Lambda.render : Lambda → String
  | .functorLength => ".length"
  | .path as => ".$." ++ ".".intercalate (as.map Accessor.render)

/-- `ImmutableValue` / `ApArgument` / triplet parts / map keys share this shape in the model; each
instruction accepts the subset its grammar allows -/
inductive Value where
  | initPeerId
  | lastError (lens : Option Lambda)
  | error (lens : Option Lambda)
  | literal (s : String)
  | timestamp
  | ttl
  | number (n : Int)
  | float (repr : String)
  | boolean (b : Bool)
  | emptyArray
  | scalar (name : String)
  | scalarWL (name : String) (l : Lambda)
  | canon (name : String)
  | canonWL (name : String) (l : Lambda)
  | canonMap (name : String)
  | canonMapWL (name : String) (l : Lambda)
deriving Repr, DecidableEq, Inhabited

def Value.render : Value → String
  | .initPeerId => "%init_peer_id%"
  | .lastError none => "%last_error%"
  | .lastError (some l) => "%last_error%" ++ l.render
  | .error none => ":error:"
  | .error (some l) => ":error:" ++ l.render
  | .literal s => "\"" ++ s ++ "\""
  | .timestamp => "%timestamp%"
  | .ttl => "%ttl%"
  | .number n => toString n
  | .float r => r
  | .boolean b => toString b
  | .emptyArray => "[]"
  | .scalar n => n
  | .scalarWL n l => n ++ l.render
  | .canon n => n
  | .canonWL n l => n ++ l.render
  | .canonMap n => n
  | .canonMapWL n l => n ++ l.render

inductive CallOutput where
  | none
  | scalar (name : String)
  | stream (name : String) (position : Nat)
deriving Repr, DecidableEq, Inhabited

def CallOutput.render : CallOutput → String
  | .none => ""
  | .scalar n => n
  | .stream n _ => n

inductive FailArg where
  | scalar (name : String)
  | scalarWL (name : String) (l : Lambda)
  | literal (code : Int) (msg : String)
  | canonWL (name : String) (l : Lambda)
  | lastError
  | error
deriving Repr, DecidableEq, Inhabited

inductive NewArg where
  | scalar (n : String) | stream (n : String) | streamMap (n : String) | canon (n : String) | canonMap (n : String)
deriving Repr, DecidableEq, Inhabited

def NewArg.name : NewArg → String
  | .scalar n | .stream n | .streamMap n | .canon n | .canonMap n => n

inductive Instr where
  | call (peer svc func : Value) (args : List Value) (out : CallOutput)
  | seq (l r : Instr)
  | par (l r : Instr)
  | xor (l r : Instr)
  | match_ (a b : Value) (i : Instr)
  | mismatch (a b : Value) (i : Instr)
  | ap (arg : Value) (out : CallOutput)
  | apMap (key val : Value) (map : String) (position : Nat)
  | canon (peer : Value) (stream : String) (streamPos : Nat) (canonStream : String)
  | canonMap (peer : Value) (map : String) (mapPos : Nat) (canonMap : String)
  | canonMapScalar (peer : Value) (map : String) (mapPos : Nat) (scalar : String)
  | foldScalar (iterable : Value) (iterator : String) (body : Instr) (last : Option Instr)
  | foldStream (stream : String) (streamPos : Nat) (iterator : String) (body : Instr) (last : Option Instr) (spanLeft : Nat)
  | foldMap (map : String) (mapPos : Nat) (iterator : String) (body : Instr) (last : Option Instr) (spanLeft : Nat)
  | next (iterator : String)
  | new (arg : NewArg) (body : Instr) (spanLeft spanRight : Nat)
  | fail (arg : FailArg)
  | null
  | never
deriving Repr, Inhabited

def FailArg.render : FailArg → String
  | .scalar n => s!"fail {n}"
  | .scalarWL n l => s!"fail {n}{l.render}"
  | .literal c m => s!"fail {c} \"{m}\""
  | .canonWL n l => s!"fail {n}{l.render}"
  | .lastError => "fail %last_error%"
  | .error => "fail :error:"

/-- `Display for Instruction` (only the head of compound instructions is printed) -/
def Instr.render : Instr → String
  | .call p s f args out =>
    s!"call {p.render} ({s.render} {f.render}) [{" ".intercalate (args.map Value.render)}] {out.render}"
  | .seq _ _ => "seq"
  | .par _ _ => "par"
  | .xor _ _ => "xor"
  | .match_ a b _ => s!"match {a.render} {b.render}"
  | .mismatch a b _ => s!"mismatch {a.render} {b.render}"
  | .ap arg out => s!"ap {arg.render} {out.render}"
  | .apMap k v m _ => s!"ap ({k.render} {v.render}) {m}"
  | .canon p s _ c => s!"canon {p.render} {s} {c}"
  | .canonMap p m _ c => s!"canon {p.render} {m} {c}"
  | .canonMapScalar p m _ s => s!"canon {p.render} {m} {s}"
  | .foldScalar it i _ _ => s!"fold {it.render} {i}"
  | .foldStream s _ i _ _ _ => s!"fold {s} {i}"
  | .foldMap m _ i _ _ _ => s!"fold {m} {i}"
  | .next i => s!"next {i}"
  | .new a _ _ _ => s!"new {a.name}"
  | .fail a => a.render
  | .null => "null"
  | .never => "never"

/-- `PeerIDErrorLogable::log_errors_with_peer_id` -/
def Instr.logErrorsWithPeerId : Instr → Bool
  | .call .. | .canon .. | .canonMap .. | .canonMapScalar .. => true
  | _ => false

end Aqua.Air
