import Aqua.Air.Ast
import Aqua.Air.LexBase
import Aqua.Air.LambdaParser
/-
Replica of `air-parser/src/parser/lexer/air_lexer.rs` (`AIRLexer`), `call_variable_parser.rs`
(`CallVariableParser`) and `utils.rs`.  Positions are byte offsets (`char_indices`).  The keyword
texts, the lens character set and `SAFE_FLOAT_SIGNIFICAND_SIZE` are regenerated from the Rust
sources (`Aqua.Gen.AirLexer`).

The lexer does not depend on the parser state, so the model lexes the whole text into the list of
items the iterator would yield, ending at the first `Err` / panic (LALRPOP stops pulling there).
-/
namespace Aqua.Air
open Aqua.Gen

inductive Token where
  | openRoundBracket | closeRoundBracket | openSquareBracket | closeSquareBracket
  | scalar (name : String) (position : Nat)
  | scalarWithLambda (name : String) (lambda : Lambda) (position : Nat)
  | stream (name : String) (position : Nat)
  | streamWithLambda (name : String) (lambda : Lambda) (position : Nat)
  | streamMapWithLambda (name : String) (lambda : Lambda) (position : Nat)
  | canonStream (name : String) (position : Nat)
  | canonStreamWithLambda (name : String) (lambda : Lambda) (position : Nat)
  | streamMap (name : String) (position : Nat)
  | canonStreamMap (name : String) (position : Nat)
  | canonStreamMapWithLambda (name : String) (lambda : Lambda) (position : Nat)
  | stringLiteral (s : String)
  | i64 (n : Int)
  /-- the `f64` is kept as its source text (all ASCII digits, one dot, optional sign) -/
  | f64 (raw : String)
  | boolean (b : Bool)
  | initPeerId | lastError | error
  | lastErrorWithLambda (l : Lambda) | errorWithLambda (l : Lambda)
  | timestamp | ttl
  | call | canon | ap | seq | par | fail | fold | xor | never | new | next | null | match_ | misMatch
deriving Repr, DecidableEq, Inhabited

/-- `LexerError` (variant, span) -/
structure LexerError where
  kind : String
  left : Nat
  right : Nat
deriving Repr, DecidableEq, Inhabited

/-- what the lexer iterator yields -/
inductive LexItem where
  | tok (left : Nat) (t : Token) (right : Nat)
  | err (e : LexerError)
  | panic (site : String)
  /-- the token's lens has a syntax error and further on a field name on which the lens lexer
  panics: `Err` or panic, depending on how far the recovering lens parser pulls (not modelled) -/
  | errOrPanic (e : LexerError) (site : String)
deriving Repr, Inhabited

-- ------------------------------------------------------------------------------------------------
-- call_variable_parser.rs

inductive MetTag where
  | none | stream | streamMap | canon | canonStream | canonStreamMap
deriving Repr, DecidableEq, Inhabited

namespace MetTag
def fromTag (tag : Char) : MetTag :=
  if tag == '$' then .stream else if tag == '#' then .canon else if tag == '%' then .streamMap else .none
def isCanon (t : MetTag) : Bool := t == .canon
def deduceTag (t : MetTag) (tag : Char) : MetTag :=
  if tag == '$' && t.isCanon then .canonStream else if tag == '%' then .canonStreamMap else t
def isCanonType (t : MetTag) : Bool := t == .canonStream || t == .canonStreamMap
def isTag (t : MetTag) : Bool := t != .none
end MetTag

structure ParserState where
  firstDotMetPos : Option Nat := none
  nonNumericMet : Bool := false
  digitMet : Bool := false
  flatteningMet : Bool := false
  metTag : MetTag := .none
  isFirstChar : Bool := true
  currentChar : Char
  currentOffset : Nat
deriving Repr

/-- the immutable parts of `CallVariableParser`: `string_to_parse.len()` and `start_pos` -/
structure CvpCtx where
  len : Nat
  startPos : Nat

namespace CallVariableParser

abbrev R := Except LexerError

def posInStringToParse (c : CvpCtx) (s : ParserState) : Nat := c.startPos + s.currentOffset
def dotMet (s : ParserState) : Bool := s.firstDotMetPos.isSome
def isLastChar (c : CvpCtx) (s : ParserState) : Bool := s.currentOffset == c.len - 1

def errAt (kind : String) (p : Nat) : LexerError := ⟨kind, p, p⟩

def tryParseFirstMetDot (c : CvpCtx) (s : ParserState) : R (Bool × ParserState) :=
  if !dotMet s && s.currentChar == '.' then
    if s.currentOffset == 0 then .error ⟨"LeadingDot", c.startPos, posInStringToParse c s⟩
    else if s.metTag.isTag && s.currentOffset ≤ 2 then
      -- `self.pos_in_string_to_parse() - 1`: the offset is ≥ 1 here
      .error (errAt "EmptyCanonName" (posInStringToParse c s - 1))
    else .ok (true, { s with firstDotMetPos := some s.currentOffset })
  else .ok (false, s)

def tryParseAsSign (s : ParserState) : Bool := s.isFirstChar && (s.currentChar == '-' || s.currentChar == '+')

def tryParseAsDigit (s : ParserState) : Bool × ParserState :=
  if Lex.isNumeric s.currentChar then (true, { s with digitMet := true }) else (false, s)

def tryParseAsFloatDot (c : CvpCtx) (s : ParserState) : R (Bool × ParserState) := do
  let (isFirstDot, s) ← tryParseFirstMetDot c s
  if isFirstDot && !s.digitMet then .error (errAt "LeadingDot" (posInStringToParse c s))
  else pure (isFirstDot, s)

def tryParseAsStream (c : CvpCtx) (s : ParserState) : R (Bool × ParserState) :=
  let tag := MetTag.fromTag s.currentChar
  if s.currentOffset == 0 && tag.isTag then
    if c.len == 1 then .error (errAt "EmptyTaggedName" (posInStringToParse c s))
    else .ok (true, { s with metTag := tag })
  else .ok (false, s)

def tryParseAsCanon (c : CvpCtx) (s : ParserState) : R (Bool × ParserState) :=
  let tag := s.metTag.deduceTag s.currentChar
  if s.currentOffset == 1 && tag.isCanonType then
    if c.len == 2 && tag.isTag then .error (errAt "EmptyCanonName" (posInStringToParse c s))
    else .ok (true, { s with metTag := tag })
  else .ok (false, s)

def tryParseAsAlphanumeric (c : CvpCtx) (s : ParserState) : R Unit :=
  if !Lex.isAirAlphanumeric s.currentChar then .error (errAt "IsNotAlphanumeric" (posInStringToParse c s)) else .ok ()

def tryParseAsFlattening (c : CvpCtx) (s : ParserState) : Bool × ParserState :=
  if isLastChar c s && s.currentChar == '!' then (true, { s with flatteningMet := true }) else (false, s)

def tryParseAsLens (c : CvpCtx) (s : ParserState) : R ParserState :=
  if Lex.isLensAllowedChar s.currentChar then .ok s
  else
    let (fl, s) := tryParseAsFlattening c s
    if !fl then .error (errAt "InvalidLambda" (posInStringToParse c s)) else .ok s

def tryParseAsVariable (c : CvpCtx) (s : ParserState) : R ParserState := do
  let (b, s) ← tryParseAsCanon c s
  if b then return s
  let (b, s) ← tryParseAsStream c s
  if b then return s
  let (b, s) ← tryParseFirstMetDot c s   -- try_parse_as_lens_start
  if b then return s
  if dotMet s then tryParseAsLens c s
  else do tryParseAsAlphanumeric c s; pure s

def handleNonDigit (c : CvpCtx) (s : ParserState) : R ParserState :=
  -- check_fallback_to_variable
  if dotMet s then .error (errAt "UnallowedCharInNumber" (posInStringToParse c s))
  else tryParseAsVariable c { s with nonNumericMet := true }

def tryParseAsNumber (c : CvpCtx) (s : ParserState) : R ParserState := do
  if tryParseAsSign s then return s
  let (b, s) := tryParseAsDigit s
  if b then return s
  let (b, s) ← tryParseAsFloatDot c s
  if b then return s
  handleNonDigit c s

/-- one turn of the loop of `try_parse` on the current character -/
def stepChar (c : CvpCtx) (s : ParserState) : R ParserState :=
  if !s.nonNumericMet then tryParseAsNumber c s else tryParseAsVariable c s

/-- the loop of `try_parse`: `rest` are the `char_indices` not yet taken by `next_char` -/
def loop (c : CvpCtx) (s : ParserState) : List (Nat × Char) → R ParserState
  | [] => stepChar c s
  | (pos, ch) :: rest => do
    let s ← stepChar c s
    loop c { s with currentChar := ch, currentOffset := pos, isFirstChar := false } rest

def i64Min : Int := -9223372036854775808
def i64Max : Int := 9223372036854775807

def digitsValue (ds : List Char) : Nat := ds.foldl (fun acc d => acc * 10 + (d.toNat - '0'.toNat)) 0

/-- `str::parse::<i64>()`: optional sign, at least one ASCII digit, nothing else, in range -/
def parseI64 (cs : List Char) : Except String Int :=
  let (neg, ds) := match cs with
    | '-' :: r => (true, r)
    | '+' :: r => (false, r)
    | r => (false, r)
  if cs.isEmpty then .error "cannot parse integer from empty string"
  else if ds.isEmpty then .error "invalid digit found in string"
  else if !ds.all Lex.isAsciiDigit then .error "invalid digit found in string"
  else
    let v : Int := if neg then -(digitsValue ds : Int) else (digitsValue ds : Int)
    if v > i64Max then .error "number too large to fit in target type"
    else if v < i64Min then .error "number too small to fit in target type"
    else .ok v

/-- `str::parse::<f64>()` restricted to what reaches it here (sign?, numerics, one dot, numerics, a
digit before the dot): it succeeds exactly when every numeric character is an ASCII digit -/
def parseF64Ok (cs : List Char) : Bool :=
  let ds := match cs with
    | '-' :: r => r
    | '+' :: r => r
    | r => r
  ds.all (fun ch => Lex.isAsciiDigit ch || ch == '.') && ds.any Lex.isAsciiDigit

def toVariableToken (tag : MetTag) (name : String) (position : Nat) : Token :=
  match tag with
  | .none => .scalar name position
  | .stream => .stream name position
  | .canonStream | .canon => .canonStream name position
  | .canonStreamMap => .canonStreamMap name position
  | .streamMap => .streamMap name position

def toVariableTokenWithLambda (tag : MetTag) (name : String) (lambda : Lambda) (position : Nat) : Token :=
  match tag with
  | .none => .scalarWithLambda name lambda position
  | .stream => .streamWithLambda name lambda position
  | .canonStream | .canon => .canonStreamWithLambda name lambda position
  | .canonStreamMap => .canonStreamMapWithLambda name lambda position
  | .streamMap => .streamMapWithLambda name lambda position

/-- result of lexing one token text -/
inductive TokRes where
  | ok (t : Token)
  | err (e : LexerError)
  | panic (site : String)
  /-- the lens has a syntax error and, further on, a field name on which the lens lexer panics:
  the recovering LALRPOP lens parser may or may not pull that far (not modelled) -/
  | errOrPanic (e : LexerError) (site : String)
deriving Repr, Inhabited

/-- `crate::parse_lambda(..).map_err(LexerError::lambda_parser_error(..))` -/
def lambdaToTok (r : LambdaParser.Outcome) (left right : Nat) (k : Lambda → Token) : TokRes :=
  match r with
  | .ok l => .ok (k l)
  | .err m => .err ⟨"LambdaParserError:" ++ m, left, right⟩
  | .panic s => .panic s
  | .errOrPanic m s => .errOrPanic ⟨"LambdaParserError:" ++ m, left, right⟩ s

def toToken (c : CvpCtx) (s : ParserState) (str : List Char) : TokRes :=
  let isNumber := !s.nonNumericMet
  match isNumber, s.firstDotMetPos with
  | true, none =>
    match parseI64 str with
    | .ok n => .ok (.i64 n)
    | .error m => .err ⟨"ParseIntError:" ++ m, c.startPos, c.startPos + c.len⟩
  | true, some _ =>
    if c.len > AirLexer.safeFloatSignificandSize then .err ⟨"TooBigFloat", c.startPos, c.startPos + c.len⟩
    else if parseF64Ok str then .ok (.f64 (String.ofList str))
    else .err ⟨"ParseFloatError:invalid float literal", c.startPos, c.startPos + c.len⟩
  | false, none => .ok (toVariableToken s.metTag (String.ofList str) c.startPos)
  | false, some lambdaStartOffset =>
    -- `&self.string_to_parse[lambda_start_offset..]`, `&self.string_to_parse[0..lambda_start_offset]`
    match Lex.sliceBytes str lambdaStartOffset c.len, Lex.sliceBytes str 0 lambdaStartOffset with
    | some lens, some name =>
      lambdaToTok (LambdaParser.parse lens) (c.startPos + lambdaStartOffset) (c.startPos + c.len)
        fun l => toVariableTokenWithLambda s.metTag (String.ofList name) l c.startPos
    | _, _ => .panic "call_variable_parser.rs try_to_variable_and_lambda: byte index is not a char boundary"

/-- `CallVariableParser::try_parse` -/
def tryParse (str : List Char) (startPos : Nat) : TokRes :=
  match Lex.charIndices str 0 with
  | [] => .err ⟨"EmptyVariableOrConst", startPos, startPos⟩
  | (off, ch) :: rest =>
    let c : CvpCtx := { len := Lex.utf8Len str, startPos }
    match loop c { currentChar := ch, currentOffset := off } rest with
    | .error e => .err e
    | .ok s => toToken c s str

end CallVariableParser

-- ------------------------------------------------------------------------------------------------
-- air_lexer.rs

namespace AIRLexer
open CallVariableParser (TokRes)

/-- the `Token::…` a keyword arm of `string_to_token` returns (variant names from the Rust source) -/
def keywordToken (variant : String) : Option Token :=
  match variant with
  | "Call" => some .call | "Canon" => some .canon | "Ap" => some .ap | "Seq" => some .seq
  | "Par" => some .par | "Fail" => some .fail | "Fold" => some .fold | "Xor" => some .xor
  | "Never" => some .never | "New" => some .new | "Next" => some .next | "Null" => some .null
  | "Match" => some .match_ | "MisMatch" => some .misMatch
  | _ => none

def lookupKeyword (s : String) : Option Token :=
  match AirLexer.instrKeywords.find? (fun kw => kw.1 == s) with
  | some (_, variant) => keywordToken variant
  | none => none

/-- `parse_error`: `%last_error%` / `:error:` with an optional lens -/
def parseError (input : List Char) (startPos : Nat) (tokenStr : String) (woLens : Token)
    (withLens : Lambda → Token) : TokRes :=
  let tokenWoLensLen := tokenStr.utf8ByteSize
  let inputLen := Lex.utf8Len input
  if inputLen == tokenWoLensLen then .ok woLens
  else if inputLen ≤ tokenWoLensLen then
    .err ⟨"LambdaParserError:lambda AST applied to last error has not enough size", startPos + tokenWoLensLen, startPos + inputLen⟩
  else
    match Lex.sliceBytes input tokenWoLensLen inputLen with
    | some lens =>
      CallVariableParser.lambdaToTok (LambdaParser.parse lens) (startPos + tokenWoLensLen) (startPos + inputLen) withLens
    | none => .panic "air_lexer.rs parse_error: byte index is not a char boundary"

/-- `string_to_token` -/
def stringToToken (input : List Char) (startPos : Nat) : TokRes :=
  let s := String.ofList input
  if input.isEmpty then .err ⟨"EmptyString", startPos, startPos⟩
  else match lookupKeyword s with
  | some t => .ok t
  | none =>
    if s == AirLexer.initPeerId then .ok .initPeerId
    else if AirLexer.error.toList.isPrefixOf input then parseError input startPos AirLexer.error .error .errorWithLambda
    else if AirLexer.lastError.toList.isPrefixOf input then parseError input startPos AirLexer.lastError .lastError .lastErrorWithLambda
    else if s == AirLexer.timestamp then .ok .timestamp
    else if s == AirLexer.ttl then .ok .ttl
    else if s == AirLexer.trueValue then .ok (.boolean true)
    else if s == AirLexer.falseValue then .ok (.boolean false)
    else CallVariableParser.tryParse input startPos

/-- `skip_comment`: consume up to and including the next `'\n'` -/
def skipComment : List (Nat × Char) → List (Nat × Char)
  | [] => []
  | (_, ch) :: rest => if ch == '\n' then rest else skipComment rest

/-- `tokenize_string_literal`: characters up to the closing quote (`acc` reversed) -/
def stringLiteralBody (acc : List Char) : List (Nat × Char) → Option (List Char × Nat × List (Nat × Char))
  | [] => none
  | (pos, ch) :: rest => if ch == '"' then some (acc.reverse, pos, rest) else stringLiteralBody (ch :: acc) rest

def updateBracketsCount (ch : Char) (round square : Int) : Int × Int :=
  if ch == '(' then (round + 1, square) else if ch == ')' then (round - 1, square)
  else if ch == '[' then (round, square + 1) else if ch == ']' then (round, square - 1) else (round, square)

def shouldStop (ch : Char) (round square : Int) : Bool := Lex.isWhitespace ch || round < 0 || square < 0

/-- `advance_to_token_end` + `advance_end_pos`: the characters taken (reversed in `acc`), the end
position, the rest of the iterator -/
def advanceToTokenEnd (inputLen : Nat) (acc : List Char) (round square : Int) :
    List (Nat × Char) → List Char × Nat × List (Nat × Char)
  | [] => (acc.reverse, inputLen, [])
  | (pos, ch) :: rest =>
    let (round, square) := updateBracketsCount ch round square
    if shouldStop ch round square then (acc.reverse, pos, (pos, ch) :: rest)
    else advanceToTokenEnd inputLen (ch :: acc) round square rest

/-- `next_token` until the first item; `fuel` bounds the skipping of whitespace and comments -/
def nextToken (inputLen : Nat) : Nat → List (Nat × Char) → Option (LexItem × List (Nat × Char))
  | 0, _ => none
  | _, [] => none
  | fuel + 1, (startPos, ch) :: rest =>
    if ch == '(' then some (.tok startPos .openRoundBracket (startPos + 1), rest)
    else if ch == ')' then some (.tok startPos .closeRoundBracket (startPos + 1), rest)
    else if ch == '[' then some (.tok startPos .openSquareBracket (startPos + 1), rest)
    else if ch == ']' then some (.tok startPos .closeSquareBracket (startPos + 1), rest)
    else if ch == ';' then nextToken inputLen fuel (skipComment rest)
    else if Lex.isWhitespace ch then nextToken inputLen fuel rest
    else if ch == '"' then
      match stringLiteralBody [] rest with
      | some (body, pos, rest') =>
        -- `&self.input[start_pos + 1..pos]`: both borders follow a one-byte `"`
        some (.tok startPos (.stringLiteral (String.ofList body)) (startPos + (pos - startPos + 1)), rest')
      | none => some (.err ⟨"UnclosedQuote", startPos, inputLen⟩, [])
    else
      let (tail, endPos, rest') := advanceToTokenEnd inputLen [] 0 0 rest
      -- `&self.input[start_pos..end_pos]`: borders come from the chars iterator
      match stringToToken (ch :: tail) startPos with
      | .ok t => some (.tok startPos t (startPos + (endPos - startPos)), rest')
      | .err e => some (.err e, rest')
      | .panic s => some (.panic s, rest')
      | .errOrPanic e s => some (.errOrPanic e s, rest')

end AIRLexer

/-- the items of the token stream up to and including the first `Err`/panic -/
def lexItems (inputLen fuel0 : Nat) : Nat → List (Nat × Char) → List LexItem
  | 0, _ => []
  | fuel + 1, cs =>
    match AIRLexer.nextToken inputLen fuel0 cs with
    | none => []
    | some (.tok l t r, rest) => .tok l t r :: lexItems inputLen fuel0 fuel rest
    | some (item, _) => [item]

/-- every turn of either loop consumes at least one character: `text.length + 1` turns suffice -/
def lex (text : List Char) : List LexItem :=
  lexItems (Lex.utf8Len text) (text.length + 1) (text.length + 1) (Lex.charIndices text 0)

end Aqua.Air
