import Aqua.Air.Beautifier
/-!
# A small reader of operand texts (C28: "operands are printed as in the script")

`parseValue` reads back the text the beautifier prints for an operand (`valueText`, i.e. the `Display`
impls of `air-parser`) following the AIR lexer's token rules (`air_lexer.rs: string_to_token`,
`call_variable_parser.rs`, `lambda_ast_lexer.rs`): constants, quoted literals, `%last_error%`/`:error:`
with an optional lens, integers, decimal floats, variables classified by their sigil with an optional
lens. `ValueWF` states what the lexer guarantees about names / literals of an accepted script.
-/
namespace Aqua.Air.OperandReader
open Aqua.Air Aqua.Air.Beautifier

def expectPre (pre t : Text) : Option Text :=
  if pre.isPrefixOf t then some (t.drop pre.length) else none

def parseNat? (cs : Text) : Option Nat :=
  if !cs.isEmpty && cs.all Char.isDigit then some (Nat.ofDigitChars 10 cs 0) else none

def parseInt? : Text → Option Int
  | '-' :: cs => (parseNat? cs).map fun n => -(n : Int)
  | cs => (parseNat? cs).map Int.ofNat

/-- `digits.digits` (both parts non-empty) -/
def floatShape (body : Text) : Bool :=
  match body.dropWhile Char.isDigit with
  | '.' :: fp => !(body.takeWhile Char.isDigit).isEmpty && !fp.isEmpty && fp.all Char.isDigit
  | _ => false

/-- drop a leading minus sign -/
def unsigned : Text → Text
  | '-' :: r => r
  | r => r

/-- `[-]digits.digits` -/
def isFloatText (cs : Text) : Bool :=
  (unsigned cs).all (fun c => c.isDigit || c == '.') && floatShape (unsigned cs)

/-- cut at every `'.'` -/
def splitDots : Text → Text → List Text
  | acc, [] => [acc.reverse]
  | acc, '.' :: cs => acc.reverse :: splitDots [] cs
  | acc, c :: cs => splitDots (c :: acc) cs

def parseAccessor (cs : Text) : Option Accessor :=
  match cs with
  | [] => none
  | '[' :: rest =>
    (match rest.getLast? with
     | some ']' =>
       let inner := rest.dropLast
       if inner.isEmpty then none
       else if inner.all Char.isDigit then some (.arrayAccess (Nat.ofDigitChars 10 inner 0))
       else some (.fieldByScalar (String.ofList inner))
     | _ => none)
  | _ => some (.fieldByName (String.ofList cs))

def parseLambda (cs : Text) : Option Lambda :=
  if cs = ".length".toList then some .functorLength
  else (expectPre ".$.".toList cs).bind fun rest =>
    ((splitDots [] rest).mapM parseAccessor).bind fun as =>
      if as.isEmpty then none else some (.path as)

inductive VarKind where
  | scalar | canon | canonMap
deriving Repr, DecidableEq

/-- `MetTag` of `call_variable_parser.rs`: `%` in second position makes a canon stream map, otherwise
the first character decides (`$` stream and `%` stream map are not values) -/
def varKind : Text → Option VarKind
  | [] => none
  | _ :: '%' :: _ => some .canonMap
  | '#' :: _ => some .canon
  | '$' :: _ => none
  | '%' :: _ => none
  | _ => some .scalar

def parseVariable (cs : Text) : Option Value :=
  let name := cs.takeWhile (· != '.')
  let lam := cs.dropWhile (· != '.')
  (varKind name).bind fun k =>
    if lam.isEmpty then
      some (match k with
        | .scalar => .scalar (String.ofList name)
        | .canon => .canon (String.ofList name)
        | .canonMap => .canonMap (String.ofList name))
    else (parseLambda lam).map fun l =>
      match k with
      | .scalar => .scalarWL (String.ofList name) l
      | .canon => .canonWL (String.ofList name) l
      | .canonMap => .canonMapWL (String.ofList name) l

def parseErrorLike (mk : Option Lambda → Value) (rest : Text) : Option Value :=
  if rest.isEmpty then some (mk none) else (parseLambda rest).map fun l => mk (some l)

/-- `"…"` -/
def parseLiteral (cs : Text) : Option Value :=
  match cs with
  | '"' :: rest =>
    (match rest.getLast? with
     | some '"' => if rest.dropLast.contains '"' then none else some (.literal (String.ofList rest.dropLast))
     | _ => none)
  | _ => none

/-- `true`, `false`, integers, floats, variables -/
def parsePlain (cs : Text) : Option Value :=
  if cs = "true".toList then some (.boolean true)
  else if cs = "false".toList then some (.boolean false)
  else match parseInt? cs with
  | some n => some (.number n)
  | none => if isFloatText cs then some (.float (String.ofList cs)) else parseVariable cs

/-- `%init_peer_id%`, `%timestamp%`, `%ttl%`, `%last_error%[lens]` (or a variable whose name starts with `%`) -/
def parsePercent (cs : Text) : Option Value :=
  if cs = "%init_peer_id%".toList then some .initPeerId
  else if cs = "%timestamp%".toList then some .timestamp
  else if cs = "%ttl%".toList then some .ttl
  else match expectPre "%last_error%".toList cs with
  | some rest => parseErrorLike .lastError rest
  | none => parseVariable cs

def parseValue (cs : Text) : Option Value :=
  match cs.head? with
  | none => none
  | some c =>
    if c = '"' then parseLiteral cs
    else if c = '%' then parsePercent cs
    else if c = ':' then (expectPre ":error:".toList cs).bind (parseErrorLike .error)
    else if c = '[' then (if cs = "[]".toList then some .emptyArray else none)
    else parsePlain cs

/-! ## what the lexer guarantees -/

/-- `is_air_alphanumeric`, over-approximated outside ASCII: ASCII letter / digit / `_` / `-`, or any non-ASCII character -/
def nameChar (c : Char) : Bool := c.isAlphanum || c == '_' || c == '-' || 128 ≤ c.toNat

def bare (t : Text) : Bool := !t.isEmpty && t.all nameChar

def accessorWF : Accessor → Bool
  | .arrayAccess _ => true
  | .fieldByName n => bare n.toList
  | .fieldByScalar s => bare s.toList && !(s.toList.all Char.isDigit)

def lambdaWF : Lambda → Bool
  | .functorLength => true
  | .path as => !as.isEmpty && as.all accessorWF

def optLambdaWF : Option Lambda → Bool
  | none => true
  | some l => lambdaWF l

def scalarNameWF (n : Text) : Bool :=
  bare n && (parseInt? n).isNone && n != "true".toList && n != "false".toList

def canonNameWF : Text → Bool
  | '#' :: '$' :: m => bare m
  | '#' :: m => bare m
  | _ => false

def canonMapNameWF : Text → Bool
  | c :: '%' :: m => bare m && (c == '#' || c == '$' || c == '%' || nameChar c)
  | _ => false

def valueWF : Value → Bool
  | .lastError l | .error l => optLambdaWF l
  | .literal s => !(s.toList.contains '"')
  | .float r => isFloatText r.toList
  | .scalar n => scalarNameWF n.toList
  | .scalarWL n l => scalarNameWF n.toList && lambdaWF l
  | .canon n => canonNameWF n.toList
  | .canonWL n l => canonNameWF n.toList && lambdaWF l
  | .canonMap n => canonMapNameWF n.toList
  | .canonMapWL n l => canonMapNameWF n.toList && lambdaWF l
  | _ => true

/-- the operands (values) of an instruction, all nested instructions included -/
def operands : Instr → List Value
  | .call p s f args _ => p :: s :: f :: args
  | .seq l r | .par l r | .xor l r => operands l ++ operands r
  | .match_ a b i | .mismatch a b i => a :: b :: operands i
  | .ap arg _ => [arg]
  | .apMap k v _ _ => [k, v]
  | .canon p _ _ _ | .canonMap p _ _ _ | .canonMapScalar p _ _ _ => [p]
  | .foldScalar it _ body last => it :: operands body ++ (match last with | none => [] | some l => operands l)
  | .foldStream _ _ _ body last _ | .foldMap _ _ _ body last _ =>
    operands body ++ (match last with | none => [] | some l => operands l)
  | .new _ body _ _ => operands body
  | .fail (.scalar n) => [.scalar n]
  | .fail (.scalarWL n l) => [.scalarWL n l]
  | .fail (.canonWL n l) => [.canonWL n l]
  | .fail _ => []
  | .next _ | .null | .never => []

end Aqua.Air.OperandReader
