import Aqua.Air.Lexer
import Aqua.Air.Validator
import Aqua.Base.Res
/-
Model of `air_parser::parse` (`air-parser/src/parser/air_parser.rs`) over the grammar `air.lalrpop`.

What is modelled: the token stream (`Aqua.Air.Lexer`), the language of the grammar with the syntax
tree and spans its actions build (a recursive-descent recogniser following the productions; the
grammar is LR(1) and every decision below is taken on the current token, so a text is rejected at
the first token that cannot continue a sentence, as by an LR parser), the validator calls of the
actions (`Aqua.Air.Validator`) and the decision at the end of `parse`.

What is NOT modelled (trusted): LALRPOP's table-driven automaton, its error recovery and the error
report text.  Recovery is observable only in one way: after a syntax error the recovering parser
keeps pulling tokens, so whether a *later* token on which the lexer panics is reached is not
determined by the model (`ParseError.syntaxThenPanic`).
-/
namespace Aqua.Air

abbrev Tok := Nat × Token × Nat   -- (left, token, right)

inductive ParseError where
  | lexer (e : LexerError)
  /-- `UnrecognizedToken` / `UnrecognizedEof` / `ExtraToken` (recovered or not) -/
  | syntax (atToken : Nat)
  | validator (errors : List ValidatorError)
  /-- a syntax error (or a lens syntax error) followed by a token on which the lexer panics:
  the real parser returns `Err` or panics (not modelled which) -/
  | syntaxThenPanic (site : String)
deriving Repr, Inhabited

/-- result of the recogniser on the tokens before the terminating item -/
inductive Recog (α : Type) where
  | ok (a : α) (rest : List Tok)
  /-- a token that cannot continue a sentence -/
  | bad (remaining : Nat)
  /-- the tokens ran out inside a sentence -/
  | eof
deriving Repr, Inhabited

namespace Recog
@[inline] def bind {α β} (x : Recog α) (f : α → List Tok → Recog β) : Recog β :=
  match x with
  | .ok a rest => f a rest
  | .bad n => .bad n
  | .eof => .eof
end Recog

namespace Grammar

def peerIdValue : Token → Option Value
  | .initPeerId => some .initPeerId
  | .stringLiteral s => some (.literal s)
  | .scalar n _ => some (.scalar n)
  | .scalarWithLambda n l _ => some (.scalarWL n l)
  | .canonStreamWithLambda n l _ => some (.canonWL n l)
  | .canonStreamMapWithLambda n l _ => some (.canonMapWL n l)
  | _ => none

def stringValue : Token → Option Value
  | .stringLiteral s => some (.literal s)
  | .scalar n _ => some (.scalar n)
  | .scalarWithLambda n l _ => some (.scalarWL n l)
  | .canonStreamWithLambda n l _ => some (.canonWL n l)
  | .canonStreamMapWithLambda n l _ => some (.canonMapWL n l)
  | _ => none

/-- one-token alternatives of `Value` (`"[" "]"` is handled by the callers) -/
def immutableValue : Token → Option Value
  | .initPeerId => some .initPeerId
  | .lastError => some (.lastError none)
  | .lastErrorWithLambda l => some (.lastError (some l))
  | .error => some (.error none)
  | .errorWithLambda l => some (.error (some l))
  | .stringLiteral s => some (.literal s)
  | .timestamp => some .timestamp
  | .ttl => some .ttl
  | .i64 n => some (.number n)
  | .f64 r => some (.float r)
  | .boolean b => some (.boolean b)
  | .scalar n _ => some (.scalar n)
  | .scalarWithLambda n l _ => some (.scalarWL n l)
  | .canonStream n _ => some (.canon n)
  | .canonStreamWithLambda n l _ => some (.canonWL n l)
  | .canonStreamMap n _ => some (.canonMap n)
  | .canonStreamMapWithLambda n l _ => some (.canonMapWL n l)
  | _ => none

/-- one-token alternatives of `ApArgument` (no plain canon map) -/
def apArgument : Token → Option Value
  | .canonStreamMap _ _ => none
  | t => immutableValue t

def streamMapKeyClause : Token → Option Value
  | .stringLiteral s => some (.literal s)
  | .i64 n => some (.number n)
  | .scalar n _ => some (.scalar n)
  | .scalarWithLambda n l _ => some (.scalarWL n l)
  | .canonStreamWithLambda n l _ => some (.canonWL n l)
  | _ => none

def foldScalarIterable : Token → Option Value
  | .scalar n _ => some (.scalar n)
  | .scalarWithLambda n l _ => some (.scalarWL n l)
  | .canonStream n _ => some (.canon n)
  | .canonStreamMap n _ => some (.canonMap n)
  | .canonStreamMapWithLambda n l _ => some (.canonMapWL n l)
  | _ => none

def newArgument : Token → Option NewArg
  | .scalar n _ => some (.scalar n)
  | .stream n _ => some (.stream n)
  | .streamMap n _ => some (.streamMap n)
  | .canonStream n _ => some (.canon n)
  | .canonStreamMap n _ => some (.canonMap n)
  | _ => none

def callOutput : Token → Option CallOutput
  | .scalar n _ => some (.scalar n)
  | .stream n p => some (.stream n p)
  | _ => none

def apResult : Token → Option ApResult
  | .scalar n _ => some (.scalar n)
  | .stream n p => some (.stream n p)
  | _ => none

/-- take one token satisfying `f` -/
def one {α} (f : Token → Option α) : List Tok → Recog α
  | [] => .eof
  | (_, t, _) :: rest => match f t with
    | some a => .ok a rest
    | none => .bad (rest.length + 1)

def expect (t : Token) : List Tok → Recog Unit :=
  one fun t' => if t' == t then some () else none

/-- a value that may also be `"[" "]"` -/
def valueOrEmptyArray (f : Token → Option Value) : List Tok → Recog Value
  | [] => .eof
  | (_, .openSquareBracket, _) :: rest => (expect .closeSquareBracket rest).bind fun _ rest => .ok .emptyArray rest
  | (_, t, _) :: rest => match f t with
    | some a => .ok a rest
    | none => .bad (rest.length + 1)

/-- `Args`: `"[" Arg* "]"` (after the opening bracket) -/
def args : Nat → List Tok → List Value → Recog (List Value)
  | 0, ts, _ => .bad ts.length
  | _, [], _ => .eof
  | fuel + 1, (l, t, r) :: rest, acc =>
    if t == .closeSquareBracket then .ok acc.reverse rest
    else (valueOrEmptyArray immutableValue ((l, t, r) :: rest)).bind fun v rest => args fuel rest (v :: acc)

/-- `")" <right: @R>`: the end position of the closing bracket -/
def close : List Tok → Recog Nat
  | [] => .eof
  | (_, t, r) :: rest => if t == .closeRoundBracket then .ok r rest else .bad (rest.length + 1)

def scalarName : Token → Option String
  | .scalar n _ => some n
  | _ => none

/-- `Instr` -/
def instr : Nat → List Tok → Recog SInstr
  | 0, ts => .bad ts.length
  | _, [] => .eof
  | fuel + 1, (left, t, _) :: rest =>
    if t != .openRoundBracket then .bad (rest.length + 1) else
    match rest with
    | [] => .eof
    | (_, kw, _) :: rest =>
      let two (mk : Span → SInstr → SInstr → SInstr) : Recog SInstr :=
        (instr fuel rest).bind fun l rest => (instr fuel rest).bind fun r rest =>
          (close rest).bind fun right rest => .ok (mk ⟨left, right⟩ l r) rest
      match kw with
      | .call =>
        (one peerIdValue rest).bind fun peer rest => (expect .openRoundBracket rest).bind fun _ rest =>
        (one stringValue rest).bind fun svc rest => (one stringValue rest).bind fun func rest =>
        (expect .closeRoundBracket rest).bind fun _ rest => (expect .openSquareBracket rest).bind fun _ rest =>
        (args (rest.length + 1) rest []).bind fun as rest =>
          match rest with
          | [] => .eof
          | (_, t, r) :: rest' =>
            if t == .closeRoundBracket then .ok (.call ⟨left, r⟩ peer svc func as .none) rest'
            else match callOutput t with
              | some out => (close rest').bind fun right rest => .ok (.call ⟨left, right⟩ peer svc func as out) rest
              | none => .bad (rest'.length + 1)
      | .canon =>
        (one peerIdValue rest).bind fun peer rest =>
          match rest with
          | [] => .eof
          | (_, .stream s sp, _) :: rest =>
            (one (fun | .canonStream n _ => some n | _ => none) rest).bind fun c rest =>
              (close rest).bind fun right rest => .ok (.canon ⟨left, right⟩ peer s sp c) rest
          | (_, .streamMap m mp, _) :: rest =>
            (match rest with
             | [] => .eof
             | (_, .canonStreamMap c _, _) :: rest =>
               (close rest).bind fun right rest => .ok (.canonMap ⟨left, right⟩ peer m mp c) rest
             | (_, .scalar c _, _) :: rest =>
               (close rest).bind fun right rest => .ok (.canonMapScalar ⟨left, right⟩ peer m mp c) rest
             | _ :: rest => .bad (rest.length + 1))
          | _ :: rest => .bad (rest.length + 1)
      | .ap =>
        (match rest with
         | [] => .eof
         | (_, .openRoundBracket, _) :: rest =>
           (one streamMapKeyClause rest).bind fun key rest =>
           (valueOrEmptyArray apArgument rest).bind fun val rest =>
           (expect .closeRoundBracket rest).bind fun _ rest =>
           (one (fun | .streamMap n p => some (n, p) | _ => none) rest).bind fun (m, mp) rest =>
           (close rest).bind fun right rest => .ok (.apMap ⟨left, right⟩ key val m mp) rest
         | _ =>
           (valueOrEmptyArray apArgument rest).bind fun arg rest =>
           (one apResult rest).bind fun res rest =>
           (close rest).bind fun right rest => .ok (.ap ⟨left, right⟩ arg res) rest)
      | .seq => two .seq
      | .par => two .par
      | .xor => two .xor
      | .never => (close rest).bind fun right rest => .ok (.never ⟨left, right⟩) rest
      | .null => (close rest).bind fun right rest => .ok (.null ⟨left, right⟩) rest
      | .new =>
        (one newArgument rest).bind fun arg rest => (instr fuel rest).bind fun body rest =>
          (close rest).bind fun right rest => .ok (.new ⟨left, right⟩ arg body) rest
      | .fail =>
        (match rest with
         | [] => .eof
         | (_, t, _) :: rest =>
           let fin (a : FailArg) (rest : List Tok) : Recog SInstr :=
             (close rest).bind fun right rest => .ok (.fail ⟨left, right⟩ a) rest
           match t with
           | .scalar n _ => fin (.scalar n) rest
           | .scalarWithLambda n l _ => fin (.scalarWL n l) rest
           | .i64 code => (one (fun | .stringLiteral s => some s | _ => none) rest).bind fun msg rest => fin (.literal code msg) rest
           | .canonStreamWithLambda n l _ => fin (.canonWL n l) rest
           | .lastError => fin .lastError rest
           | .error => fin .error rest
           | _ => .bad (rest.length + 1))
      | .fold =>
        (match rest with
         | [] => .eof
         | (_, t, _) :: rest' =>
           let iterable : Recog FoldIterable :=
             match t with
             | .stream n p => .ok (.stream n p) rest'
             | .streamMap n p => .ok (.streamMap n p) rest'
             | .openSquareBracket => (expect .closeSquareBracket rest').bind fun _ rest => .ok (.scalar .emptyArray) rest
             | t => match foldScalarIterable t with
               | some v => .ok (.scalar v) rest'
               | none => .bad (rest'.length + 1)
           iterable.bind fun it rest => (one scalarName rest).bind fun iterator rest =>
           (instr fuel rest).bind fun body rest =>
             match rest with
             | [] => .eof
             | (_, t, r) :: rest' =>
               if t == .closeRoundBracket then .ok (.fold ⟨left, r⟩ it iterator body) rest'
               else (instr fuel rest).bind fun last rest =>
                 (close rest).bind fun right rest => .ok (.foldLast ⟨left, right⟩ it iterator body last) rest)
      | .next =>
        (one scalarName rest).bind fun iterator rest =>
          (close rest).bind fun right rest => .ok (.next ⟨left, right⟩ iterator) rest
      | .match_ =>
        (valueOrEmptyArray immutableValue rest).bind fun a rest =>
        (valueOrEmptyArray immutableValue rest).bind fun b rest =>
        (instr fuel rest).bind fun i rest => (close rest).bind fun right rest => .ok (.match_ ⟨left, right⟩ a b i) rest
      | .misMatch =>
        (valueOrEmptyArray immutableValue rest).bind fun a rest =>
        (valueOrEmptyArray immutableValue rest).bind fun b rest =>
        (instr fuel rest).bind fun i rest => (close rest).bind fun right rest => .ok (.mismatch ⟨left, right⟩ a b i) rest
      | _ => .bad (rest.length + 1)

/-- `pub AIR = Instr;` followed by the end of input -/
def air (ts : List Tok) : Recog SInstr :=
  (instr (ts.length + 1) ts).bind fun i rest =>
    match rest with
    | [] => .ok i []
    | _ :: rest' => .bad (rest'.length + 1)

end Grammar

/-- the tokens before the terminating item, and that item (`none` = end of input) -/
def splitItems : List LexItem → List Tok × Option LexItem
  | [] => ([], none)
  | .tok l t r :: rest => let (ts, e) := splitItems rest; ((l, t, r) :: ts, e)
  | item :: _ => ([], some item)

/-- `air_parser::parse`, generic in the syntax tree the LALRPOP run returned: `errors` holds one entry
per executed recovery action (= per `Instruction::Error` node), then the validator's errors are
appended; `Ok(r)` only if the list is empty -/
def finishParse (r : SInstr) : Res ParseError SInstr :=
  let validatorErrors := validate r
  if r.errorNodes == 0 && validatorErrors.isEmpty then .ok r
  else if r.errorNodes != 0 then .error (.syntax 0)
  else .error (.validator validatorErrors)

/-- `air_parser::parse` on a text -/
def parseChars (text : List Char) : Res ParseError SInstr :=
  let (ts, last) := splitItems (lex text)
  -- what happens when the parser pulls the item after the last good token
  let atEnd : Res ParseError SInstr :=
    match last with
    | some (.err e) => .error (.lexer e)
    | some (.panic s) => .panic s
    | some (.errOrPanic _ s) => .error (.syntaxThenPanic s)
    | _ => .error (.syntax ts.length)
  match Grammar.air ts with
  | .ok r _ =>
    (match last with
     | none => finishParse r
     | _ => atEnd)   -- the sentence is complete but the lexer does not report the end of input
  | .eof => atEnd
  | .bad remaining =>
    -- a syntax error at a token that was lexed: recovery starts; a later panic may or may not be reached
    match last with
    | some (.panic s) | some (.errOrPanic _ s) => .error (.syntaxThenPanic s)
    | _ => .error (.syntax (ts.length - remaining))

def parse (text : String) : Res ParseError SInstr := parseChars text.toList

end Aqua.Air
