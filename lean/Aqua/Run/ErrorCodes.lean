import Aqua.Base.Basic
import Aqua.Gen.ErrorCodes
/-
Replica of `air/src/utils/to_error_code.rs: generate_to_error_code!`: the code of an error is the start
id of its enum plus the position of its variant in declaration order.  Variant lists and start ids are
generated from the Rust sources on every run (`Aqua.Gen.ErrorCodes`).
-/
namespace Aqua.Run

inductive ErrClass | preparation | catchable | uncatchable | farewell
deriving Repr, DecidableEq

def ErrClass.start : ErrClass → Int
  | .preparation => Gen.preparationStart
  | .catchable => Gen.catchableStart
  | .uncatchable => Gen.uncatchableStart
  | .farewell => Gen.farewellStart

def ErrClass.variants : ErrClass → List String
  | .preparation => Gen.preparationVariants
  | .catchable => Gen.catchableVariants
  | .uncatchable => Gen.uncatchableVariants
  | .farewell => Gen.farewellVariants

/-- `to_error_code` of variant `name` of the enum `c`; `none` if the enum has no such variant -/
def errorCode? (c : ErrClass) (name : String) : Option Int :=
  (indexOf? name c.variants).map (fun i => c.start + i)

/-- `impl ToErrorCode for SigningError` (farewell_step/errors.rs): start + `FarewellError::COUNT` -/
def signingErrorCode : Int := Gen.farewellStart + Gen.farewellVariants.length

/-- the code ranges promised to hosts -/
def inRange (c : ErrClass) (code : Int) : Prop :=
  match c with
  | .preparation => 1 ≤ code ∧ code ≤ 9999
  | .catchable => 10000 ≤ code ∧ code ≤ 19999
  | .uncatchable => 20000 ≤ code ∧ code ≤ 29999
  | .farewell => 30000 ≤ code

instance (c : ErrClass) (code : Int) : Decidable (inRange c code) := by
  cases c <;> unfold inRange <;> exact inferInstance

end Aqua.Run
