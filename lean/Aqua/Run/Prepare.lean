import Aqua.Semver
import Aqua.Codec.MsgPack
import Aqua.Gen.Consts
import Aqua.Run.ErrorCodes
/-
Replica of `preparation_step/preparation.rs`: `parse_data`, `try_to_envelope`, `try_to_data`,
`check_version_compatibility`, and of the serde view of `InterpreterDataEnvelope`
(`#[serde(flatten)] versions`, `#[serde(with = "serde_bytes")] inner_data`) over MessagePack.
The rkyv decoding of the inner data is the parameter `tryToData` (trusted base: rkyv layout).
-/
namespace Aqua.Run
open Aqua.MsgPack

structure Envelope where
  dataVersion : Semver.Version
  interpreterVersion : Semver.Version
  innerData : Bytes
deriving Repr, DecidableEq

/-- bytes → chars for ASCII text (version strings); non-ASCII bytes make the semver parse fail anyway -/
def asciiChars (b : Bytes) : List Char := b.map fun x => Char.ofNat x.toNat

def minVersion : Semver.Version := (Semver.parse Gen.minimalInterpreterVersion.toList).getD ⟨0, 0, 0, [], []⟩
def dataVersion : Semver.Version := (Semver.parse Gen.dataVersion.toList).getD ⟨0, 0, 0, [], []⟩

/-- entries of a map whose key is the string `k` -/
def lookupAll (k : String) (m : List (Val × Val)) : List Val :=
  m.filterMap fun (key, v) => match key with
    | .str s => if s = k.toUTF8.toList then some v else none
    | _ => none

def versionOf : Val → Option Semver.Version
  | .str s => Semver.parse (asciiChars s)
  | _ => none

/-- `serde_bytes` for `Cow<[u8]>`: accepts bin, str and arrays of small integers -/
def bytesOf : Val → Option Bytes
  | .bin b => some b
  | .str s => some s
  | .arr l => l.mapM fun v => match v with
    | .int i => if 0 ≤ i ∧ i < 256 then some (UInt8.ofNat i.toNat) else none
    | _ => none
  | _ => none

/-- the two version fields (`Versions`, also `try_get_versions`) out of a decoded map -/
def versionsOfMap (m : List (Val × Val)) : Option (Semver.Version × Semver.Version) :=
  match lookupAll "version" m, lookupAll "interpreter_version" m with
  | [dv], [iv] => do
    let d ← versionOf dv
    let i ← versionOf iv
    pure (d, i)
  | _, _ => none      -- missing or duplicate field

inductive EnvelopeDecode
  | ok (e : Envelope)
  | failedWithVersions      -- `EnvelopeDeFailedWithVersions`
  | failed                  -- `EnvelopeDeFailed`
deriving Repr, DecidableEq

/-- `InterpreterDataEnvelope::try_from_slice` + `to_envelope_de_error` -/
def decodeEnvelope (raw : Bytes) : EnvelopeDecode :=
  match decodeAll raw with
  | some (.map m, _) =>
    match versionsOfMap m with
    | none => .failed
    | some (d, i) =>
      match lookupAll "inner_data" m with
      | [v] => match bytesOf v with
        | some b => .ok ⟨d, i, b⟩
        | none => .failedWithVersions
      | _ => .failedWithVersions
  | _ => .failed

inductive ParseDataErr
  | envelopeDeFailed
  | envelopeDeFailedWithVersions
  | unsupportedInterpreterVersion (actual : Semver.Version)
  | dataDeFailed
deriving Repr, DecidableEq

def ParseDataErr.variant : ParseDataErr → String
  | .envelopeDeFailed => "EnvelopeDeFailed"
  | .envelopeDeFailedWithVersions => "EnvelopeDeFailedWithVersions"
  | .unsupportedInterpreterVersion _ => "UnsupportedInterpreterVersion"
  | .dataDeFailed => "DataDeFailed"

/-- `try_to_envelope`: the empty slice is the empty data produced by the minimal supported version;
`emptyInner` stands for the serialisation of `InterpreterData::default()` -/
def tryToEnvelope (emptyInner : Bytes) (raw : Bytes) : Except ParseDataErr Envelope :=
  if raw.isEmpty then .ok ⟨dataVersion, minVersion, emptyInner⟩
  else match decodeEnvelope raw with
    | .ok e => .ok e
    | .failedWithVersions => .error .envelopeDeFailedWithVersions
    | .failed => .error .envelopeDeFailed

/-- `check_version_compatibility` -/
def checkVersionCompatibility (e : Envelope) : Except ParseDataErr Unit :=
  if Semver.lt e.interpreterVersion minVersion then .error (.unsupportedInterpreterVersion e.interpreterVersion)
  else .ok ()

/-- `parse_data` -/
def parseData {D : Type} (emptyInner : Bytes) (tryToData : Bytes → Option D) (prev cur : Bytes) :
    Except ParseDataErr (D × D) :=
  match tryToEnvelope emptyInner prev with
  | .error e => .error e
  | .ok pe =>
  match tryToEnvelope emptyInner cur with
  | .error e => .error e
  | .ok ce =>
  match checkVersionCompatibility ce with
  | .error e => .error e
  | .ok () =>
  match tryToData pe.innerData with
  | none => .error .dataDeFailed
  | some p =>
  match tryToData ce.innerData with
  | none => .error .dataDeFailed
  | some c => .ok (p, c)

end Aqua.Run
