import Aqua.Exec.Run
/-
The last step of `execute_air_impl` (`runner.rs`) after the execution stage, as far as the return code
and the message go: `farewell::from_success_result` / `from_execution_error` / `from_uncatchable_error`
(`farewell_step/outcome.rs`).
-/
namespace Aqua.Exec
open Aqua

/-- `from_execution_error(.., error.to_error_code(), error.to_string(), ..)` for an uncaught catchable
error: the run reports the error's positional code and its `Display` text -/
def uncaughtOutcome (e : CatchableErr) : Int × String := (e.code, e.render)

/-- `(ret_code, error_message)` of a run whose execution stage ended with `r` (`none` = the text is not
modelled: `FarewellError::UnprocessedCallResult` prints a hash map, uncatchable errors print trace
errors; the model only fixes their codes) -/
def execOutcome (r : Res ExecErr Unit × Ctx) : Option (Int × String) :=
  match r.1 with
  | .ok () => if r.2.callResults.isEmpty then some (0, "") else none
  | .error (.catchable e) => some (uncaughtOutcome e)
  | _ => none

/-- return code alone -/
def execRetCode (r : Res ExecErr Unit × Ctx) : Option Int :=
  match r.1 with
  | .ok () => some (if r.2.callResults.isEmpty then 0 else 30000)
  | .error (.catchable e) => some (uncaughtOutcome e).1
  | .error (.uncatchable u) => some u.code
  | _ => none

end Aqua.Exec
