import Aqua.Base.Basic
/-
Replica of `air/src/preparation_step/sizes_limits_check.rs` and of the per-call-result check in
`preparation.rs: make_exec_ctx`.  Sizes are byte lengths (`usize as u64`); limits are `u64`.
-/
namespace Aqua.Run

structure Flags where
  air : Bool := false
  particle : Bool := false
  callResult : Bool := false
deriving Repr, DecidableEq, Inhabited

/-- the limit-related fields of `RunParameters` -/
structure Limits where
  airSizeLimit : Nat
  particleSizeLimit : Nat
  callResultSizeLimit : Nat
  hardLimitEnabled : Bool
deriving Repr, DecidableEq, Inhabited

inductive SizeErr
  | air (actual limit : Nat)
  | particle (actual limit : Nat)
  | callResult (limit : Nat)
deriving Repr, DecidableEq

/-- `handle_limit_exceeding`: sets the flag; an error only in hard mode -/
def handleLimitExceeding (l : Limits) (e : SizeErr) : Except SizeErr Bool :=
  if l.hardLimitEnabled then .error e else .ok true

/-- `check_against_size_limits` -/
def checkAgainstSizeLimits (l : Limits) (airLen curLen : Nat) : Except SizeErr Flags :=
  match (if airLen > l.airSizeLimit then handleLimitExceeding l (.air airLen l.airSizeLimit) else .ok false) with
  | .error e => .error e
  | .ok fa =>
    match (if curLen > l.particleSizeLimit then handleLimitExceeding l (.particle curLen l.particleSizeLimit) else .ok false) with
    | .error e => .error e
    | .ok fp => .ok { air := fa, particle := fp, callResult := false }

/-- the call-result part of `make_exec_ctx` -/
def anyExceeds (limit : Nat) (lens : List Nat) : Bool := lens.any (fun n => decide (limit < n))

def checkCallResults (l : Limits) (resultLens : List Nat) : Except SizeErr Bool :=
  if anyExceeds l.callResultSizeLimit resultLens then
    handleLimitExceeding l (.callResult l.callResultSizeLimit)
  else .ok false

end Aqua.Run
