import Aqua.Exec.Run
import Aqua.Run.ExecOutcome
/-!
# A network of peers running one particle: the histories the properties quantify over

The properties about honest executions ("along any honest history …", "for every delivery order …") speak
about what hosts do with the interpreter: a host keeps the data of the last accepted run, feeds it back as
previous data, passes incoming data as current data, hands call requests to its services and the results
back under the ids it was given, and sends the new data to every next peer.  This file fixes that reading
as an executable definition on top of the execution-stage model (`runExecFarewell`), the same reading the
Rust harness implements (`harness/src/sim.rs: Net`):

* `start`: the init peer runs the script on empty data;
* `deliver k dup`: the `k`-th message on the wire reaches its peer (and stays on the wire if `dup`:
  duplicated delivery); the peer runs with its stored data as previous and the message as current data;
* `answer q ids`: the host of `q` hands back the results of the pending requests `ids` (any non-empty
  subset, in one batch: late and batched results); the peer runs with empty current data.

A run that ends in an uncatchable error (or a panic) leaves the stored data, the pending requests and the
wire as they were (the host gets the previous data back, no next peers, no requests: C02).  Signatures and
the preparation stage are not part of this layer (data on the wire are decoded data).

Only definitions here; statements about all reachable states are in `AquaProps/NetLift.lean`.
-/
namespace Aqua.Net
open Aqua Aqua.Exec Aqua.Air Aqua.Data Aqua.Trace Aqua.Json

/-- what the host of a peer answers to a call request -/
abbrev Services := String → CallRequest → CallServiceResult

/-- the particle: script and the parameters every host passes unchanged -/
structure Particle where
  script : Instr
  initPeer : String
  timestamp : Nat := 0
  ttl : Nat := 0

structure PeerSt where
  /-- the data returned by the last run (what the host stores) -/
  data : DataIn := {}
  /-- requests handed to the host by earlier runs and not answered yet -/
  pending : List (Nat × CallRequest) := []

structure Msg where
  dest : String
  data : DataIn

/-- one invocation of the interpreter, as its host sees it -/
structure Run where
  peer : String
  prev : DataIn
  cur : DataIn
  results : List (String × CallServiceResult)
  fuel : Nat
  res : Res ExecErr Unit
  out : Ctx

structure NetSt where
  peers : List (String × PeerSt) := []
  wire : List Msg := []
  /-- every run so far, oldest first -/
  runs : List Run := []

inductive Event where
  | start
  | deliver (k : Nat) (dup : Bool)
  | answer (peer : String) (ids : List Nat)

/-- does the host get new data (success or catchable error) or the previous data back -/
def accepted : Res ExecErr Unit → Bool
  | .ok () => true
  | .error (.catchable _) => true
  | _ => false

/-- the data a run returns to its host -/
def Run.newData (r : Run) : DataIn :=
  if accepted r.res then { trace := r.out.th.keeper.resultTrace, lcid := r.out.lastCallRequestId, cid := r.out.cid }
  else r.prev

/-- the requests a run hands to its host -/
def Run.requests (r : Run) : List (Nat × CallRequest) := if accepted r.res then r.out.callRequests else []

/-- the peers a run asks its host to send the new data to -/
def Run.nextPeers (r : Run) : List String := if accepted r.res then r.out.nextPeerPks else []

def peerSt (st : NetSt) (q : String) : PeerSt := (lookup st.peers q).getD {}

/-- the interpreter invocation of peer `q` on current data `cur` with call results `results` -/
def invoke (env : Env) (P : Particle) (st : NetSt) (q : String) (cur : DataIn) (results : List (String × CallServiceResult)) : Run :=
  let prev := (peerSt st q).data
  let fuel := defaultFuel P.script prev cur
  let r := runExecFarewell env fuel P.script prev cur ⟨P.initPeer, q, P.timestamp, P.ttl⟩ results
  ⟨q, prev, cur, results, fuel, r.1, r.2⟩

/-- what the host does with the outcome of a run -/
def absorb (st : NetSt) (r : Run) : NetSt :=
  let ps := peerSt st r.peer
  let answered := fun (x : Nat × CallRequest) => r.results.any fun kv => kv.1 == toString x.1
  let ps' : PeerSt := { data := r.newData, pending := ps.pending.filter (fun x => !answered x) ++ r.requests }
  { peers := upsert st.peers r.peer ps',
    wire := st.wire ++ r.nextPeers.map (fun q => ⟨q, r.newData⟩),
    runs := st.runs ++ [r] }

def step (env : Env) (svc : Services) (P : Particle) (st : NetSt) : Event → Option NetSt
  | .start => if st.runs.isEmpty then some (absorb st (invoke env P st P.initPeer {} [])) else none
  | .deliver k dup =>
    match st.wire[k]? with
    | none => none
    | some m =>
      let st' : NetSt := if dup then st else { st with wire := st.wire.eraseIdx k }
      some (absorb st' (invoke env P st' m.dest m.data []))
  | .answer q ids =>
    let chosen := (peerSt st q).pending.filter fun x => ids.contains x.1
    if chosen.isEmpty then none
    else some (absorb st (invoke env P st q {} (chosen.map fun x => (toString x.1, svc q x.2))))

/-- the state after a sequence of events (`none`: some event was not enabled) -/
def play (env : Env) (svc : Services) (P : Particle) : NetSt → List Event → Option NetSt
  | st, [] => some st
  | st, e :: es =>
    match step env svc P st e with
    | some st' => play env svc P st' es
    | none => none

/-- the states honest hosts can be in -/
def Reachable (env : Env) (svc : Services) (P : Particle) (st : NetSt) : Prop :=
  ∃ es, play env svc P {} es = some st

/-- nothing left to deliver and nothing left to answer -/
def Quiescent (st : NetSt) : Prop := st.wire = [] ∧ ∀ p ∈ st.peers, p.2.pending = []

/-- the runs of one peer, oldest first -/
def runsOf (st : NetSt) (q : String) : List Run := st.runs.filter fun r => r.peer == q

end Aqua.Net
