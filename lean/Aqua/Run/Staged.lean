import Aqua.Run.Runner
import Aqua.Run.ErrorCodes
/-
`Stages` instantiated from a *reference run*: the stage at which the unlimited, soft-mode run of the
same inputs stopped (identified by its return code), and the sizes of the inputs.  Used by the
correspondence check of C22 / C02: the implementation run under arbitrary limits must equal
`executeAir (stagedStages ref) limits`.
Which stage constructs which `PreparationError` variant is read off `preparation.rs`,
`verification_step.rs` and `runner.rs` (stage order is the order of the `farewell_if_fail!`s).
-/
namespace Aqua.Run

/-- data blobs of a staged replay -/
inductive SBlob
  | prev | cur | refData | empty
deriving Repr, DecidableEq, Inhabited

inductive Stage
  | parseData | verify | parseAir | deCallResults | keypair | exec
deriving Repr, DecidableEq

/-- the stage in which a `PreparationError` variant is produced (`none`: not a stage error) -/
def stageOfPrepVariant : String → Option Stage
  | "DataDeFailed" | "EnvelopeDeFailed" | "EnvelopeDeFailedWithVersions" | "UnsupportedInterpreterVersion" => some .parseData
  | "CidStoreVerificationError" | "DataSignatureCheckError" => some .verify
  | "AIRParseError" => some .parseAir
  | "CallResultsDeFailed" => some .deCallResults
  | "MalformedKeyPairData" => some .keypair
  | _ => none

/-- the reference run: its outcome and the measured sizes -/
structure RefRun where
  code : Int
  msg : String
  nextPeerPks : List String
  callRequests : Bytes
  curLen : Nat
  /-- lengths of the call results when they deserialise -/
  resultLens : List Nat
deriving Repr, Inhabited

def RefRun.failedStage (r : RefRun) : Option Stage :=
  if r.code ≥ Gen.preparationStart ∧ r.code < Gen.catchableStart then
    match Gen.preparationVariants[(r.code - Gen.preparationStart).toNat]? with
    | some v => stageOfPrepVariant v
    | none => none
  else none

def RefRun.err (r : RefRun) : Err := ⟨r.code, r.msg⟩

def stageResult (r : RefRun) (s : Stage) : Except Err Unit :=
  if r.failedStage = some s then .error r.err else .ok ()

/-- `Display for SizeLimitsExceded` (preparation_step/errors.rs) -/
def SizeErr.render : SizeErr → String
  | .air a l => s!"air size: {a} bytes is bigger than the limit allowed: {l} bytes"
  | .particle a l => s!"Current_data particle size: {a} bytes is bigger than the limit allowed: {l} bytes"
  | .callResult l => s!"Call result size is bigger than the limit allowed: {l} bytes"

def sizeLimitsExcededCode : Int := (errorCode? .preparation "SizeLimitsExceded").getD 0

/-- msgpack-multiformat encoding of the empty call-request map: codec varint 0x0201 ‖ `0x80` -/
def emptyCallRequestsBytes : Bytes := [0x81, 0x04, 0x80]

def stagedStages (r : RefRun) : Stages SBlob Unit Unit Unit Unit Unit Unit where
  blob := { len := fun b => match b with | .cur => r.curLen | _ => 0, empty := .empty }
  parseData := fun _ _ => (stageResult r .parseData).map fun _ => ((), ())
  verify := fun _ _ _ => stageResult r .verify
  parseAir := fun _ => stageResult r .parseAir
  deCallResults := fun _ => stageResult r .deCallResults
  resultLens := fun _ => r.resultLens
  keypair := fun _ => stageResult r .keypair
  execute := fun _ _ _ _ _ _ =>
    (if r.code ≥ Gen.uncatchableStart ∧ r.code < Gen.farewellStart then .uncatchable r.err
     else if r.code ≥ Gen.catchableStart ∧ r.code < Gen.uncatchableStart then .catchable r.err
     else .ok, ())
  signProduced := fun x _ _ => .ok x
  leftover := fun _ => if r.code ≥ Gen.farewellStart then some r.err else none
  populate := fun _ _ => .ok { data := .refData, nextPeerPks := r.nextPeerPks, callRequests := r.callRequests }
  sizeErr := fun e => ⟨sizeLimitsExcededCode, e.render⟩
  emptyCallRequests := emptyCallRequestsBytes

def stagedInput (air : String) : RunInput SBlob :=
  { air := air, prev := .prev, cur := .cur, params := default, callResults := [] }

end Aqua.Run
