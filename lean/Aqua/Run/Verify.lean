import Aqua.Base.Basic
/-
Replica of `interpreter-data/src/interpreter_data/verification.rs: DataVerifier::merge`,
`check_cid_multiset_invariant`, `to_count_map`, `is_multisubset`.
A peer's entry is its public key, its signature and the multiset (sorted list) of the CIDs of its
results in the trace.
-/
namespace Aqua.Run

structure PeerInfo where
  publicKey : String
  signature : String
  cids : List String
deriving Repr, DecidableEq, Inhabited

/-- `to_count_map` + lookup with `unwrap_or_default` -/
def countOf (cids : List String) (c : String) : Nat := cids.count c

/-- `is_multisubset(larger, smaller)`: every CID of `smaller` occurs in `larger` at least as often -/
def isMultisubset (larger smaller : List String) : Bool :=
  smaller.all fun c => decide (countOf smaller c ≤ countOf larger c)

/-- the `Occupied` arm of `DataVerifier::merge` for one peer: keep the longer list (ours on a tie),
then `check_cid_multiset_invariant(larger, smaller)` -/
def mergePeer (ours other : PeerInfo) : Except Unit PeerInfo :=
  let larger := if ours.cids.length < other.cids.length then other else ours
  let smaller := if ours.cids.length < other.cids.length then ours else other
  if isMultisubset larger.cids smaller.cids then .ok larger else .error ()

/-- `DataVerifier::merge`: entries keyed by peer id; `error` = `MergeMismatch` -/
def mergeVerifiers (ours other : List (String × PeerInfo)) : Except String (List (String × PeerInfo)) :=
  other.foldlM (init := ours) fun acc (peer, info) =>
    match acc.find? (fun (p, _) => p == peer) with
    | none => .ok (acc ++ [(peer, info)])
    | some (_, mine) =>
      match mergePeer mine info with
      | .ok m => .ok (acc.map fun (p, i) => if p == peer then (p, m) else (p, i))
      | .error () => .error peer

end Aqua.Run
