import Aqua.Run.SizeLimits
/-
Replica of `air/src/runner.rs: execute_air_impl` and `air/src/farewell_step/outcome.rs` as a cascade
of `farewell_if_fail!`.  The stages are fields of `Stages`, so that outcome-shape theorems (C02, C21,
C22) are proved once for every instantiation (no concrete instantiation with the models of the real
stages was built: the harness drives the staged model with the stage results of the real run).
-/
namespace Aqua.Run

/-- `RunParameters` without the four limit fields (C22: the limits never reach the core). -/
structure CoreParams where
  initPeerId : String
  currentPeerId : String
  timestamp : Nat
  ttl : Nat
  keyFormat : Nat
  secretKey : Bytes
  particleId : String
deriving Repr, DecidableEq, Inhabited

/-- `B` is the type of data blobs (`prev_data`, `current_data`, `outcome.data`).  It is a parameter
because the rkyv byte layout of `InterpreterData` is not modelled (trusted base): the concrete model
uses blobs that carry their decoded content; only `len`, `empty` and equality are used here. -/
structure BlobOps (B : Type) where
  len : B → Nat
  empty : B

structure RunInput (B : Type) where
  air : String
  prev : B
  cur : B
  params : CoreParams
  callResults : Bytes
deriving Repr, Inhabited

structure Outcome (B : Type) where
  retCode : Int
  errorMessage : String
  data : B
  nextPeerPks : List String
  callRequests : Bytes
  flags : Flags
deriving Repr, DecidableEq, Inhabited

/-- what `populate_outcome_from_contexts` computes from the contexts -/
structure Produced (B : Type) where
  data : B
  nextPeerPks : List String
  callRequests : Bytes
deriving Repr, DecidableEq, Inhabited

/-- how the execution of the instruction tree ended -/
inductive ExecExit
  | ok
  | catchable (e : Err)
  | uncatchable (e : Err)
deriving Repr, DecidableEq

structure Stages (B D S A C K X : Type) where
  blob : BlobOps B
  /-- `parse_data`: both envelopes, version check, both inner data -/
  parseData : B → B → Except Err (D × D)
  /-- `verification_step::verify` -/
  verify : D → D → String → Except Err S
  /-- `air_parser::parse` mapped to `AIRParseError` -/
  parseAir : String → Except Err A
  /-- `CallResultsRepr.deserialize` mapped to `CallResultsDeFailed` -/
  deCallResults : Bytes → Except Err C
  /-- byte lengths of the `result` strings of the call results -/
  resultLens : C → List Nat
  /-- `KeyFormat::try_from` + `KeyPair::from_secret_key` -/
  keypair : CoreParams → Except Err K
  /-- `ExecutionCtx::new` + `TraceHandler::from_trace` + `air.execute(..)` -/
  execute : A → D → D → C → S → CoreParams → ExecExit × X
  /-- `sign_produced_cids` -/
  signProduced : X → K → String → Except Err X
  /-- `Some e` = `FarewellError::UnprocessedCallResult` when call results are left -/
  leftover : X → Option Err
  /-- compactify + sign + serialize; `error` = the "internal error" exits with empty data -/
  populate : X → K → Except Err (Produced B)
  /-- code and message of `PreparationError::SizeLimitsExceded(_)` -/
  sizeErr : SizeErr → Err
  /-- `CallRequestsRepr.serialize(&CallRequests::new())` -/
  emptyCallRequests : Bytes

variable {B D S A C K X : Type}

/-- `farewell::from_uncatchable_error` -/
def fromUncatchableError (St : Stages B D S A C K X) (prev : B) (e : Err) (f : Flags) : Outcome B :=
  { retCode := e.code, errorMessage := e.msg, data := prev, nextPeerPks := [],
    callRequests := St.emptyCallRequests, flags := f }

/-- `populate_outcome_from_contexts` -/
def populateOutcome (St : Stages B D S A C K X) (x : X) (k : K) (code : Int) (msg : String) (f : Flags) : Outcome B :=
  match St.populate x k with
  | .error e => { retCode := e.code, errorMessage := e.msg, data := St.blob.empty, nextPeerPks := [], callRequests := [], flags := f }
  | .ok p => { retCode := code, errorMessage := msg, data := p.data, nextPeerPks := p.nextPeerPks,
               callRequests := p.callRequests, flags := f }

/-- the part of `execute_air_impl` after `air.execute(..)`: `sign_produced_cids`, then the farewell step -/
def finish (St : Stages B D S A C K X) (prev : B) (kp : K) (flags : Flags) (salt : String)
    (exit : ExecExit) (x : X) : Outcome B :=
  match St.signProduced x kp salt with
  | .error e => fromUncatchableError St prev e flags
  | .ok x =>
  match exit with
  | .ok =>
    match St.leftover x with
    | none => populateOutcome St x kp 0 "" flags
    | some e => populateOutcome St x kp e.code e.msg flags
  | .catchable e => populateOutcome St x kp e.code e.msg flags
  | .uncatchable e => fromUncatchableError St prev e flags

/-- `execute_air` -/
def executeAir (St : Stages B D S A C K X) (limits : Limits) (inp : RunInput B) : Outcome B :=
  -- (the macro is expanded twice in runner.rs; the first expansion reports default flags)
  match checkAgainstSizeLimits limits inp.air.utf8ByteSize (St.blob.len inp.cur) with
  | .error e => fromUncatchableError St inp.prev (St.sizeErr e) {}
  | .ok flags =>
  match St.parseData inp.prev inp.cur with
  | .error e => fromUncatchableError St inp.prev e flags
  | .ok (prevData, curData) =>
  match St.verify prevData curData inp.params.particleId with
  | .error e => fromUncatchableError St inp.prev e flags
  | .ok sigStore =>
  -- prepare
  match St.parseAir inp.air with
  | .error e => fromUncatchableError St inp.prev e flags
  | .ok air =>
  match St.deCallResults inp.callResults with
  | .error e => fromUncatchableError St inp.prev e flags
  | .ok crs =>
  match checkCallResults limits (St.resultLens crs) with
  -- `handle_limit_exceeding` sets the flag through `&mut` before returning the error
  | .error e => fromUncatchableError St inp.prev (St.sizeErr e) { flags with callResult := true }
  | .ok fc =>
  match St.keypair inp.params with
  | .error e => fromUncatchableError St inp.prev e { flags with callResult := fc }
  | .ok kp =>
  let r := St.execute air prevData curData crs sigStore inp.params
  finish St inp.prev kp { flags with callResult := fc } inp.params.particleId r.1 r.2

end Aqua.Run
