import Aqua.Base.Res
import Aqua.Data.ExecutedState
import Aqua.Exec.Types
import Aqua.Run.Verify
import Aqua.Crypto.Cid
import Aqua.Crypto.SigScheme
import Aqua.Gen.Consts
/-!
# The verification step on decoded data

Replica of
* `air/src/verification_step.rs: verify` (`verifyStep`),
* `crates/air-lib/interpreter-data/src/cid_info.rs: CidInfo::verify` + `cid_store.rs` (`CidInfo.verify`),
* `crates/air-lib/interpreter-cid/src/verify.rs: verify_value / verify_raw_value` (`realCidCheck`),
* `crates/air-lib/interpreter-data/src/interpreter_data/verification.rs: DataVerifier::{new, verify}`,
  `collect_peers_cids_from_trace`, `try_push_cid` (the `merge` is in `Aqua.Run.Verify`).

Stores and the signature store are `HashMap`s in the code: here association lists, read with keyed
lookup; where the code iterates a map (and the first error found depends on the iteration order) the
model iterates the list, and the correspondence run lists the entries in the order of the very map
instance the real function is run on.

The hash functions and the signature algorithm are parameters (`VerifyEnv`); `realCidCheck` is the
instance with the executable SHA-256 / BLAKE3 / CID parser of `Aqua.Crypto`.
-/
namespace Aqua.Run
open Aqua Aqua.Data Aqua.Exec Aqua.Crypto

/-! ## errors -/

/-- `CidVerificationError` (`InvalidJson` cannot arise for the stored types) -/
inductive CidVerificationError where
  | valueMismatch (cid : Cid)
  | malformedCid (cid : Cid)
  | unsupportedCidCodec (codec : Nat)
  | unsupportedHashCode (code : Nat)
deriving Repr, DecidableEq, Inhabited

def CidVerificationError.variant : CidVerificationError → String
  | .valueMismatch _ => "ValueMismatch" | .malformedCid _ => "MalformedCid"
  | .unsupportedCidCodec _ => "UnsupportedCidCodec" | .unsupportedHashCode _ => "UnsupportedHashCode"

/-- `CidStoreVerificationError`; `store` names the store whose entry failed -/
inductive CidStoreVerificationError where
  | cidVerificationError (store : String) (e : CidVerificationError)
  | missingReference (source target : String) (targetCid : Cid)
  /-- a value-store entry whose text is not JSON (`verify_raw_value`, added by the repair of the lazy
  `RawValue::get_value` panic) -/
  | malformedValue (cid : Cid)
deriving Repr, DecidableEq, Inhabited

/-- `DataVerifierError` -/
inductive DataVerifierError where
  | malformedKey (key : String)
  | peerIdNotFound (peer : String)
  | signatureMismatch (peer : String) (cids : List Cid)
  | mergeMismatch (peer : String)
  /-- the trace names a CID that no store holds (was `expect("cannot happen in a checked CID store")`) -/
  | cidNotFound (cid : Cid)
deriving Repr, DecidableEq, Inhabited

def DataVerifierError.variant : DataVerifierError → String
  | .malformedKey _ => "MalformedKey" | .peerIdNotFound _ => "PeerIdNotFound"
  | .signatureMismatch .. => "SignatureMismatch" | .mergeMismatch _ => "MergeMismatch"
  | .cidNotFound _ => "CidNotFound"

/-- the two `PreparationError` variants the verification step produces -/
inductive VerificationError where
  | cidStoreVerificationError (e : CidStoreVerificationError)
  | dataSignatureCheckError (e : DataVerifierError)
deriving Repr, DecidableEq, Inhabited

def VerificationError.variant : VerificationError → String
  | .cidStoreVerificationError _ => "CidStoreVerificationError"
  | .dataSignatureCheckError _ => "DataSignatureCheckError"

/-! ## data -/

/-- `CanonCidAggregate` / `CanonResultCidAggregate` / `CidInfo`: the executor model's types (same stores, same JSON renderings —
the bytes hashed into the ids) -/
abbrev CanonCidAggregate := CanonElemAgg
abbrev CanonResultCidAggregate := CanonResultAgg
/-- `CidInfo`: `values` (raw JSON text), `tetraplets`, `canonElements`, `canonResults`, `serviceResults` -/
abbrev CidInfo := CidState

/-- the cryptographic environment of the verification step -/
structure VerifyEnv where
  PK : Type
  Sig : Type
  /-- `PublicKey::validate`: the key decodes and its algorithm is whitelisted -/
  validate : PK → Bool
  /-- `PublicKey::to_peer_id` -/
  toPeerId : PK → String
  /-- `PublicKey::to_string` (base58), for error values and the merged store -/
  keyText : PK → String
  sigText : Sig → String
  /-- `PublicKey::verify` on the serialised salted data -/
  verifySig : PK → Bytes → Sig → Bool
  /-- `verify_value` / `verify_raw_value`: does the CID text name these bytes -/
  cidCheck : Cid → Bytes → Except CidVerificationError Unit
  /-- `serde_json::from_str::<JValue>` succeeds on the text of a value-store entry -/
  isJson : String → Bool := fun _ => true

/-- the parts of `InterpreterData` the verification step reads -/
structure VData (E : VerifyEnv) where
  trace : Trace := []
  cidInfo : CidInfo := {}
  /-- `SignatureStore` -/
  signatures : List (E.PK × E.Sig) := []

/-! ## `verify_value` with the real hash functions -/

/-- `verify_raw_value` / `verify_json_value` on the serialised bytes -/
def realCidCheck (cid : Cid) (bytes : Bytes) : Except CidVerificationError Unit :=
  match parseCid cid with
  | none => .error (.malformedCid cid)
  | some c =>
    if c.codec != Gen.jsonCodec then .error (.unsupportedCidCodec c.codec)
    else if c.hashCode == sha256Code then
      (if sha256 bytes == c.digest then .ok () else .error (.valueMismatch cid))
    else if c.hashCode == blake3Code then
      (if blake3 bytes == c.digest then .ok () else .error (.valueMismatch cid))
    else .error (.unsupportedHashCode c.hashCode)

/-- the tables regenerated from the Rust sources on every run agree with what the model uses: the codec constant of
`interpreter-cid/src/lib.rs`, and every error variant the model can produce is a variant of the Rust enums -/
theorem generated_tables_agree :
    Gen.jsonCodec = Crypto.jsonCodec ∧
    (["MalformedKey", "PeerIdNotFound", "SignatureMismatch", "MergeMismatch", "CidNotFound"].all fun v => Gen.dataVerifierErrorVariants.contains v) = true ∧
    (["CidVerificationError", "MissingReference", "MalformedValue"].all fun v => Gen.cidStoreVerificationErrorVariants.contains v) = true ∧
    (["CidStoreVerificationError", "DataSignatureCheckError"].all fun v => Gen.preparationVariants.contains v) = true := by decide

/-! ## `CidInfo::verify` -/

/-- run a check over every element, first failure wins -/
def allOk {α ε : Type} (f : α → Except ε Unit) : List α → Except ε Unit
  | [] => .ok ()
  | x :: xs =>
    match f x with
    | .ok () => allOk f xs
    | .error e => .error e

/-- `CidStore::verify` / `verify_raw_value`: every key is the CID of its (serialised) value -/
def verifyStore {α : Type} (E : VerifyEnv) (name : String) (ser : α → String) (store : List (Cid × α)) :
    Except CidStoreVerificationError Unit :=
  allOk (fun (p : Cid × α) =>
    match E.cidCheck p.1 (strBytes (ser p.2)) with
    | .ok () => .ok ()
    | .error e => .error (.cidVerificationError name e)) store

/-- `CidStore<RawValue>::verify_raw_value`: every key is the CID of its text, and the text is JSON
(entry by entry: the CID check of an entry comes before its JSON check) -/
def verifyValueStore (E : VerifyEnv) (store : List (Cid × String)) : Except CidStoreVerificationError Unit :=
  allOk (fun (p : Cid × String) =>
    match E.cidCheck p.1 (strBytes p.2) with
    | .error e => .error (.cidVerificationError "value_store" e)
    | .ok () => if E.isJson p.2 then .ok () else .error (.malformedValue p.1)) store

/-- `CidStore::check_reference` -/
def checkReference {α : Type} (store : List (Cid × α)) (source target : String) (targetCid : Cid) :
    Except CidStoreVerificationError Unit :=
  match lookup store targetCid with
  | some _ => .ok ()
  | none => .error (.missingReference source target targetCid)

def andThen {ε : Type} (a : Except ε Unit) (b : Except ε Unit) : Except ε Unit :=
  match a with
  | .ok () => b
  | .error e => .error e

/-- `verify_canon_result_store` -/
def CidInfo.verifyCanonResultStore (E : VerifyEnv) (ci : CidInfo) : Except CidStoreVerificationError Unit :=
  andThen (verifyStore E "canon_element_store" CanonElemAgg.json ci.canonElements) <|
  andThen (verifyStore E "canon_result_store" CanonResultAgg.json ci.canonResults) <|
  andThen (allOk (fun (p : Cid × CanonResultCidAggregate) =>
      andThen (allOk (fun v => checkReference ci.canonElements "CanonResultCidAggregate" "CanonCidAggregate" v) p.2.values)
        (checkReference ci.tetraplets "CanonResultCidAggregate" "SecurityTetraplet" p.2.tetraplet))
    ci.canonResults) <|
  allOk (fun (p : Cid × CanonCidAggregate) =>
      andThen (checkReference ci.tetraplets "CanonCidAggregate" "SecurityTetraplet" p.2.tetraplet) <|
      andThen (checkReference ci.values "CanonCidAggregate" "RawValue" p.2.value) <|
      match p.2.provenance with
      | .literal => .ok ()
      | .serviceResult cid => checkReference ci.serviceResults "CanonCidAggregate" "ServiceResultCidAggregate" cid
      | .canon cid => checkReference ci.canonResults "CanonCidAggregate" "CanonResultCidAggregate" cid)
    ci.canonElements

/-- `verify_service_result_store` -/
def CidInfo.verifyServiceResultStore (E : VerifyEnv) (ci : CidInfo) : Except CidStoreVerificationError Unit :=
  andThen (verifyStore E "service_result_store" ServiceResultAgg.json ci.serviceResults) <|
  allOk (fun (p : Cid × ServiceResultAgg) =>
      andThen (checkReference ci.tetraplets "ServiceResultCidAggregate" "SecurityTetraplet" p.2.tetrapletCid)
        (checkReference ci.values "ServiceResultCidAggregate" "RawValue" p.2.valueCid))
    ci.serviceResults

/-- `CidInfo::verify` -/
def CidInfo.verify (E : VerifyEnv) (ci : CidInfo) : Except CidStoreVerificationError Unit :=
  andThen (verifyValueStore E ci.values) <|
  andThen (verifyStore E "tetraplet_store" Tetraplet.json ci.tetraplets) <|
  andThen (ci.verifyCanonResultStore E) <|
  ci.verifyServiceResultStore E

/-! ## `DataVerifier` -/

/-- `PeerInfo<'data>` of verification.rs -/
structure PeerInfoV (E : VerifyEnv) where
  publicKey : E.PK
  signature : E.Sig
  cids : List Cid

/-- `grouped_cids`: peer id ↦ its key, signature and CIDs -/
abbrev Grouped (E : VerifyEnv) := List (String × PeerInfoV E)

abbrev VR := Res DataVerifierError

/-- `try_push_cid` -/
def tryPushCid {E : VerifyEnv} (g : Grouped E) (peerPk : String) (cid : Cid) : VR (Grouped E) :=
  if g.any (fun p => p.1 == peerPk) then
    .ok (g.map fun p => if p.1 == peerPk then (p.1, { p.2 with cids := p.2.cids ++ [cid] }) else p)
  else .error (.peerIdNotFound peerPk)

/-- the body of the loop of `collect_peers_cids_from_trace` up to `try_push_cid`: which peer a trace
state is attributed to and under which CID (`none`: the state carries no signed result) -/
def stateContribution (ci : CidInfo) : ExecutedState → VR (Option (String × Cid))
  | .call c =>
    match c.getCid with
    | none => .ok none
    | some cid =>
      match lookup ci.serviceResults cid with
      | none => .error (.cidNotFound cid)
      | some sr =>
        match lookup ci.tetraplets sr.tetrapletCid with
        | none => .error (.cidNotFound sr.tetrapletCid)
        | some t => .ok (some (t.peerPk, cid))
  | .canon (.executed cid) =>
    match lookup ci.canonResults cid with
    | none => .error (.cidNotFound cid)
    | some cr =>
      match lookup ci.tetraplets cr.tetraplet with
      | none => .error (.cidNotFound cr.tetraplet)
      | some t => .ok (some (t.peerPk, cid))
  | _ => .ok none

/-- `collect_peers_cids_from_trace` -/
def collectPeersCidsFromTrace {E : VerifyEnv} (ci : CidInfo) : Trace → Grouped E → VR (Grouped E)
  | [], g => .ok g
  | st :: rest, g =>
    match stateContribution ci st with
    | .ok none => collectPeersCidsFromTrace ci rest g
    | .ok (some (peer, cid)) =>
      match tryPushCid g peer cid with
      | .ok g' => collectPeersCidsFromTrace ci rest g'
      | .error e => .error e
      | .panic s => .panic s
    | .error e => .error e
    | .panic s => .panic s

/-- `cids.sort_unstable()` on `Vec<Rc<str>>` (byte order of UTF-8 = code point order) -/
def sortCids (cids : List Cid) : List Cid := cids.mergeSort (fun a b => decide (a ≤ b))

/-- the `HashMap` collected from the signature store: peer id ↦ `PeerInfo::new(pk, sig)` -/
def initialGroups {E : VerifyEnv} (sigs : List (E.PK × E.Sig)) : Grouped E :=
  sigs.foldl (fun acc p => upsert acc (E.toPeerId p.1) (⟨p.1, p.2, []⟩ : PeerInfoV E)) []

/-- `DataVerifier::new` -/
def DataVerifier.new (E : VerifyEnv) (d : VData E) : VR (Grouped E) :=
  match d.signatures.find? (fun p => !E.validate p.1) with
  | some p => .error (.malformedKey (E.keyText p.1))
  | none =>
    match collectPeersCidsFromTrace d.cidInfo d.trace (initialGroups d.signatures) with
    | .ok g => .ok (g.map fun p => (p.1, { p.2 with cids := sortCids p.2.cids }))
    | .error e => .error e
    | .panic s => .panic s

def siteBorsh : String := "interpreter-signatures/lib.rs:SaltedData::serialize:expect(borsh serializer shouldn't fail)"

/-- `DataVerifier::verify`: every peer of the signature store — also one without any CID in the
trace — must have signed its (sorted) CID list salted with the particle id -/
def DataVerifier.verify (E : VerifyEnv) (salt : String) : Grouped E → VR Unit
  | [] => .ok ()
  | p :: rest =>
    match saltedData p.2.cids salt with
    | none => .panic siteBorsh
    | some m =>
      if E.verifySig p.2.publicKey m p.2.signature then DataVerifier.verify E salt rest
      else .error (.signatureMismatch p.1 p.2.cids)

/-- the checks of the verification step that concern the current data alone -/
def verifyData (E : VerifyEnv) (cur : VData E) (salt : String) : Res VerificationError Unit :=
  match cur.cidInfo.verify E with
  | .error e => .error (.cidStoreVerificationError e)
  | .ok () =>
    match DataVerifier.new E cur with
    | .error e => .error (.dataSignatureCheckError e)
    | .panic s => .panic s
    | .ok g => (DataVerifier.verify E salt g).mapErr .dataSignatureCheckError

def toPeerInfo {E : VerifyEnv} (p : String × PeerInfoV E) : String × PeerInfo :=
  (p.1, { publicKey := E.keyText p.2.publicKey, signature := E.sigText p.2.signature, cids := p.2.cids })

/-- `verification_step::verify(prev_data, current_data, salt)`: the merged signature store as
(peer id, key, signature) entries -/
def verifyStep (E : VerifyEnv) (prev cur : VData E) (salt : String) : Res VerificationError (List (String × PeerInfo)) :=
  match cur.cidInfo.verify E with
  | .error e => .error (.cidStoreVerificationError e)
  | .ok () =>
    match DataVerifier.new E prev with
    | .error e => .error (.dataSignatureCheckError e)
    | .panic s => .panic s
    | .ok pv =>
      match DataVerifier.new E cur with
      | .error e => .error (.dataSignatureCheckError e)
      | .panic s => .panic s
      | .ok cv =>
        match DataVerifier.verify E salt cv with
        | .error e => .error (.dataSignatureCheckError e)
        | .panic s => .panic s
        | .ok () =>
          match mergeVerifiers (pv.map toPeerInfo) (cv.map toPeerInfo) with
          | .ok merged => .ok merged
          | .error peer => .error (.dataSignatureCheckError (.mergeMismatch peer))

/-! ## what the theorems talk about -/

/-- the CIDs of the trace states attributed (through the stores) to peer `q`, in trace order -/
def peerCids (ci : CidInfo) (trace : Trace) (q : String) : List Cid :=
  trace.filterMap fun st =>
    match stateContribution ci st with
    | .ok (some (p, cid)) => if p == q then some cid else none
    | _ => none

/-- the environment built from a symbolic signature scheme -/
def VerifyEnv.ofScheme (S : SigScheme) (validate : S.PublicKey → Bool) (toPeerId keyText : S.PublicKey → String)
    (sigText : S.Sig → String) (cidCheck : Cid → Bytes → Except CidVerificationError Unit) : VerifyEnv :=
  { PK := S.PublicKey, Sig := S.Sig, validate := validate, toPeerId := toPeerId, keyText := keyText, sigText := sigText,
    verifySig := S.verify, cidCheck := cidCheck }

end Aqua.Run
