import Aqua.Base.Basic
/-
Replica of the `unsigned-varint` crate (0.8.0) as used by `interpreter-sede/src/multiformat.rs`:
`encode::u32` (macro `encode!` over a 5-byte buffer) and `decode::u32` (macro `decode!` with
`max_bytes = 4`).

`decode!`:
```
let mut n = 0;
for (i, b) in buf.iter().cloned().enumerate() {
    let k = u32::from(b & 0x7F);
    n |= k << (i * 7);                       // u32 shift: bits above bit 31 are LOST (no check)
    if is_last(b) {
        if b == 0 && i > 0 { return Err(NotMinimal) }
        return Ok((n, &buf[i + 1..]));
    }
    if i == max_bytes { return Err(Overflow) }
}
Err(Insufficient)
```
-/
namespace Aqua.Varint

inductive Error
  | insufficient
  | overflow
  | notMinimal
deriving Repr, DecidableEq

def Error.name : Error → String
  | .insufficient => "Insufficient"
  | .overflow => "Overflow"
  | .notMinimal => "NotMinimal"

/-- body of `encode!`: one buffer cell per unit of `fuel` (the buffer has `U32_LEN = 5` cells).
`*b = n as u8 | 0x80; n >>= 7; if n == 0 { *b &= 0x7f; break }` -/
def encodeGo : Nat → Nat → Bytes
  | 0, _ => []          -- buffer exhausted (`debug_assert_eq!(n, 0)`; unreachable for a `u32`)
  | fuel + 1, n =>
    if n / 128 = 0 then [UInt8.ofNat (n % 128)]
    else UInt8.ofNat (n % 128 + 128) :: encodeGo fuel (n / 128)

/-- `unsigned_varint::encode::u32` -/
def encodeU32 (n : Nat) : Bytes := encodeGo 5 n

/-- loop of `decode!` for `u32`; `i` = index of the byte, `n` = accumulator -/
def decodeGo (maxBytes : Nat) : Nat → Nat → Bytes → Except Error (Nat × Bytes)
  | _, _, [] => .error .insufficient
  | i, n, b :: rest =>
    let k := b.toNat % 128
    let n' := (n ||| (k <<< (i * 7))) % 2 ^ 32
    if b.toNat < 128 then
      if b.toNat = 0 ∧ i > 0 then .error .notMinimal else .ok (n', rest)
    else if i = maxBytes then .error .overflow
    else decodeGo maxBytes (i + 1) n' rest

/-- `unsigned_varint::decode::u32` -/
def decodeU32 (buf : Bytes) : Except Error (Nat × Bytes) := decodeGo 4 0 0 buf

end Aqua.Varint
