import Aqua.Codec.Varint
import Aqua.Codec.MsgPack
import Aqua.Gen.Codec
import Aqua.Semver
/-
Replica of the (de)serialisation layer between interpreter and host:

* `interpreter-sede/src/multiformat.rs` — `encode_multiformat`, `decode_multiformat`
* `interpreter-sede/src/rmp_serde.rs` — `RmpSerdeFormat` (`rmp_serde::to_vec_named` / `from_slice`),
  `RmpSerdeMultiformat` (codec `MULTIFORMAT_MSGPCK`)
* `interpreter-interface/src/call_request_parameters.rs` — `CallRequests = HashMap<u32, CallRequestParams>`
  (`CallRequestsRepr`: msgpack multiformat), `CallArgumentsRepr` / `TetrapletsRepr` (plain msgpack blobs)
* `interpreter-interface/src/call_service_result.rs` — `CallResults = HashMap<String, CallServiceResult>`
* `interpreter-data/src/interpreter_data.rs` — `InterpreterDataEnvelope` (`#[serde(flatten)] versions`,
  `serde_bytes` inner data), `Versions`, `try_get_versions`
* what `serde` derive + `rmp_serde` 1.1.2 accept for these types (struct as map with names / field indices or as
  array, unknown fields skipped, duplicate and missing fields rejected, depth limit 1024, trailing bytes ignored).

The decoders work on the value algebra of `Aqua.MsgPack` (bytes ↦ `Val` ↦ typed value); `rmp_serde` is a
streaming decoder, but it accepts exactly when the whole value parses and the typed reading of the parsed
value succeeds.  Not kept by the value algebra: which marker an integer was written with (serde field
identifiers take an index only from an *unsigned* marker) — see `AquaDrv/C27Ops.lean`, `unmodelled`.
-/
namespace Aqua.Sede
open Aqua.MsgPack

/-! ## multiformat.rs -/

inductive DecodeError
  | format                      -- `DecodeError::Format(_)`: the payload decoder failed
  | codec (c : Nat)             -- `DecodeError::Codec(data_codec)`
  | varint (e : Varint.Error)   -- `DecodeError::VarInt(_)`
deriving Repr, DecidableEq

/-- `encode_multiformat` / `write_multiformat`: varint codec, then the payload -/
def encodeMultiformat (codec : Nat) (payload : Bytes) : Bytes := Varint.encodeU32 codec ++ payload

/-- `decode_multiformat` -/
def decodeMultiformat {α : Type} (expectedCodec : Nat) (fromSlice : Bytes → Option α) (data : Bytes) :
    Except DecodeError α :=
  match Varint.decodeU32 data with
  | .error e => .error (.varint e)
  | .ok (dataCodec, rest) =>
    if dataCodec ≠ expectedCodec then .error (.codec dataCodec)
    else match fromSlice rest with
      | some v => .ok v
      | none => .error .format

/-! ## rmp_serde::from_slice on the value algebra -/

mutual
/-- nesting of arrays, maps and ext values (`depth_count!`) -/
def depth : Val → Nat
  | .arr l => 1 + depthList l
  | .map l => 1 + depthPairs l
  | .ext _ _ => 1
  | _ => 0
def depthList : List Val → Nat
  | [] => 0
  | v :: vs => max (depth v) (depthList vs)
def depthPairs : List (Val × Val) → Nat
  | [] => 0
  | (k, v) :: kvs => max (max (depth k) (depth v)) (depthPairs kvs)
end

/-- `Deserializer::depth`: the counter starts at 1024 and must stay positive -/
def maxDepth : Nat := 1024

/-- the value at the front of the buffer (trailing bytes are ignored by `from_slice`) -/
def rmpParse (b : Bytes) : Option Val :=
  match decodeAll b with
  | some (v, _) => if depth v < maxDepth then some v else none
  | none => none

/-- `rmp_serde::to_vec_named` of a value already laid out in the algebra -/
def rmpWrite (v : Val) : Bytes := encode v

/-! ## serde primitives -/

def bytesToString (b : Bytes) : Option String := String.fromUTF8? (ByteArray.mk b.toArray)
def strBytes (s : String) : Bytes := s.toUTF8.data.toList

/-- `String`: `StringVisitor` takes `visit_str` and `visit_bytes` (valid UTF-8); rmp hands a str with
invalid UTF-8 over as bytes -/
def deString : Val → Option String
  | .str b => bytesToString b
  | .bin b => bytesToString b
  | _ => none

/-- visitors that only implement `visit_str` (`semver::Version`, `serde_json` strings and keys) -/
def deStrOnly : Val → Option String
  | .str b => bytesToString b
  | _ => none

def deVersion (v : Val) : Option Semver.Version := (deStrOnly v).bind fun s => Semver.parse s.toList

def deU32 : Val → Option Nat
  | .int i => if 0 ≤ i ∧ i < 2 ^ 32 then some i.toNat else none
  | _ => none

def deI32 : Val → Option Int
  | .int i => if -(2 ^ 31) ≤ i ∧ i < 2 ^ 31 then some i else none
  | _ => none

def deU8 : Val → Option UInt8
  | .int i => if 0 ≤ i ∧ i < 256 then some (UInt8.ofNat i.toNat) else none
  | _ => none

/-- `serde_bytes` (`Vec<u8>`, `Cow<[u8]>`): bin, str, or a sequence of `u8` -/
def deByteBuf : Val → Option Bytes
  | .bin b => some b
  | .str s => some s
  | .arr l => l.mapM deU8
  | _ => none

/-- `Vec<T>`: `visit_seq` only -/
def deVec {α : Type} (f : Val → Option α) : Val → Option (List α)
  | .arr l => l.mapM f
  | _ => none

/-! ### derived structs -/

inductive FieldKey
  | idx (i : Nat)
  | ignore
deriving Repr, DecidableEq

/-- derived `__FieldVisitor`: `visit_str` / `visit_bytes` by name, `visit_u64` by index, everything else is an
invalid type; unknown names and indices are skipped -/
def deFieldKey (fields : List Bytes) : Val → Option FieldKey
  | .str b => some (match indexOf? b fields with | some i => .idx i | none => .ignore)
  | .bin b => some (match indexOf? b fields with | some i => .idx i | none => .ignore)
  | .int i => if i < 0 then none else some (if i.toNat < fields.length then .idx i.toNat else .ignore)
  | _ => none

/-- `visit_map` of a derived struct: the value of each field, `none` for duplicates / bad keys -/
def collectFields (fields : List Bytes) : List (Val × Val) → List (Option Val) → Option (List (Option Val))
  | [], acc => some acc
  | (k, v) :: rest, acc =>
    match deFieldKey fields k with
    | none => none
    | some .ignore => collectFields fields rest acc
    | some (.idx i) =>
      match acc[i]? with
      | some none => collectFields fields rest (acc.set i (some v))
      | _ => none      -- duplicate field

/-- a derived struct without defaults: from a map (every field exactly once) or from an array of exactly the
fields (`visit_seq`; rmp reports left-over elements as `LengthMismatch`) -/
def deStruct (fields : List Bytes) : Val → Option (List Val)
  | .map m => (collectFields fields m (List.replicate fields.length none)).bind fun acc => acc.mapM id
  | .arr l => if l.length = fields.length then some l else none
  | _ => none

/-- `to_vec_named`: a struct is a map from the field names (str) to the field values -/
def structVal (fields : List Bytes) (vals : List Val) : Val :=
  .map ((fields.zip vals).map fun (f, v) => (.str f, v))

/-! ### `HashMap<K, V>` as an association list -/

/-- `HashMap::insert`: replace the value of an existing key, else add the entry -/
def insertKV {κ β : Type} [BEq κ] (k : κ) (v : β) : List (κ × β) → List (κ × β)
  | [] => [(k, v)]
  | (k', v') :: rest => if k' == k then (k, v) :: rest else (k', v') :: insertKV k v rest

def deEntries {κ β : Type} [BEq κ] (deK : Val → Option κ) (deV : Val → Option β) :
    List (Val × Val) → List (κ × β) → Option (List (κ × β))
  | [], acc => some acc
  | (k, v) :: rest, acc =>
    match deK k, deV v with
    | some k', some v' => deEntries deK deV rest (insertKV k' v' acc)
    | _, _ => none

/-- `HashMap<K, V>::deserialize`: `visit_map` only -/
def deHashMap {κ β : Type} [BEq κ] (deK : Val → Option κ) (deV : Val → Option β) : Val → Option (List (κ × β))
  | .map m => deEntries deK deV m []
  | _ => none

/-! ## call requests -/

structure CallRequestParams where
  serviceId : String
  functionName : String
  arguments : Bytes      -- `SerializedCallArguments`: msgpack of `Vec<JValue>`
  tetraplets : Bytes     -- `SerializedTetraplets`: msgpack of `Vec<Vec<SecurityTetraplet>>`
deriving Repr, DecidableEq

def CallRequestParams.toVal (p : CallRequestParams) : Val :=
  structVal Gen.callRequestParamsFieldBytes
    [.str (strBytes p.serviceId), .str (strBytes p.functionName), .bin p.arguments, .bin p.tetraplets]

def deCallRequestParams (v : Val) : Option CallRequestParams :=
  match deStruct Gen.callRequestParamsFieldBytes v with
  | some [a, b, c, d] => do
    let s ← deString a
    let f ← deString b
    let args ← deByteBuf c
    let tets ← deByteBuf d
    pure ⟨s, f, args, tets⟩
  | _ => none

abbrev CallRequests := List (Nat × CallRequestParams)

def CallRequests.toVal (m : CallRequests) : Val := .map (m.map fun (id, p) => (.int id, p.toVal))

/-- `CallRequestsRepr.serialize` (`RmpSerdeMultiformat::to_vec`); the list is the iteration order of the map -/
def encodeCallRequests (m : CallRequests) : Bytes :=
  encodeMultiformat Gen.multiformatMsgpack (rmpWrite (CallRequests.toVal m))

def callRequestsFromSlice (b : Bytes) : Option CallRequests :=
  (rmpParse b).bind (deHashMap deU32 deCallRequestParams)

/-- `CallRequestsRepr.deserialize` (`RmpSerdeMultiformat::from_slice`) -/
def decodeCallRequests (b : Bytes) : Except DecodeError CallRequests :=
  decodeMultiformat Gen.multiformatMsgpack callRequestsFromSlice b

/-! ## call results -/

structure CallServiceResult where
  retCode : Int          -- i32
  result : String
deriving Repr, DecidableEq

def CallServiceResult.toVal (r : CallServiceResult) : Val :=
  structVal Gen.callServiceResultFieldBytes [.int r.retCode, .str (strBytes r.result)]

def deCallServiceResult (v : Val) : Option CallServiceResult :=
  match deStruct Gen.callServiceResultFieldBytes v with
  | some [a, b] => do
    let c ← deI32 a
    let r ← deString b
    pure ⟨c, r⟩
  | _ => none

abbrev CallResults := List (String × CallServiceResult)

def CallResults.toVal (m : CallResults) : Val := .map (m.map fun (k, r) => (.str (strBytes k), r.toVal))

def encodeCallResults (m : CallResults) : Bytes :=
  encodeMultiformat Gen.multiformatMsgpack (rmpWrite (CallResults.toVal m))

def callResultsFromSlice (b : Bytes) : Option CallResults :=
  (rmpParse b).bind (deHashMap deString deCallServiceResult)

def decodeCallResults (b : Bytes) : Except DecodeError CallResults :=
  decodeMultiformat Gen.multiformatMsgpack callResultsFromSlice b

/-! ## call arguments: `Vec<JValue>` as plain msgpack -/

/-- `serde_json::Value` / `air_interpreter_value::JValue` with floats as `f64` bit patterns; objects are
`BTreeMap`s: association lists sorted by key -/
inductive JArg where
  | null
  | bool (b : Bool)
  | num (i : Int)            -- `PosInt` / `NegInt`
  | f64 (bits : Nat)         -- `Float`, always finite
  | str (s : String)
  | arr (l : List JArg)
  | obj (kvs : List (String × JArg))
deriving Repr, Inhabited

mutual
/-- `JValue::serialize` through `rmp_serde` -/
def JArg.toVal : JArg → Val
  | .null => .nil
  | .bool b => .bool b
  | .num i => .int i
  | .f64 b => .f64 b
  | .str s => .str (strBytes s)
  | .arr l => .arr (JArg.toValList l)
  | .obj kvs => .map (JArg.toValPairs kvs)
def JArg.toValList : List JArg → List Val
  | [] => []
  | a :: as => a.toVal :: JArg.toValList as
def JArg.toValPairs : List (String × JArg) → List (Val × Val)
  | [] => []
  | (k, a) :: kvs => (.str (strBytes k), a.toVal) :: JArg.toValPairs kvs
end

/-- `BTreeMap::insert` on a sorted association list -/
def insertSorted (k : String) (v : JArg) : List (String × JArg) → List (String × JArg)
  | [] => [(k, v)]
  | (k', v') :: rest =>
    if k = k' then (k, v) :: rest
    else if k < k' then (k, v) :: (k', v') :: rest
    else (k', v') :: insertSorted k v rest

def f64Finite (bits : Nat) : Bool := (bits / 2 ^ 52) % 2048 != 2047

/-- `f32 as f64` on bit patterns; `none` for infinities and NaNs -/
def f32ToF64 (bits : Nat) : Option Nat :=
  let s := (bits / 2 ^ 31) % 2
  let e := (bits / 2 ^ 23) % 256
  let m := bits % 2 ^ 23
  if e = 255 then none
  else if e = 0 then
    if m = 0 then some (s * 2 ^ 63)
    else
      let k := Nat.log2 m      -- m = 2^k + r, value = m * 2^-149
      some (s * 2 ^ 63 + (k + 874) * 2 ^ 52 + (m - 2 ^ k) * 2 ^ (52 - k))
  else some (s * 2 ^ 63 + (e + 896) * 2 ^ 52 + m * 2 ^ 29)

mutual
/-- `ValueVisitor` of `serde_json::Value` / `JValue` fed by `rmp_serde` -/
def JArg.ofVal : Val → Option JArg
  | .nil => some .null
  | .bool b => some (.bool b)
  | .int i => some (.num i)
  | .f64 b => some (if f64Finite b then .f64 b else .null)      -- `Number::from_f64(..).map_or(Null, Number)`
  | .f32 b => some (match f32ToF64 b with | some d => .f64 d | none => .null)
  | .str b => (bytesToString b).map .str
  | .bin _ => none
  | .ext _ _ => none
  | .arr l => (JArg.ofValList l).map .arr
  | .map kvs => (JArg.ofValPairs kvs []).map .obj
def JArg.ofValList : List Val → Option (List JArg)
  | [] => some []
  | v :: vs =>
    match JArg.ofVal v with
    | none => none
    | some a => (JArg.ofValList vs).map (a :: ·)
def JArg.ofValPairs : List (Val × Val) → List (String × JArg) → Option (List (String × JArg))
  | [], acc => some acc
  | (k, v) :: kvs, acc =>
    match deStrOnly k with
    | none => none
    | some key =>
      match JArg.ofVal v with
      | none => none
      | some a => JArg.ofValPairs kvs (insertSorted key a acc)
end

/-- `CallArgumentsRepr.serialize` (`RmpSerdeFormat::to_vec`, no multiformat prefix) -/
def encodeCallArguments (args : List JArg) : Bytes := rmpWrite (.arr (JArg.toValList args))

/-- `CallArgumentsRepr.deserialize` -/
def decodeCallArguments (b : Bytes) : Option (List JArg) :=
  (rmpParse b).bind fun v => match v with
    | .arr l => JArg.ofValList l
    | _ => none

/-! ## tetraplets: `Vec<Vec<SecurityTetraplet>>` as plain msgpack -/

structure Tetraplet where
  peerPk : String
  serviceId : String
  functionName : String
  lens : String
deriving Repr, DecidableEq

def Tetraplet.toVal (t : Tetraplet) : Val :=
  structVal Gen.securityTetrapletFieldBytes
    [.str (strBytes t.peerPk), .str (strBytes t.serviceId), .str (strBytes t.functionName), .str (strBytes t.lens)]

def deTetraplet (v : Val) : Option Tetraplet :=
  match deStruct Gen.securityTetrapletFieldBytes v with
  | some [a, b, c, d] => do
    let p ← deString a
    let s ← deString b
    let f ← deString c
    let l ← deString d
    pure ⟨p, s, f, l⟩
  | _ => none

def encodeTetraplets (ts : List (List Tetraplet)) : Bytes :=
  rmpWrite (.arr (ts.map fun row => .arr (row.map Tetraplet.toVal)))

def decodeTetraplets (b : Bytes) : Option (List (List Tetraplet)) :=
  (rmpParse b).bind (deVec (deVec deTetraplet))

/-! ## the data envelope -/

/-- `Versions` as they travel: the `Display` text of the two `semver::Version`s -/
structure VersionTexts where
  dataVersion : String            -- key `version`
  interpreterVersion : String     -- key `interpreter_version`
deriving Repr, DecidableEq

structure Versions where
  dataVersion : Semver.Version
  interpreterVersion : Semver.Version
deriving Repr, DecidableEq

/-- `InterpreterDataEnvelope::serialize` (`rmp_serde::to_vec_named`): the flattened struct is written as one
map: the fields of `Versions`, then `inner_data` as bin -/
def envelopeVal (v : VersionTexts) (inner : Bytes) : Val :=
  structVal (Gen.versionsFieldBytes ++ Gen.envelopeFieldBytes)
    [.str (strBytes v.dataVersion), .str (strBytes v.interpreterVersion), .bin inner]

def encodeEnvelope (v : VersionTexts) (inner : Bytes) : Bytes := rmpWrite (envelopeVal v inner)

/-- keys of a struct with a flattened member are buffered as `Content`: any scalar is fine, sequences, maps and
ext values are invalid types -/
def contentKeyOk : Val → Bool
  | .arr _ => false
  | .map _ => false
  | .ext _ _ => false
  | _ => true

/-- `Content::as_str` compared with a field name -/
def keyIs (name : Bytes) : Val → Bool
  | .str b => b == name
  | .bin b => b == name
  | _ => false

def valuesOf (name : Bytes) (m : List (Val × Val)) : List Val :=
  m.filterMap fun (k, v) => if keyIs name k then some v else none

/-- `Versions` out of the buffered entries (`FlatMapDeserializer` → `FlatStructAccess`) -/
def deVersionsFlat (m : List (Val × Val)) : Option Versions :=
  match Gen.versionsFieldBytes with
  | [dvName, ivName] =>
    match valuesOf dvName m, valuesOf ivName m with
    | [dv], [iv] => do
      let d ← deVersion dv
      let i ← deVersion iv
      pure ⟨d, i⟩
    | _, _ => none
  | _ => none

/-- `InterpreterDataEnvelope::try_from_slice` -/
def decodeEnvelope (raw : Bytes) : Option (Versions × Bytes) :=
  match rmpParse raw with
  | some (.map m) =>
    if m.all (fun (k, _) => contentKeyOk k) then
      match Gen.envelopeFieldBytes with
      | [innerName] =>
        match valuesOf innerName m with
        | [iv] => do
          let inner ← deByteBuf iv
          let vs ← deVersionsFlat (m.filter fun (k, _) => !keyIs innerName k)
          pure (vs, inner)
        | _ => none
      | _ => none
    else none
  | _ => none

/-- `InterpreterDataEnvelope::try_get_versions`: `Versions` (an ordinary derived struct) read from the whole
envelope; `inner_data` is an unknown field and skipped unread -/
def decodeVersions (raw : Bytes) : Option Versions :=
  (rmpParse raw).bind fun v =>
    match deStruct Gen.versionsFieldBytes v with
    | some [dv, iv] => do
      let d ← deVersion dv
      let i ← deVersion iv
      pure ⟨d, i⟩
    | _ => none

/-! ## `InterpreterData` (rkyv): abstract codec -/

/-- `InterpreterData::serialize` / `try_from_slice`: the rkyv archive layout is not modelled -/
structure Codec (α : Type) where
  serialize : α → Bytes
  tryFromSlice : Bytes → Option α

def Codec.RoundTrips {α : Type} (c : Codec α) : Prop := ∀ x, c.tryFromSlice (c.serialize x) = some x

/-- `InterpreterDataEnvelope::from_execution_result(..).serialize()` -/
def encodeData {α : Type} (c : Codec α) (v : VersionTexts) (d : α) : Bytes := encodeEnvelope v (c.serialize d)

/-- `try_to_envelope` then `try_to_data` -/
def decodeData {α : Type} (c : Codec α) (raw : Bytes) : Option (Versions × α) :=
  (decodeEnvelope raw).bind fun (vs, inner) => (c.tryFromSlice inner).map fun d => (vs, d)

end Aqua.Sede
