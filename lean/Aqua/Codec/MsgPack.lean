import Aqua.Base.Basic
/-
MessagePack value algebra with the encoder of `rmp` 0.8 / `rmp-serde` 1.1 (every integer, string,
binary, array and map header in its smallest form) and a decoder accepting every format of the
specification.  Used for the data envelope, call requests and call results (interpreter-sede,
interpreter-interface).
-/
namespace Aqua.MsgPack

inductive Val
  | nil
  | bool (b : Bool)
  | int (i : Int)                 -- -2^63 ≤ i < 2^64
  | f32 (bits : Nat)
  | f64 (bits : Nat)
  | str (s : Bytes)               -- UTF-8 bytes
  | bin (b : Bytes)
  | arr (l : List Val)
  | map (l : List (Val × Val))
  | ext (ty : Nat) (data : Bytes)
deriving Repr, Inhabited

/-- big-endian bytes of `n` on `k` bytes -/
def beBytes : Nat → Nat → Bytes
  | 0, _ => []
  | k + 1, n => UInt8.ofNat ((n / 256 ^ k) % 256) :: beBytes k n

def beNat : Bytes → Nat
  | [] => 0
  | b :: bs => b.toNat * 256 ^ bs.length + beNat bs

def encInt (i : Int) : Bytes :=
  if i ≥ 0 then
    let n := i.toNat
    if n < 128 then [UInt8.ofNat n]
    else if n < 2 ^ 8 then 0xcc :: beBytes 1 n
    else if n < 2 ^ 16 then 0xcd :: beBytes 2 n
    else if n < 2 ^ 32 then 0xce :: beBytes 4 n
    else 0xcf :: beBytes 8 n
  else
    if i ≥ -32 then [UInt8.ofNat (256 + i).toNat]
    else if i ≥ -(2 ^ 7) then 0xd0 :: beBytes 1 (2 ^ 8 + i).toNat
    else if i ≥ -(2 ^ 15) then 0xd1 :: beBytes 2 (2 ^ 16 + i).toNat
    else if i ≥ -(2 ^ 31) then 0xd2 :: beBytes 4 (2 ^ 32 + i).toNat
    else 0xd3 :: beBytes 8 (2 ^ 64 + i).toNat

def strHeader (n : Nat) : Bytes :=
  if n < 32 then [UInt8.ofNat (0xa0 + n)]
  else if n < 2 ^ 8 then 0xd9 :: beBytes 1 n
  else if n < 2 ^ 16 then 0xda :: beBytes 2 n
  else 0xdb :: beBytes 4 n

def binHeader (n : Nat) : Bytes :=
  if n < 2 ^ 8 then 0xc4 :: beBytes 1 n
  else if n < 2 ^ 16 then 0xc5 :: beBytes 2 n
  else 0xc6 :: beBytes 4 n

def arrHeader (n : Nat) : Bytes :=
  if n < 16 then [UInt8.ofNat (0x90 + n)]
  else if n < 2 ^ 16 then 0xdc :: beBytes 2 n
  else 0xdd :: beBytes 4 n

def mapHeader (n : Nat) : Bytes :=
  if n < 16 then [UInt8.ofNat (0x80 + n)]
  else if n < 2 ^ 16 then 0xde :: beBytes 2 n
  else 0xdf :: beBytes 4 n

def extHeader (n ty : Nat) : Bytes :=
  (if n = 1 then [0xd4] else if n = 2 then [0xd5] else if n = 4 then [0xd6] else if n = 8 then [0xd7]
   else if n = 16 then [0xd8]
   else if n < 2 ^ 8 then 0xc7 :: beBytes 1 n
   else if n < 2 ^ 16 then 0xc8 :: beBytes 2 n
   else 0xc9 :: beBytes 4 n) ++ [UInt8.ofNat ty]

mutual
def encode : Val → Bytes
  | .nil => [0xc0]
  | .bool false => [0xc2]
  | .bool true => [0xc3]
  | .int i => encInt i
  | .f32 b => 0xca :: beBytes 4 b
  | .f64 b => 0xcb :: beBytes 8 b
  | .str s => strHeader s.length ++ s
  | .bin b => binHeader b.length ++ b
  | .arr l => arrHeader l.length ++ encodeList l
  | .map l => mapHeader l.length ++ encodePairs l
  | .ext ty d => extHeader d.length ty ++ d
def encodeList : List Val → Bytes
  | [] => []
  | v :: vs => encode v ++ encodeList vs
def encodePairs : List (Val × Val) → Bytes
  | [] => []
  | (k, v) :: kvs => encode k ++ encode v ++ encodePairs kvs
end

/-- take `n` bytes -/
def take? (n : Nat) (b : Bytes) : Option (Bytes × Bytes) :=
  if n ≤ b.length then some (b.take n, b.drop n) else none

def toSigned (bits : Nat) (n : Nat) : Int := if n < 2 ^ (bits - 1) then n else (n : Int) - 2 ^ bits

mutual
/-- decode one value; `fuel` bounds the nesting/length recursion (the byte count suffices) -/
def decode (fuel : Nat) (b : Bytes) : Option (Val × Bytes) :=
  match fuel with
  | 0 => none
  | fuel + 1 =>
  match b with
  | [] => none
  | t :: rest =>
    let tn := t.toNat
    if tn < 0x80 then some (.int tn, rest)
    else if tn < 0x90 then decodePairs fuel (tn - 0x80) rest |>.map fun (l, r) => (.map l, r)
    else if tn < 0xa0 then decodeList fuel (tn - 0x90) rest |>.map fun (l, r) => (.arr l, r)
    else if tn < 0xc0 then (take? (tn - 0xa0) rest).map fun (s, r) => (.str s, r)
    else if tn ≥ 0xe0 then some (.int ((tn : Int) - 256), rest)
    else
      let lenThen (k : Nat) (f : Nat → Bytes → Option (Val × Bytes)) : Option (Val × Bytes) :=
        match take? k rest with
        | none => none
        | some (lb, r) => f (beNat lb) r
      match tn with
      | 0xc0 => some (.nil, rest)
      | 0xc2 => some (.bool false, rest)
      | 0xc3 => some (.bool true, rest)
      | 0xc4 => lenThen 1 fun n r => (take? n r).map fun (x, r) => (.bin x, r)
      | 0xc5 => lenThen 2 fun n r => (take? n r).map fun (x, r) => (.bin x, r)
      | 0xc6 => lenThen 4 fun n r => (take? n r).map fun (x, r) => (.bin x, r)
      | 0xc7 => lenThen 1 fun n r => (take? (n + 1) r).map fun (x, r) => (.ext (x.headD 0).toNat x.tail, r)
      | 0xc8 => lenThen 2 fun n r => (take? (n + 1) r).map fun (x, r) => (.ext (x.headD 0).toNat x.tail, r)
      | 0xc9 => lenThen 4 fun n r => (take? (n + 1) r).map fun (x, r) => (.ext (x.headD 0).toNat x.tail, r)
      | 0xca => lenThen 4 fun n r => some (.f32 n, r)
      | 0xcb => lenThen 8 fun n r => some (.f64 n, r)
      | 0xcc => lenThen 1 fun n r => some (.int n, r)
      | 0xcd => lenThen 2 fun n r => some (.int n, r)
      | 0xce => lenThen 4 fun n r => some (.int n, r)
      | 0xcf => lenThen 8 fun n r => some (.int n, r)
      | 0xd0 => lenThen 1 fun n r => some (.int (toSigned 8 n), r)
      | 0xd1 => lenThen 2 fun n r => some (.int (toSigned 16 n), r)
      | 0xd2 => lenThen 4 fun n r => some (.int (toSigned 32 n), r)
      | 0xd3 => lenThen 8 fun n r => some (.int (toSigned 64 n), r)
      | 0xd4 => (take? 2 rest).map fun (x, r) => (.ext (x.headD 0).toNat x.tail, r)
      | 0xd5 => (take? 3 rest).map fun (x, r) => (.ext (x.headD 0).toNat x.tail, r)
      | 0xd6 => (take? 5 rest).map fun (x, r) => (.ext (x.headD 0).toNat x.tail, r)
      | 0xd7 => (take? 9 rest).map fun (x, r) => (.ext (x.headD 0).toNat x.tail, r)
      | 0xd8 => (take? 17 rest).map fun (x, r) => (.ext (x.headD 0).toNat x.tail, r)
      | 0xd9 => lenThen 1 fun n r => (take? n r).map fun (x, r) => (.str x, r)
      | 0xda => lenThen 2 fun n r => (take? n r).map fun (x, r) => (.str x, r)
      | 0xdb => lenThen 4 fun n r => (take? n r).map fun (x, r) => (.str x, r)
      | 0xdc => lenThen 2 fun n r => (decodeList fuel n r).map fun (l, r) => (.arr l, r)
      | 0xdd => lenThen 4 fun n r => (decodeList fuel n r).map fun (l, r) => (.arr l, r)
      | 0xde => lenThen 2 fun n r => (decodePairs fuel n r).map fun (l, r) => (.map l, r)
      | 0xdf => lenThen 4 fun n r => (decodePairs fuel n r).map fun (l, r) => (.map l, r)
      | _ => none   -- 0xc1 is never used
def decodeList (fuel : Nat) (n : Nat) (b : Bytes) : Option (List Val × Bytes) :=
  match fuel with
  | 0 => none
  | fuel + 1 =>
  match n with
  | 0 => some ([], b)
  | n + 1 =>
    match decode fuel b with
    | none => none
    | some (v, r) => (decodeList fuel n r).map fun (vs, r) => (v :: vs, r)
def decodePairs (fuel : Nat) (n : Nat) (b : Bytes) : Option (List (Val × Val) × Bytes) :=
  match fuel with
  | 0 => none
  | fuel + 1 =>
  match n with
  | 0 => some ([], b)
  | n + 1 =>
    match decode fuel b with
    | none => none
    | some (k, r) =>
      match decode fuel r with
      | none => none
      | some (v, r) => (decodePairs fuel n r).map fun (kvs, r) => ((k, v) :: kvs, r)
end

/-- decode a complete buffer (rmp_serde::from_slice ignores trailing bytes; callers decide) -/
def decodeAll (b : Bytes) : Option (Val × Bytes) := decode (2 * b.length + 2) b

end Aqua.MsgPack
