import Aqua.Base.Basic

/-!
# Byte/text codecs used by CIDs

* lower-case hex (test helper, `hexEncode` / `hexDecode`);
* unsigned LEB128 varint, as implemented by the Rust `unsigned-varint` crate
  (multiformats "unsigned-varint" spec);
* RFC 4648 §6 base32, lower-case alphabet, no padding
  (multibase code `b`, Rust `data-encoding` `BASE32_NOPAD_LOWER`);
* base58btc (multibase code `z`, Bitcoin alphabet).

Everything is total and structurally recursive (lists or explicit fuel), so the
definitions can be both compiled and unfolded in proofs.
-/

namespace Aqua.Crypto

/-! ## Hex (helper used by the test vectors) -/

/-- lower-case hex digit of a nibble (`n < 16`) -/
def hexDigit (n : Nat) : Char :=
  if n < 10 then Char.ofNat (48 + n) else Char.ofNat (87 + n)

/-- lower-case hex rendering of a byte string -/
def hexEncode (bs : Bytes) : String :=
  String.ofList (bs.flatMap fun b => [hexDigit (b.toNat / 16), hexDigit (b.toNat % 16)])

/-- value of a hex digit (both cases accepted) -/
def hexVal? (c : Char) : Option Nat :=
  let n := c.toNat
  if 48 ≤ n ∧ n ≤ 57 then some (n - 48)
  else if 97 ≤ n ∧ n ≤ 102 then some (n - 87)
  else if 65 ≤ n ∧ n ≤ 70 then some (n - 55)
  else none

def hexDecodeAux : List Char → Option Bytes
  | [] => some []
  | [_] => none
  | h :: l :: rest => do
    let a ← hexVal? h
    let b ← hexVal? l
    let tl ← hexDecodeAux rest
    pure (UInt8.ofNat (a * 16 + b) :: tl)

/-- parse an even-length hex string -/
def hexDecode (s : String) : Option Bytes := hexDecodeAux s.toList

/-! ## Unsigned varint (LEB128)

`unsigned-varint` crate, `encode::u64` / `decode::u64`.  Seven payload bits per
byte, least significant group first, bit 7 set on every byte but the last. -/

/-- `fuel` bounds the number of emitted bytes; `n + 1` is always enough. -/
def varintEncodeFuel : Nat → Nat → Bytes
  | 0, _ => []
  | fuel + 1, n =>
    if n < 128 then [UInt8.ofNat n]
    else UInt8.ofNat (n % 128 + 128) :: varintEncodeFuel fuel (n / 128)

/-- LEB128 encoding of a natural number (for `n < 2^64` this is exactly
`unsigned_varint::encode::u64`; larger values are encoded the same way, just longer). -/
def varintEncode (n : Nat) : Bytes := varintEncodeFuel (n + 1) n

/-- Model of the `decode!` macro of `unsigned-varint` instantiated at `u64`
(`max_bytes = 9`): `i` is the index of the current byte, `acc` the value so far.

* input exhausted before a byte without continuation bit → `Insufficient` (`none`);
* a final byte `0x00` at index `> 0` → `NotMinimal` (`none`);
* a continuation bit on the byte with index 9 (i.e. a 10th continuation byte would
  follow / more than 9 continuation bytes) → `Overflow` (`none`);
* as in Rust, `k << (7*i)` is a wrapping `u64` shift, so the high bits of the tenth
  byte are silently dropped: the result is reduced modulo `2^64`. -/
def varintDecodeAux : Bytes → Nat → Nat → Option (Nat × Bytes)
  | [], _, _ => none
  | b :: bs, i, acc =>
    let k := b.toNat % 128
    let acc := acc ||| ((k <<< (7 * i)) % 2 ^ 64)
    if b < 0x80 then
      if b == 0 && i > 0 then none else some (acc, bs)
    else if i == 9 then none
    else varintDecodeAux bs (i + 1) acc

/-- `unsigned_varint::decode::u64`: value and remaining bytes. -/
def varintDecode (bs : Bytes) : Option (Nat × Bytes) := varintDecodeAux bs 0 0

/-! ## Base32, lower case, no padding (RFC 4648 §6)

Bits are consumed most-significant first in groups of five.  On encoding the last
group is padded with zero bits; no `=` padding characters are produced. -/

/-- symbol of a 5-bit value: `a`–`z` for 0–25, `2`–`7` for 26–31 -/
def base32Char (v : Nat) : Char :=
  if v < 26 then Char.ofNat (97 + v) else Char.ofNat (24 + v)

/-- value of a symbol of the alphabet `abcdefghijklmnopqrstuvwxyz234567` -/
def base32Val? (c : Char) : Option Nat :=
  let n := c.toNat
  if 97 ≤ n ∧ n ≤ 122 then some (n - 97)
  else if 50 ≤ n ∧ n ≤ 55 then some (n - 24)
  else none

/-- `acc` holds `bits` (< 5) pending bits; `out` is the reversed output. -/
def base32EncAux : Bytes → Nat → Nat → List Char → List Char
  | [], acc, bits, out =>
    if bits == 0 then out else base32Char ((acc <<< (5 - bits)) % 32) :: out
  | b :: bs, acc, bits, out =>
    let acc := acc * 256 + b.toNat
    let bits := bits + 8                      -- 8 ≤ bits ≤ 12: one or two symbols ready
    let out := base32Char ((acc >>> (bits - 5)) % 32) :: out
    let bits := bits - 5
    if bits ≥ 5 then
      let out := base32Char ((acc >>> (bits - 5)) % 32) :: out
      let bits := bits - 5
      base32EncAux bs (acc % 2 ^ bits) bits out
    else
      base32EncAux bs (acc % 2 ^ bits) bits out

/-- RFC 4648 base32, lower-case alphabet, without padding -/
def base32LowerEncode (bs : Bytes) : String :=
  String.ofList (base32EncAux bs 0 0 []).reverse

/-- `acc` holds `bits` (< 8) pending bits; `out` is the reversed output.
At the end of input the pending bits are the "trailing bits" of the encoding:
* 5, 6 or 7 pending bits mean the input length is 1, 3 or 6 modulo 8, which no
  encoder produces (`data-encoding`: `DecodeKind::Length`);
* non-zero pending bits are rejected (`data-encoding` `check_trailing_bits = true`,
  the default used by `multibase`'s `BASE32_NOPAD_LOWER`: `DecodeKind::Trailing`). -/
def base32DecAux : List Char → Nat → Nat → List UInt8 → Option (List UInt8)
  | [], acc, bits, out =>
    if bits ≥ 5 then none
    else if acc != 0 then none
    else some out
  | c :: cs, acc, bits, out =>
    match base32Val? c with
    | none => none
    | some v =>
      let acc := acc * 32 + v
      let bits := bits + 5
      if bits ≥ 8 then
        let bits := bits - 8
        base32DecAux cs (acc % 2 ^ bits) bits (UInt8.ofNat (acc >>> bits) :: out)
      else
        base32DecAux cs acc bits out

/-- Strict decoder for `base32LowerEncode`: only the 32 lower-case symbols, no padding
characters, canonical length, zero trailing bits.
(The Rust `multibase` table additionally translates `A`–`Z` to lower case before
decoding; that leniency is deliberately *not* modelled here.) -/
def base32LowerDecode (s : String) : Option Bytes :=
  (base32DecAux s.toList 0 0 []).map List.reverse

/-! ## Base58btc

The byte string is read as a big-endian natural number and written in base 58
with the Bitcoin alphabet; every leading zero byte is represented by a leading `1`. -/

def base58Alphabet : List Char :=
  "123456789ABCDEFGHJKLMNPQRSTUVWXYZabcdefghijkmnopqrstuvwxyz".toList

def base58Char (v : Nat) : Char := base58Alphabet.getD v '1'

def base58Val? (c : Char) : Option Nat := indexOf? c base58Alphabet

/-- big-endian value of a digit string in the given base -/
def natOfDigits (base : Nat) (ds : List Nat) : Nat :=
  ds.foldl (fun acc d => acc * base + d) 0

/-- big-endian digits of `n` in the given base, prepended to `acc`;
no digits at all for `n = 0`.  `fuel` bounds the number of digits. -/
def natToDigits (base : Nat) : Nat → Nat → List Nat → List Nat
  | 0, _, acc => acc
  | fuel + 1, n, acc =>
    if n == 0 then acc else natToDigits base fuel (n / base) (n % base :: acc)

def base58Encode (bs : Bytes) : String :=
  let zeros := (bs.takeWhile (· == 0)).length
  let n := natOfDigits 256 (bs.map UInt8.toNat)
  -- 58^2 > 256, so two base-58 digits per byte are always enough
  let digits := natToDigits 58 (2 * bs.length) n []
  String.ofList (List.replicate zeros '1' ++ digits.map base58Char)

def base58Decode (s : String) : Option Bytes := do
  let cs := s.toList
  let ds ← cs.mapM base58Val?
  let zeros := (cs.takeWhile (· == '1')).length
  let n := natOfDigits 58 ds
  -- 58 < 256, so one byte per symbol is always enough
  let body := natToDigits 256 cs.length n []
  pure (List.replicate zeros 0 ++ body.map UInt8.ofNat)

/-! ## Checks -/

-- hex
#guard hexEncode [0x00, 0x0f, 0xa5, 0xff] == "000fa5ff"
#guard hexDecode "000fA5ff" == some [0x00, 0x0f, 0xa5, 0xff]
#guard hexDecode "abc" == none
#guard hexDecode "zz" == none

-- varint: vectors from the multiformats unsigned-varint README
#guard varintEncode 0 == [0x00]
#guard varintEncode 1 == [0x01]
#guard varintEncode 127 == [0x7f]
#guard varintEncode 128 == [0x80, 0x01]
#guard varintEncode 255 == [0xff, 0x01]
#guard varintEncode 300 == [0xac, 0x02]
#guard varintEncode 16384 == [0x80, 0x80, 0x01]
#guard varintEncode 0x0200 == [0x80, 0x04]
#guard varintEncode (2 ^ 64 - 1) == [0xff, 0xff, 0xff, 0xff, 0xff, 0xff, 0xff, 0xff, 0xff, 0x01]
#guard varintDecode [] == none
#guard varintDecode [0x80] == none                          -- Insufficient
#guard varintDecode [0x00] == some (0, [])
#guard varintDecode [0x00, 0x07] == some (0, [0x07])
#guard varintDecode [0xac, 0x02, 0x99] == some (300, [0x99])
#guard varintDecode [0x80, 0x00] == none                    -- NotMinimal
#guard varintDecode [0x81, 0x80, 0x00] == none              -- NotMinimal
#guard varintDecode [0xff, 0xff, 0xff, 0xff, 0xff, 0xff, 0xff, 0xff, 0xff, 0x01]
         == some (2 ^ 64 - 1, [])
#guard varintDecode [0xff, 0xff, 0xff, 0xff, 0xff, 0xff, 0xff, 0xff, 0xff, 0x81, 0x01]
         == none                                            -- Overflow: 10 continuation bytes
#guard varintDecode [0x80, 0x80, 0x80, 0x80, 0x80, 0x80, 0x80, 0x80, 0x80, 0x7f]
         == some (2 ^ 63, [])                               -- wrapping shift of the 10th byte
#guard [0, 1, 127, 128, 129, 255, 256, 0x0200, 0x1e, 16383, 16384, 2 ^ 32, 2 ^ 63, 2 ^ 64 - 1].all
         fun n => varintDecode (varintEncode n ++ [0xaa]) == some (n, [0xaa])

-- base32: RFC 4648 §10 vectors (lower-cased, padding stripped)
#guard base32LowerEncode "".toUTF8.toList == ""
#guard base32LowerEncode "f".toUTF8.toList == "my"
#guard base32LowerEncode "fo".toUTF8.toList == "mzxq"
#guard base32LowerEncode "foo".toUTF8.toList == "mzxw6"
#guard base32LowerEncode "foob".toUTF8.toList == "mzxw6yq"
#guard base32LowerEncode "fooba".toUTF8.toList == "mzxw6ytb"
#guard base32LowerEncode "foobar".toUTF8.toList == "mzxw6ytboi"
#guard base32LowerDecode "" == some []
#guard base32LowerDecode "my" == some "f".toUTF8.toList
#guard base32LowerDecode "mzxq" == some "fo".toUTF8.toList
#guard base32LowerDecode "mzxw6" == some "foo".toUTF8.toList
#guard base32LowerDecode "mzxw6yq" == some "foob".toUTF8.toList
#guard base32LowerDecode "mzxw6ytb" == some "fooba".toUTF8.toList
#guard base32LowerDecode "mzxw6ytboi" == some "foobar".toUTF8.toList
#guard base32LowerDecode "mz" == none            -- non-zero trailing bits
#guard base32LowerDecode "m" == none             -- impossible length (1 mod 8)
#guard base32LowerDecode "mzx" == none           -- impossible length (3 mod 8)
#guard base32LowerDecode "mzxw6y" == none        -- impossible length (6 mod 8)
#guard base32LowerDecode "MY" == none            -- upper case is outside the alphabet
#guard base32LowerDecode "my======" == none      -- padding not accepted
#guard base32LowerDecode "m1" == none            -- '1' is not in the alphabet
#guard base32LowerDecode "m8" == none
#guard (List.range 40).all fun n =>
  let bs : Bytes := (List.range n).map fun i => UInt8.ofNat (i * 37 + 200)
  base32LowerDecode (base32LowerEncode bs) == some bs

-- base58btc
#guard base58Encode [] == ""
#guard base58Encode [0] == "1"
#guard base58Encode [0, 0, 0] == "111"
#guard base58Encode [0x61] == "2g"
#guard base58Encode [0x62, 0x62, 0x62] == "a3gV"
#guard base58Encode [0x63, 0x63, 0x63] == "aPEr"
#guard base58Encode "Hello World!".toUTF8.toList == "2NEpo7TZRRrLZSi2U"
#guard base58Encode [0x00, 0x00, 0x28, 0x7f, 0xb4, 0xcd] == "11233QC4"
#guard base58Encode [0xff] == "5Q"
#guard base58Encode [0xff, 0xff] == "LUv"
#guard base58Decode "" == some []
#guard base58Decode "1" == some [0]
#guard base58Decode "111" == some [0, 0, 0]
#guard base58Decode "2g" == some [0x61]
#guard base58Decode "11233QC4" == some [0x00, 0x00, 0x28, 0x7f, 0xb4, 0xcd]
#guard base58Decode "2NEpo7TZRRrLZSi2U" == some "Hello World!".toUTF8.toList
#guard base58Decode "0" == none                  -- '0', 'O', 'I', 'l' are not in the alphabet
#guard base58Decode "O" == none
#guard base58Decode "I" == none
#guard base58Decode "l" == none
#guard base58Decode "2g " == none
#guard (List.range 40).all fun n =>
  let bs : Bytes := (List.range n).map fun i => UInt8.ofNat (if i < 2 then 0 else i * 91 + 3)
  base58Decode (base58Encode bs) == some bs

end Aqua.Crypto
