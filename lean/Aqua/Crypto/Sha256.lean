import Aqua.Base.Basic
import Aqua.Crypto.Base

/-!
# SHA-256 (FIPS 180-4)

Straightforward executable model: padding (§5.1.1), message schedule and
compression function (§6.2.2), with `UInt32` arithmetic (addition is mod 2^32).
All loops are `for` loops over fixed ranges, so totality is checked by Lean.
-/

namespace Aqua.Crypto

/-- FIPS 180-4 §4.2.2: first 32 bits of the fractional parts of the cube roots of the
first 64 primes -/
def sha256K : Array UInt32 := #[
  0x428a2f98, 0x71374491, 0xb5c0fbcf, 0xe9b5dba5, 0x3956c25b, 0x59f111f1, 0x923f82a4, 0xab1c5ed5,
  0xd807aa98, 0x12835b01, 0x243185be, 0x550c7dc3, 0x72be5d74, 0x80deb1fe, 0x9bdc06a7, 0xc19bf174,
  0xe49b69c1, 0xefbe4786, 0x0fc19dc6, 0x240ca1cc, 0x2de92c6f, 0x4a7484aa, 0x5cb0a9dc, 0x76f988da,
  0x983e5152, 0xa831c66d, 0xb00327c8, 0xbf597fc7, 0xc6e00bf3, 0xd5a79147, 0x06ca6351, 0x14292967,
  0x27b70a85, 0x2e1b2138, 0x4d2c6dfc, 0x53380d13, 0x650a7354, 0x766a0abb, 0x81c2c92e, 0x92722c85,
  0xa2bfe8a1, 0xa81a664b, 0xc24b8b70, 0xc76c51a3, 0xd192e819, 0xd6990624, 0xf40e3585, 0x106aa070,
  0x19a4c116, 0x1e376c08, 0x2748774c, 0x34b0bcb5, 0x391c0cb3, 0x4ed8aa4a, 0x5b9cca4f, 0x682e6ff3,
  0x748f82ee, 0x78a5636f, 0x84c87814, 0x8cc70208, 0x90befffa, 0xa4506ceb, 0xbef9a3f7, 0xc67178f2]

/-- FIPS 180-4 §5.3.3: initial hash value (fractional parts of the square roots of the
first 8 primes).  BLAKE3 reuses the same eight words as its IV. -/
def sha256IV : Array UInt32 := #[
  0x6a09e667, 0xbb67ae85, 0x3c6ef372, 0xa54ff53a, 0x510e527f, 0x9b05688c, 0x1f83d9ab, 0x5be0cd19]

/-- 32-bit rotate right by `n` (0 < n < 32) -/
@[inline] def rotr32 (x : UInt32) (n : UInt32) : UInt32 :=
  (x >>> n) ||| (x <<< (32 - n))

/-- big-endian bytes of a 32-bit word -/
def be32Bytes (w : UInt32) : Bytes :=
  [(w >>> 24).toUInt8, (w >>> 16).toUInt8, (w >>> 8).toUInt8, w.toUInt8]

/-- byte at index `i`, `0` when out of range (total, never panics) -/
@[inline] def byteAt (a : ByteArray) (i : Nat) : UInt8 :=
  if h : i < a.size then a[i] else 0

/-- big-endian 32-bit word at byte offset `i` (bytes out of range read as 0) -/
@[inline] def be32At (a : ByteArray) (i : Nat) : UInt32 :=
  ((byteAt a i).toUInt32 <<< 24) ||| ((byteAt a (i + 1)).toUInt32 <<< 16) |||
  ((byteAt a (i + 2)).toUInt32 <<< 8) ||| (byteAt a (i + 3)).toUInt32

/-- FIPS 180-4 §5.1.1 padding: `0x80`, then zero bytes up to 56 mod 64, then the bit
length as a 64-bit big-endian integer.  The result length is a multiple of 64. -/
def sha256Pad (msg : Bytes) : ByteArray :=
  let len := msg.length
  let zeros := (119 - len % 64) % 64
  let bitLen := (len * 8) % 2 ^ 64
  let lenBytes : Bytes := (List.range 8).map fun i => UInt8.ofNat (bitLen >>> (8 * (7 - i)))
  ByteArray.mk (msg ++ [0x80] ++ List.replicate zeros 0 ++ lenBytes).toArray

/-- FIPS 180-4 §6.2.2 step 1: message schedule `W_0 .. W_63` of the 64-byte block at `off` -/
def sha256Schedule (data : ByteArray) (off : Nat) : Array UInt32 := Id.run do
  let mut w : Array UInt32 := Array.mkEmpty 64
  for t in [0:16] do
    w := w.push (be32At data (off + 4 * t))
  for t in [16:64] do
    let w15 := w.getD (t - 15) 0
    let w2 := w.getD (t - 2) 0
    let s0 := rotr32 w15 7 ^^^ rotr32 w15 18 ^^^ (w15 >>> 3)       -- σ0
    let s1 := rotr32 w2 17 ^^^ rotr32 w2 19 ^^^ (w2 >>> 10)        -- σ1
    w := w.push (s1 + w.getD (t - 7) 0 + s0 + w.getD (t - 16) 0)
  return w

/-- FIPS 180-4 §6.2.2 steps 2–4: one application of the compression function -/
def sha256Compress (h : Array UInt32) (w : Array UInt32) : Array UInt32 := Id.run do
  let mut a := h.getD 0 0
  let mut b := h.getD 1 0
  let mut c := h.getD 2 0
  let mut d := h.getD 3 0
  let mut e := h.getD 4 0
  let mut f := h.getD 5 0
  let mut g := h.getD 6 0
  let mut hh := h.getD 7 0
  for t in [0:64] do
    let bigS1 := rotr32 e 6 ^^^ rotr32 e 11 ^^^ rotr32 e 25        -- Σ1
    let ch := (e &&& f) ^^^ (~~~e &&& g)
    let t1 := hh + bigS1 + ch + sha256K.getD t 0 + w.getD t 0
    let bigS0 := rotr32 a 2 ^^^ rotr32 a 13 ^^^ rotr32 a 22        -- Σ0
    let maj := (a &&& b) ^^^ (a &&& c) ^^^ (b &&& c)
    let t2 := bigS0 + maj
    hh := g; g := f; f := e; e := d + t1
    d := c; c := b; b := a; a := t1 + t2
  return #[h.getD 0 0 + a, h.getD 1 0 + b, h.getD 2 0 + c, h.getD 3 0 + d,
           h.getD 4 0 + e, h.getD 5 0 + f, h.getD 6 0 + g, h.getD 7 0 + hh]

/-- SHA-256 digest (32 bytes) -/
def sha256 (msg : Bytes) : Bytes := Id.run do
  let data := sha256Pad msg
  let mut h := sha256IV
  for i in [0:data.size / 64] do
    h := sha256Compress h (sha256Schedule data (64 * i))
  return h.toList.flatMap be32Bytes

/-! ## Test vectors (FIPS 180-4 examples and values computed with Python `hashlib`) -/

#guard (sha256 []).length == 32
#guard hexEncode (sha256 []) ==
  "e3b0c44298fc1c149afbf4c8996fb92427ae41e4649b934ca495991b7852b855"
#guard hexEncode (sha256 "abc".toUTF8.toList) ==
  "ba7816bf8f01cfea414140de5dae2223b00361a396177a9cb410ff61f20015ad"
-- 56 bytes (padding spills into a second block)
#guard hexEncode (sha256 "abcdbcdecdefdefgefghfghighijhijkijkljklmklmnlmnomnopnopq".toUTF8.toList) ==
  "248d6a61d20638b8e5c026930c3e6039a33ce45964ff2167f6ecedd419db06c1"
#guard hexEncode (sha256 (List.replicate 56 0x61)) ==
  "b35439a4ac6f0948b6d6f9e3c6af0f5f590ce20f1bde7090ef7970686ec6738a"
-- 55 bytes (longest single-block message), 63, 64 and 119 bytes: bytes 0,1,2,..
#guard hexEncode (sha256 ((List.range 55).map UInt8.ofNat)) ==
  "463eb28e72f82e0a96c0a4cc53690c571281131f672aa229e0d45ae59b598b59"
#guard hexEncode (sha256 ((List.range 63).map UInt8.ofNat)) ==
  "29af2686fd53374a36b0846694cc342177e428d1647515f078784d69cdb9e488"
#guard hexEncode (sha256 ((List.range 64).map UInt8.ofNat)) ==
  "fdeab9acf3710362bd2658cdc9a29e8f9c757fcf9811603a8c447cd1d9151108"
#guard hexEncode (sha256 ((List.range 119).map UInt8.ofNat)) ==
  "da18797ed7c3a777f0847f429724a2d8cd5138e6ed2895c3fa1a6d39d18f7ec6"
-- 1000 bytes i % 251
#guard hexEncode (sha256 ((List.range 1000).map fun i => UInt8.ofNat (i % 251))) ==
  "4e4c294b331f7a2099a379bec34b9f9fc03dc46ab465d998f4d683da53487e6d"

end Aqua.Crypto
