import Aqua.Base.Basic
import Aqua.Crypto.Base
import Aqua.Crypto.Sha256

/-!
# BLAKE3, default (unkeyed) hash mode, 32-byte output

Follows the BLAKE3 specification (O'Connor, Aumasson, Neves, Wilcox-O'Hearn, 2020):

* §2.1 constants (IV, flags) and chunk/block sizes;
* §2.2 compression function (`b3G`, `b3Round`, `b3Compress`);
* §2.3 message permutation;
* §2.4 chunk chaining values (`b3ChunkOutput`, `b3ChainingValue`);
* §2.5 parent nodes / binary tree; the tree is built with the chaining-value stack
  of §5.1.2 exactly as in the reference implementation (`reference_impl.rs`:
  `add_chunk_chaining_value`, `finalize`);
* §2.6 root output (first 32 bytes only, i.e. output block counter 0).

Correct for every input length (empty, short final block, several chunks, ...).
-/

namespace Aqua.Crypto

/-! ### §2.1 constants -/

/-- IV: the same eight words as the SHA-256 initial hash value -/
def b3IV : Array UInt32 := sha256IV

def b3ChunkStart : UInt32 := 1
def b3ChunkEnd : UInt32 := 2
def b3Parent : UInt32 := 4
def b3Root : UInt32 := 8

def b3BlockLen : Nat := 64
def b3ChunkLen : Nat := 1024

/-- §2.3, table 2: message word permutation applied between rounds -/
def b3MsgPermutation : Array Nat := #[2, 6, 3, 10, 7, 0, 4, 13, 1, 11, 12, 5, 9, 14, 15, 8]

/-! ### §2.2 compression function -/

/-- The quarter-round function `G` on state words `a b c d` with message words `mx my` -/
@[inline] def b3G (s : Array UInt32) (a b c d : Nat) (mx my : UInt32) : Array UInt32 :=
  let va := s.getD a 0
  let vb := s.getD b 0
  let vc := s.getD c 0
  let vd := s.getD d 0
  let va := va + vb + mx
  let vd := rotr32 (vd ^^^ va) 16
  let vc := vc + vd
  let vb := rotr32 (vb ^^^ vc) 12
  let va := va + vb + my
  let vd := rotr32 (vd ^^^ va) 8
  let vc := vc + vd
  let vb := rotr32 (vb ^^^ vc) 7
  (((s.setIfInBounds a va).setIfInBounds b vb).setIfInBounds c vc).setIfInBounds d vd

/-- One round: `G` on the four columns, then on the four diagonals -/
def b3Round (s : Array UInt32) (m : Array UInt32) : Array UInt32 :=
  let w (i : Nat) : UInt32 := m.getD i 0
  let s := b3G s 0 4 8 12 (w 0) (w 1)
  let s := b3G s 1 5 9 13 (w 2) (w 3)
  let s := b3G s 2 6 10 14 (w 4) (w 5)
  let s := b3G s 3 7 11 15 (w 6) (w 7)
  let s := b3G s 0 5 10 15 (w 8) (w 9)
  let s := b3G s 1 6 11 12 (w 10) (w 11)
  let s := b3G s 2 7 8 13 (w 12) (w 13)
  let s := b3G s 3 4 9 14 (w 14) (w 15)
  s

/-- §2.3: permute the 16 message words -/
def b3Permute (m : Array UInt32) : Array UInt32 :=
  b3MsgPermutation.map fun i => m.getD i 0

/-- §2.2: the compression function.  Inputs: chaining value `cv` (8 words), message
block `m` (16 words), 64-bit `counter`, `blockLen` and `flags`.  Returns the full
16-word output state (the first 8 words are the new chaining value). -/
def b3Compress (cv : Array UInt32) (m : Array UInt32) (counter : UInt64)
    (blockLen flags : UInt32) : Array UInt32 := Id.run do
  let mut s : Array UInt32 := #[
    cv.getD 0 0, cv.getD 1 0, cv.getD 2 0, cv.getD 3 0,
    cv.getD 4 0, cv.getD 5 0, cv.getD 6 0, cv.getD 7 0,
    b3IV.getD 0 0, b3IV.getD 1 0, b3IV.getD 2 0, b3IV.getD 3 0,
    counter.toUInt32, (counter >>> 32).toUInt32, blockLen, flags]
  let mut msg := m
  -- 7 rounds, the message is permuted between rounds (a 7th permutation is harmless
  -- to skip; we skip it like the reference implementation)
  for r in [0:7] do
    s := b3Round s msg
    if r < 6 then msg := b3Permute msg
  -- output feed-forward
  let mut out : Array UInt32 := Array.mkEmpty 16
  for i in [0:8] do
    out := out.push (s.getD i 0 ^^^ s.getD (i + 8) 0)
  for i in [0:8] do
    out := out.push (s.getD (i + 8) 0 ^^^ cv.getD i 0)
  return out

/-- first 8 words of a compression output = chaining value -/
def b3First8 (s : Array UInt32) : Array UInt32 := s.extract 0 8

/-! ### §2.4 chunks -/

/-- little-endian 32-bit word at byte offset `i`; bytes past the end of the input read
as 0, which implements the zero padding of the final (short) block -/
@[inline] def le32At (a : ByteArray) (i : Nat) : UInt32 :=
  (byteAt a i).toUInt32 ||| ((byteAt a (i + 1)).toUInt32 <<< 8) |||
  ((byteAt a (i + 2)).toUInt32 <<< 16) ||| ((byteAt a (i + 3)).toUInt32 <<< 24)

/-- the 16 little-endian message words of the 64-byte block at byte offset `off` -/
def b3BlockWords (data : ByteArray) (off : Nat) : Array UInt32 := Id.run do
  let mut w : Array UInt32 := Array.mkEmpty 16
  for i in [0:16] do
    w := w.push (le32At data (off + 4 * i))
  return w

/-- little-endian bytes of a 32-bit word -/
def le32Bytes (w : UInt32) : Bytes :=
  [w.toUInt8, (w >>> 8).toUInt8, (w >>> 16).toUInt8, (w >>> 24).toUInt8]

/-- A not-yet-compressed node output (`Output` in the reference implementation): the
arguments of the final compression of a chunk or parent node.  Keeping them
uncompressed lets the caller decide whether to add the `ROOT` flag. -/
structure B3Output where
  inputCv : Array UInt32
  block : Array UInt32
  counter : UInt64
  blockLen : UInt32
  flags : UInt32

/-- chaining value of a non-root node -/
def b3ChainingValue (o : B3Output) : Array UInt32 :=
  b3First8 (b3Compress o.inputCv o.block o.counter o.blockLen o.flags)

/-- §2.6: first 32 bytes of the root output (output block counter `t = 0`) -/
def b3RootBytes (o : B3Output) : Bytes :=
  let s := b3Compress o.inputCv o.block 0 o.blockLen (o.flags ||| b3Root)
  (b3First8 s).toList.flatMap le32Bytes

/-- §2.4: process chunk number `c` (bytes `[1024*c, 1024*c + len)` of `data`).
All blocks but the last are compressed in sequence starting from the IV; the first
block carries `CHUNK_START`, the last one `CHUNK_END` (both on a single-block chunk).
Every compression uses the chunk index as counter.  An empty chunk (only possible for
the empty input) consists of a single block of length 0. -/
def b3ChunkOutput (data : ByteArray) (c : Nat) : B3Output := Id.run do
  let start := b3ChunkLen * c
  let len := min b3ChunkLen (data.size - start)
  let nblocks := max 1 ((len + b3BlockLen - 1) / b3BlockLen)
  let ctr : UInt64 := UInt64.ofNat c
  let mut cv := b3IV
  for b in [0:nblocks - 1] do
    let fl : UInt32 := if b == 0 then b3ChunkStart else 0
    cv := b3First8 (b3Compress cv (b3BlockWords data (start + b3BlockLen * b)) ctr 64 fl)
  let last := nblocks - 1
  let startFlag : UInt32 := if last == 0 then b3ChunkStart else 0
  return {
    inputCv := cv
    block := b3BlockWords data (start + b3BlockLen * last)
    counter := ctr
    blockLen := UInt32.ofNat (len - b3BlockLen * last)
    flags := startFlag ||| b3ChunkEnd }

/-! ### §2.5 parent nodes and the tree (CV stack, §5.1.2) -/

/-- parent node: message block = left CV ‖ right CV, input CV = key words (IV),
counter 0, block length 64, flag `PARENT` -/
def b3ParentOutput (left right : Array UInt32) : B3Output :=
  { inputCv := b3IV, block := left ++ right, counter := 0, blockLen := 64, flags := b3Parent }

def b3ParentCv (left right : Array UInt32) : Array UInt32 :=
  b3ChainingValue (b3ParentOutput left right)

/-- `add_chunk_chaining_value`: push the CV of a finished chunk; `total` is the number
of chunks finished so far including this one.  For every trailing 0 bit of `total` a
complete subtree is merged with the top of the stack (head of the list = top). -/
def b3PushCv : List (Array UInt32) → Array UInt32 → Nat → List (Array UInt32)
  | [], cv, _ => [cv]
  | top :: rest, cv, total =>
    if total % 2 == 0 then b3PushCv rest (b3ParentCv top cv) (total / 2)
    else cv :: top :: rest

/-- `finalize`: starting from the output of the last (possibly short) chunk, fold in
the stacked subtree CVs from the top of the stack down; the last output is the root -/
def b3FoldStack : List (Array UInt32) → B3Output → B3Output
  | [], o => o
  | top :: rest, o => b3FoldStack rest (b3ParentOutput top (b3ChainingValue o))

/-- BLAKE3 hash (default mode, no key, 32-byte output) -/
def blake3 (msg : Bytes) : Bytes := Id.run do
  let data := ByteArray.mk msg.toArray
  let nchunks := max 1 ((data.size + b3ChunkLen - 1) / b3ChunkLen)
  let mut stack : List (Array UInt32) := []
  -- every chunk but the last is finished and pushed on the CV stack
  for c in [0:nchunks - 1] do
    stack := b3PushCv stack (b3ChainingValue (b3ChunkOutput data c)) (c + 1)
  let out := b3FoldStack stack (b3ChunkOutput data (nchunks - 1))
  return b3RootBytes out

/-! ## Test vectors

Official `test_vectors.json` of the BLAKE3 repository: the input of length `n` is the
byte sequence `i % 251`, the expected value is the first 32 bytes of the `hash` field. -/

/-- official test input of length `n` -/
def b3TestInput (n : Nat) : Bytes := (List.range n).map fun i => UInt8.ofNat (i % 251)

#guard (blake3 []).length == 32
#guard hexEncode (blake3 (b3TestInput 0)) ==
  "af1349b9f5f9a1a6a0404dea36dcc9499bcb25c9adc112b7cc9a93cae41f3262"
#guard hexEncode (blake3 (b3TestInput 1)) ==
  "2d3adedff11b61f14c886e35afa036736dcd87a74d27b5c1510225d0f592e213"
#guard hexEncode (blake3 (b3TestInput 1024)) ==
  "42214739f095a406f3fc83deb889744ac00df831c10daa55189b5d121c855af7"
#guard hexEncode (blake3 (b3TestInput 1025)) ==
  "d00278ae47eb27b34faecf67b4fe263f82d5412916c1ffd97c8cb7fb814b8444"
#guard hexEncode (blake3 (b3TestInput 2048)) ==
  "e776b6028c7cd22a4d0ba182a8bf62205d2ef576467e838ed6f2529b85fba24a"
#guard hexEncode (blake3 (b3TestInput 2049)) ==
  "5f4d72f40d7a5f82b15ca2b2e44b1de3c2ef86c426c95c1af0b6879522563030"
#guard hexEncode (blake3 (b3TestInput 3072)) ==
  "b98cb0ff3623be03326b373de6b9095218513e64f1ee2edd2525c7ad1e5cffd2"
#guard hexEncode (blake3 (b3TestInput 4096)) ==
  "015094013f57a5277b59d8475c0501042c0b642e531b0a1c8f58d2163229e969"

-- further lengths from the official vector set, cross-checked against the Rust
-- `blake3` 1.5.0 crate: block boundaries, 5/7/8 chunks (+1 byte) exercise uneven trees
#guard hexEncode (blake3 (b3TestInput 2)) ==
  "7b7015bb92cf0b318037702a6cdd81dee41224f734684c2c122cd6359cb1ee63"
#guard hexEncode (blake3 (b3TestInput 63)) ==
  "e9bc37a594daad83be9470df7f7b3798297c3d834ce80ba85d6e207627b7db7b"
#guard hexEncode (blake3 (b3TestInput 64)) ==
  "4eed7141ea4a5cd4b788606bd23f46e212af9cacebacdc7d1f4c6dc7f2511b98"
#guard hexEncode (blake3 (b3TestInput 65)) ==
  "de1e5fa0be70df6d2be8fffd0e99ceaa8eb6e8c93a63f2d8d1c30ecb6b263dee"
#guard hexEncode (blake3 (b3TestInput 128)) ==
  "f17e570564b26578c33bb7f44643f539624b05df1a76c81f30acd548c44b45ef"
#guard hexEncode (blake3 (b3TestInput 1023)) ==
  "10108970eeda3eb932baac1428c7a2163b0e924c9a9e25b35bba72b28f70bd11"
#guard hexEncode (blake3 (b3TestInput 3073)) ==
  "7124b49501012f81cc7f11ca069ec9226cecb8a2c850cfe644e327d22d3e1cd3"
#guard hexEncode (blake3 (b3TestInput 5120)) ==
  "9cadc15fed8b5d854562b26a9536d9707cadeda9b143978f319ab34230535833"
#guard hexEncode (blake3 (b3TestInput 6145)) ==
  "f1323a8631446cc50536a9f705ee5cb619424d46887f3c376c695b70e0f0507f"
#guard hexEncode (blake3 (b3TestInput 7168)) ==
  "61da957ec2499a95d6b8023e2b0e604ec7f6b50e80a9678b89d2628e99ada77a"
#guard hexEncode (blake3 (b3TestInput 8193)) ==
  "bab6c09cb8ce8cf459261398d2e7aef35700bf488116ceb94a36d0f5f1b7bc3b"

end Aqua.Crypto
