import Aqua.Base.Basic

/-!
# Multibase text decoding as done by the Rust crates behind `cid::Cid::try_from(&str)`

`multibase` 0.9.1 dispatches on the first character of the text to one of 23 bases, implemented by

* `data-encoding` 2.5.0 (`Encoding::decode`) for the power-of-two bases: base2, base8, base16 (both
  "permissive" hex encodings accept both cases), the eight RFC 4648 base32 / base32hex variants with
  case translation and optional padding, z-base-32, and the four base64 variants;
* `base-x` 0.2.11 (`decode`) for base10, base36 (input case-folded first) and the two base58 alphabets;
* the identity base (`'\0'`), whose payload is the rest of the text as is.

Text is handled as its UTF-8 bytes, as the Rust code does (`str::as_bytes`, `str::bytes`): every
alphabet is ASCII, so a non-ASCII character is always a sequence of invalid symbols.
Only success/failure and the decoded bytes are modelled: `cid` maps every `multibase` error to
`Error::ParsingError`.

Numbers instead of bit buffers: a `data-encoding` block decoder concatenates the `bit`-wide symbol values
most significant bit first; this is the big-endian positional value of the digits in base `2^bit`
(`ofDigits`), and the output bytes are its base-256 digits (`toDigits`).
-/

namespace Aqua.Crypto.Multibase

/-! ## Positional notation -/

/-- big-endian value of a digit string -/
def ofDigits (base : Nat) (ds : List Nat) : Nat := ds.foldl (fun acc d => acc * base + d) 0

/-- exactly `k` big-endian digits of `n % base^k`, prepended to `acc` -/
def toDigitsAux (base : Nat) : Nat → Nat → List Nat → List Nat
  | 0, _, acc => acc
  | k + 1, n, acc => toDigitsAux base k (n / base) (n % base :: acc)

/-- exactly `k` big-endian digits of `n % base^k` -/
def toDigits (base k n : Nat) : List Nat := toDigitsAux base k n []

/-- minimal big-endian digits of `n` (none for `0`), prepended to `acc`; `fuel` bounds their number -/
def minDigitsAux (base : Nat) : Nat → Nat → List Nat → List Nat
  | 0, _, acc => acc
  | fuel + 1, n, acc => if n == 0 then acc else minDigitsAux base fuel (n / base) (n % base :: acc)

/-- bytes of an ASCII literal -/
def ascii (s : String) : Bytes := s.toList.map fun c => UInt8.ofNat c.toNat

/-! ## `data-encoding`

`Specification` → `Encoding`: `symbols` (2^bit of them), `translate` (`from[i]` is read as `to[i]`),
optional `padding`.  All encodings used by `multibase` keep the defaults: most significant bit first,
`check_trailing_bits = true`, no ignored characters, no wrapping. -/

structure Encoding where
  symbols : List UInt8
  bit : Nat
  translateFrom : List UInt8 := []
  translateTo : List UInt8 := []
  padding : Option UInt8 := none

/-- the `values` table restricted to symbol values: `values[c] < 2^bit`
(`INVALID`, `PADDING` are `≥ 128`, hence never a symbol value) -/
def Encoding.value (e : Encoding) (c : UInt8) : Option Nat :=
  match indexOf? c e.symbols with
  | some v => some v
  | none =>
    match indexOf? c e.translateFrom with
    | some i => (e.translateTo[i]?).bind fun t => indexOf? t e.symbols
    | none => none

def Encoding.symbol (e : Encoding) (v : Nat) : UInt8 := e.symbols.getD v 0

/-- `enc(bit)`: bytes per full block -/
def enc (bit : Nat) : Nat :=
  match bit with
  | 1 | 2 | 4 => 1
  | 3 | 6 => 3
  | 5 => 5
  | _ => 0

/-- `dec(bit)`: symbols per full block -/
def dec (bit : Nat) : Nat := enc bit * 8 / bit

/-- `decode_base_len` + `decode_base_mut` (no padding):
* `Length`: with `trail = bit * len % 8` the longest valid length is `len - trail / bit`, so the length is
  valid iff `trail < bit`;
* `Symbol`: every character must translate to a symbol value;
* `Trailing` (`check_trail`): the `trail` bits after the last full byte must be zero (they are the low bits
  of the last symbol; nothing to check when `bit` divides 8, then `trail = 0`);
* output: the first `bit * len / 8` bytes of the bit string. -/
def Encoding.decodeBase (e : Encoding) (input : Bytes) : Option Bytes :=
  let len := input.length
  let trail := e.bit * len % 8
  if trail / e.bit != 0 then none
  else
    match input.mapM e.value with
    | none => none
    | some vals =>
      let m := ofDigits (2 ^ e.bit) vals
      if 8 % e.bit != 0 && m % 2 ^ trail != 0 then none
      else some ((toDigits 256 (e.bit * len / 8) (m / 2 ^ trail)).map UInt8.ofNat)

/-- `check_pad` on one block of `dec` characters: the number of characters before the trailing run of
padding characters; it must be positive and a length some encoder produces (`bit * len % 8 < bit`). -/
def Encoding.checkPad (e : Encoding) (block : Bytes) : Option Nat :=
  let count := (block.reverse.takeWhile fun c => some c == e.padding).length
  let len := block.length - count
  if len > 0 && e.bit * len % 8 < e.bit then some len else none

/-- `decode_pad_mut` with padding, block by block.  `data-encoding` decodes the longest prefix of full
blocks made of symbols, then handles the block where that stopped with `check_pad` + `decode_base_mut`
on its unpadded part, and goes on after it (so concatenations of padded texts decode).  A block made of
symbols only has no trailing padding, `check_pad` gives its whole length, and both paths coincide; this
is the per-block form.  `fuel` ≥ number of blocks. -/
def Encoding.decodePadBlocks (e : Encoding) : Nat → Bytes → Option Bytes
  | 0, _ => some []
  | fuel + 1, input =>
    if input.isEmpty then some []
    else
      let block := input.take (dec e.bit)
      match e.checkPad block with
      | none => none
      | some len =>
        match e.decodeBase (block.take len), e.decodePadBlocks fuel (input.drop (dec e.bit)) with
        | some a, some b => some (a ++ b)
        | _, _ => none

/-- `Encoding::decode`: `decode_len` (for a padded encoding the length must be a multiple of the block
length) then `decode_mut` -/
def Encoding.decode (e : Encoding) (input : Bytes) : Option Bytes :=
  match e.padding with
  | none => e.decodeBase input
  | some _ =>
    if input.length % dec e.bit != 0 then none
    else e.decodePadBlocks input.length input

/-- `Encoding::encode` of an unpadded encoding: `div_ceil(8 * len, bit)` symbols, the last one filled up
with zero bits -/
def Encoding.encodeBase (e : Encoding) (bs : Bytes) : Bytes :=
  let nbits := 8 * bs.length
  let m := (nbits + e.bit - 1) / e.bit
  let n := ofDigits 256 (bs.map UInt8.toNat)
  (toDigits (2 ^ e.bit) m (n * 2 ^ (m * e.bit - nbits))).map e.symbol

/-! ### The encodings of `multibase/src/encoding.rs` -/

def upperAZ : Bytes := ascii "ABCDEFGHIJKLMNOPQRSTUVWXYZ"
def lowerAZ : Bytes := ascii "abcdefghijklmnopqrstuvwxyz"
def upperAV : Bytes := ascii "ABCDEFGHIJKLMNOPQRSTUV"
def lowerAV : Bytes := ascii "abcdefghijklmnopqrstuv"
def padChar : UInt8 := 61  -- '='

def BASE2 : Encoding := { symbols := ascii "01", bit := 1 }
def BASE8 : Encoding := { symbols := ascii "01234567", bit := 3 }
/-- `data_encoding::HEXLOWER_PERMISSIVE` -/
def BASE16_LOWER : Encoding :=
  { symbols := ascii "0123456789abcdef", bit := 4, translateFrom := ascii "ABCDEF", translateTo := ascii "abcdef" }
/-- `data_encoding::HEXUPPER_PERMISSIVE` -/
def BASE16_UPPER : Encoding :=
  { symbols := ascii "0123456789ABCDEF", bit := 4, translateFrom := ascii "abcdef", translateTo := ascii "ABCDEF" }
def BASE32_NOPAD_LOWER : Encoding :=
  { symbols := ascii "abcdefghijklmnopqrstuvwxyz234567", bit := 5, translateFrom := upperAZ, translateTo := lowerAZ }
def BASE32_NOPAD_UPPER : Encoding :=
  { symbols := ascii "ABCDEFGHIJKLMNOPQRSTUVWXYZ234567", bit := 5, translateFrom := lowerAZ, translateTo := upperAZ }
def BASE32_PAD_LOWER : Encoding := { BASE32_NOPAD_LOWER with padding := some padChar }
def BASE32_PAD_UPPER : Encoding := { BASE32_NOPAD_UPPER with padding := some padChar }
def BASE32HEX_NOPAD_LOWER : Encoding :=
  { symbols := ascii "0123456789abcdefghijklmnopqrstuv", bit := 5, translateFrom := upperAV, translateTo := lowerAV }
def BASE32HEX_NOPAD_UPPER : Encoding :=
  { symbols := ascii "0123456789ABCDEFGHIJKLMNOPQRSTUV", bit := 5, translateFrom := lowerAV, translateTo := upperAV }
def BASE32HEX_PAD_LOWER : Encoding := { BASE32HEX_NOPAD_LOWER with padding := some padChar }
def BASE32HEX_PAD_UPPER : Encoding := { BASE32HEX_NOPAD_UPPER with padding := some padChar }
def BASE32Z : Encoding := { symbols := ascii "ybndrfg8ejkmcpqxot1uwisza345h769", bit := 5 }
/-- `data_encoding::BASE64_NOPAD` -/
def BASE64_NOPAD : Encoding :=
  { symbols := ascii "ABCDEFGHIJKLMNOPQRSTUVWXYZabcdefghijklmnopqrstuvwxyz0123456789+/", bit := 6 }
/-- `data_encoding::BASE64` -/
def BASE64_PAD : Encoding := { BASE64_NOPAD with padding := some padChar }
/-- `data_encoding::BASE64URL_NOPAD` -/
def BASE64URL_NOPAD : Encoding :=
  { symbols := ascii "ABCDEFGHIJKLMNOPQRSTUVWXYZabcdefghijklmnopqrstuvwxyz0123456789-_", bit := 6 }
/-- `data_encoding::BASE64URL` -/
def BASE64URL_PAD : Encoding := { BASE64URL_NOPAD with padding := some padChar }

def BASE10 : Bytes := ascii "0123456789"
def BASE36_LOWER : Bytes := ascii "0123456789abcdefghijklmnopqrstuvwxyz"
def BASE36_UPPER : Bytes := ascii "0123456789ABCDEFGHIJKLMNOPQRSTUVWXYZ"
def BASE58_FLICKR : Bytes := ascii "123456789abcdefghijkmnopqrstuvwxyzABCDEFGHJKLMNPQRSTUVWXYZ"
def BASE58_BITCOIN : Bytes := ascii "123456789ABCDEFGHJKLMNPQRSTUVWXYZabcdefghijkmnopqrstuvwxyz"

/-! ## `base-x` -/

/-- `base_x::decode` with an ASCII alphabet (`U8Decoder`): the bytes of the text are digits of a big
number (`BigUint::mul_add`), written out as minimal big-endian bytes (`into_bytes_be`, nothing for zero),
preceded by one zero byte per leading `alphabet[0]` character.  The empty text is the empty byte string. -/
def baseXDecode (alphabet : Bytes) (input : Bytes) : Option Bytes :=
  if input.isEmpty then some []
  else
    match input.mapM fun c => indexOf? c alphabet with
    | none => none
    | some ds =>
      let big := ofDigits alphabet.length ds
      let bytes := (minDigitsAux 256 input.length big []).map UInt8.ofNat
      let leader := alphabet.headD 0
      let leaders := (input.takeWhile (· == leader)).length
      some (List.replicate leaders 0 ++ bytes)

/-- `u8::to_ascii_lowercase` -/
def toAsciiLowercase (c : UInt8) : UInt8 := if 65 ≤ c && c ≤ 90 then c + 32 else c
/-- `u8::to_ascii_uppercase` -/
def toAsciiUppercase (c : UInt8) : UInt8 := if 97 ≤ c && c ≤ 122 then c - 32 else c

/-! ## `multibase` -/

/-- `multibase::Base` -/
inductive Base where
  | Identity | Base2 | Base8 | Base10 | Base16Lower | Base16Upper
  | Base32Lower | Base32Upper | Base32PadLower | Base32PadUpper
  | Base32HexLower | Base32HexUpper | Base32HexPadLower | Base32HexPadUpper | Base32Z
  | Base36Lower | Base36Upper | Base58Flickr | Base58Btc
  | Base64 | Base64Pad | Base64Url | Base64UrlPad
deriving Repr, DecidableEq, Inhabited

/-- `Base::code` (as a byte: all codes are ASCII) -/
def Base.code : Base → UInt8
  | .Identity => 0 | .Base2 => 48 | .Base8 => 55 | .Base10 => 57
  | .Base16Lower => 102 | .Base16Upper => 70
  | .Base32Lower => 98 | .Base32Upper => 66 | .Base32PadLower => 99 | .Base32PadUpper => 67
  | .Base32HexLower => 118 | .Base32HexUpper => 86 | .Base32HexPadLower => 116 | .Base32HexPadUpper => 84
  | .Base32Z => 104 | .Base36Lower => 107 | .Base36Upper => 75
  | .Base58Flickr => 90 | .Base58Btc => 122
  | .Base64 => 109 | .Base64Pad => 77 | .Base64Url => 117 | .Base64UrlPad => 85

def Base.all : List Base :=
  [.Identity, .Base2, .Base8, .Base10, .Base16Lower, .Base16Upper, .Base32Lower, .Base32Upper,
   .Base32PadLower, .Base32PadUpper, .Base32HexLower, .Base32HexUpper, .Base32HexPadLower,
   .Base32HexPadUpper, .Base32Z, .Base36Lower, .Base36Upper, .Base58Flickr, .Base58Btc,
   .Base64, .Base64Pad, .Base64Url, .Base64UrlPad]

def Base.name : Base → String
  | .Identity => "Identity" | .Base2 => "Base2" | .Base8 => "Base8" | .Base10 => "Base10"
  | .Base16Lower => "Base16Lower" | .Base16Upper => "Base16Upper"
  | .Base32Lower => "Base32Lower" | .Base32Upper => "Base32Upper"
  | .Base32PadLower => "Base32PadLower" | .Base32PadUpper => "Base32PadUpper"
  | .Base32HexLower => "Base32HexLower" | .Base32HexUpper => "Base32HexUpper"
  | .Base32HexPadLower => "Base32HexPadLower" | .Base32HexPadUpper => "Base32HexPadUpper"
  | .Base32Z => "Base32Z" | .Base36Lower => "Base36Lower" | .Base36Upper => "Base36Upper"
  | .Base58Flickr => "Base58Flickr" | .Base58Btc => "Base58Btc"
  | .Base64 => "Base64" | .Base64Pad => "Base64Pad" | .Base64Url => "Base64Url" | .Base64UrlPad => "Base64UrlPad"

/-- `Base::from_code`; a non-ASCII first character (lead byte `≥ 0x80`) is no code -/
def Base.fromCode (c : UInt8) : Option Base := Base.all.find? fun b => b.code == c

/-- `Base::decode` -/
def Base.decode (b : Base) (input : Bytes) : Option Bytes :=
  match b with
  | .Identity => some input
  | .Base2 => BASE2.decode input
  | .Base8 => BASE8.decode input
  | .Base10 => baseXDecode BASE10 input
  | .Base16Lower => BASE16_LOWER.decode input
  | .Base16Upper => BASE16_UPPER.decode input
  | .Base32Lower => BASE32_NOPAD_LOWER.decode input
  | .Base32Upper => BASE32_NOPAD_UPPER.decode input
  | .Base32PadLower => BASE32_PAD_LOWER.decode input
  | .Base32PadUpper => BASE32_PAD_UPPER.decode input
  | .Base32HexLower => BASE32HEX_NOPAD_LOWER.decode input
  | .Base32HexUpper => BASE32HEX_NOPAD_UPPER.decode input
  | .Base32HexPadLower => BASE32HEX_PAD_LOWER.decode input
  | .Base32HexPadUpper => BASE32HEX_PAD_UPPER.decode input
  | .Base32Z => BASE32Z.decode input
  | .Base36Lower => baseXDecode BASE36_LOWER (input.map toAsciiLowercase)
  | .Base36Upper => baseXDecode BASE36_UPPER (input.map toAsciiUppercase)
  | .Base58Flickr => baseXDecode BASE58_FLICKR input
  | .Base58Btc => baseXDecode BASE58_BITCOIN input
  | .Base64 => BASE64_NOPAD.decode input
  | .Base64Pad => BASE64_PAD.decode input
  | .Base64Url => BASE64URL_NOPAD.decode input
  | .Base64UrlPad => BASE64URL_PAD.decode input

/-- `multibase::decode`: the first character names the base, the rest is the payload -/
def decode (input : Bytes) : Option (Base × Bytes) :=
  match input with
  | [] => none
  | c :: rest =>
    match Base.fromCode c with
    | none => none
    | some b => (b.decode rest).map fun d => (b, d)

/-- `multibase::encode(Base::Base32Lower, bytes)`, the text form `cid` gives a CIDv1 -/
def encodeBase32Lower (bs : Bytes) : Bytes := Base.Base32Lower.code :: BASE32_NOPAD_LOWER.encodeBase bs

/-! ## Checks (RFC 4648 §10 vectors and the documented corner cases of `data-encoding`) -/

private def str (s : String) : Bytes := s.toUTF8.toList

#guard Base.all.length == 23
#guard [BASE2, BASE8, BASE16_LOWER, BASE32_NOPAD_LOWER, BASE32HEX_NOPAD_UPPER, BASE32Z, BASE64_NOPAD, BASE64URL_NOPAD].all
  fun e => e.symbols.length == 2 ^ e.bit
#guard (dec 1, dec 3, dec 4, dec 5, dec 6) == (8, 8, 2, 8, 4)
#guard BASE32_NOPAD_LOWER.encodeBase (str "foobar") == str "mzxw6ytboi"
#guard BASE32_NOPAD_LOWER.encodeBase (str "") == str ""
#guard BASE32_NOPAD_LOWER.encodeBase (str "f") == str "my"
#guard ["", "f", "fo", "foo", "foob", "fooba", "foobar"].all fun s =>
  BASE32_NOPAD_LOWER.decode (BASE32_NOPAD_LOWER.encodeBase (str s)) == some (str s)
#guard BASE32_NOPAD_LOWER.decode (str "MZXW6YTBOI") == some (str "foobar")     -- translate
#guard BASE32_NOPAD_LOWER.decode (str "mZxW6yTbOi") == some (str "foobar")
#guard BASE32_NOPAD_LOWER.decode (str "mz") == none                            -- Trailing
#guard BASE32_NOPAD_LOWER.decode (str "m") == none                             -- Length
#guard BASE32_NOPAD_LOWER.decode (str "mzx") == none
#guard BASE32_NOPAD_LOWER.decode (str "mzxw6y") == none
#guard BASE32_NOPAD_LOWER.decode (str "my======") == none                      -- Symbol
#guard BASE32_PAD_LOWER.decode (str "my======") == some (str "f")
#guard BASE32_PAD_LOWER.decode (str "MZXW6YTBOI======") == some (str "foobar")
#guard BASE32_PAD_LOWER.decode (str "my======mzxq====") == some (str "ffo")    -- concatenated
#guard BASE32_PAD_LOWER.decode (str "my") == none                              -- Length
#guard BASE32_PAD_LOWER.decode (str "m=======") == none                        -- Padding
#guard BASE32_PAD_LOWER.decode (str "========") == none
#guard BASE32_PAD_LOWER.decode (str "mz======") == none                        -- Trailing
#guard BASE32_PAD_LOWER.decode (str "my=====a") == none
#guard BASE32_PAD_LOWER.decode (str "") == some []
#guard BASE64_PAD.decode (str "SGVsbA==byB3b3JsZA==") == some (str "Hello world")
#guard BASE64_PAD.decode (str "Zm9vYmFy") == some (str "foobar")
#guard BASE64_PAD.decode (str "Zg==") == some (str "f")
#guard BASE64_PAD.decode (str "Zh==") == none
#guard BASE64_NOPAD.decode (str "Zg") == some (str "f")
#guard BASE64_NOPAD.decode (str "Zg==") == none
#guard BASE64_NOPAD.decode (str "Z") == none
#guard BASE64URL_NOPAD.decode (str "-_8") == some [0xfb, 0xff]
#guard BASE64_NOPAD.decode (str "-_8") == none
#guard BASE16_LOWER.decode (str "DeadBeef") == some [0xde, 0xad, 0xbe, 0xef]
#guard BASE16_UPPER.decode (str "DeadBeef") == some [0xde, 0xad, 0xbe, 0xef]
#guard BASE16_LOWER.decode (str "abc") == none
#guard BASE2.decode (str "0110000101100010") == some (str "ab")
#guard BASE2.decode (str "0110000") == none
#guard BASE8.decode (str "314") == some [0x66]            -- 011 001 100 → 01100110 | 0
#guard BASE8.decode (str "315") == none                   -- non-zero trailing bit
#guard BASE8.decode (str "31") == none                    -- 6 bits: Length
#guard baseXDecode BASE58_BITCOIN (str "2NEpo7TZRRrLZSi2U") == some (str "Hello World!")
#guard baseXDecode BASE58_BITCOIN (str "11233QC4") == some [0, 0, 0x28, 0x7f, 0xb4, 0xcd]
#guard baseXDecode BASE58_BITCOIN (str "1") == some [0]
#guard baseXDecode BASE58_BITCOIN (str "") == some []
#guard baseXDecode BASE58_BITCOIN (str "0") == none
#guard baseXDecode BASE10 (str "0255") == some [0, 255]
#guard baseXDecode BASE10 (str "00") == some [0, 0]
#guard Base.Base36Lower.decode (str "K") == Base.Base36Lower.decode (str "k")
#guard decode (str "zCn8eVZg") == some (.Base58Btc, str "hello")
#guard decode (str "") == none
#guard decode (str "é") == none
#guard decode (str "!abc") == none
#guard decode [0, 1, 2, 200] == some (.Identity, [1, 2, 200])
#guard encodeBase32Lower (str "foobar") == str "bmzxw6ytboi"

end Aqua.Crypto.Multibase
