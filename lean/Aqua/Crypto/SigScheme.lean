import Aqua.Base.Basic
/-!
# What is signed, and the symbolic signature scheme

Replica of `crates/air-lib/interpreter-signatures/src/{lib,trackers}.rs`:

* `sign_cids(cids, salt, keypair)` sorts the CID texts and signs
  `SaltedData(&cids, salt).serialize()` = `borsh::to_vec(&(&Vec<Rc<str>>, &str))`;
* `PublicKey::verify(&cids, salt, signature)` re-serialises the same way and runs the signature
  check of `fluence_keypair`.

Borsh (v1.x): `u32` = 4 bytes little endian; `str`/`String` = `u32` byte length ‖ UTF-8 bytes;
`Vec<T>` = `u32` element count ‖ elements; a tuple struct = its fields in order.  A length that does
not fit `u32` is a serialisation *error*, which `SaltedData::serialize` turns into a panic
(`expect("borsh serializer shouldn't fail")`) — `none` below.

The signature algorithm itself (Ed25519) is not modelled: `SigScheme` is the symbolic
(Dolev-Yao) abstraction — a signature verifies exactly when it is the term `sign sk m` for the
secret key of the public key.
-/
namespace Aqua.Crypto

/-- UTF-8 bytes of a string -/
def strBytes (s : String) : Bytes := s.toUTF8.data.toList

/-- `u32::to_le_bytes` -/
def u32le (n : Nat) : Bytes :=
  [UInt8.ofNat (n % 256), UInt8.ofNat (n / 256 % 256), UInt8.ofNat (n / 65536 % 256), UInt8.ofNat (n / 16777216 % 256)]

def u32Limit : Nat := 4294967296

/-- borsh of a `str`: `u32::try_from(len)?` then the bytes -/
def borshBytes (b : Bytes) : Option Bytes :=
  if b.length < u32Limit then some (u32le b.length ++ b) else none

/-- the concatenated borsh encodings of the elements of a sequence -/
def borshItems : List Bytes → Option Bytes
  | [] => some []
  | b :: rest =>
    match borshBytes b, borshItems rest with
    | some x, some y => some (x ++ y)
    | _, _ => none

/-- borsh of a `Vec<Rc<str>>` -/
def borshVec (items : List Bytes) : Option Bytes :=
  if items.length < u32Limit then (borshItems items).map (u32le items.length ++ ·) else none

/-- `SaltedData::new(&cids, salt).serialize()`; `none` = the `expect` on the borsh result fires -/
def saltedData (cids : List String) (salt : String) : Option Bytes :=
  match borshVec (cids.map strBytes), borshBytes (strBytes salt) with
  | some v, some s => some (v ++ s)
  | _, _ => none

/-! ## symbolic signatures -/

/-- A signature scheme in the symbolic model: the only way to obtain something that verifies under
`pub sk` for `m` is to apply `sign sk` to `m`. -/
structure SigScheme where
  SecretKey : Type
  PublicKey : Type
  Sig : Type
  pub : SecretKey → PublicKey
  sign : SecretKey → Bytes → Sig
  verify : PublicKey → Bytes → Sig → Bool
  verify_iff : ∀ pk m s, verify pk m s = true ↔ ∃ sk, pk = pub sk ∧ s = sign sk m

/-- signatures are free terms: `sign` is injective (different key or different message, different
signature) -/
def SigScheme.Free (S : SigScheme) : Prop :=
  ∀ sk sk' m m', S.sign sk m = S.sign sk' m' → S.pub sk = S.pub sk' ∧ m = m'

/-- the term algebra used by the model driver: the harness replaces every real signature by
`sig pk m` when it is the real signature of `m` under the key `pk`, and by `junk n` otherwise -/
inductive SymSig where
  | sig (pk : String) (msg : Bytes)
  | junk (n : Nat)
deriving Repr, DecidableEq, Inhabited

/-- the free scheme over `SymSig`; a secret key is named by its public key -/
def symbolic : SigScheme where
  SecretKey := String
  PublicKey := String
  Sig := SymSig
  pub := id
  sign := fun sk m => .sig sk m
  verify := fun pk m s => decide (s = .sig pk m)
  verify_iff := by
    intro pk m s
    simp only [decide_eq_true_eq, id]
    constructor
    · intro h; exact ⟨pk, rfl, h⟩
    · rintro ⟨sk, rfl, h⟩; exact h

theorem symbolic_free : symbolic.Free := by
  intro sk sk' m m' h
  simp only [symbolic] at h
  injection h with h1 h2
  exact ⟨h1, h2⟩

end Aqua.Crypto
