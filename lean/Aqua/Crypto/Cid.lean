import Aqua.Base.Basic
import Aqua.Crypto.Base
import Aqua.Crypto.Sha256
import Aqua.Crypto.Blake3

/-!
# CIDs (multiformats CID spec, Rust crates `cid` 0.11 / `multihash` 0.19 / `multibase` 0.9)

Binary CIDv1:  `varint(1) ‖ varint(codec) ‖ multihash`
multihash:     `varint(hashCode) ‖ varint(digest.length) ‖ digest`
text form:     multibase, i.e. one prefix character naming the base (`b` = base32 lower
               case without padding, `z` = base58btc) followed by the encoded bytes.
CIDv0:         the bare base58btc text (no multibase prefix) of a sha2-256 multihash
               `0x12 0x20 ‖ 32-byte digest`; always 46 characters starting with `Qm`;
               implicit codec dag-pb (`0x70`).

Deliberate differences between `parseCid` and Rust's `cid::Cid::try_from(&str)`
(the model is stricter; everything it accepts, Rust accepts with the same result —
cross-checked against `cid` 0.11.1 on the cases in the checks below):

* Rust ignores bytes following the multihash; here trailing bytes are rejected
  (`parseCidBytesPrefix` exposes the permissive behaviour);
* Rust's `multibase` accepts upper-case letters after the `b` prefix (its base32 table
  has `translate_from: "A-Z"`) and 20-odd further multibase prefixes (`B`, `f`, `k`,
  `m`, `u`, ...); here only `b` with strictly lower-case symbols and `z` are accepted;
* Rust strips everything up to and including a `/ipfs/` substring first; not modelled.

AquaVM (`air-interpreter-cid`) produces `cidV1 jsonCodec blake3Code (blake3 json_text)`
rendered in base32-lower, see `jsonCidOfBytes`.
-/

namespace Aqua.Crypto

/-- multicodec `json` -/
def jsonCodec : Nat := 0x0200
/-- multicodec `dag-pb`, the implicit codec of CIDv0 -/
def dagPbCodec : Nat := 0x70
/-- multihash code `blake3` -/
def blake3Code : Nat := 0x1e
/-- multihash code `sha2-256` -/
def sha256Code : Nat := 0x12

/-- multihash: `varint(code) ‖ varint(size) ‖ digest` -/
def multihashBytes (hashCode : Nat) (digest : Bytes) : Bytes :=
  varintEncode hashCode ++ varintEncode digest.length ++ digest

/-- binary CIDv1 (`Cid::write_bytes_v1`) -/
def cidV1Bytes (codec hashCode : Nat) (digest : Bytes) : Bytes :=
  varintEncode 1 ++ varintEncode codec ++ multihashBytes hashCode digest

/-- CIDv1 text: multibase base32-lower (`'b'` prefix), the default `Display` of `cid::Cid` -/
def cidV1 (codec hashCode : Nat) (digest : Bytes) : String :=
  "b" ++ base32LowerEncode (cidV1Bytes codec hashCode digest)

/-- CIDv1 text in multibase base58btc (`'z'` prefix) -/
def cidV1Base58 (codec hashCode : Nat) (digest : Bytes) : String :=
  "z" ++ base58Encode (cidV1Bytes codec hashCode digest)

/-- the CID AquaVM assigns to a JSON text: codec `json`, BLAKE3 multihash, base32-lower -/
def jsonCidOfBytes (b : Bytes) : String :=
  cidV1 jsonCodec blake3Code (blake3 b)

structure ParsedCid where
  version : Nat
  codec : Nat
  hashCode : Nat
  digest : Bytes
deriving Repr, DecidableEq, BEq, Inhabited

/-- Maximal digest size of `cid::Cid = Cid<64>` (`multihash::Multihash<64>`): longer
digests are rejected by `Multihash::read` (`Error::InvalidSize`). -/
def maxDigestSize : Nat := 64

/-- Model of `Cid::read_bytes`: parse a binary CID from the front of `bs`; returns the
CID and the unread rest.

1. read two varints `version`, `codec`;
2. if they are `0x12`, `0x20` the input is a CIDv0: exactly 32 digest bytes follow
   (version 0, codec dag-pb, sha2-256);
3. otherwise `version` must be 1 (an explicit version 0 is `InvalidExplicitCidV0`, any
   other value `InvalidCidVersion`), and a multihash follows: `varint(code)`,
   `varint(size)` with `size ≤ 64`, then exactly `size` digest bytes. -/
def parseCidBytesPrefix (bs : Bytes) : Option (ParsedCid × Bytes) := do
  let (version, r1) ← varintDecode bs
  let (codec, r2) ← varintDecode r1
  if version == 0x12 && codec == 0x20 then
    if r2.length < 32 then none
    else
      pure ({ version := 0, codec := dagPbCodec, hashCode := sha256Code, digest := r2.take 32 },
            r2.drop 32)
  else if version != 1 then none
  else
    let (hashCode, r3) ← varintDecode r2
    let (size, r4) ← varintDecode r3
    if size > maxDigestSize then none
    else if r4.length < size then none
    else
      pure ({ version := 1, codec := codec, hashCode := hashCode, digest := r4.take size },
            r4.drop size)

/-- Binary CID with nothing after it.  (The Rust `TryFrom<&[u8]>` silently ignores
trailing bytes; this model is deliberately stricter and rejects them, so that
`digest.length` equals the encoded size and the text form is unique.) -/
def parseCidBytes (bs : Bytes) : Option ParsedCid :=
  match parseCidBytesPrefix bs with
  | some (c, []) => some c
  | _ => none

/-- `Version::is_v0_str`: 46 bytes of text starting with `Qm` -/
def isCidV0Str (s : String) : Bool :=
  s.utf8ByteSize == 46 && s.startsWith "Qm"

/-- Text → bytes, model of the front half of `Cid::try_from(&str)`:
a CIDv0-looking string is plain base58btc; otherwise the first character is the
multibase prefix.  Only `b` (base32 lower, no padding) and `z` (base58btc) are
supported, every other prefix yields `none`. -/
def cidTextToBytes (s : String) : Option Bytes :=
  if isCidV0Str s then base58Decode s
  else
    match s.toList with
    | 'b' :: rest => base32LowerDecode (String.ofList rest)
    | 'z' :: rest => base58Decode (String.ofList rest)
    | _ => none

/-- Parse a textual CID (CIDv1 in multibase `b`/`z`, or CIDv0). -/
def parseCid (s : String) : Option ParsedCid :=
  cidTextToBytes s >>= parseCidBytes

/-- Render a parsed CID back to its canonical text (v0: bare base58btc, v1: base32-lower) -/
def ParsedCid.toText (c : ParsedCid) : String :=
  if c.version == 0 then base58Encode (multihashBytes c.hashCode c.digest)
  else cidV1 c.codec c.hashCode c.digest

/-! ## Checks -/

private def utf8 (s : String) : Bytes := s.toUTF8.toList

private def hexD (s : String) : Bytes := (hexDecode s).getD []

-- AquaVM JSON CIDs (BLAKE3), values from `air-interpreter-cid`
#guard jsonCidOfBytes (utf8 "\"test\"") ==
  "bagaaihrarcyykpv4oj7zwdbepczyfthxya4og7s2rwvrzolm5kg2eu5dz3xa"
#guard jsonCidOfBytes (utf8 "[1,2,3]") ==
  "bagaaihram6sitn77tquub77n2jzjgttrlwkverv44pv3gns6qghm6hx6d36a"
#guard jsonCidOfBytes (utf8 "1") ==
  "bagaaihra2y55tkbgv6i4d7vdoglfuzhbd3ra6e7ennpvfrmzaejwmbntusdq"
#guard jsonCidOfBytes (utf8 "{\"key\":42}") ==
  "bagaaihracpzxhsrpviexa7k6glwdhyh3a4kvy6j7qlcqokzqbs3q424cmxyq"

-- parseCid of the same four
#guard ["\"test\"", "[1,2,3]", "1", "{\"key\":42}"].all fun j =>
  parseCid (jsonCidOfBytes (utf8 j)) ==
    some { version := 1, codec := 0x0200, hashCode := 0x1e, digest := blake3 (utf8 j) }
#guard (parseCid "bagaaihrarcyykpv4oj7zwdbepczyfthxya4og7s2rwvrzolm5kg2eu5dz3xa").map
    (fun c => (c.version, c.codec, c.hashCode, c.digest.length)) == some (1, 0x0200, 0x1e, 32)

-- sha2-256 JSON CIDs from `air-interpreter-cid/src/verify.rs` (`test_verify_sha2_256`)
#guard cidV1 jsonCodec sha256Code (sha256 (utf8 "\"test\"")) ==
  "bagaaierajwlhumardpzj6dv2ahcerm3vyfrjwl7nahg7zq5o3eprwv6v3vpa"
#guard cidV1 jsonCodec sha256Code (sha256 (utf8 "[1,2,3]")) ==
  "bagaaierauyk65lxcdxsrphpaqdpiymcszdnjaejyibv2ohbyyaziix35kt2a"
#guard cidV1 jsonCodec sha256Code (sha256 (utf8 "1")) ==
  "bagaaieranodle477gt6odhllqbhp6wr7k5d23jhkuixr2soadzjn3n4hlnfq"
#guard cidV1 jsonCodec sha256Code (sha256 (utf8 "{\"key\":42}")) ==
  "bagaaierad7lci6475zdrps4h6fmcpmqyknz5z6bw6p6tmpjkfyueavqw4kaq"
#guard parseCid "bagaaieranodle477gt6odhllqbhp6wr7k5d23jhkuixr2soadzjn3n4hlnfq" ==
  some { version := 1, codec := 0x0200, hashCode := 0x12, digest := sha256 (utf8 "1") }

-- base58btc ('z') BLAKE3 JSON CIDs from `verify.rs` (`test_verify_blake3`)
#guard cidV1Base58 jsonCodec blake3Code (blake3 (utf8 "\"test\"")) ==
  "z3v8BBKBcZMDh6ANTaiT7PmfrBWbBmoVQvDxojXt1M4eczFDmhF"
#guard cidV1Base58 jsonCodec blake3Code (blake3 (utf8 "[1,2,3]")) ==
  "z3v8BBK9PYQwY7AGn9wb79BFTzSQiLALGAEmyqSYbCV2D9y8RLw"
#guard parseCid "z3v8BBKGqF5gxukC6oU2EsSnTD7hBRorAabGJ8UDpNKneW7UApe" ==
  some { version := 1, codec := 0x0200, hashCode := 0x1e, digest := blake3 (utf8 "1") }
#guard parseCid "z3v8BBK3kqxb39bomB9bJQ22a734aidv5C7QmjdfKiePgVjdQUQ" ==
  some { version := 1, codec := 0x0200, hashCode := 0x1e, digest := blake3 (utf8 "{\"key\":42}") }

-- CIDv0 (example from the CID specification / `cid` crate tests)
#guard parseCid "QmdfTbBqBPQ7VNxZEYEj14VmRuZBkqFbiwReogJgS1zR1n" ==
  some { version := 0, codec := 0x70, hashCode := 0x12,
         digest := hexD "e3b0c44298fc1c149afbf4c8996fb92427ae41e4649b934ca495991b7852b855" }
#guard (parseCid "QmdfTbBqBPQ7VNxZEYEj14VmRuZBkqFbiwReogJgS1zR1n").map ParsedCid.toText ==
  some "QmdfTbBqBPQ7VNxZEYEj14VmRuZBkqFbiwReogJgS1zR1n"
#guard base58Encode (multihashBytes sha256Code (sha256 [])) ==
  "QmdfTbBqBPQ7VNxZEYEj14VmRuZBkqFbiwReogJgS1zR1n"

-- round trip through text
#guard (parseCid "bagaaihra2y55tkbgv6i4d7vdoglfuzhbd3ra6e7ennpvfrmzaejwmbntusdq").map ParsedCid.toText ==
  some "bagaaihra2y55tkbgv6i4d7vdoglfuzhbd3ra6e7ennpvfrmzaejwmbntusdq"

-- rejections
#guard parseCid "" == none
#guard parseCid "b" == none
#guard parseCid "z" == none
-- unsupported multibase prefixes (base16 'f', base32 upper 'B', base64 'm', base36 'k')
#guard parseCid "f01800401e20" == none
#guard parseCid "BAGAAIHRA2Y55TKBGV6I4D7VDOGLFUZHBD3RA6E7ENNPVFRMZAEJWMBNTUSDQ" == none
#guard parseCid "mAYAEHiA" == none
-- a character outside the base32 alphabet
#guard parseCid "bagaaihra2y55tkbgv6i4d7vdoglfuzhbd3ra6e7ennpvfrmzaejwmbntus1q" == none
-- truncated digest (31 bytes but size says 32)
#guard parseCid ("b" ++ base32LowerEncode
    (varintEncode 1 ++ varintEncode 0x0200 ++ varintEncode 0x1e ++ varintEncode 32 ++
      List.replicate 31 7)) == none
-- trailing byte after the multihash
#guard parseCid ("b" ++ base32LowerEncode (cidV1Bytes 0x0200 0x1e (List.replicate 32 7) ++ [0])) == none
-- the prefix parser exposes the rest instead
#guard (parseCidBytesPrefix (cidV1Bytes 0x0200 0x1e (List.replicate 32 7) ++ [9])).map (·.2) == some [9]
-- wrong versions: explicit 0, and 2
#guard parseCid ("b" ++ base32LowerEncode
    (varintEncode 0 ++ varintEncode 0x70 ++ multihashBytes 0x12 (List.replicate 32 7))) == none
#guard parseCid ("b" ++ base32LowerEncode
    (varintEncode 2 ++ varintEncode 0x0200 ++ multihashBytes 0x1e (List.replicate 32 7))) == none
-- digest larger than 64 bytes
#guard parseCid (cidV1 0x0200 0x1e (List.replicate 65 7)) == none
#guard (parseCid (cidV1 0x0200 0x1e (List.replicate 64 7))).map (·.digest.length) == some 64
-- short / empty digests are syntactically fine
#guard parseCid (cidV1 0x55 0x00 []) ==
  some { version := 1, codec := 0x55, hashCode := 0, digest := [] }
-- CIDv0 with a wrong multihash header or wrong length
#guard parseCid "QmdfTbBqBPQ7VNxZEYEj14VmRuZBkqFbiwReogJgS1zR1" == none     -- 45 chars: 'Q' prefix
#guard parseCid "QmdfTbBqBPQ7VNxZEYEj14VmRuZBkqFbiwReogJgS1zR1nn" == none   -- 47 chars
#guard parseCid "QmdfTbBqBPQ7VNxZEYEj14VmRuZBkqFbiwReogJgS1zR0n" == none    -- '0' not base58

end Aqua.Crypto
