import Aqua.Base.Basic
import Aqua.Base.Res
import Aqua.Json.Value
import Aqua.Gen.Cid
import Aqua.Crypto.Multibase
import Aqua.Crypto.Sha256
import Aqua.Crypto.Blake3

/-!
# Content ids: `air-interpreter-cid` (`value_to_json_cid`, `raw_value_to_json_cid`, `verify_value`,
`verify_raw_value`) over the crates `cid` 0.11.1, `multihash` 0.19.1, `unsigned-varint` 0.8.0

A CID text (`CidRef = str`) is handled as its UTF-8 bytes.  The definitions follow the Rust functions one
by one and keep their names; every rejection keeps the error variant the Rust code returns, and the one
`expect` of the producing functions is a `panic` value.

The two hash functions are a parameter (`Hashers`); `realHashers` plugs in the executable SHA-256 and
BLAKE3 of this library, which is what the driver runs against the Rust code.
-/

namespace Aqua.Crypto.CidVerify
open Aqua.Crypto.Multibase

instance {ε α : Type} [DecidableEq ε] [DecidableEq α] : DecidableEq (Except ε α)
  | .ok a, .ok b => if h : a = b then isTrue (by rw [h]) else isFalse (by intro h'; cases h'; exact h rfl)
  | .error a, .error b => if h : a = b then isTrue (by rw [h]) else isFalse (by intro h'; cases h'; exact h rfl)
  | .ok _, .error _ => isFalse (by intro h; cases h)
  | .error _, .ok _ => isFalse (by intro h; cases h)

/-! ## `unsigned-varint` -/

/-- `unsigned_varint::decode::Error` -/
inductive DecodeError where
  | Insufficient | Overflow | NotMinimal
deriving Repr, DecidableEq, Inhabited

/-- `unsigned_varint::io::ReadError` (`Io` only ever carries `UnexpectedEof` here) -/
inductive ReadError where
  | Io
  | Decode (e : DecodeError)
deriving Repr, DecidableEq, Inhabited

/-- the `decode!` macro at `u64` (`max_bytes = 9`): `i` is the index of the current byte, `n` the value so
far.  `k << (i * 7)` is a `u64` shift by at most 63: bits shifted out of the word are lost. -/
def decodeU64Aux : Bytes → Nat → Nat → Except DecodeError (Nat × Bytes)
  | [], _, _ => .error .Insufficient
  | b :: bs, i, n =>
    let k := b.toNat % 128
    let n := n ||| (k <<< (i * 7)) % 2 ^ 64
    if b &&& 0x80 == 0 then
      if b == 0 && i > 0 then .error .NotMinimal else .ok (n, bs)
    else if i == 9 then .error .Overflow
    else decodeU64Aux bs (i + 1) n

/-- `unsigned_varint::decode::u64` -/
def decodeU64 (buf : Bytes) : Except DecodeError (Nat × Bytes) := decodeU64Aux buf 0 0

/-- the loop of `unsigned_varint::io::read_u64`: bytes are read one at a time into a 10-byte buffer `b`
(`fuel` = free slots) until one without the continuation bit arrives, then `decode::u64(&b[..= i])` -/
def readU64Loop : Nat → Bytes → Bytes → Except ReadError (Nat × Bytes)
  | 0, _, _ => .error (.Decode .Overflow)
  | fuel + 1, b, r =>
    match r with
    | [] => .error .Io
    | x :: r' =>
      let b := b ++ [x]
      if x &&& 0x80 == 0 then
        match decodeU64 b with
        | .ok (v, _) => .ok (v, r')
        | .error e => .error (.Decode e)
      else readU64Loop fuel b r'

/-- `unsigned_varint::io::read_u64`: value and the unread rest of the reader -/
def readU64 (r : Bytes) : Except ReadError (Nat × Bytes) := readU64Loop 10 [] r

/-- `encode!`: LEB128, `n + 1` bounds the number of bytes -/
def encodeVarintFuel : Nat → Nat → Bytes
  | 0, _ => []
  | fuel + 1, n =>
    if n < 128 then [UInt8.ofNat n]
    else UInt8.ofNat (n % 128 + 128) :: encodeVarintFuel fuel (n / 128)

/-- `unsigned_varint::encode::u64` / `::u8` -/
def encodeVarint (n : Nat) : Bytes := encodeVarintFuel (n + 1) n

/-! ## `multihash` -/

/-- `multihash::Multihash<64>`: `size` is `digest.length` (at most 64) -/
structure Multihash where
  code : Nat
  digest : Bytes
deriving Repr, DecidableEq, Inhabited

/-- the allocated size `S` of `cid::Cid = Cid<64>` -/
def allocSize : Nat := 64

/-- `Multihash::wrap`: `Err(InvalidSize)` when the digest does not fit -/
def Multihash.wrap (code : Nat) (inputDigest : Bytes) : Option Multihash :=
  if inputDigest.length > allocSize then none else some ⟨code, inputDigest⟩

/-- `Multihash::read` (`read_multihash`): code, size, then exactly `size` digest bytes
(`size > S` or `> 255` is `InvalidSize`, a short read an I/O error); every error is
`cid::Error::ParsingError` for the caller, so errors are not told apart here -/
def Multihash.read (r : Bytes) : Option (Multihash × Bytes) :=
  match readU64 r with
  | .error _ => none
  | .ok (code, r) =>
    match readU64 r with
    | .error _ => none
    | .ok (size, r) =>
      if size > allocSize || size > 255 then none
      else if r.length < size then none
      else some (⟨code, r.take size⟩, r.drop size)

/-- `Multihash::write` / `to_bytes` -/
def Multihash.toBytes (m : Multihash) : Bytes :=
  encodeVarint m.code ++ encodeVarint m.digest.length ++ m.digest

/-! ## `cid` -/

/-- `cid::Error` -/
inductive CidError where
  | UnknownCodec | InputTooShort | ParsingError | InvalidCidVersion | InvalidCidV0Codec
  | InvalidCidV0Multihash | InvalidCidV0Base | VarIntDecodeError | Io | InvalidExplicitCidV0
deriving Repr, DecidableEq, Inhabited

def CidError.name : CidError → String
  | .UnknownCodec => "UnknownCodec" | .InputTooShort => "InputTooShort" | .ParsingError => "ParsingError"
  | .InvalidCidVersion => "InvalidCidVersion" | .InvalidCidV0Codec => "InvalidCidV0Codec"
  | .InvalidCidV0Multihash => "InvalidCidV0Multihash" | .InvalidCidV0Base => "InvalidCidV0Base"
  | .VarIntDecodeError => "VarIntDecodeError" | .Io => "Io" | .InvalidExplicitCidV0 => "InvalidExplicitCidV0"

inductive Version where
  | V0 | V1
deriving Repr, DecidableEq, Inhabited

/-- `cid::Cid` -/
structure Cid where
  version : Version
  codec : Nat
  hash : Multihash
deriving Repr, DecidableEq, Inhabited

def DAG_PB : Nat := Gen.Cid.dagPb
def SHA2_256 : Nat := Gen.Cid.cidV0Sha2_256

/-- `From<unsigned_varint::io::ReadError> for cid::Error` -/
def varintReadU64 (r : Bytes) : Except CidError (Nat × Bytes) :=
  match readU64 r with
  | .ok x => .ok x
  | .error .Io => .error .Io
  | .error (.Decode _) => .error .VarIntDecodeError

/-- `Version::try_from(u64)` -/
def Version.tryFrom (raw : Nat) : Except CidError Version :=
  if raw == 0 then .ok .V0 else if raw == 1 then .ok .V1 else .error .InvalidCidVersion

/-- `Cid::new_v0` -/
def Cid.newV0 (hash : Multihash) : Except CidError Cid :=
  if hash.code != SHA2_256 || hash.digest.length != 32 then .error .InvalidCidV0Multihash
  else .ok ⟨.V0, DAG_PB, hash⟩

/-- `Cid::new_v1` -/
def Cid.newV1 (codec : Nat) (hash : Multihash) : Cid := ⟨.V1, codec, hash⟩

/-- `Cid::new` -/
def Cid.new (version : Version) (codec : Nat) (hash : Multihash) : Except CidError Cid :=
  match version with
  | .V0 => if codec != DAG_PB then .error .InvalidCidV0Codec else Cid.newV0 hash
  | .V1 => .ok (Cid.newV1 codec hash)

/-- `Cid::read_bytes`; bytes after the CID stay unread (and `TryFrom<&[u8]>` drops them) -/
def Cid.readBytes (r : Bytes) : Except CidError Cid :=
  match varintReadU64 r with
  | .error e => .error e
  | .ok (version, r) =>
    match varintReadU64 r with
    | .error e => .error e
    | .ok (codec, r) =>
      -- CIDv0 has the fixed `0x12 0x20` prefix
      if version == 0x12 && codec == 0x20 then
        if r.length < 32 then .error .Io                       -- `read_exact`
        else
          match Multihash.wrap version (r.take 32) with
          | none => .error .ParsingError                       -- "Digest is always 32 bytes."
          | some mh => Cid.newV0 mh
      else
        match Version.tryFrom version with
        | .error e => .error e
        | .ok .V0 => .error .InvalidExplicitCidV0
        | .ok .V1 =>
          match Multihash.read r with
          | none => .error .ParsingError
          | some (mh, _) => Cid.new .V1 codec mh

/-- `Version::is_v0_str` -/
def Version.isV0Str (data : Bytes) : Bool := data.length == 46 && (ascii "Qm").isPrefixOf data

/-- `str::find` of an ASCII pattern: byte index of the first occurrence -/
def findSub (pat : Bytes) : Bytes → Nat → Option Nat
  | [], i => if pat.isEmpty then some i else none
  | c :: cs, i => if pat.isPrefixOf (c :: cs) then some i else findSub pat cs (i + 1)

def IPFS_DELIMETER : Bytes := ascii "/ipfs/"

/-- `TryFrom<&str> for Cid` (also `FromStr`, and `TryFrom<&CID<T>> for cid::Cid` of interpreter-cid) -/
def Cid.tryFromStr (cidStr : Bytes) : Except CidError Cid :=
  let hash := match findSub IPFS_DELIMETER cidStr 0 with
    | some index => cidStr.drop (index + IPFS_DELIMETER.length)
    | none => cidStr
  if hash.length < 2 then .error .InputTooShort
  else
    let decoded :=
      if Version.isV0Str hash then Base.Base58Btc.decode hash
      else (Multibase.decode hash).map (·.2)
    match decoded with
    | none => .error .ParsingError
    | some bytes => Cid.readBytes bytes

/-- `Cid::write_bytes_v1` / `to_bytes` of a CIDv1 -/
def Cid.toBytesV1 (c : Cid) : Bytes :=
  encodeVarint 1 ++ encodeVarint c.codec ++ c.hash.toBytes

/-- `Cid::to_string_v1` (`Display` of a CIDv1) -/
def Cid.toStringV1 (c : Cid) : Bytes := encodeBase32Lower c.toBytesV1

/-! ## `air-interpreter-cid` -/

def JSON_CODEC : Nat := Gen.Cid.jsonCodec

/-- the two hashers the crate links (`sha2::Sha256`, `fluence_blake3::Hasher`) -/
structure Hashers where
  sha256 : Bytes → Bytes
  blake3 : Bytes → Bytes

def realHashers : Hashers := ⟨Aqua.Crypto.sha256, Aqua.Crypto.blake3⟩

/-- the variants of `multihash_codetable::Code` the crate gives a hasher to -/
inductive Code where
  | Sha2_256 | Blake3_256
deriving Repr, DecidableEq, Inhabited

def Code.name : Code → String
  | .Sha2_256 => "Sha2_256" | .Blake3_256 => "Blake3_256"

/-- `u64::from(Code)`, from the generated table of `multihash-codetable` -/
def Code.toU64 (c : Code) : Nat := ((Gen.Cid.codeTable.find? fun e => e.1 == c.name).map (·.2)).getD 0

def Code.hasher (H : Hashers) : Code → Bytes → Bytes
  | .Sha2_256 => H.sha256
  | .Blake3_256 => H.blake3

/-- (variant, hasher type) as written in the Rust source -/
def Code.ofArm (arm : String × String) : Option Code :=
  if arm == ("Sha2_256", "sha2::Sha256") then some .Sha2_256
  else if arm == ("Blake3_256", "blake3::Hasher") then some .Blake3_256
  else none

/-- `CidVerificationError` -/
inductive CidVerificationError where
  | ValueMismatch
  | InvalidJson
  | MalformedCid (e : CidError)
  | UnsupportedCidCodec (codec : Nat)
  | UnsupportedHashCode (code : Nat)
deriving Repr, DecidableEq, Inhabited

/-- `let code: Code = raw_code.try_into()…; let expected_hash = match code { … }`: the arms of the match
as they stand in the Rust source (generated); a code outside the table and a variant without an arm both
give `UnsupportedHashCode(raw_code)` -/
def expectedHash (H : Hashers) (arms : List (String × String)) (rawCode : Nat) (bytes : Bytes) :
    Except CidVerificationError Bytes :=
  match (arms.filterMap Code.ofArm).find? fun c => c.toU64 == rawCode with
  | some c => .ok (c.hasher H bytes)
  | none => .error (.UnsupportedHashCode rawCode)

/-- `verify_raw_value` -/
def verifyRawValue (H : Hashers) (cid : Bytes) (rawValue : Bytes) : Except CidVerificationError Unit :=
  match Cid.tryFromStr cid with
  | .error e => .error (.MalformedCid e)
  | .ok realCid =>
    let codec := realCid.codec
    if codec != JSON_CODEC then .error (.UnsupportedCidCodec codec)
    else
      let mhash := realCid.hash
      match expectedHash H Gen.Cid.verifyRawValueArms mhash.code rawValue with
      | .error e => .error e
      | .ok expected =>
        -- multihash may contain less bytes than the full hash; such multihashes are rejected
        if expected == mhash.digest then .ok () else .error .ValueMismatch

/-- the bytes `serde_json::to_writer` feeds the hasher (`value_json_hash`); serialising a `JValue` cannot
fail (string keys, finite numbers), so `InvalidJson` does not arise -/
def jsonBytes (v : Json.JVal) : Bytes := Json.utf8 v.render

/-- `verify_value` (with `verify_json_value`) -/
def verifyValue (H : Hashers) (cid : Bytes) (value : Json.JVal) : Except CidVerificationError Unit :=
  match Cid.tryFromStr cid with
  | .error e => .error (.MalformedCid e)
  | .ok realCid =>
    let codec := realCid.codec
    if codec != JSON_CODEC then .error (.UnsupportedCidCodec codec)
    else
      let mhash := realCid.hash
      match expectedHash H Gen.Cid.verifyValueArms mhash.code (jsonBytes value) with
      | .error e => .error e
      | .ok expected =>
        if expected == mhash.digest then .ok () else .error .ValueMismatch

/-- the multihash code and hasher a producing function uses, from the generated description
`(Code variant, hasher type, Cid constructor, codec argument)` -/
def producerCode (d : String × String × String × String) : Option Code :=
  if d.2.2 == ("new_v1", "JSON_CODEC") then Code.ofArm (d.1, d.2.1) else none

/-- `raw_value_to_json_cid`: `Code::Blake3_256.wrap(&hash).expect(..)`, `Cid::new_v1(JSON_CODEC, digest)`,
`cid.to_string()` -/
def rawValueToJsonCidWith (H : Hashers) (d : String × String × String × String) (rawValue : Bytes) : Res Unit Bytes :=
  match producerCode d with
  | none => .panic "generated description of the function is not understood"
  | some code =>
    let hash := code.hasher H rawValue
    match Multihash.wrap code.toU64 hash with
    | none => .panic "can't happen: incorrect hash length"
    | some digest => .ok (Cid.newV1 JSON_CODEC digest).toStringV1

def rawValueToJsonCid (H : Hashers) (rawValue : Bytes) : Res Unit Bytes :=
  rawValueToJsonCidWith H Gen.Cid.rawValueToJsonCid rawValue

/-- `value_to_json_cid` -/
def valueToJsonCid (H : Hashers) (value : Json.JVal) : Res Unit Bytes :=
  rawValueToJsonCidWith H Gen.Cid.valueToJsonCid (jsonBytes value)

/-! ## Checks: the vectors of the crate's unit tests -/

private def str (s : String) : Bytes := s.toUTF8.toList
private def okText : Res Unit Bytes → String
  | .ok b => String.ofList (b.map fun c => Char.ofNat c.toNat)
  | _ => "?"

#guard encodeVarint 0x0200 == [0x80, 0x04]
#guard readU64 [0x80, 0x04, 7] == .ok (0x200, [7])
#guard readU64 [0x80] == .error .Io
#guard readU64 [] == .error .Io
#guard readU64 [0x80, 0x00] == .error (.Decode .NotMinimal)
#guard readU64 [0x00, 0x00] == .ok (0, [0])
#guard readU64 [0xff, 0xff, 0xff, 0xff, 0xff, 0xff, 0xff, 0xff, 0xff, 0x01] == .ok (2 ^ 64 - 1, [])
#guard readU64 [0xff, 0xff, 0xff, 0xff, 0xff, 0xff, 0xff, 0xff, 0xff, 0x7f] == .ok (2 ^ 64 - 1, [])
#guard readU64 [0xff, 0xff, 0xff, 0xff, 0xff, 0xff, 0xff, 0xff, 0xff, 0x81, 0x01] == .error (.Decode .Overflow)
#guard okText (rawValueToJsonCid realHashers (str "\"test\"")) == "bagaaihrarcyykpv4oj7zwdbepczyfthxya4og7s2rwvrzolm5kg2eu5dz3xa"
#guard okText (valueToJsonCid realHashers (.arr [.num 1, .num 2, .num 3])) == "bagaaihram6sitn77tquub77n2jzjgttrlwkverv44pv3gns6qghm6hx6d36a"
#guard okText (valueToJsonCid realHashers (.obj [("key", .num 42)])) == "bagaaihracpzxhsrpviexa7k6glwdhyh3a4kvy6j7qlcqokzqbs3q424cmxyq"
#guard verifyValue realHashers (str "bagaaierajwlhumardpzj6dv2ahcerm3vyfrjwl7nahg7zq5o3eprwv6v3vpa") (.str "test") == .ok ()
#guard verifyValue realHashers (str "z3v8BBKBcZMDh6ANTaiT7PmfrBWbBmoVQvDxojXt1M4eczFDmhF") (.str "test") == .ok ()
#guard verifyValue realHashers (str "BAGAAIERAJWLHUMARDPZJ6DV2AHCERM3VYFRJWL7NAHG7ZQ5O3EPRWV6V3VPA") (.str "test") == .ok ()
#guard verifyValue realHashers (str "/ipfs/bagaaierajwlhumardpzj6dv2ahcerm3vyfrjwl7nahg7zq5o3eprwv6v3vpa") (.str "test") == .ok ()
#guard verifyValue realHashers (str "bagaaieranodle477gt6odhllqbhp6wr7k5d23jhkuixr2soadzjn3n4hlnfq") (.num 2) == .error .ValueMismatch
#guard verifyValue realHashers (str "garbage") (.num 1) == .error (.MalformedCid .ParsingError)
#guard verifyValue realHashers (str "") (.num 1) == .error (.MalformedCid .InputTooShort)
#guard verifyValue realHashers (str "QmdfTbBqBPQ7VNxZEYEj14VmRuZBkqFbiwReogJgS1zR1n") (.num 1) == .error (.UnsupportedCidCodec 0x70)
#guard (Cid.tryFromStr (str "QmdfTbBqBPQ7VNxZEYEj14VmRuZBkqFbiwReogJgS1zR1n")).toOption.map (·.version) == some .V0

end Aqua.Crypto.CidVerify
