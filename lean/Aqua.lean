import Aqua.Semver
