import Aqua.Base.Basic
import Aqua.Semver
import Aqua.Gen.ErrorCodes
import Aqua.Gen.Consts
import Aqua.Run.SizeLimits
import Aqua.Run.Runner
import Aqua.Run.ErrorCodes
import Aqua.Run.Staged
