import Lean.Data.Json
import Aqua
import AquaDrv.Basic
import AquaDrv.TraceOps
/-! The `lens` operation (C24): the replica of the lens applier and the plain-navigation specification on
(root, lens, environment) triples.  Floats travel as `{"$f": "<serde_json text>"}` (the model carries floats
as their printed text). -/
open Lean Aqua Aqua.Json Aqua.Air Aqua.Exec Aqua.Exec.Lens

namespace Drv.C24

open Drv

partial def jvalOfJsonF (j : Lean.Json) : Option JVal :=
  match j with
  | .null => some .null
  | .bool b => some (.bool b)
  | .num n => if n.exponent == 0 then some (.num n.mantissa) else none
  | .str s => some (.str s)
  | .arr a => (a.toList.mapM jvalOfJsonF).map .arr
  | .obj kvs =>
    match kvs.toList with
    | [("$f", .str r)] => some (.float r)
    | l => do
      let pairs ← l.mapM fun (k, v) => (jvalOfJsonF v).map fun x => (k, x)
      pure (JVal.mkObj pairs)

partial def jvalToJsonF : JVal → Lean.Json
  | .null => .null
  | .bool b => .bool b
  | .num i => .num ⟨i, 0⟩
  | .float r => Lean.Json.mkObj [("$f", .str r)]
  | .str s => .str s
  | .arr l => .arr (l.map jvalToJsonF).toArray
  | .obj kvs => Lean.Json.mkObj (kvs.map fun (k, v) => (k, jvalToJsonF v))

def accessorOfJson (x : Lean.Json) : Option ValueAccessor :=
  match x with
  | .str "Error" => some .error
  | _ =>
    match field x "ArrayAccess", field x "FieldAccessByName", field x "FieldAccessByScalar" with
    | some y, _, _ => some (.arrayAccess (getNat y "idx"))
    | _, some y, _ => some (.fieldAccessByName (getStr y "field_name"))
    | _, _, some y => some (.fieldAccessByScalar (getStr y "scalar_name"))
    | _, _, _ => none

/-- serde form of `LambdaAST`: `{"Functor":"Length"}` / `{"ValuePath":[accessor, ...]}` -/
def lambdaOfJson (j : Lean.Json) : Option LambdaAST :=
  match field j "Functor", field j "ValuePath" with
  | some (.str "Length"), _ => some (.functor .length)
  | _, some (.arr a) =>
    match a.toList.mapM accessorOfJson with
    | some (h :: t) => some (.valuePath h t)
    | _ => none
  | _, _ => none

def literalAgg (v : JVal) : ValueAggregate := ⟨v, { peerPk := "" }, 0, .literal⟩

/-- the scalar store: `{"name": {"value": J}}` plain scalars, `{"name": {"iter": [J..], "cursor": n}}` fold iterators -/
def scalarsOfEnv (env : Lean.Json) : Option Scalars :=
  match env with
  | .obj kvs =>
    kvs.toList.foldlM (init := ({} : Scalars)) fun sc (name, d) =>
      match field d "value", field d "iter" with
      | some v, _ => do
        let jv ← jvalOfJsonF v
        pure { sc with nonIterable := { sc.nonIterable with cells := sc.nonIterable.cells ++ [(name, [⟨0, some (literalAgg jv)⟩])] } }
      | _, some (.arr a) => do
        let vals ← a.toList.mapM jvalOfJsonF
        let fs : FoldState := { iterable := .resolvedCall (literalAgg (.arr vals)) (getNat d "cursor") vals.length,
                                iterableType := .scalar, instrHead := .null, lastInstrHead := none }
        pure { sc with iterable := sc.iterable ++ [(name, fs)] }
      | _, _ => none
  | .null => some {}
  | _ => none

def erJson {α} (r : ER α) (ok : α → List (String × Lean.Json)) : Lean.Json :=
  match r with
  | .ok a => Lean.Json.mkObj (ok a)
  | .error (.catchable c) =>
    Lean.Json.mkObj [("err", Lean.Json.mkObj ([("variant", Lean.Json.str c.variant), ("code", toJson c.code), ("msg", Lean.Json.str c.render)] ++
      (match c with | .lambdaApplierError e => [("lambda", Lean.Json.str (lambdaErrVariant e))] | _ => [])))]
  | .error (.uncatchable u) => Lean.Json.mkObj [("uncatchable", Lean.Json.str u.variant), ("code", toJson u.code)]
  | .error (.unmodelled w) => Lean.Json.mkObj [("unmodelled", Lean.Json.str w)]
  | .panic s => Lean.Json.mkObj [("panic", Lean.Json.str s)]

def specJson (r : Option JVal) (why : String) : Lean.Json :=
  match r with
  | some v => Lean.Json.mkObj [("ok", jvalToJsonF v)]
  | none => Lean.Json.mkObj [("none", Lean.Json.str why)]

def navJson (sc : Scalars) (v : JVal) (steps : Option (List Step)) : Lean.Json :=
  match steps with
  | none => specJson none "unresolved"
  | some ss => specJson (navigate v ss) "unnavigable"

def lensCase (j : Lean.Json) : Lean.Json :=
  let root := (field j "root").getD Lean.Json.null
  match lambdaOfJson ((field j "lambda").getD Lean.Json.null), scalarsOfEnv ((field j "env").getD Lean.Json.null) with
  | some l, some sc =>
    match field root "scalar", field root "stream", field root "map" with
    | some v, _, _ =>
      match jvalOfJsonF v with
      | some jv =>
        Lean.Json.mkObj [("model", erJson (Lens.selectByLambdaFromScalar sc jv l) fun r => [("ok", jvalToJsonF r)]),
                         ("spec", navJson sc jv (resolveLambda sc l))]
      | none => Lean.Json.mkObj [("unmodelled", "value")]
    | _, some (.arr a), _ =>
      match a.toList.mapM jvalOfJsonF with
      | some vals =>
        Lean.Json.mkObj [("model", erJson (selectByLambdaFromStream sc vals l) fun r =>
                            [("ok", jvalToJsonF r.result), ("tidx", match r.tetrapletIdx with | some i => toJson i | none => Lean.Json.null)]),
                         ("spec", navJson sc (.arr vals) (resolveLambda sc l))]
      | none => Lean.Json.mkObj [("unmodelled", "value")]
    | _, _, some (.arr a) =>
      match a.toList.mapM jvalOfJsonF with
      | some pairs =>
        let model : ER JVal := match CanonStreamMap.fromCanonStream pairs with
          | .ok m => selectByLambdaFromCanonMap sc m l
          | .error e => .error e
          | .panic s => .panic s
        let spec : Lean.Json := match l with
          | .functor .length => specJson (some (.num pairs.length)) ""
          | .valuePath h body =>
            match resolveMapKey sc h with
            | none => specJson none "unresolved"
            | some k =>
              navJson sc (.arr (keyGroup pairs k)) (resolveSteps sc body)
        Lean.Json.mkObj [("model", erJson model fun r => [("ok", jvalToJsonF r)]), ("spec", spec)]
      | none => Lean.Json.mkObj [("unmodelled", "value")]
    | _, _, _ => Lean.Json.mkObj [("unmodelled", "root")]
  | none, _ => Lean.Json.mkObj [("unmodelled", "lambda does not decode")]
  | _, none => Lean.Json.mkObj [("unmodelled", "environment does not decode")]

/-- `{"op":"lens","cases":[{root, lambda, env}, ...]}` → `{"results":[...]}` (a shared `env` may be given at top level) -/
def opLens (j : Lean.Json) : Lean.Json :=
  let shared := field j "env"
  let cases := getArr j "cases"
  Lean.Json.mkObj [("results", Lean.Json.arr (cases.map fun c =>
    match field c "env", shared with
    | none, some e => lensCase (c.setObjVal! "env" e)
    | _, _ => lensCase c))]

end Drv.C24
