import Lean.Data.Json
import Aqua
/-! Driver support: JSON helpers and the operations of the line protocol (not part of the model). -/
open Lean Aqua

namespace Drv

def getStr (j : Json) (k : String) : String := (j.getObjValAs? String k).toOption.getD ""
def getNat (j : Json) (k : String) : Nat := (j.getObjValAs? Nat k).toOption.getD 0
def getInt (j : Json) (k : String) : Int := (j.getObjValAs? Int k).toOption.getD 0
def getBool (j : Json) (k : String) : Bool := (j.getObjValAs? Bool k).toOption.getD false
def getArr (j : Json) (k : String) : Array Json := match j.getObjVal? k with
  | .ok (.arr a) => a
  | _ => #[]
def getNatList (j : Json) (k : String) : List Nat := (getArr j k).toList.map fun x => (x.getNat?).toOption.getD 0
def getStrList (j : Json) (k : String) : List String := (getArr j k).toList.map fun x => (x.getStr?).toOption.getD ""
def hexDigit (c : Char) : Nat :=
  if '0' ≤ c ∧ c ≤ '9' then c.toNat - '0'.toNat else if 'a' ≤ c ∧ c ≤ 'f' then c.toNat - 'a'.toNat + 10 else 0
def unhex (s : String) : Bytes :=
  let rec go : List Char → Bytes
    | a :: b :: rest => UInt8.ofNat (hexDigit a * 16 + hexDigit b) :: go rest
    | _ => []
  go s.toList
def hexOf (b : Bytes) : String :=
  let d (n : Nat) : Char := if n < 10 then Char.ofNat (48 + n) else Char.ofNat (87 + n)
  String.ofList (b.flatMap fun x => [d (x.toNat / 16), d (x.toNat % 16)])

def limitsOf (j : Json) : Run.Limits :=
  { airSizeLimit := getNat j "air", particleSizeLimit := getNat j "particle",
    callResultSizeLimit := getNat j "call_result", hardLimitEnabled := getBool j "hard" }

def blobName : Run.SBlob → String
  | .prev => "prev" | .cur => "cur" | .refData => "ref" | .empty => "empty"

def opStagedRun (j : Json) : Json :=
  let r := (j.getObjVal? "ref").toOption.getD Json.null
  let ref : Run.RefRun :=
    { code := getInt r "code", msg := getStr r "msg", nextPeerPks := getStrList r "next",
      callRequests := unhex (getStr r "requests"), curLen := getNat j "cur_len", resultLens := getNatList j "result_lens" }
  let l := limitsOf ((j.getObjVal? "limits").toOption.getD Json.null)
  let o := Run.executeAir (Run.stagedStages ref) l (Run.stagedInput (getStr j "air"))
  Json.mkObj [("code", toJson o.retCode), ("msg", o.errorMessage), ("data", blobName o.data),
    ("next", toJson o.nextPeerPks), ("requests", hexOf o.callRequests),
    ("flags", toJson [o.flags.air, o.flags.particle, o.flags.callResult])]

def opSemver (j : Json) : Json :=
  match Semver.parse (getStr j "version").toList, Semver.parse Gen.minimalInterpreterVersion.toList with
  | some v, some m => Json.mkObj [("parsed", true), ("lt_min", Semver.lt v m),
      ("cmp", match Semver.cmp v m with | .lt => "lt" | .eq => "eq" | .gt => "gt")]
  | none, _ => Json.mkObj [("parsed", false)]
  | _, none => Json.mkObj [("error", "minimal version does not parse")]

def verStr (v : Semver.Version) : String :=
  let segs (l : List (List Char)) := ".".intercalate (l.map String.ofList)
  s!"{v.major}.{v.minor}.{v.patch}" ++ (if v.pre.isEmpty then "" else "-" ++ segs v.pre) ++
    (if v.build.isEmpty then "" else "+" ++ segs v.build)

/-- `parse_data` on real envelope bytes; the rkyv decoder is replaced by the table `inner_ok`
(hex of inner bytes ↦ decodes?) supplied by the harness -/
def opParseData (j : Json) : Json :=
  let table : List (Bytes × Bool) := (getArr j "inner_ok").toList.map fun e =>
    (unhex (getStr e "hex"), getBool e "ok")
  let tryToData : Bytes → Option Bytes := fun b =>
    match table.find? (fun (x, _) => x == b) with
    | some (_, true) => some b
    | _ => none
  let emptyInner := unhex (getStr j "empty_inner")
  match Run.parseData emptyInner tryToData (unhex (getStr j "prev")) (unhex (getStr j "cur")) with
  | .ok _ => Json.mkObj [("result", "ok")]
  | .error e =>
    let code := (Run.errorCode? .preparation e.variant).getD 0
    Json.mkObj ([("result", Json.str e.variant), ("code", toJson code)] ++
      (match e with | .unsupportedInterpreterVersion v => [("actual", Json.str (verStr v))] | _ => []))

end Drv
