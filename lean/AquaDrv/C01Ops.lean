import Lean.Data.Json
import Aqua
import AquaDrv.Basic
import AquaDrv.TraceOps
import AquaDrv.AstJson
import AquaDrv.ExecOp
/-! C01: the `c01_exec` operation — the execution stage (with the farewell compaction of streams) of one run on decoded data, reporting only the
outcome KIND (`panic site` | `code`).  `serde_json::from_str` is a parameter of the model (`Env.parseJson`):
the harness lists the texts the real parser rejects (`not_json`), so that the model is asked about the
interpreter's logic and not about the driver's JSON reader. -/
open Lean Aqua Aqua.Json Aqua.Air Aqua.Data Aqua.Trace Aqua.Exec

namespace Drv

def opC01Exec (j : Lean.Json) : Lean.Json :=
  let prevJ := (field j "prev").getD Lean.Json.null
  let curJ := (field j "cur").getD Lean.Json.null
  match instrOfJson ((field j "ast").getD Lean.Json.null), dataOfJson prevJ, dataOfJson curJ with
  | some script, some prev, some cur =>
    let bad := getStrList j "not_json"
    let env : Env := { driverEnv with parseJson := fun s => if bad.contains s then none else parseJsonText s }
    let pj := (field j "params").getD Lean.Json.null
    let params : RunParams := { initPeerId := getStr pj "init", currentPeerId := getStr pj "me", timestamp := getNat pj "ts", ttl := getNat pj "ttl" }
    let results := (objPairs ((field j "results").getD Lean.Json.null)).map fun (k, v) =>
      (k, ({ retCode := getInt v "ret_code", result := getStr v "result" } : CallServiceResult))
    let fuel := defaultFuel script prev cur
    let (res, c) := runExecFarewell env fuel script prev cur params results
    match res with
    | .ok () => Lean.Json.mkObj [("code", toJson (if c.callResults.isEmpty then (0 : Int) else 30000))]
    | .error (.catchable e) => Lean.Json.mkObj [("code", toJson e.code)]
    | .error (.uncatchable e) => Lean.Json.mkObj [("code", toJson e.code)]
    | .error (.unmodelled w) => Lean.Json.mkObj [("unmodelled", w)]
    | .panic s => Lean.Json.mkObj [("panic", s)]
  | none, _, _ => Lean.Json.mkObj [("unmodelled", "ast does not decode")]
  | _, _, _ => Lean.Json.mkObj [("unmodelled", "data does not decode")]

end Drv
