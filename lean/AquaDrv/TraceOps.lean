import Lean.Data.Json
import Aqua
import AquaDrv.Basic
/-! JSON codec of executed states (the serde form of `ExecutedState`) and the `trace_ops` operation:
a sequence of `TraceHandler` calls replayed on the model. -/
open Lean Aqua Aqua.Data Aqua.Trace

namespace Drv

def jNat (j : Json) : Nat := (j.getNat?).toOption.getD 0
def jStr (j : Json) : String := (j.getStr?).toOption.getD ""
def field (j : Json) (k : String) : Option Json := (j.getObjVal? k).toOption
def idx (j : Json) (i : Nat) : Json := match j with | .arr a => a.getD i Json.null | _ => Json.null

def callResultOfJson (c : Json) : Option CallResult :=
  match field c "sent_by", field c "executed", field c "failed" with
  | some s, _, _ =>
    match field s "PeerId", field s "PeerIdWithCallId" with
    | some p, _ => some (.requestSentBy (.peerId (jStr p)))
    | _, some p => some (.requestSentBy (.peerIdWithCallId (getStr p "peer_id") (getNat p "call_id")))
    | _, _ => none
  | _, some e, _ =>
    match field e "scalar", field e "stream", field e "unused" with
    | some x, _, _ => some (.executed (.scalar (jStr x)))
    | _, some x, _ => some (.executed (.stream (getStr x "cid") (getNat x "generation")))
    | _, _, some x => some (.executed (.unused (jStr x)))
    | _, _, _ => none
  | _, _, some f => some (.failed (jStr f))
  | _, _, _ => none

def canonResultOfJson (c : Json) : Option CanonResult :=
  match field c "sent_by", field c "executed" with
  | some s, _ => some (.requestSentBy (jStr s))
  | _, some e => some (.executed (jStr e))
  | _, _ => none

def stateOfJson (j : Json) : Option ExecutedState :=
  match field j "par", field j "call", field j "fold", field j "ap", field j "canon" with
  | some p, _, _, _, _ => some (.par (jNat (idx p 0)) (jNat (idx p 1)))
  | _, some c, _, _, _ => (callResultOfJson c).map .call
  | _, _, some f, _, _ =>
    some (.fold ((getArr f "lore").toList.map fun l =>
      { valuePos := getNat l "pos",
        subtracesDesc := (getArr l "desc").toList.map fun d => ⟨getNat d "pos", getNat d "len"⟩ }))
  | _, _, _, some a, _ => some (.ap (getNatList a "gens"))
  | _, _, _, _, some c => (canonResultOfJson c).map .canon
  | _, _, _, _, _ => none

def traceOfJson (j : Json) : Option Trace :=
  match j with
  | .arr a => a.toList.mapM stateOfJson
  | _ => none

def senderToJson : Sender → Json
  | .peerId p => Json.mkObj [("PeerId", p)]
  | .peerIdWithCallId p i => Json.mkObj [("PeerIdWithCallId", Json.mkObj [("peer_id", p), ("call_id", toJson i)])]

def callResultToJson : CallResult → Json
  | .requestSentBy s => Json.mkObj [("sent_by", senderToJson s)]
  | .executed (.scalar c) => Json.mkObj [("executed", Json.mkObj [("scalar", c)])]
  | .executed (.stream c g) => Json.mkObj [("executed", Json.mkObj [("stream", Json.mkObj [("cid", c), ("generation", toJson g)])])]
  | .executed (.unused c) => Json.mkObj [("executed", Json.mkObj [("unused", c)])]
  | .failed c => Json.mkObj [("failed", c)]

def canonResultToJson : CanonResult → Json
  | .requestSentBy p => Json.mkObj [("sent_by", p)]
  | .executed c => Json.mkObj [("executed", c)]

def stateToJson : ExecutedState → Json
  | .par l r => Json.mkObj [("par", toJson [l, r])]
  | .call c => Json.mkObj [("call", callResultToJson c)]
  | .fold lore => Json.mkObj [("fold", Json.mkObj [("lore", Json.arr (lore.map (fun l =>
      Json.mkObj [("pos", toJson l.valuePos), ("desc", Json.arr (l.subtracesDesc.map (fun d =>
        Json.mkObj [("pos", toJson d.beginPos), ("len", toJson d.subtraceLen)])).toArray)])).toArray)])]
  | .ap g => Json.mkObj [("ap", Json.mkObj [("gens", toJson g)])]
  | .canon c => Json.mkObj [("canon", canonResultToJson c)]

def traceToJson (t : Trace) : Json := Json.arr (t.map stateToJson).toArray

def keeperErrName : KeeperErr → String
  | .setSubtraceLenAndPosFailed => "keeper.set_pos_and_len" | .setSubtraceLenFailed => "keeper.set_len"
  | .noElementAtPosition => "keeper.no_element" | .noStreamState => "keeper.no_stream_state"

def traceErrName : TraceErr → String
  | .merge (.incompatibleStates _) => "merge.incompatible_states"
  | .merge .incorrectApResult => "merge.ap"
  | .merge .incompatibleCalls => "merge.call.incompatible"
  | .merge .notEqualValues => "merge.call.not_equal"
  | .merge .incorrectCanonResult => "merge.canon"
  | .merge .foldIncorrectSubtracesCount => "merge.fold.count"
  | .merge .severalRecordsWithSamePos => "merge.fold.same_pos"
  | .merge .subtraceLenOverflow => "merge.fold.overflow"
  | .merge (.keeper e) => keeperErrName e
  | .fsm .parQueueIsEmpty => "fsm.par_queue_empty" | .fsm .foldFSMNotFound => "fsm.fold_not_found"
  | .fsm .parLenOverflow => "fsm.par_len_overflow" | .fsm .parPosOverflow => "fsm.par_pos_overflow"
  | .fsm .parLenUnderflow => "fsm.par_len_underflow" | .fsm .foldPosOverflow => "fsm.fold_pos_overflow"
  | .fsm .foldLenUnderflow => "fsm.fold_len_underflow"
  | .fsm (.keeper e) => keeperErrName e

def sourceName : ValueSource → String | .previousData => "prev" | .currentData => "cur"

/-- apply one op; returns the answer and the new handler (`none` = stop: error or panic) -/
def applyTraceOp (h : TraceHandler) (op : Json) : Json × Option TraceHandler :=
  let name := jStr (idx op 0)
  let fin {α} (r : TR α) (k : α → Json × TraceHandler) : Json × Option TraceHandler :=
    match r with
    | .ok a => let (j, h') := k a; (j, some h')
    | .error e => (Json.mkObj [("err", traceErrName e)], none)
    | .panic s => (Json.mkObj [("panic", s)], none)
  match name with
  | "call_start" => fin h.meetCallStart fun (r, h') =>
      (match r with
       | .notMet => Json.str "not_met"
       | .met m => Json.mkObj [("met", callResultToJson m.result), ("pos", toJson m.tracePos), ("source", sourceName m.source)], h')
  | "call_end" => match callResultOfJson (idx op 1) with
      | some c => (Json.str "ok", some (h.meetCallEnd c))
      | none => (Json.mkObj [("bad_op", true)], none)
  | "ap_start" => fin h.meetApStart fun (r, h') =>
      (match r with
       | .notMet => Json.str "not_met"
       | .met m => Json.mkObj [("gen", toJson m.generation), ("source", sourceName m.valueSource)], h')
  | "ap_end" => (Json.str "ok", some (h.meetApEnd ((match idx op 1 with | .arr a => a.toList.map jNat | _ => []))))
  | "canon_start" => fin h.meetCanonStart fun (r, h') =>
      (match r with
       | .empty => Json.str "empty"
       | .canonResult c => Json.mkObj [("canon", canonResultToJson c)], h')
  | "canon_end" => match canonResultOfJson (idx op 1) with
      | some c => (Json.str "ok", some (h.meetCanonEnd c))
      | none => (Json.mkObj [("bad_op", true)], none)
  | "par_start" => fin h.meetParStart fun h' => (Json.str "ok", h')
  | "par_end" => fin (h.meetParSubgraphEnd (if jStr (idx op 1) == "left" then .left else .right)) fun h' => (Json.str "ok", h')
  | "fold_start" => fin (h.meetFoldStart (jNat (idx op 1))) fun h' => (Json.str "ok", h')
  | "iter_start" => fin (h.meetIterationStart (jNat (idx op 1)) (jNat (idx op 2))) fun h' => (Json.str "ok", h')
  | "iter_end" => fin (h.meetIterationEnd (jNat (idx op 1))) fun h' => (Json.str "ok", h')
  | "back_iter" => fin (h.meetBackIterator (jNat (idx op 1))) fun h' => (Json.str "ok", h')
  | "gen_end" => fin (h.meetGenerationEnd (jNat (idx op 1))) fun h' => (Json.str "ok", h')
  | "fold_end" => fin (h.meetFoldEnd (jNat (idx op 1))) fun h' => (Json.str "ok", h')
  | "update_generation" => match h.updateGeneration (jNat (idx op 1)) (jNat (idx op 2)) with
      | .ok h' => (Json.str "ok", some h')
      | .error .pointsToNowhere => (Json.mkObj [("err", "compact.nowhere")], some h)
      | .error .pointsToInvalidState => (Json.mkObj [("err", "compact.invalid_state")], some h)
      | .panic s => (Json.mkObj [("panic", s)], none)
  | "subgraph_sizes" => (toJson [h.subgraphSizes.1, h.subgraphSizes.2], some h)
  | "trace_pos" => (toJson h.tracePos, some h)
  | _ => (Json.mkObj [("bad_op", true)], none)

def opTraceOps (j : Json) : Json :=
  match traceOfJson ((field j "prev").getD Json.null), traceOfJson ((field j "cur").getD Json.null) with
  | some p, some c =>
    let rec go (ops : List Json) (h : TraceHandler) (acc : Array Json) : Array Json × TraceHandler :=
      match ops with
      | [] => (acc, h)
      | op :: rest =>
        match applyTraceOp h op with
        | (a, some h') => go rest h' (acc.push a)
        | (a, none) => (acc.push a, h)
    let (answers, h) := go (getArr j "ops").toList (TraceHandler.fromTrace p c) #[]
    Json.mkObj [("answers", Json.arr answers), ("result_trace", traceToJson h.keeper.resultTrace)]
  | _, _ => Json.mkObj [("unmodelled", "trace does not parse")]

end Drv
