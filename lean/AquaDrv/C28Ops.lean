import Lean.Data.Json
import Aqua
import AquaDrv.Basic
import AquaDrv.TraceOps
import AquaDrv.AstJson
/-! Driver operation of C28: the beautifier model, the independent reader and the operand reader on a real AST. -/
open Lean Aqua Aqua.Air Aqua.Air.Beautifier Aqua.Air.Unbeautify Aqua.Air.OperandReader

namespace Drv

/-- the harness ships a float literal as the text of its Rust `Display` (a JSON string): drop the JSON quotes -/
def fixFloat : Value → Value
  | .float r => .float (String.ofList ((r.toList.drop 1).dropLast))
  | v => v

partial def fixFloats : Instr → Instr
  | .call p s f args out => .call (fixFloat p) (fixFloat s) (fixFloat f) (args.map fixFloat) out
  | .seq l r => .seq (fixFloats l) (fixFloats r)
  | .par l r => .par (fixFloats l) (fixFloats r)
  | .xor l r => .xor (fixFloats l) (fixFloats r)
  | .match_ a b i => .match_ (fixFloat a) (fixFloat b) (fixFloats i)
  | .mismatch a b i => .mismatch (fixFloat a) (fixFloat b) (fixFloats i)
  | .ap arg out => .ap (fixFloat arg) out
  | .apMap k v m p => .apMap (fixFloat k) (fixFloat v) m p
  | .canon p s sp c => .canon (fixFloat p) s sp c
  | .canonMap p m mp c => .canonMap (fixFloat p) m mp c
  | .canonMapScalar p m mp s => .canonMapScalar (fixFloat p) m mp s
  | .foldScalar it i body last => .foldScalar (fixFloat it) i (fixFloats body) (last.map fixFloats)
  | .foldStream s sp i body last sl => .foldStream s sp i (fixFloats body) (last.map fixFloats) sl
  | .foldMap m mp i body last sl => .foldMap m mp i (fixFloats body) (last.map fixFloats) sl
  | .new a body sl sr => .new a (fixFloats body) sl sr
  | i => i

partial def skStr : Sk → String
  | .instr t => "I(" ++ String.ofList t ++ ")"
  | .call out p s f args =>
    "C(" ++ (match out with | none => "-" | some o => String.ofList o) ++ "|" ++ String.ofList p ++ "|" ++ String.ofList s ++ "|" ++
      String.ofList f ++ "|" ++ "\u0001".intercalate (args.map String.ofList) ++ ")"
  | .par l r => "P(" ++ ";".intercalate (l.map skStr) ++ "||" ++ ";".intercalate (r.map skStr) ++ ")"
  | .xor l r => "X(" ++ ";".intercalate (l.map skStr) ++ "||" ++ ";".intercalate (r.map skStr) ++ ")"
  | .block h b hl l => "B(" ++ String.ofList h ++ "|" ++ ";".intercalate (b.map skStr) ++ "|" ++ toString hl ++ "|" ++ ";".intercalate (l.map skStr) ++ ")"

def sksStr (l : Option (List Sk)) : String :=
  match l with
  | none => "none"
  | some l => ";".intercalate (l.map skStr)

/-- `{"op":"beautify","ast":…,"step":n,"patterns":b,"real":"<output of the real beautifier>"}` -/
def opBeautify (j : Json) : Json :=
  match instrOfJson ((field j "ast").getD Json.null) with
  | none => Json.mkObj [("error", "ast does not decode")]
  | some i0 =>
    let i := fixFloats i0
    let cfg : Cfg := { indentStep := getNat j "step", tryHopon := getBool j "patterns" }
    let lines := beautifyAst cfg i
    let sk := some (skeleton cfg.tryHopon i)
    let real := (getStr j "real").toList
    let ops := operands i
    let badOps := ops.filter fun v => !(valueWF v)
    let noRound := ops.filter fun v => valueWF v && !(parseValue (valueText v) == some v)
    let flatLines := (flat cfg.tryHopon i 0).map fun (k, ins) => (k * cfg.indentStep, String.ofList (ownText cfg.tryHopon ins))
    let kept := (lines.filter fun l => !(isSep l.text)).map fun l => (l.indent, String.ofList l.text)
    Json.mkObj [
      ("text", String.ofList (render lines)),
      ("lines", toJson lines.length),
      ("wf", WF i),
      ("lines_ok", lines.all lineOK),
      ("read_model", sksStr (unbeautify lines) == sksStr sk),
      ("read_real", sksStr (unbeautifyText real) == sksStr sk),
      ("skeleton", sksStr sk),
      ("read_real_tree", sksStr (unbeautifyText real)),
      ("flat_ok", flatLines == kept),
      ("instructions", toJson flatLines.length),
      ("operands", toJson ops.length),
      ("operands_not_wf", toJson (badOps.map fun v => String.ofList (valueText v))),
      ("operands_no_roundtrip", toJson (noRound.map fun v => String.ofList (valueText v)))]

end Drv
