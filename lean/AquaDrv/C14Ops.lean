import Lean.Data.Json
import Aqua
import AquaDrv.Basic
import AquaDrv.TraceOps
import AquaDrv.ExecOp
/-! `verify_data`: the verification step of the model on decoded data (C14).
Signatures arrive as symbolic terms: `{"sig":[pk, msg_hex]}` when the harness established that the real
signature is the real key's signature of exactly these bytes, `{"junk": n}` otherwise. -/
open Lean Aqua Aqua.Data Aqua.Exec Aqua.Run Aqua.Crypto

namespace Drv

/-- a public key of the signature store: its base58 text and (if it validates) its peer id -/
structure DrvKey where
  text : String
  peerId : Option String

/-- `bad`: the value texts `serde_json::from_str::<JValue>` rejects (decided by the harness with the real parser, like the
float oracle of C26 and the `parse_errs` of the `exec` op) -/
def drvVerifyEnv (bad : List String) : VerifyEnv :=
  { PK := DrvKey, Sig := SymSig,
    isJson := fun t => !bad.contains t,
    validate := fun k => k.peerId.isSome,
    toPeerId := fun k => k.peerId.getD "",
    keyText := fun k => k.text,
    sigText := fun s => match s with | .sig pk m => "sig(" ++ pk ++ "," ++ hexOf m ++ ")" | .junk n => s!"junk({n})",
    verifySig := fun k m s => symbolic.verify k.text m s,
    cidCheck := realCidCheck }

def pairsOf (j : Json) (k : String) : List (Json × Json) := (getArr j k).toList.map fun e => (idx e 0, idx e 1)

def provenanceOfJson (p : Json) : Provenance :=
  match getStr p "type" with
  | "service_result" => .serviceResult (getStr p "cid")
  | "canon" => .canon (getStr p "cid")
  | _ => .literal

def cidInfoOfJson (s : Json) : CidInfo :=
  { values := (pairsOf s "value").map fun (k, v) => (jStr k, jStr v),
    tetraplets := (pairsOf s "tetraplet").map fun (k, v) => (jStr k, tetrapletOfJson v),
    canonElements := (pairsOf s "canon_element").map fun (k, v) =>
      (jStr k, ({ value := getStr v "value", tetraplet := getStr v "tetraplet",
                  provenance := provenanceOfJson ((field v "provenance").getD Json.null) } : CanonCidAggregate)),
    canonResults := (pairsOf s "canon_result").map fun (k, v) =>
      (jStr k, ({ tetraplet := getStr v "tetraplet", values := getStrList v "values" } : CanonResultCidAggregate)),
    serviceResults := (pairsOf s "service_result").map fun (k, v) =>
      (jStr k, ({ valueCid := getStr v "value_cid", argumentHash := getStr v "argument_hash", tetrapletCid := getStr v "tetraplet_cid" } : ServiceResultAgg)) }

def symSigOfJson (j : Json) : SymSig :=
  match field j "sig" with
  | some t => .sig (jStr (idx t 0)) (unhex (jStr (idx t 1)))
  | none => .junk (getNat j "junk")

def vdataOfJson (bad : List String) (j : Json) : Option (VData (drvVerifyEnv bad)) := do
  let trace ← traceOfJson ((field j "trace").getD (Json.arr #[]))
  let sigs : List (DrvKey × SymSig) := (getArr j "signatures").toList.map fun e =>
    (({ text := getStr e "pk", peerId := (e.getObjValAs? String "peer_id").toOption } : DrvKey),
     symSigOfJson ((field e "sig").getD Json.null))
  pure { trace := trace, cidInfo := cidInfoOfJson ((field j "stores").getD Json.null), signatures := sigs }

def cidStoreErrJson : CidStoreVerificationError → List (String × Json)
  | .cidVerificationError store e =>
    [("sub", Json.str e.variant), ("store", Json.str store)] ++
    (match e with
     | .valueMismatch c | .malformedCid c => [("cid", Json.str c)]
     | .unsupportedCidCodec n | .unsupportedHashCode n => [("num", toJson n)])
  | .missingReference s t c => [("sub", "MissingReference"), ("source", Json.str s), ("target", Json.str t), ("cid", Json.str c)]
  | .malformedValue c => [("sub", "MalformedValue"), ("cid", Json.str c)]

def verifierErrJson : DataVerifierError → List (String × Json)
  | .malformedKey k => [("sub", "MalformedKey"), ("key", Json.str k)]
  | .peerIdNotFound p => [("sub", "PeerIdNotFound"), ("peer", Json.str p)]
  | .signatureMismatch p cids => [("sub", "SignatureMismatch"), ("peer", Json.str p), ("cids", toJson cids)]
  | .mergeMismatch p => [("sub", "MergeMismatch"), ("peer", Json.str p)]
  | .cidNotFound c => [("sub", "CidNotFound"), ("cid", Json.str c)]

def verificationErrJson (e : VerificationError) : Json :=
  let code := (errorCode? .preparation e.variant).getD 0
  Json.mkObj ([("result", Json.str "error"), ("code", toJson code), ("variant", Json.str e.variant)] ++
    (match e with
     | .cidStoreVerificationError x => cidStoreErrJson x
     | .dataSignatureCheckError x => verifierErrJson x))

/-- all peers whose signature fails (the code reports whichever its hash map yields first) -/
def failingPeers (bad : List String) (salt : String) (g : Grouped (drvVerifyEnv bad)) : List String :=
  g.filterMap fun p =>
    match saltedData p.2.cids salt with
    | some m => if (drvVerifyEnv bad).verifySig p.2.publicKey m p.2.signature then none else some p.1
    | none => some p.1

/-- `{"op":"verify_data","salt":..,"cur":{trace,stores,signatures},"prev":{..}?}` -/
def opVerifyData (j : Json) : Json :=
  let salt := getStr j "salt"
  let bad := getStrList j "non_json_values"
  match vdataOfJson bad ((field j "cur").getD Json.null) with
  | none => Json.mkObj [("error", "current data does not parse")]
  | some cur =>
    let failing : List String := match DataVerifier.new (drvVerifyEnv bad) cur with
      | .ok g => failingPeers bad salt g
      | _ => []
    let groups : Json := match DataVerifier.new (drvVerifyEnv bad) cur with
      | .ok g => Json.mkObj (g.map fun p => (p.1, toJson p.2.cids))
      | _ => Json.null
    let extra := [("failing_peers", toJson failing), ("groups", groups)]
    let withExtra (r : Json) : Json := match r with
      | .obj _ => extra.foldl (fun acc (k, v) => acc.setObjVal! k v) r
      | x => x
    match field j "prev" with
    | none =>
      withExtra (match verifyData (drvVerifyEnv bad) cur salt with
        | .ok () => Json.mkObj [("result", "ok")]
        | .error e => verificationErrJson e
        | .panic s => Json.mkObj [("result", "panic"), ("site", Json.str s)])
    | some pj =>
      match vdataOfJson bad pj with
      | none => Json.mkObj [("error", "previous data does not parse")]
      | some prev =>
        withExtra (match verifyStep (drvVerifyEnv bad) prev cur salt with
          | .ok merged => Json.mkObj [("result", "ok"), ("merged", Json.mkObj (merged.map fun (p, i) => (p, Json.str i.signature)))]
          | .error e => verificationErrJson e
          | .panic s => Json.mkObj [("result", "panic"), ("site", Json.str s)])

/-- `{"op":"salted_data","cids":[..],"salt":..}` → hex of the signed bytes (borsh model) -/
def opSaltedData (j : Json) : Json :=
  match saltedData (sortCids (getStrList j "cids")) (getStr j "salt") with
  | some m => Json.mkObj [("hex", hexOf m)]
  | none => Json.mkObj [("panic", true)]

end Drv
