import Lean.Data.Json
import Aqua
import AquaDrv.Basic
import AquaDrv.TraceOps
import AquaDrv.AstJson
import AquaDrv.ExecOp
/-! The `c18_exec` operation: the `exec` operation whose return code and message are produced by the model
functions `Aqua.Exec.execOutcome` / `uncaughtOutcome` (the ones the C18 theorems speak about), plus the
model's `:error:` / `%last_error%` descriptors at the end of the run (diagnostics). -/
open Lean Aqua Aqua.Json Aqua.Air Aqua.Data Aqua.Trace Aqua.Exec

namespace Drv

def opC18Exec (j : Lean.Json) : Lean.Json :=
  let base := opExec j
  if (field base "unmodelled").isSome || (field base "panic").isSome then base else
  let prevJ := (field j "prev").getD Lean.Json.null
  let curJ := (field j "cur").getD Lean.Json.null
  match instrOfJson ((field j "ast").getD Lean.Json.null), dataOfJson prevJ, dataOfJson curJ with
  | some script, some prev, some cur =>
    let pj := (field j "params").getD Lean.Json.null
    let params : RunParams := { initPeerId := getStr pj "init", currentPeerId := getStr pj "me", timestamp := getNat pj "ts", ttl := getNat pj "ttl" }
    let results := (objPairs ((field j "results").getD Lean.Json.null)).map fun (k, v) =>
      (k, ({ retCode := getInt v "ret_code", result := getStr v "result" } : CallServiceResult))
    -- the same environment and the same function as `opExec`
    let errs : List (String × String) := (objPairs ((field j "parse_errs").getD Lean.Json.null)).map fun (k, v) => (k, jStr v)
    let env : Env := { driverEnv with parseErr := fun s => (lookup errs s).getD "" }
    let r := runExecFarewell env (defaultFuel script prev cur) script prev cur params results
    let c := r.2
    let diag := base.setObjVal! "error" (jvalToJson c.error.error.error)
      |>.setObjVal! "error_can_be_set" (toJson c.error.canBeSet)
      |>.setObjVal! "last_error" (jvalToJson c.lastError.error.error)
      |>.setObjVal! "last_error_can_be_set" (toJson c.lastError.canBeSet)
    match execOutcome r with
    | some (code, msg) => (diag.setObjVal! "code" (toJson code)).setObjVal! "msg" (Lean.Json.str msg)
    | none =>
      match execRetCode r with
      | some code => diag.setObjVal! "code" (toJson code)
      | none => diag
  | _, _, _ => base

end Drv
