import Lean.Data.Json
import Aqua
import AquaDrv.Basic
import AquaDrv.TraceOps
/-! Decoder of the serde-JSON form of the real parser's AST (`air_parser::ast::Instruction`) into the
model AST. -/
open Lean Aqua Aqua.Air

namespace Drv

def lambdaOfJson (j : Json) : Option Lambda :=
  match field j "Functor", field j "ValuePath" with
  | some _, _ => some .functorLength
  | _, some (.arr a) => do
    let as ← a.toList.mapM fun x =>
      match field x "ArrayAccess", field x "FieldAccessByName", field x "FieldAccessByScalar" with
      | some y, _, _ => some (Accessor.arrayAccess (getNat y "idx"))
      | _, some y, _ => some (Accessor.fieldByName (getStr y "field_name"))
      | _, _, some y => some (Accessor.fieldByScalar (getStr y "scalar_name"))
      | _, _, _ => none
    pure (.path as)
  | _, _ => none

def optLambda (j : Json) : Option (Option Lambda) :=
  if j.isNull then some none else (lambdaOfJson j).map some

def intOfJson (j : Json) : Option Int := (j.getInt?).toOption

/-- variables with or without lambda: {"Scalar":{..}} / {"CanonStream":{..}} / {"CanonStreamMap":{..}} -/
def variableOfJson (j : Json) (withLambda : Bool) : Option Value :=
  let mk (k : String) (plain : String → Value) (wl : String → Lambda → Value) : Option Value :=
    match field j k with
    | some x =>
      if withLambda then (lambdaOfJson ((field x "lambda").getD Json.null)).map (wl (getStr x "name"))
      else some (plain (getStr x "name"))
    | none => none
  (mk "Scalar" .scalar .scalarWL) <|> (mk "CanonStream" .canon .canonWL) <|> (mk "CanonStreamMap" .canonMap .canonMapWL)

/-- `ImmutableValue` / `ApArgument` / triplet parts / keys (their JSON shapes overlap consistently) -/
def valueOfJson (j : Json) : Option Value :=
  match j with
  | .str "InitPeerId" => some .initPeerId
  | .str "Timestamp" => some .timestamp
  | .str "TTL" => some .ttl
  | .str "EmptyArray" => some .emptyArray
  | _ =>
    match field j "Literal", field j "Number", field j "Boolean", field j "LastError", field j "Error" with
    | some l, _, _, _, _ => some (.literal (jStr l))
    | _, some n, _, _, _ =>
      (match field n "Int", field n "Float" with
       | some i, _ => (intOfJson i).map .number
       | _, some f => some (.float f.compress)
       | _, _ => none)
    | _, _, some (.bool b), _, _ => some (.boolean b)
    | _, _, _, some l, _ => (optLambda l).map .lastError
    | _, _, _, _, some e => (optLambda ((field e "lens").getD Json.null)).map .error
    | _, _, _, _, _ =>
      match field j "Int" with
      | some i => (intOfJson i).map .number
      | none =>
      match field j "Variable", field j "VariableWithLambda" with
      | some v, _ => variableOfJson v false
      | _, some v => variableOfJson v true
      | _, _ =>
        -- ApArgument / triplet parts name the variable kind directly
        match field j "Scalar", field j "ScalarWithLambda", field j "CanonStream", field j "CanonStreamWithLambda",
              field j "CanonStreamMap", field j "CanonStreamMapWithLambda" with
        | some x, _, _, _, _, _ => some (.scalar (getStr x "name"))
        | _, some x, _, _, _, _ => (lambdaOfJson ((field x "lambda").getD Json.null)).map (.scalarWL (getStr x "name"))
        | _, _, some x, _, _, _ => some (.canon (getStr x "name"))
        | _, _, _, some x, _, _ => (lambdaOfJson ((field x "lambda").getD Json.null)).map (.canonWL (getStr x "name"))
        | _, _, _, _, some x, _ => some (.canonMap (getStr x "name"))
        | _, _, _, _, _, some x => (lambdaOfJson ((field x "lambda").getD Json.null)).map (.canonMapWL (getStr x "name"))
        | _, _, _, _, _, _ => none

def outputOfJson (j : Json) : Option CallOutput :=
  match j with
  | .str "None" => some .none
  | _ =>
    match field j "Scalar", field j "Stream" with
    | some s, _ => some (.scalar (getStr s "name"))
    | _, some s => some (.stream (getStr s "name") (getNat s "position"))
    | _, _ => none

partial def instrOfJson (j : Json) : Option Instr :=
  match j with
  | .str "Null" => some .null
  | .str "Never" => some .never
  | _ =>
  let optInstr (x : Option Json) : Option (Option Instr) :=
    match x with
    | none => some none
    | some y => if y.isNull then some none else (instrOfJson y).map some
  if (field j "Null").isSome then some .null
  else if (field j "Never").isSome then some .never
  else if let some c := field j "Call" then do
    let t ← field c "triplet"
    let p ← valueOfJson (← field t "peer_id")
    let s ← valueOfJson (← field t "service_id")
    let f ← valueOfJson (← field t "function_name")
    let args ← (getArr c "args").toList.mapM valueOfJson
    let out ← outputOfJson (← field c "output")
    pure (.call p s f args out)
  else if let some (.arr a) := field j "Seq" then do pure (.seq (← instrOfJson (a.getD 0 Json.null)) (← instrOfJson (a.getD 1 Json.null)))
  else if let some (.arr a) := field j "Par" then do pure (.par (← instrOfJson (a.getD 0 Json.null)) (← instrOfJson (a.getD 1 Json.null)))
  else if let some (.arr a) := field j "Xor" then do pure (.xor (← instrOfJson (a.getD 0 Json.null)) (← instrOfJson (a.getD 1 Json.null)))
  else if let some m := field j "Match" then do
    pure (.match_ (← valueOfJson (← field m "left_value")) (← valueOfJson (← field m "right_value")) (← instrOfJson (← field m "instruction")))
  else if let some m := field j "MisMatch" then do
    pure (.mismatch (← valueOfJson (← field m "left_value")) (← valueOfJson (← field m "right_value")) (← instrOfJson (← field m "instruction")))
  else if let some a := field j "Ap" then do
    pure (.ap (← valueOfJson (← field a "argument")) (← outputOfJson (← field a "result")))
  else if let some a := field j "ApMap" then do
    let m ← field a "map"
    pure (.apMap (← valueOfJson (← field a "key")) (← valueOfJson (← field a "value")) (getStr m "name") (getNat m "position"))
  else if let some c := field j "Canon" then do
    let s ← field c "stream"
    pure (.canon (← valueOfJson (← field c "peer_id")) (getStr s "name") (getNat s "position") (getStr (← field c "canon_stream") "name"))
  else if let some c := field j "CanonMap" then do
    let s ← field c "stream_map"
    pure (.canonMap (← valueOfJson (← field c "peer_id")) (getStr s "name") (getNat s "position") (getStr (← field c "canon_stream_map") "name"))
  else if let some c := field j "CanonStreamMapScalar" then do
    let s ← field c "stream_map"
    pure (.canonMapScalar (← valueOfJson (← field c "peer_id")) (getStr s "name") (getNat s "position") (getStr (← field c "scalar") "name"))
  else if let some f := field j "FoldScalar" then do
    let itj ← field f "iterable"
    let it ← (match itj with | .str "EmptyArray" => some Value.emptyArray | _ => valueOfJson itj)
    pure (.foldScalar it (getStr (← field f "iterator") "name") (← instrOfJson (← field f "instruction")) (← optInstr (field f "last_instruction")))
  else if let some f := field j "FoldStream" then do
    let s ← field f "iterable"
    let sp ← field f "span"
    pure (.foldStream (getStr s "name") (getNat s "position") (getStr (← field f "iterator") "name") (← instrOfJson (← field f "instruction"))
      (← optInstr (field f "last_instruction")) (getNat sp "left"))
  else if let some f := field j "FoldStreamMap" then do
    let s ← field f "iterable"
    let sp ← field f "span"
    pure (.foldMap (getStr s "name") (getNat s "position") (getStr (← field f "iterator") "name") (← instrOfJson (← field f "instruction"))
      (← optInstr (field f "last_instruction")) (getNat sp "left"))
  else if let some n := field j "Next" then do pure (.next (getStr (← field n "iterator") "name"))
  else if let some n := field j "New" then do
    let a ← field n "argument"
    let arg ← (match field a "Scalar", field a "Stream", field a "StreamMap", field a "CanonStream", field a "CanonStreamMap" with
      | some x, _, _, _, _ => some (NewArg.scalar (getStr x "name"))
      | _, some x, _, _, _ => some (NewArg.stream (getStr x "name"))
      | _, _, some x, _, _ => some (NewArg.streamMap (getStr x "name"))
      | _, _, _, some x, _ => some (NewArg.canon (getStr x "name"))
      | _, _, _, _, some x => some (NewArg.canonMap (getStr x "name"))
      | _, _, _, _, _ => none)
    let sp ← field n "span"
    pure (.new arg (← instrOfJson (← field n "instruction")) (getNat sp "left") (getNat sp "right"))
  else if let some f := field j "Fail" then
    match f with
    | .str "LastError" => some (.fail .lastError)
    | .str "Error" => some (.fail .error)
    | _ =>
      match field f "Literal", field f "Scalar", field f "ScalarWithLambda", field f "CanonStreamWithLambda" with
      | some l, _, _, _ => (intOfJson ((field l "ret_code").getD Json.null)).map fun c => .fail (.literal c (getStr l "error_message"))
      | _, some s, _, _ => some (.fail (.scalar (getStr s "name")))
      | _, _, some s, _ => (lambdaOfJson ((field s "lambda").getD Json.null)).map fun l => .fail (.scalarWL (getStr s "name") l)
      | _, _, _, some s => (lambdaOfJson ((field s "lambda").getD Json.null)).map fun l => .fail (.canonWL (getStr s "name") l)
      | _, _, _, _ => none
  else none

end Drv
