import Lean.Data.Json
import Aqua
import AquaDrv.Basic
/-! Driver operations for C27 (codecs): every model encoder / decoder of `Aqua.Codec.Sede` and `Aqua.Codec.Varint`
on hex-encoded inputs.  Strings travel as hex of their UTF-8 bytes. -/
open Lean Aqua Aqua.Sede Aqua.MsgPack

namespace Drv.C27

def jhex (b : Bytes) : Json := Json.str (hexOf b)
def hexStr (s : String) : Json := jhex (strBytes s)
def strOfHex (j : Json) (k : String) : String := (bytesToString (unhex (getStr j k))).getD ""

def verStr' (v : Semver.Version) : String := Drv.verStr v

def decodeErrJson : DecodeError → Json
  | .format => Json.mkObj [("err", "format")]
  | .codec c => Json.mkObj [("err", "codec"), ("codec", toJson c)]
  | .varint e => Json.mkObj [("err", "varint"), ("varint", e.name)]

/-- payload behind the multiformat prefix (for the `unmodelled` test) -/
def payloadOf (b : Bytes) : Bytes := match Varint.decodeU32 b with | .ok (_, r) => r | .error _ => b

/-- some integer was not written in its shortest form, or anything else is non-canonical -/
def nonCanonical (payload : Bytes) : Bool :=
  match decodeAll payload with
  | some (v, _) => let e := encode v; e != payload.take e.length
  | none => false

def hasIntKey (m : List (Val × Val)) : Bool := m.any fun (k, _) => match k with | .int i => i ≥ 0 | _ => false

/-- maps read as derived structs below the top-level hash map -/
def structMapsOfEntries : Val → List (List (Val × Val))
  | .map m => m.filterMap fun (_, v) => match v with | .map s => some s | _ => none
  | _ => []
def structMapsOfRows : Val → List (List (Val × Val))
  | .arr rows => rows.flatMap fun r => match r with
    | .arr ts => ts.filterMap fun t => match t with | .map s => some s | _ => none
    | _ => []
  | _ => []
def structMapTop : Val → List (List (Val × Val))
  | .map m => [m]
  | _ => []

/-- serde field identifiers take an index from an unsigned marker only (`visit_u64`), the value algebra does not keep
the marker: a non-negative integer key in a struct map of a non-canonically written payload is outside the model -/
def unmodelled (payload : Bytes) (structMaps : Val → List (List (Val × Val))) : Bool :=
  nonCanonical payload && (match decodeAll payload with
    | some (v, _) => (structMaps v).any hasIntKey
    | none => false)

def requestJson (e : Nat × CallRequestParams) : Json :=
  Json.mkObj [("id", toJson e.1), ("service_id", hexStr e.2.serviceId), ("function_name", hexStr e.2.functionName),
    ("arguments", jhex e.2.arguments), ("tetraplets", jhex e.2.tetraplets)]

def requestOfJson (j : Json) : Nat × CallRequestParams :=
  (getNat j "id", ⟨strOfHex j "service_id", strOfHex j "function_name", unhex (getStr j "arguments"), unhex (getStr j "tetraplets")⟩)

def resultJson (e : String × CallServiceResult) : Json :=
  Json.mkObj [("key", hexStr e.1), ("ret_code", toJson e.2.retCode), ("result", hexStr e.2.result)]

def resultOfJson (j : Json) : String × CallServiceResult :=
  (strOfHex j "key", ⟨getInt j "ret_code", strOfHex j "result"⟩)

def insertBy {α : Type} (lt : α → α → Bool) (x : α) : List α → List α
  | [] => [x]
  | y :: ys => if lt x y then x :: y :: ys else y :: insertBy lt x ys
def sortBy {α : Type} (lt : α → α → Bool) (l : List α) : List α := l.foldr (insertBy lt) []

def tetJson (t : Tetraplet) : Json :=
  Json.arr #[hexStr t.peerPk, hexStr t.serviceId, hexStr t.functionName, hexStr t.lens]
def tetOfJson (j : Json) : Tetraplet :=
  match j with
  | .arr #[.str a, .str b, .str c, .str d] =>
    let s (h : String) := (bytesToString (unhex h)).getD ""
    ⟨s a, s b, s c, s d⟩
  | _ => ⟨"", "", "", ""⟩

/-- tagged JSON → `JArg`: null, bool, integer number, `["f", "<bits>"]`, `["s", hex]`, `["a", [..]]`, `["o", [[hexkey, v], ..]]` -/
partial def jargOfJson : Json → JArg
  | .null => .null
  | .bool b => .bool b
  | .num n => .num n.mantissa
  | .arr #[.str "f", .str bits] => .f64 bits.toNat!
  | .arr #[.str "s", .str h] => .str ((bytesToString (unhex h)).getD "")
  | .arr #[.str "a", .arr xs] => .arr (xs.toList.map jargOfJson)
  | .arr #[.str "o", .arr kvs] => .obj (kvs.toList.map fun kv => match kv with
      | .arr #[.str k, v] => ((bytesToString (unhex k)).getD "", jargOfJson v)
      | _ => ("", .null))
  | _ => .null

def versionsJson (v : Versions) : Json :=
  Json.mkObj [("version", verStr' v.dataVersion), ("interpreter_version", verStr' v.interpreterVersion)]

def op (j : Json) : Json :=
  let b := unhex (getStr j "hex")
  match getStr j "what" with
  | "varint_enc" => Json.mkObj [("hex", jhex (Varint.encodeU32 (getNat j "n")))]
  | "varint_dec" =>
    match Varint.decodeU32 b with
    | .ok (n, rest) => Json.mkObj [("ok", toJson n), ("rest", jhex rest)]
    | .error e => Json.mkObj [("err", e.name)]
  | "mp_accepts" => Json.mkObj [("ok", toJson (rmpParse b).isSome)]
  | "enc_envelope" =>
    Json.mkObj [("hex", jhex (encodeEnvelope ⟨strOfHex j "version", strOfHex j "interpreter_version"⟩ (unhex (getStr j "inner"))))]
  | "dec_envelope" =>
    match decodeEnvelope b with
    | some (vs, inner) => Json.mkObj [("ok", versionsJson vs), ("inner", jhex inner)]
    | none => Json.mkObj [("err", "envelope")]
  | "dec_versions" =>
    match decodeVersions b with
    | some vs => Json.mkObj [("ok", versionsJson vs), ("unmodelled", unmodelled b structMapTop)]
    | none => Json.mkObj [("err", "versions"), ("unmodelled", unmodelled b structMapTop)]
  | "enc_requests" =>
    Json.mkObj [("hex", jhex (encodeCallRequests ((getArr j "entries").toList.map requestOfJson)))]
  | "dec_requests" =>
    let um := unmodelled (payloadOf b) structMapsOfEntries
    match decodeCallRequests b with
    | .ok m => Json.mkObj [("ok", Json.arr ((sortBy (fun a b => a.1 < b.1) m).map requestJson).toArray), ("unmodelled", um)]
    | .error e => (decodeErrJson e).setObjVal! "unmodelled" um
  | "enc_results" =>
    Json.mkObj [("hex", jhex (encodeCallResults ((getArr j "entries").toList.map resultOfJson)))]
  | "dec_results" =>
    let um := unmodelled (payloadOf b) structMapsOfEntries
    match decodeCallResults b with
    | .ok m => Json.mkObj [("ok", Json.arr ((sortBy (fun a b => a.1 < b.1) m).map resultJson).toArray), ("unmodelled", um)]
    | .error e => (decodeErrJson e).setObjVal! "unmodelled" um
  | "enc_args" =>
    Json.mkObj [("hex", jhex (encodeCallArguments ((getArr j "args").toList.map jargOfJson)))]
  | "dec_args" =>
    -- the decoded arguments are returned in their canonical re-encoding (floats by bit pattern)
    match decodeCallArguments b with
    | some args => Json.mkObj [("ok", jhex (encodeCallArguments args))]
    | none => Json.mkObj [("err", "args")]
  | "enc_tets" =>
    Json.mkObj [("hex", jhex (encodeTetraplets ((getArr j "rows").toList.map fun r => match r with
      | .arr ts => ts.toList.map tetOfJson
      | _ => [])))]
  | "dec_tets" =>
    let um := unmodelled b structMapsOfRows
    match decodeTetraplets b with
    | some rows => Json.mkObj [("ok", Json.arr (rows.map fun r => Json.arr (r.map tetJson).toArray).toArray), ("unmodelled", um)]
    | none => Json.mkObj [("err", "tetraplets"), ("unmodelled", um)]
  | w => Json.mkObj [("error", s!"unknown c27 op {w}")]

end Drv.C27

namespace Drv
def opC27 (j : Json) : Json := Drv.C27.op j
end Drv
