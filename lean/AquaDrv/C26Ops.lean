import Lean.Data.Json
import Aqua
import AquaDrv.Basic
/-! Driver operations for C26 (JSON value type): the model parser/printer/conversions on real texts.
The float oracle of the model is a finite table supplied by the harness (computed there with
serde_json); a triple missing from the table is answered with the marker text `?missing`. -/
open Lean Aqua Aqua.Json

namespace Drv

/-- the oracle used to *discover* the `(positive, significand, exponent)` triples of a text -/
def probeOracle : FloatOracle := fun p s e => some s!"{if p then "+" else "-"}|{s}|{e}"

def unprobe (r : String) : Option (Bool × Nat × Int) :=
  match r.splitOn "|" with
  | [p, s, e] => match s.toNat?, e.toInt? with
    | some s, some e => some (p == "+", s, e)
    | _, _ => none
  | _ => none

/-- every triple the number lexer can ask for at any position of the text (a superset of the queries of
an actual parse: `parseNumTok` asks at most once, at its end, and `parse_exponent_overflow` asks for
`(±, 0, 0)`) -/
def floatQueries (cs : List Char) : List (Bool × Nat × Int) :=
  let rec go : List Char → List (Bool × Nat × Int) → List (Bool × Nat × Int)
    | [], acc => acc
    | c :: rest, acc =>
      let acc := if c = '-' || isDigit c then
          match parseNumTok probeOracle (c :: rest) with
          | .ok (.float r, _) => match unprobe r with
            | some q => if acc.contains q then acc else q :: acc
            | none => acc
          | _ => acc
        else acc
      go rest acc
  go cs [(true, 0, 0), (false, 0, 0)]

def opJsonFloatQueries (j : Lean.Json) : Lean.Json :=
  let qs := floatQueries (getStr j "text" ++ " " ++ getStr j "b").toList
  Lean.Json.mkObj [("queries", Lean.Json.arr (qs.map fun (p, s, e) =>
    Lean.Json.arr #[Lean.Json.bool p, Lean.Json.str (toString s), Lean.Json.str (toString e)]).toArray)]

def tableOracle (j : Lean.Json) : FloatOracle :=
  let table : List ((Bool × Nat × Int) × Option String) := (getArr j "floats").toList.map fun e =>
    ((getBool e "p", (getStr e "s").toNat?.getD 0, (getStr e "e").toInt?.getD 0),
      match e.getObjVal? "r" with | .ok (.str r) => some r | _ => none)
  fun p s e => match table.find? (fun (k, _) => k == (p, s, e)) with
    | some (_, r) => r
    | none => some "?missing"

def errName : PErr → String
  | .syntax => "syntax" | .recursionLimit => "recursionLimit" | .numberOutOfRange => "numberOutOfRange" | .fuel => "fuel"

mutual
def vdepthD : JVal → Nat
  | .arr l => 1 + vdepthListD l
  | .obj kvs => 1 + vdepthPairsD kvs
  | _ => 0
def vdepthListD : List JVal → Nat
  | [] => 0
  | v :: vs => max (vdepthD v) (vdepthListD vs)
def vdepthPairsD : List (String × JVal) → Nat
  | [] => 0
  | (_, v) :: kvs => max (vdepthD v) (vdepthPairsD kvs)
end

def describe (fo : FloatOracle) (limit : Nat) (text : String) : Lean.Json × Option JVal :=
  match JVal.parseList fo limit text.toList with
  | .error e => (Lean.Json.mkObj [("result", "err"), ("kind", errName e)], none)
  | .ok v =>
    let s := toStd v
    let back := fromStd s
    -- re-parsing the model's own output (print → parse on the model, with the same float table)
    let reparse := match JVal.parseList fo limit v.render.toList with
      | .ok w => Lean.Json.str w.render
      | .error e => Lean.Json.str ("err:" ++ errName e)
    (Lean.Json.mkObj [("result", "ok"), ("render", v.render), ("std_render", s.render), ("back_render", back.render),
      ("back_beq", JVal.beq back v), ("std_valeq_self", StdVal.valEq s s), ("norm_render", v.normZero.render),
      ("reparse", reparse), ("depth", toJson (vdepthD v))], some v)

/-- `{"op":"json_parse","text":t,"b":t2?,"floats":[{p,s,e,r}],"limit":128,"peq":[{"kind":"i64"|"u64"|"bool"|"str","other":..}]}` -/
def opJsonParse (j : Lean.Json) : Lean.Json :=
  let fo := tableOracle j
  let limit := match j.getObjValAs? Nat "limit" with | .ok n => n | _ => recursionLimit
  let (da, va) := describe fo limit (getStr j "text")
  let peq : List Lean.Json := match va with
    | none => []
    | some v => (getArr j "peq").toList.map fun q =>
      match getStr q "kind" with
      | "i64" => Lean.Json.bool (eqI64 v ((getStr q "other").toInt?.getD 0))
      | "u64" => Lean.Json.bool (eqU64 v ((getStr q "other").toInt?.getD 0))
      | "bool" => Lean.Json.bool (eqBool v (getBool q "other"))
      | "str" => Lean.Json.bool (eqStr v (getStr q "other"))
      | _ => Lean.Json.null
  let base := [("a", da), ("peq", Lean.Json.arr peq.toArray)]
  match j.getObjVal? "b" with
  | .ok (.str tb) =>
    let (db, vb) := describe fo limit tb
    let eqs := match va, vb with
      | some a, some b => [("beq", Lean.Json.bool (JVal.beq a b)), ("valEq", Lean.Json.bool (JVal.valEq a b)),
          ("std_valEq", Lean.Json.bool (StdVal.valEq (toStd a) (toStd b))),
          ("norm_beq", Lean.Json.bool (JVal.beq a.normZero b.normZero))]
      | _, _ => []
    Lean.Json.mkObj (base ++ [("b", db)] ++ eqs)
  | _ => Lean.Json.mkObj base

end Drv
