import Lean.Data.Json
import Aqua
import AquaDrv.Basic
import AquaDrv.TraceOps
import AquaDrv.AstJson
import AquaDrv.ExecOp
/-! The `ref` operation (C16): the calls of the sequential reading of a script, computed by the Lean
reference evaluator `Aqua.Ref.eval`.  The service oracle lives in the harness; it is handed over as a
finite table.  When the evaluator asks for a call that the table does not answer, the first such call
is returned under `need` and the harness asks again with the table extended (the evaluator is
deterministic, so everything before the first unanswered call is final). -/
open Lean Aqua Aqua.Json Aqua.Air

namespace Drv

structure OracleEntry where
  peer : String
  svc : String
  fn : String
  args : List JVal
  ans : Aqua.Ref.Ans

def jvalListBeq : List JVal → List JVal → Bool
  | [], [] => true
  | a :: as, b :: bs => a == b && jvalListBeq as bs
  | _, _ => false

def oracleEntryOfJson (e : Lean.Json) : Option OracleEntry := do
  let args ← (getArr e "args").toList.mapM jvalOfJson
  let ans ← match field e "ok", field e "fail" with
    | some v, _ => (jvalOfJson v).map Aqua.Ref.Ans.ok
    | _, some f => some (Aqua.Ref.Ans.fail (getInt f "code") (getStr f "msg"))
    | _, _ => none
  pure ⟨getStr e "peer", getStr e "svc", getStr e "fn", args, ans⟩

def tableLookup (t : List OracleEntry) (peer svc fn : String) (args : List JVal) : Option Aqua.Ref.Ans :=
  (t.find? fun e => e.peer == peer && e.svc == svc && e.fn == fn && jvalListBeq e.args args).map (·.ans)

def missingMsg : String := "__no_answer_in_table__"

def refTableOracle (t : List OracleEntry) : Aqua.Ref.Oracle := fun peer svc fn args =>
  (tableLookup t peer svc fn args).getD (.fail (-1) missingMsg)

def refCallToJson (c : Aqua.Ref.Call) : Lean.Json :=
  Lean.Json.mkObj [("peer", c.peer), ("service", c.service), ("function", c.function),
                   ("args", Lean.Json.arr (c.args.map jvalToJson).toArray)]

def outcomeName : Aqua.Ref.Outcome → String
  | .done => "done" | .blocked => "blocked" | .failed => "failed" | .abort w => "abort: " ++ w

/-- `{"op":"ref","ast":…,"params":{"init","ts","ttl"},"oracle":[{"peer","svc","fn","args",("ok"|"fail")}],"fuel":n}` -/
def opRef (j : Lean.Json) : Lean.Json :=
  match instrOfJson ((field j "ast").getD Lean.Json.null) with
  | none => Lean.Json.mkObj [("unmodelled", "ast does not decode")]
  | some script =>
    match (getArr j "oracle").toList.mapM oracleEntryOfJson with
    | none => Lean.Json.mkObj [("unmodelled", "oracle table does not decode (float?)")]
    | some table =>
      let pj := (field j "params").getD Lean.Json.null
      let params : Aqua.Ref.Params := { initPeerId := getStr pj "init", timestamp := getNat pj "ts", ttl := getNat pj "ttl" }
      let fuel := if getNat j "fuel" == 0 then 100000 else getNat j "fuel"
      let (outcome, st) := Aqua.Ref.run (refTableOracle table) params fuel script
      let need := st.calls.find? fun c => (tableLookup table c.peer c.service c.function c.args).isNone
      Lean.Json.mkObj [("calls", Lean.Json.arr (st.calls.map refCallToJson).toArray),
                       ("outcome", outcomeName outcome),
                       ("need", match need with | some c => refCallToJson c | none => Lean.Json.null)]

end Drv
