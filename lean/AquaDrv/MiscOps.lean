import Lean.Data.Json
import Aqua
import AquaDrv.Basic
import AquaDrv.TraceOps
/-! Small operations: signature-store merge (C15). -/
open Lean Aqua Aqua.Run

namespace Drv

def peerInfosOfJson (j : Lean.Json) : List (String × PeerInfo) :=
  match j with
  | .obj kvs => kvs.toList.map fun (peer, v) => (peer, ({ publicKey := getStr v "pk", signature := getStr v "sig", cids := getStrList v "cids" } : PeerInfo))
  | _ => []

/-- `{"op":"sig_merge","prev":{peer:{pk,sig,cids}},"cur":{...}}` → kept signature per peer or the rejected peer -/
def opSigMerge (j : Lean.Json) : Lean.Json :=
  let prev := peerInfosOfJson ((field j "prev").getD Lean.Json.null)
  let cur := peerInfosOfJson ((field j "cur").getD Lean.Json.null)
  match mergeVerifiers prev cur with
  | .ok merged => Lean.Json.mkObj [("ok", Lean.Json.mkObj (merged.map fun (p, i) => (p, Lean.Json.str i.signature)))]
  | .error peer => Lean.Json.mkObj [("mismatch", peer)]

end Drv
