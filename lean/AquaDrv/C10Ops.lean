import Lean.Data.Json
import Aqua
import AquaDrv.Basic
import AquaDrv.TraceOps
/-! C10 driver op: `{"op":"wf","trace":[…serde states…]}` → the Lean `wfTrace` verdict with every clause. -/
open Lean Aqua Aqua.Data Aqua.Trace

namespace Drv

def opWf (j : Json) : Json :=
  match traceOfJson ((field j "trace").getD Json.null) with
  | some t =>
    Json.mkObj [("wf", wfTrace t), ("first", wfVerdict t),
      ("par", wfPar t), ("fold", wfFold t), ("nesting", wfNesting t),
      ("value_pos", wfValuePos t), ("generations", wfGenerations t)]
  | none => Json.mkObj [("unmodelled", "trace does not parse")]

end Drv
