import Lean.Data.Json
import Aqua
import AquaDrv.Basic
import AquaDrv.TraceOps
import AquaDrv.AstJson
/-! The `exec` operation: the execution stage of one run on decoded data. -/
open Lean Aqua Aqua.Json Aqua.Air Aqua.Data Aqua.Trace Aqua.Exec

namespace Drv

partial def jvalOfJson (j : Lean.Json) : Option JVal :=
  match j with
  | .null => some .null
  | .bool b => some (.bool b)
  | .num n => if n.exponent == 0 then some (.num n.mantissa) else none   -- floats are not modelled
  | .str s => some (.str s)
  | .arr a => (a.toList.mapM jvalOfJson).map .arr
  | .obj kvs => do
    let pairs ← kvs.toList.mapM fun (k, v) => (jvalOfJson v).map fun x => (k, x)
    pure (JVal.mkObj pairs)

partial def jvalToJson : JVal → Lean.Json
  | .null => .null
  | .bool b => .bool b
  | .num i => .num ⟨i, 0⟩
  | .float r => .str ("float:" ++ r)
  | .str s => .str s
  | .arr l => .arr (l.map jvalToJson).toArray
  | .obj kvs => Lean.Json.mkObj (kvs.map fun (k, v) => (k, jvalToJson v))

def parseJsonText (s : String) : Option JVal :=
  match Lean.Json.parse s with
  | .ok j => jvalOfJson j
  | .error _ => none

/-- does the text contain a float (then the case is outside the model) -/
def driverEnv : Env := { hash := fun s => Crypto.jsonCidOfBytes (utf8 s), parseJson := parseJsonText }

def objPairs (j : Lean.Json) : List (String × Lean.Json) :=
  match j with
  | .obj kvs => kvs.toList
  | _ => []

def tetrapletOfJson (t : Lean.Json) : Tetraplet :=
  { peerPk := getStr t "peer_pk", serviceId := getStr t "service_id", functionName := getStr t "function_name", lens := getStr t "lens" }

def tetrapletToJson (t : Tetraplet) : Lean.Json :=
  Lean.Json.mkObj [("peer_pk", t.peerPk), ("service_id", t.serviceId), ("function_name", t.functionName), ("lens", t.lens)]

def dataOfJson (j : Lean.Json) : Option DataIn :=
  if j.isNull then some {} else do
    let trace ← traceOfJson ((field j "trace").getD (Lean.Json.arr #[]))
    let ci := (field j "cid_info").getD Lean.Json.null
    let values := (objPairs ((field ci "value_store").getD Lean.Json.null)).map fun (k, v) => (k, jStr v)
    let tets := (objPairs ((field ci "tetraplet_store").getD Lean.Json.null)).map fun (k, v) => (k, tetrapletOfJson v)
    let srs := (objPairs ((field ci "service_result_store").getD Lean.Json.null)).map fun (k, v) =>
      (k, ({ valueCid := getStr v "value_cid", argumentHash := getStr v "argument_hash", tetrapletCid := getStr v "tetraplet_cid" } : ServiceResultAgg))
    let provOf (p : Lean.Json) : Provenance := match getStr p "type" with
      | "service_result" => .serviceResult (getStr p "cid")
      | "canon" => .canon (getStr p "cid")
      | _ => .literal
    let elems := (objPairs ((field ci "canon_element_store").getD Lean.Json.null)).map fun (k, v) =>
      (k, ({ value := getStr v "value", tetraplet := getStr v "tetraplet", provenance := provOf ((field v "provenance").getD Lean.Json.null) } : CanonElemAgg))
    let cres := (objPairs ((field ci "canon_result_store").getD Lean.Json.null)).map fun (k, v) =>
      (k, ({ tetraplet := getStr v "tetraplet", values := getStrList v "values" } : CanonResultAgg))
    pure { trace := trace, lcid := getNat j "lcid",
           cid := { values := values, tetraplets := tets, serviceResults := srs, canonElements := elems, canonResults := cres } }

/-- does the data hold canon results (unused since canon stores are modelled; kept for ad-hoc probes) -/
def hasCanonStores (j : Lean.Json) : Bool :=
  let ci := (field j "cid_info").getD Lean.Json.null
  !(objPairs ((field ci "canon_result_store").getD Lean.Json.null)).isEmpty || !(objPairs ((field ci "canon_element_store").getD Lean.Json.null)).isEmpty

def opExec (j : Lean.Json) : Lean.Json :=
  let prevJ := (field j "prev").getD Lean.Json.null
  let curJ := (field j "cur").getD Lean.Json.null
  match instrOfJson ((field j "ast").getD Lean.Json.null), dataOfJson prevJ, dataOfJson curJ with
  | some script, some prev, some cur =>
    let pj := (field j "params").getD Lean.Json.null
    let params : RunParams := { initPeerId := getStr pj "init", currentPeerId := getStr pj "me", timestamp := getNat pj "ts", ttl := getNat pj "ttl" }
    let results := (objPairs ((field j "results").getD Lean.Json.null)).map fun (k, v) =>
      (k, ({ retCode := getInt v "ret_code", result := getStr v "result" } : CallServiceResult))
    let fuel := defaultFuel script prev cur
    -- serde's error text for results that are not JSON is supplied by the harness (`parse_errs`: text ↦ message)
    let errs : List (String × String) := (objPairs ((field j "parse_errs").getD Lean.Json.null)).map fun (k, v) => (k, jStr v)
    let env : Env := { driverEnv with parseErr := fun s => (lookup errs s).getD "" }
    let (res, c) := runExecFarewell env fuel script prev cur params results
    let common : List (String × Lean.Json) :=
      [("trace", traceToJson c.th.keeper.resultTrace),
       ("next", toJson c.nextPeerPks),
       ("lcid", toJson c.lastCallRequestId),
       ("requests", Lean.Json.mkObj (c.callRequests.map fun (id, r) =>
          (toString id, Lean.Json.mkObj [("service_id", r.serviceId), ("function_name", r.functionName),
            ("args", Lean.Json.arr (r.arguments.map jvalToJson).toArray),
            ("tetraplets", Lean.Json.arr (r.tetraplets.map fun ts => Lean.Json.arr (ts.map tetrapletToJson).toArray).toArray)]))),
       ("values", toJson (c.cid.values.map (·.1))),
       ("tetraplets", toJson (c.cid.tetraplets.map (·.1))),
       ("service_results", toJson (c.cid.serviceResults.map (·.1))),
       ("canon_elements", toJson (c.cid.canonElements.map (·.1))),
       ("canon_results", toJson (c.cid.canonResults.map (·.1))),
       ("peer_cids", toJson c.peerCids),
       ("leftover", toJson (c.callResults.map (·.1)))]
    match res with
    | .ok () =>
      let code : Int := if c.callResults.isEmpty then 0 else 30000
      Lean.Json.mkObj ([("code", toJson code), ("msg", "")] ++ common)
    | .error (.catchable e) => Lean.Json.mkObj ([("code", toJson e.code), ("msg", e.render)] ++ common)
    | .error (.uncatchable e) => Lean.Json.mkObj [("code", toJson e.code), ("uncatchable", e.variant), ("detail", toString (repr e))]
    | .error (.unmodelled w) => Lean.Json.mkObj [("unmodelled", w)]
    | .panic s => Lean.Json.mkObj [("panic", s)]
  | none, _, _ => Lean.Json.mkObj [("unmodelled", "ast does not decode")]
  | _, _, _ => Lean.Json.mkObj [("unmodelled", "data does not decode")]

end Drv
