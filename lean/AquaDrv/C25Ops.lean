import Lean.Data.Json
import Aqua
import AquaDrv.Basic
/-! C25 driver operations: content ids of values (`cid`) and verification of (id, value) pairs (`cid_verify`).
Values cross as tagged trees so that insertion order, duplicate keys and float texts survive the transport:
`{"t":"null"}`, `{"t":"bool","v":b}`, `{"t":"int","v":"<decimal>"}`, `{"t":"float","v":"<text serde_json prints>"}`,
`{"t":"str","h":"<hex of utf-8>"}`, `{"t":"arr","v":[..]}`, `{"t":"obj","v":[["<hex key>", value], ..]}` (insertion order). -/
open Lean Aqua Aqua.Json Aqua.Crypto.CidVerify

namespace Drv

def strOfHex (h : String) : Option String := String.fromUTF8? (ByteArray.mk (unhex h).toArray)

partial def c25ValOfJson (j : Json) : Option JVal :=
  match getStr j "t" with
  | "null" => some .null
  | "bool" => some (.bool (getBool j "v"))
  | "int" => (getStr j "v").toInt?.map .num
  | "float" => some (.float (getStr j "v"))
  | "str" => (strOfHex (getStr j "h")).map .str
  | "arr" => ((getArr j "v").toList.mapM c25ValOfJson).map .arr
  | "obj" => do
    let pairs ← (getArr j "v").toList.mapM fun e =>
      match e with
      | .arr #[.str k, v] => do pure ((← strOfHex k), (← c25ValOfJson v))
      | _ => none
    pure (JVal.mkObj pairs)
  | _ => none

def textOf (b : Bytes) : String := String.ofList (b.map fun c => Char.ofNat c.toNat)

def resText : Res Unit Bytes → Json
  | .ok b => Json.mkObj [("ok", textOf b)]
  | .error _ => Json.mkObj [("error", "?")]
  | .panic s => Json.mkObj [("panic", s)]

def verifyKind : Except CidVerificationError Unit → String
  | .ok () => "Ok"
  | .error .ValueMismatch => "ValueMismatch"
  | .error .InvalidJson => "InvalidJson"
  | .error (.MalformedCid e) => s!"MalformedCid({e.name})"
  | .error (.UnsupportedCidCodec c) => s!"UnsupportedCidCodec({c})"
  | .error (.UnsupportedHashCode c) => s!"UnsupportedHashCode({c})"

/-- `{"op":"cid","value":V}` → ids by `value_to_json_cid` and `raw_value_to_json_cid` (on the rendered text) and the text -/
def opCid (j : Json) : Json :=
  match (j.getObjVal? "value").toOption.bind c25ValOfJson with
  | none => Json.mkObj [("error", "value does not decode")]
  | some v =>
    Json.mkObj [("cid", resText (valueToJsonCid realHashers v)),
      ("raw_cid", resText (rawValueToJsonCid realHashers (jsonBytes v))),
      ("json_hex", hexOf (jsonBytes v))]

/-- `{"op":"cid_verify","cid_hex":H,"value":V?,"raw_hex":R?}` → how the text parses, `verify_value`, `verify_raw_value` -/
def opCidVerify (j : Json) : Json :=
  let cid := unhex (getStr j "cid_hex")
  let parsed : Json := match Cid.tryFromStr cid with
    | .ok c => Json.mkObj [("version", (match c.version with | .V0 => (0 : Nat) | .V1 => 1)), ("codec", c.codec),
        ("code", c.hash.code), ("digest", hexOf c.hash.digest)]
    | .error e => Json.str e.name
  let mb : Json := match Aqua.Crypto.Multibase.decode cid with
    | some (b, d) => Json.mkObj [("base", b.name), ("hex", hexOf d)]
    | none => Json.null
  let vres : Json := match (j.getObjVal? "value").toOption with
    | none => Json.null
    | some vj => match c25ValOfJson vj with
      | none => "value does not decode"
      | some v => verifyKind (verifyValue realHashers cid v)
  let rres : Json := match (j.getObjVal? "raw_hex").toOption with
    | some (.str h) => verifyKind (verifyRawValue realHashers cid (unhex h))
    | _ => Json.null
  Json.mkObj [("parsed", parsed), ("multibase", mb), ("value", vres), ("raw", rres)]

end Drv
