import Lean.Data.Json
import Aqua
import AquaDrv.Basic
import AquaDrv.TraceOps
/-! C23 driver operations: `c23_parse` (text → outcome of the parser model), `c23_validate`
(spanned syntax tree → validator errors), `c23_char_class` (character classes on given code points).
The JSON form of the spanned tree is the harness' own (`harness/src/props/c23.rs`). -/
open Lean Aqua Aqua.Air

namespace Drv.C23

-- encoding ---------------------------------------------------------------------------------------

def accJ : Accessor → Json
  | .arrayAccess i => Json.mkObj [("idx", toJson i)]
  | .fieldByName n => Json.mkObj [("field", n)]
  | .fieldByScalar s => Json.mkObj [("scalar", s)]

def lensJ : Lambda → Json
  | .functorLength => "length"
  | .path as => Json.arr (as.map accJ).toArray

def optLensJ : Option Lambda → Json
  | none => Json.null
  | some l => lensJ l

def valJ : Value → Json
  | .initPeerId => Json.mkObj [("t", "init")]
  | .lastError l => Json.mkObj [("t", "le"), ("lens", optLensJ l)]
  | .error l => Json.mkObj [("t", "err"), ("lens", optLensJ l)]
  | .literal s => Json.mkObj [("t", "lit"), ("s", s)]
  | .timestamp => Json.mkObj [("t", "ts")]
  | .ttl => Json.mkObj [("t", "ttl")]
  | .number n => Json.mkObj [("t", "num"), ("n", toJson n)]
  | .float r => Json.mkObj [("t", "float"), ("raw", r)]
  | .boolean b => Json.mkObj [("t", "bool"), ("b", b)]
  | .emptyArray => Json.mkObj [("t", "empty")]
  | .scalar n => Json.mkObj [("t", "scalar"), ("n", n)]
  | .scalarWL n l => Json.mkObj [("t", "scalar_wl"), ("n", n), ("lens", lensJ l)]
  | .canon n => Json.mkObj [("t", "canon"), ("n", n)]
  | .canonWL n l => Json.mkObj [("t", "canon_wl"), ("n", n), ("lens", lensJ l)]
  | .canonMap n => Json.mkObj [("t", "cmap"), ("n", n)]
  | .canonMapWL n l => Json.mkObj [("t", "cmap_wl"), ("n", n), ("lens", lensJ l)]

def outJ : CallOutput → Json
  | .none => Json.null
  | .scalar n => Json.mkObj [("t", "scalar"), ("n", n)]
  | .stream n p => Json.mkObj [("t", "stream"), ("n", n), ("p", toJson p)]

def spJ (sp : Span) : Json := Json.arr #[toJson sp.left, toJson sp.right]

def failJ : FailArg → Json
  | .scalar n => Json.mkObj [("t", "scalar"), ("n", n)]
  | .scalarWL n l => Json.mkObj [("t", "scalar_wl"), ("n", n), ("lens", lensJ l)]
  | .literal c m => Json.mkObj [("t", "lit"), ("code", toJson c), ("msg", m)]
  | .canonWL n l => Json.mkObj [("t", "canon_wl"), ("n", n), ("lens", lensJ l)]
  | .lastError => Json.mkObj [("t", "le")]
  | .error => Json.mkObj [("t", "err")]

def newJ : NewArg → Json
  | .scalar n => Json.mkObj [("t", "scalar"), ("n", n)]
  | .stream n => Json.mkObj [("t", "stream"), ("n", n)]
  | .streamMap n => Json.mkObj [("t", "smap"), ("n", n)]
  | .canon n => Json.mkObj [("t", "canon"), ("n", n)]
  | .canonMap n => Json.mkObj [("t", "cmap"), ("n", n)]

def iterableJ : FoldIterable → Json
  | .scalar v => Json.mkObj [("t", "value"), ("v", valJ v)]
  | .stream n p => Json.mkObj [("t", "stream"), ("n", n), ("p", toJson p)]
  | .streamMap n p => Json.mkObj [("t", "smap"), ("n", n), ("p", toJson p)]

/-- the heads of the instructions in pre-order (= text order): a flat array, children follow their parent -/
partial def instrJ (i : SInstr) (acc : Array Json) : Array Json :=
  match i with
  | .call sp p s f a o => acc.push (Json.mkObj [("k", "call"), ("sp", spJ sp), ("peer", valJ p), ("svc", valJ s), ("func", valJ f),
      ("args", Json.arr (a.map valJ).toArray), ("out", outJ o)])
  | .seq sp l r => instrJ r (instrJ l (acc.push (Json.mkObj [("k", "seq"), ("sp", spJ sp)])))
  | .par sp l r => instrJ r (instrJ l (acc.push (Json.mkObj [("k", "par"), ("sp", spJ sp)])))
  | .xor sp l r => instrJ r (instrJ l (acc.push (Json.mkObj [("k", "xor"), ("sp", spJ sp)])))
  | .match_ sp a b i => instrJ i (acc.push (Json.mkObj [("k", "match"), ("sp", spJ sp), ("a", valJ a), ("b", valJ b)]))
  | .mismatch sp a b i => instrJ i (acc.push (Json.mkObj [("k", "mismatch"), ("sp", spJ sp), ("a", valJ a), ("b", valJ b)]))
  | .ap sp a r => acc.push (Json.mkObj [("k", "ap"), ("sp", spJ sp), ("arg", valJ a), ("out", outJ r.toCallOutput)])
  | .apMap sp k v m p => acc.push (Json.mkObj [("k", "ap_map"), ("sp", spJ sp), ("key", valJ k), ("val", valJ v), ("map", m), ("p", toJson p)])
  | .canon sp p s spos c => acc.push (Json.mkObj [("k", "canon"), ("sp", spJ sp), ("peer", valJ p), ("src", s), ("p", toJson spos), ("dst", c)])
  | .canonMap sp p s spos c => acc.push (Json.mkObj [("k", "canon_map"), ("sp", spJ sp), ("peer", valJ p), ("src", s), ("p", toJson spos), ("dst", c)])
  | .canonMapScalar sp p s spos c => acc.push (Json.mkObj [("k", "canon_map_scalar"), ("sp", spJ sp), ("peer", valJ p), ("src", s), ("p", toJson spos), ("dst", c)])
  | .fold sp it i b => instrJ b (acc.push (Json.mkObj [("k", "fold"), ("sp", spJ sp), ("iterable", iterableJ it), ("iterator", i), ("has_last", false)]))
  | .foldLast sp it i b l => instrJ l (instrJ b (acc.push (Json.mkObj [("k", "fold"), ("sp", spJ sp), ("iterable", iterableJ it), ("iterator", i), ("has_last", true)])))
  | .next sp i => acc.push (Json.mkObj [("k", "next"), ("sp", spJ sp), ("iterator", i)])
  | .new sp a b => instrJ b (acc.push (Json.mkObj [("k", "new"), ("sp", spJ sp), ("arg", newJ a)]))
  | .fail sp a => acc.push (Json.mkObj [("k", "fail"), ("sp", spJ sp), ("arg", failJ a)])
  | .null sp => acc.push (Json.mkObj [("k", "null"), ("sp", spJ sp)])
  | .never sp => acc.push (Json.mkObj [("k", "never"), ("sp", spJ sp)])
  | .error => acc.push (Json.mkObj [("k", "error")])

-- decoding ---------------------------------------------------------------------------------------

def accOf (j : Json) : Option Accessor :=
  match field j "idx", field j "field", field j "scalar" with
  | some i, _, _ => some (.arrayAccess (jNat i))
  | _, some f, _ => some (.fieldByName (jStr f))
  | _, _, some s => some (.fieldByScalar (jStr s))
  | _, _, _ => none

def lensOf (j : Json) : Option Lambda :=
  match j with
  | .str "length" => some .functorLength
  | .arr a => (a.toList.mapM accOf).map .path
  | _ => none

def optLensOf (j : Option Json) : Option (Option Lambda) :=
  match j with
  | none => some none
  | some .null => some none
  | some l => (lensOf l).map some

def valOf (j : Json) : Option Value :=
  let n := getStr j "n"
  let lens := (field j "lens").bind lensOf
  match getStr j "t" with
  | "init" => some .initPeerId
  | "le" => (optLensOf (field j "lens")).map .lastError
  | "err" => (optLensOf (field j "lens")).map .error
  | "lit" => some (.literal (getStr j "s"))
  | "ts" => some .timestamp
  | "ttl" => some .ttl
  | "num" => some (.number (getInt j "n"))
  | "float" => some (.float (getStr j "raw"))
  | "bool" => some (.boolean (getBool j "b"))
  | "empty" => some .emptyArray
  | "scalar" => some (.scalar n)
  | "scalar_wl" => lens.map (.scalarWL n)
  | "canon" => some (.canon n)
  | "canon_wl" => lens.map (.canonWL n)
  | "cmap" => some (.canonMap n)
  | "cmap_wl" => lens.map (.canonMapWL n)
  | _ => none

def outOf (j : Option Json) : Option CallOutput :=
  match j with
  | none | some .null => some .none
  | some o => match getStr o "t" with
    | "scalar" => some (.scalar (getStr o "n"))
    | "stream" => some (.stream (getStr o "n") (getNat o "p"))
    | _ => none

def spOf (j : Json) : Span := match field j "sp" with
  | some s => ⟨jNat (idx s 0), jNat (idx s 1)⟩
  | none => ⟨0, 0⟩

def failOf (j : Json) : Option FailArg :=
  let n := getStr j "n"
  let lens := (field j "lens").bind lensOf
  match getStr j "t" with
  | "scalar" => some (.scalar n)
  | "scalar_wl" => lens.map (.scalarWL n)
  | "lit" => some (.literal (getInt j "code") (getStr j "msg"))
  | "canon_wl" => lens.map (.canonWL n)
  | "le" => some .lastError
  | "err" => some .error
  | _ => none

def newOf (j : Json) : Option NewArg :=
  let n := getStr j "n"
  match getStr j "t" with
  | "scalar" => some (.scalar n) | "stream" => some (.stream n) | "smap" => some (.streamMap n)
  | "canon" => some (.canon n) | "cmap" => some (.canonMap n)
  | _ => none

def iterableOf (j : Json) : Option FoldIterable :=
  match getStr j "t" with
  | "value" => ((field j "v").bind valOf).map .scalar
  | "stream" => some (.stream (getStr j "n") (getNat j "p"))
  | "smap" => some (.streamMap (getStr j "n") (getNat j "p"))
  | _ => none

/-- rebuild the tree from the pre-order list of heads; returns the rest of the list -/
partial def instrOf (nodes : List Json) : Option (SInstr × List Json) :=
  match nodes with
  | [] => none
  | j :: rest =>
  let sp := spOf j
  let v (k : String) : Option Value := (field j k).bind valOf
  match getStr j "k" with
  | "call" => do
    let args ← (getArr j "args").toList.mapM valOf
    pure (.call sp (← v "peer") (← v "svc") (← v "func") args (← outOf (field j "out")), rest)
  | "seq" => do let (l, rest) ← instrOf rest; let (r, rest) ← instrOf rest; pure (.seq sp l r, rest)
  | "par" => do let (l, rest) ← instrOf rest; let (r, rest) ← instrOf rest; pure (.par sp l r, rest)
  | "xor" => do let (l, rest) ← instrOf rest; let (r, rest) ← instrOf rest; pure (.xor sp l r, rest)
  | "match" => do let (i, rest) ← instrOf rest; pure (.match_ sp (← v "a") (← v "b") i, rest)
  | "mismatch" => do let (i, rest) ← instrOf rest; pure (.mismatch sp (← v "a") (← v "b") i, rest)
  | "ap" => do
    let r ← (match ← outOf (field j "out") with
      | .scalar n => some (ApResult.scalar n)
      | .stream n p => some (ApResult.stream n p)
      | .none => none)
    pure (.ap sp (← v "arg") r, rest)
  | "ap_map" => do pure (.apMap sp (← v "key") (← v "val") (getStr j "map") (getNat j "p"), rest)
  | "canon" => do pure (.canon sp (← v "peer") (getStr j "src") (getNat j "p") (getStr j "dst"), rest)
  | "canon_map" => do pure (.canonMap sp (← v "peer") (getStr j "src") (getNat j "p") (getStr j "dst"), rest)
  | "canon_map_scalar" => do pure (.canonMapScalar sp (← v "peer") (getStr j "src") (getNat j "p") (getStr j "dst"), rest)
  | "fold" => do
    let it ← (field j "iterable").bind iterableOf
    let (body, rest) ← instrOf rest
    if getBool j "has_last" then do
      let (l, rest) ← instrOf rest
      pure (.foldLast sp it (getStr j "iterator") body l, rest)
    else pure (.fold sp it (getStr j "iterator") body, rest)
  | "next" => some (.next sp (getStr j "iterator"), rest)
  | "new" => do let (b, rest) ← instrOf rest; pure (.new sp (← (field j "arg").bind newOf) b, rest)
  | "fail" => do pure (.fail sp (← (field j "arg").bind failOf), rest)
  | "null" => some (.null sp, rest)
  | "never" => some (.never sp, rest)
  | "error" => some (.error, rest)
  | _ => none

-- operations -------------------------------------------------------------------------------------

def verrJ : ValidatorError → Json
  | .undefinedVariable sp n => Json.mkObj [("kind", "UndefinedVariable"), ("name", n), ("sp", spJ sp)]
  | .undefinedIterable sp n => Json.mkObj [("kind", "UndefinedIterable"), ("name", n), ("sp", spJ sp)]
  | .multipleNextInFold sp n => Json.mkObj [("kind", "MultipleNextInFold"), ("name", n), ("sp", spJ sp)]
  | .iteratorRestrictionNotAllowed sp n => Json.mkObj [("kind", "IteratorRestrictionNotAllowed"), ("name", n), ("sp", spJ sp)]
  | .multipleIterableValuesForOneIterator sp n => Json.mkObj [("kind", "MultipleIterableValuesForOneIterator"), ("name", n), ("sp", spJ sp)]
  | .unsupportedLiteralErrCodes sp => Json.mkObj [("kind", "UnsupportedLiteralErrCodes"), ("name", ""), ("sp", spJ sp)]
  | .foldHasInstructionAfterNext sp => Json.mkObj [("kind", "FoldHasInstructionAfterNext"), ("name", ""), ("sp", spJ sp)]

/-- variable tokens `(name, position)` of the text, in text order -/
def varTokens (text : List Char) : List Json :=
  (splitItems (lex text)).1.filterMap fun (_, t, _) =>
    let mk (n : String) (p : Nat) : Option Json := some (Json.arr #[n, toJson p])
    match t with
    | .scalar n p | .scalarWithLambda n _ p | .stream n p | .streamWithLambda n _ p | .streamMapWithLambda n _ p
    | .canonStream n p | .canonStreamWithLambda n _ p | .streamMap n p | .canonStreamMap n p
    | .canonStreamMapWithLambda n _ p => mk n p
    | _ => none

def opParse (j : Json) : Json :=
  let text := (getStr j "text").toList
  match parseChars text with
  | .ok ast => Json.mkObj [("result", "ok"), ("ast", Json.arr (instrJ ast #[])), ("vars", Json.arr (varTokens text).toArray)]
  | .panic site => Json.mkObj [("result", "panic"), ("site", site)]
  | .error (.lexer e) => Json.mkObj [("result", "err"), ("stage", "lexer"), ("kind", e.kind), ("sp", Json.arr #[toJson e.left, toJson e.right])]
  | .error (.syntax k) => Json.mkObj [("result", "err"), ("stage", "syntax"), ("at_token", toJson k)]
  | .error (.validator es) => Json.mkObj [("result", "err"), ("stage", "validator"), ("errors", Json.arr (es.map verrJ).toArray)]
  | .error (.syntaxThenPanic site) => Json.mkObj [("result", "err_or_panic"), ("site", site)]

def opValidate (j : Json) : Json :=
  match instrOf (getArr j "ast").toList with
  | none => Json.mkObj [("error", "cannot decode the syntax tree")]
  | some (_, _ :: _) => Json.mkObj [("error", "trailing nodes after the syntax tree")]
  | some (ast, []) =>
    Json.mkObj [("errors", Json.arr ((validate ast).map verrJ).toArray),
                ("events", toJson ast.events.length), ("error_nodes", toJson ast.errorNodes)]

def bits (f : Char → Bool) (pts : List Nat) : String :=
  String.ofList (pts.map fun p => if f (Char.ofNat p) then '1' else '0')

def borders (t : List (Nat × Nat)) : List Nat :=
  t.flatMap fun (lo, hi) => [lo - 1, lo, hi, hi + 1]

/-- character classes of the model on the given code points plus the borders of its own tables -/
def opCharClass (j : Json) : Json :=
  let isScalar (p : Nat) : Bool := p < 0xD800 || (0xDFFF < p && p ≤ 0x10FFFF)
  let pts := ((getNatList j "points") ++ borders Gen.Unicode.alphabetic ++ borders Gen.Unicode.numeric ++
    borders Gen.Unicode.whiteSpace).filter isScalar
  Json.mkObj [("points", toJson pts), ("ws", bits Lex.isWhitespace pts), ("alnum", bits Lex.isAlphanumeric pts),
    ("num", bits Lex.isNumeric pts), ("air_alnum", bits Lex.isAirAlphanumeric pts), ("lens", bits Lex.isLensAllowedChar pts)]

end Drv.C23
