import Aqua.Codec.Sede
import AquaProps.Lemmas.VarintU32
import AquaProps.Lemmas.MsgPack
import AquaProps.Lemmas.Sede
import AquaProps.Lemmas.JArg
set_option linter.unusedSimpArgs false
/-!
# C27 — data and call encodings round-trip

Model: `Aqua.Codec.Varint` (unsigned-varint 0.8.0), `Aqua.Codec.MsgPack` (value algebra, `rmp` encoder, full decoder),
`Aqua.Codec.Sede` (multiformat wrapper, what `serde` derive + `rmp_serde` read and write for the envelope, `Versions`,
call-request map, call-result map, call arguments, tetraplets).  Field names, codec numbers and the format of every
representation are regenerated from the repository (`Aqua.Gen.Codec`).

Everything below is proved for ALL values of the modelled types that satisfy the stated size bounds (MessagePack
cannot express lengths ≥ 2^32, integers outside `[-2^63, 2^64)`; `rmp_serde` refuses nesting ≥ 1024).

Not modelled (trusted base, checked only by the correspondence run): the rkyv archive of `InterpreterData`
(`C27_data_roundtrip_partial` takes its round trip as a hypothesis), `Display`/`FromStr` of `semver::Version`
(the envelope theorems take version *texts* that parse), `f64` ↔ decimal text.
-/
namespace AquaProps.C27
open Aqua Aqua.Sede Aqua.MsgPack
open AquaProps.Lemmas.MsgPack (WF WFList WFPairs)
open AquaProps.Lemmas.JArg (JWF JWFList JWFPairs)
open AquaProps.Lemmas.Sede

/-! ## the tables read from the repository say what the model assumes (the build breaks otherwise) -/

example : Gen.callRequestsFormat = "MsgPackMultiformat" ∧ Gen.callResultsFormat = "MsgPackMultiformat" := by decide
example : Gen.callArgumentsFormat = "MsgPackFormat" ∧ Gen.tetrapletsFormat = "MsgPackFormat" ∧ Gen.envelopeFormat = "MsgPackFormat" := by decide
example : Gen.rmpNamed = true ∧ Gen.envelopeNamed = true ∧ Gen.serializedBlobsAreBytes = true := by decide
example : Gen.envelopeFields = ["inner_data"] ∧ Gen.envelopeFlattened = ["versions"] ∧ Gen.envelopeBytesFields = ["inner_data"] := by decide
example : Gen.versionsFields.length = 2 ∧ Gen.callRequestParamsFields.length = 4 ∧ Gen.callServiceResultFields.length = 2 ∧
    Gen.securityTetrapletFields.length = 4 := by decide
example : Gen.callRequestParamsFieldBytes = Gen.callRequestParamsFields.map strBytes ∧
    Gen.callServiceResultFieldBytes = Gen.callServiceResultFields.map strBytes ∧
    Gen.securityTetrapletFieldBytes = Gen.securityTetrapletFields.map strBytes ∧
    Gen.versionsFieldBytes = Gen.versionsFields.map strBytes ∧ Gen.envelopeFieldBytes = Gen.envelopeFields.map strBytes := by decide
example : Gen.multiformatMsgpack < 2 ^ 32 ∧ Gen.multiformatJson < 2 ^ 32 ∧ Gen.multiformatMsgpack ≠ Gen.multiformatJson := by decide

/-! ## unsigned varint -/

/-- Every `u32` decodes to itself and the decoder stops exactly behind it. -/
theorem C27_varint_roundtrip (n : Nat) (hn : n < 2 ^ 32) (rest : Bytes) :
    Varint.decodeU32 (Varint.encodeU32 n ++ rest) = .ok (n, rest) :=
  AquaProps.Lemmas.Varint.encodeU32_roundtrip n hn rest

theorem decodeGo_notMinimal (pre : Bytes) : ∀ (i acc : Nat) (rest : Bytes), (∀ b ∈ pre, b.toNat ≥ 128) →
    i + pre.length ≤ 4 → 0 < i + pre.length →
    Varint.decodeGo 4 i acc (pre ++ 0 :: rest) = .error .notMinimal := by
  induction pre with
  | nil => intro i acc rest _ _ hpos; simp at hpos; simp [Varint.decodeGo]; omega
  | cons b bs ih =>
    intro i acc rest hall hlen hpos
    have hb : b.toNat ≥ 128 := hall b (by simp)
    have h1 : ¬ (b.toNat < 128) := by omega
    have h2 : ¬ (i = 4) := by simp at hlen; omega
    simp only [List.cons_append, Varint.decodeGo, h1, h2, if_false]
    exact ih (i + 1) _ rest (fun x hx => hall x (List.mem_cons_of_mem _ hx)) (by simp at hlen; omega) (by omega)

/-- **Minimality is enforced**: a multi-byte varint ending in a zero byte is rejected. -/
theorem C27_varint_not_minimal_rejected (pre rest : Bytes) (hall : ∀ b ∈ pre, b.toNat ≥ 128)
    (h1 : 1 ≤ pre.length) (h4 : pre.length ≤ 4) :
    Varint.decodeU32 (pre ++ 0 :: rest) = .error .notMinimal :=
  decodeGo_notMinimal pre 0 0 rest hall (by omega) (by omega)

theorem decodeGo_overflow (pre : Bytes) : ∀ (i acc : Nat) (rest : Bytes), (∀ b ∈ pre, b.toNat ≥ 128) →
    i + pre.length = 5 → pre ≠ [] → Varint.decodeGo 4 i acc (pre ++ rest) = .error .overflow := by
  induction pre with
  | nil => intro i acc rest _ _ h; exact absurd rfl h
  | cons b bs ih =>
    intro i acc rest hall hlen _
    have hb : b.toNat ≥ 128 := hall b (by simp)
    have h1 : ¬ (b.toNat < 128) := by omega
    simp only [List.cons_append, Varint.decodeGo, h1, if_false]
    by_cases h4 : i = 4
    · simp [h4]
    · simp only [h4, if_false]
      have hne : bs ≠ [] := by intro h; subst h; simp at hlen; omega
      exact ih (i + 1) _ rest (fun x hx => hall x (List.mem_cons_of_mem _ hx)) (by simp at hlen; omega) hne

/-- Five continuation bytes are one too many for a `u32`. -/
theorem C27_varint_overflow_rejected (pre rest : Bytes) (hall : ∀ b ∈ pre, b.toNat ≥ 128) (h5 : pre.length = 5) :
    Varint.decodeU32 (pre ++ rest) = .error .overflow :=
  decodeGo_overflow pre 0 0 rest hall (by omega) (by intro h; subst h; simp at h5)

/-- What the decoder does NOT enforce (model of the crate as it is; reported as a finding of the run): the fifth
byte is shifted by 28 bits in `u32` arithmetic, bits above bit 31 are dropped, so a number beyond `u32` whose low 32
bits are the msgpack codec is read as the msgpack codec. -/
example : Varint.decodeU32 [0x81, 0x84, 0x80, 0x80, 0x10] = .ok (Gen.multiformatMsgpack, []) := by rfl
example : Varint.encodeU32 Gen.multiformatMsgpack = [0x81, 0x04] := by decide
example : Varint.decodeU32 [0x81, 0x84, 0x00] = .error .notMinimal := by rfl

/-! ## MessagePack value algebra -/

/-- **Decode ∘ encode = id** for every well-formed value of the algebra, and the decoder stops exactly at the end
of the encoding (prefix-freeness: encodings can be sequenced and trailing bytes are handed back untouched). -/
theorem C27_msgpack_roundtrip (v : Val) (hv : WF v) (rest : Bytes) :
    decodeAll (encode v ++ rest) = some (v, rest) :=
  AquaProps.Lemmas.MsgPack.decodeAll_encode v hv rest

/-- the same with explicit fuel, for any amount above the value's need -/
theorem C27_msgpack_roundtrip_fuel (v : Val) (hv : WF v) (rest : Bytes) (fuel : Nat)
    (hf : AquaProps.Lemmas.MsgPack.sz v ≤ fuel) : decode fuel (encode v ++ rest) = some (v, rest) :=
  AquaProps.Lemmas.MsgPack.decode_encode v hv rest fuel hf

example : WF (.map [(.str [0x61], .arr [.int (-33), .int 65536, .nil, .bool true, .f64 0, .bin [1, 2], .ext 7 [9]])]) := by
  simp [WF, WFPairs, WFList]
example : encode (.map [(.str [0x61], .arr [.int (-33), .int 65536, .bin [1, 2]])]) =
    [0x81, 0xa1, 0x61, 0x93, 0xd0, 0xdf, 0xce, 0x00, 0x01, 0x00, 0x00, 0xc4, 0x02, 0x01, 0x02] := by decide

/-! ## multiformat -/

/-- A payload written under a codec is read back under the same codec: the payload reader sees exactly the payload. -/
theorem C27_multiformat_roundtrip {α : Type} (codec : Nat) (hc : codec < 2 ^ 32) (fromSlice : Bytes → Option α)
    (payload : Bytes) (x : α) (hx : fromSlice payload = some x) :
    decodeMultiformat codec fromSlice (encodeMultiformat codec payload) = .ok x := by
  rw [decodeMultiformat_encodeMultiformat codec hc, hx]

/-- **Another codec is rejected**, whatever the payload and whatever the payload reader would make of it. -/
theorem C27_wrong_codec_rejected {α : Type} (codec expected : Nat) (hc : codec < 2 ^ 32) (hne : codec ≠ expected)
    (fromSlice : Bytes → Option α) (payload : Bytes) :
    decodeMultiformat expected fromSlice (encodeMultiformat codec payload) = .error (.codec codec) :=
  decodeMultiformat_other_codec codec expected hc hne fromSlice payload

example : decodeMultiformat Gen.multiformatMsgpack (fun b => some b) (encodeMultiformat Gen.multiformatJson [0x80]) =
    .error (.codec 0x0200) := by rfl

/-! ## call requests -/

/-- size bounds of MessagePack and distinct ids (a `HashMap` has no duplicate keys) -/
def CallRequestsWF (m : CallRequests) : Prop :=
  m.length < 2 ^ 32 ∧ (m.map Prod.fst).Nodup ∧
  ∀ e ∈ m, e.1 < 2 ^ 32 ∧ (strBytes e.2.serviceId).length < 2 ^ 32 ∧ (strBytes e.2.functionName).length < 2 ^ 32 ∧
    e.2.arguments.length < 2 ^ 32 ∧ e.2.tetraplets.length < 2 ^ 32

theorem callRequests_toVal_eq (m : CallRequests) :
    CallRequests.toVal m = .map (m.map fun e => ((fun (id : Nat) => Val.int id) e.1, CallRequestParams.toVal e.2)) := by
  simp only [CallRequests.toVal]

theorem wf_callRequests (m : CallRequests) (h : CallRequestsWF m) : WF (CallRequests.toVal m) := by
  rw [callRequests_toVal_eq]
  refine ⟨by simpa using h.1, wfPairs_map _ _ ?_⟩
  intro e he
  obtain ⟨h1, h2, h3, h4, h5⟩ := h.2.2 e he
  refine ⟨?_, wf_req e.2 h2 h3 h4 h5⟩
  simp only [WF]; omega

theorem depth_callRequests (m : CallRequests) : depth (CallRequests.toVal m) < maxDepth := by
  rw [callRequests_toVal_eq]
  have := depthPairs_map_le (fun e : Nat × CallRequestParams => ((fun (id : Nat) => Val.int id) e.1, CallRequestParams.toVal e.2)) m 1
    (by intro e _; simp [depth, depth_req])
  simp only [depth, maxDepth] at this ⊢; omega

/-- **Call-request maps round-trip**: for every map (given in any iteration order `m`, ids distinct), the bytes the
interpreter hands to the host decode to exactly that map. -/
theorem C27_call_requests_roundtrip (m : CallRequests) (h : CallRequestsWF m) :
    decodeCallRequests (encodeCallRequests m) = .ok m := by
  unfold decodeCallRequests encodeCallRequests
  rw [decodeMultiformat_encodeMultiformat _ (by decide)]
  have hparse := rmpParse_rmpWrite' _ (wf_callRequests m h) (depth_callRequests m)
  have hent := deEntries_encoded deU32 deCallRequestParams (fun (id : Nat) => Val.int id) CallRequestParams.toVal m []
    (by
      intro e he
      have := (h.2.2 e he).1
      refine ⟨?_, deCallRequestParams_toVal e.2⟩
      simp only [deU32]
      have h0 : (0 : Int) ≤ (e.1 : Int) := Int.natCast_nonneg _
      have h1 : ((e.1 : Nat) : Int) < 4294967296 := by omega
      simp [h0, h1])
    (by simpa using h.2.1)
  simp only [callRequestsFromSlice, hparse, Option.bind_some]
  rw [callRequests_toVal_eq]
  simp only [deHashMap, hent, List.nil_append]

/-- lookup form (independent of iteration order) -/
theorem C27_call_requests_lookup (m : CallRequests) (h : CallRequestsWF m) (id : Nat) :
    (decodeCallRequests (encodeCallRequests m)).toOption.bind (fun d => d.lookup id) = m.lookup id := by
  rw [C27_call_requests_roundtrip m h]; rfl

/-- **Call requests under another codec are not decoded.** -/
theorem C27_call_requests_wrong_codec_rejected (codec : Nat) (hc : codec < 2 ^ 32) (hne : codec ≠ Gen.multiformatMsgpack)
    (m : CallRequests) :
    decodeCallRequests (encodeMultiformat codec (rmpWrite (CallRequests.toVal m))) = .error (.codec codec) :=
  decodeMultiformat_other_codec codec _ hc hne _ _

example : CallRequestsWF [(0, ⟨"svc", "f", [0x91, 0x01], [0x90]⟩), (4294967295, ⟨"héllo", "", [0x90], [0x90]⟩)] := by
  refine ⟨by decide, by decide, ?_⟩
  intro e he
  simp at he
  rcases he with rfl | rfl <;> decide

/-! ## call results -/

def CallResultsWF (m : CallResults) : Prop :=
  m.length < 2 ^ 32 ∧ (m.map Prod.fst).Nodup ∧
  ∀ e ∈ m, (strBytes e.1).length < 2 ^ 32 ∧ (-(2 ^ 31) ≤ e.2.retCode ∧ e.2.retCode < 2 ^ 31) ∧
    (strBytes e.2.result).length < 2 ^ 32

theorem callResults_toVal_eq (m : CallResults) :
    CallResults.toVal m = .map (m.map fun e => ((fun (k : String) => Val.str (strBytes k)) e.1, CallServiceResult.toVal e.2)) := by
  simp only [CallResults.toVal]

theorem wf_callResults (m : CallResults) (h : CallResultsWF m) : WF (CallResults.toVal m) := by
  rw [callResults_toVal_eq]
  refine ⟨by simpa using h.1, wfPairs_map _ _ ?_⟩
  intro e he
  obtain ⟨h1, h2, h3⟩ := h.2.2 e he
  exact ⟨by simpa [WF] using h1, wf_res e.2 h2 h3⟩

theorem depth_callResults (m : CallResults) : depth (CallResults.toVal m) < maxDepth := by
  rw [callResults_toVal_eq]
  have := depthPairs_map_le (fun e : String × CallServiceResult => ((fun (k : String) => Val.str (strBytes k)) e.1, CallServiceResult.toVal e.2)) m 1
    (by intro e _; simp [depth, depth_res])
  simp only [depth, maxDepth] at this ⊢; omega

/-- **Call-result maps round-trip** (string keys, `i32` codes including min/max, arbitrary result text). -/
theorem C27_call_results_roundtrip (m : CallResults) (h : CallResultsWF m) :
    decodeCallResults (encodeCallResults m) = .ok m := by
  unfold decodeCallResults encodeCallResults
  rw [decodeMultiformat_encodeMultiformat _ (by decide)]
  have hparse := rmpParse_rmpWrite' _ (wf_callResults m h) (depth_callResults m)
  have hent := deEntries_encoded deString deCallServiceResult (fun (k : String) => Val.str (strBytes k)) CallServiceResult.toVal m []
    (by
      intro e he
      exact ⟨deString_str e.1, deCallServiceResult_toVal e.2 (h.2.2 e he).2.1⟩)
    (by simpa using h.2.1)
  simp only [callResultsFromSlice, hparse, Option.bind_some]
  rw [callResults_toVal_eq]
  simp only [deHashMap, hent, List.nil_append]

theorem C27_call_results_lookup (m : CallResults) (h : CallResultsWF m) (k : String) :
    (decodeCallResults (encodeCallResults m)).toOption.bind (fun d => d.lookup k) = m.lookup k := by
  rw [C27_call_results_roundtrip m h]; rfl

/-- **Call results under another codec are not decoded.** -/
theorem C27_call_results_wrong_codec_rejected (codec : Nat) (hc : codec < 2 ^ 32) (hne : codec ≠ Gen.multiformatMsgpack)
    (m : CallResults) :
    decodeCallResults (encodeMultiformat codec (rmpWrite (CallResults.toVal m))) = .error (.codec codec) :=
  decodeMultiformat_other_codec codec _ hc hne _ _

example : CallResultsWF [("0", ⟨-2147483648, "not json {"⟩), ("4294967295", ⟨2147483647, ""⟩)] := by
  refine ⟨by decide, by decide, ?_⟩
  intro e he
  simp at he
  rcases he with rfl | rfl <;> decide

/-! ## call arguments and tetraplets (plain msgpack blobs inside a call request) -/

/-- **Call arguments round-trip**: every list of well-formed JSON values (nested arbitrarily below the `rmp_serde`
depth limit) is read back unchanged by the `JValue` reader.  (The host's `serde_json::Value` reader differs on
objects whose first key is serde_json's private RawValue token when serde_json is built with `raw_value`: that is
a finding of the run, not part of the model.) -/
theorem C27_call_arguments_roundtrip (args : List JArg) (hwf : JWFList args) (hlen : args.length < 2 ^ 32)
    (hdepth : depth (.arr (JArg.toValList args)) < maxDepth) :
    decodeCallArguments (encodeCallArguments args) = some args := by
  unfold decodeCallArguments encodeCallArguments
  have hv : WF (.arr (JArg.toValList args)) :=
    ⟨by rw [AquaProps.Lemmas.JArg.length_toValList]; exact hlen, AquaProps.Lemmas.JArg.wfList_toValList args hwf⟩
  rw [rmpParse_rmpWrite' _ hv hdepth]
  simp only [Option.bind_some]
  exact AquaProps.Lemmas.JArg.ofValList_toValList args hwf

example : JWFList [.obj [("a", .arr [.num (-1), .f64 0x3ff0000000000000]), ("é", .null)], .str "日本語"] := by
  simp [JWFList, JWF, JWFPairs, f64Finite]
  decide

def TetrapletWF (t : Tetraplet) : Prop :=
  (strBytes t.peerPk).length < 2 ^ 32 ∧ (strBytes t.serviceId).length < 2 ^ 32 ∧
  (strBytes t.functionName).length < 2 ^ 32 ∧ (strBytes t.lens).length < 2 ^ 32

/-- **Tetraplets round-trip** (lists of lists of four strings). -/
theorem C27_tetraplets_roundtrip (ts : List (List Tetraplet)) (hlen : ts.length < 2 ^ 32)
    (hrows : ∀ row ∈ ts, row.length < 2 ^ 32 ∧ ∀ t ∈ row, TetrapletWF t) :
    decodeTetraplets (encodeTetraplets ts) = some ts := by
  unfold decodeTetraplets encodeTetraplets
  have hv : WF (.arr (ts.map fun row => .arr (row.map Tetraplet.toVal))) := by
    refine ⟨by simpa using hlen, wfList_map _ _ ?_⟩
    intro row hrow
    refine ⟨by simpa using (hrows row hrow).1, wfList_map _ _ ?_⟩
    intro t ht
    obtain ⟨h1, h2, h3, h4⟩ := (hrows row hrow).2 t ht
    exact wf_tet t h1 h2 h3 h4
  have hd : depth (.arr (ts.map fun row => .arr (row.map Tetraplet.toVal))) < maxDepth := by
    have h2 : depthList (ts.map fun row => Val.arr (row.map Tetraplet.toVal)) ≤ 2 := by
      apply depthList_map_le
      intro row _
      have := depthList_map_le Tetraplet.toVal row 1 (by intro t _; simp [depth_tet])
      simp only [depth]; omega
    simp only [depth, maxDepth]; omega
  rw [rmpParse_rmpWrite' _ hv hd]
  simp only [Option.bind_some, deVec]
  apply mapM_map_some
  intro row _
  simp only [deVec]
  exact mapM_map_some _ _ row fun t _ => deTetraplet_toVal t

/-! ## the data envelope -/

def EnvelopeWF (v : VersionTexts) (inner : Bytes) : Prop :=
  (strBytes v.dataVersion).length < 2 ^ 32 ∧ (strBytes v.interpreterVersion).length < 2 ^ 32 ∧ inner.length < 2 ^ 32

theorem wf_envelope (v : VersionTexts) (inner : Bytes) (h : EnvelopeWF v inner) : WF (envelopeVal v inner) := by
  obtain ⟨h1, h2, h3⟩ := h
  simp [envelopeVal, structVal, Gen.versionsFieldBytes, Gen.envelopeFieldBytes, WF, WFPairs, h1, h2, h3]

theorem depth_envelope (v : VersionTexts) (inner : Bytes) : depth (envelopeVal v inner) < maxDepth := by
  simp [envelopeVal, structVal, Gen.versionsFieldBytes, Gen.envelopeFieldBytes, depth, depthPairs, maxDepth]

/-- **Envelopes round-trip for ARBITRARY inner bytes**: whatever the inner data is (decodable or not), the envelope
decodes to the versions that were written (their texts `v` parse to `d`, `i`) and to the very same inner bytes. -/
theorem C27_envelope_roundtrip (v : VersionTexts) (inner : Bytes) (d i : Semver.Version)
    (hd : Semver.parse v.dataVersion.toList = some d) (hi : Semver.parse v.interpreterVersion.toList = some i)
    (hwf : EnvelopeWF v inner) :
    decodeEnvelope (encodeEnvelope v inner) = some (⟨d, i⟩, inner) := by
  unfold decodeEnvelope encodeEnvelope
  rw [rmpParse_rmpWrite' _ (wf_envelope v inner hwf) (depth_envelope v inner)]
  have hm : envelopeVal v inner = .map [(.str [118, 101, 114, 115, 105, 111, 110], .str (strBytes v.dataVersion)),
      (.str [105, 110, 116, 101, 114, 112, 114, 101, 116, 101, 114, 95, 118, 101, 114, 115, 105, 111, 110], .str (strBytes v.interpreterVersion)),
      (.str [105, 110, 110, 101, 114, 95, 100, 97, 116, 97], .bin inner)] := rfl
  rw [hm]
  have hdv := deVersion_str v.dataVersion d hd
  have hiv := deVersion_str v.interpreterVersion i hi
  simp [Gen.envelopeFieldBytes, Gen.versionsFieldBytes, contentKeyOk, valuesOf, keyIs, deByteBuf, deVersionsFlat, hdv, hiv]

/-- **The versions are readable even when the inner data is not**: `try_get_versions` on an envelope with
ARBITRARY inner bytes returns the versions that were written; the inner bytes are never looked at. -/
theorem C27_envelope_versions_readable (v : VersionTexts) (inner : Bytes) (d i : Semver.Version)
    (hd : Semver.parse v.dataVersion.toList = some d) (hi : Semver.parse v.interpreterVersion.toList = some i)
    (hwf : EnvelopeWF v inner) :
    decodeVersions (encodeEnvelope v inner) = some ⟨d, i⟩ := by
  unfold decodeVersions encodeEnvelope
  rw [rmpParse_rmpWrite' _ (wf_envelope v inner hwf) (depth_envelope v inner)]
  simp only [Option.bind_some, envelopeVal, deStruct_ver]
  simp [deVersion_str v.dataVersion d hd, deVersion_str v.interpreterVersion i hi]

example : Semver.parse "0.17.2".toList = some ⟨0, 17, 2, [], []⟩ := by decide
example : Semver.parse "0.64.1-rc.1+b.07".toList = some ⟨0, 64, 1, ["rc".toList, "1".toList], ["b".toList, "07".toList]⟩ := by decide
example : EnvelopeWF ⟨"0.17.2", "0.64.1"⟩ [0xc1, 0xff, 0x00] := by unfold EnvelopeWF; decide

/-! ## InterpreterData inside the envelope (rkyv) — partial -/

/-- FULL statement: the rkyv codec of `InterpreterData` round-trips AND data wrapped into an envelope comes back.
`rkyv` stands for `InterpreterData::serialize` / `try_from_slice`, whose archive layout (relative pointers,
alignment, `check_bytes` validation) is NOT modelled. -/
def C27_full {α : Type} (rkyv : Codec α) : Prop :=
  rkyv.RoundTrips ∧
  ∀ (v : VersionTexts) (x : α) (d i : Semver.Version), Semver.parse v.dataVersion.toList = some d →
    Semver.parse v.interpreterVersion.toList = some i → EnvelopeWF v (rkyv.serialize x) →
    decodeData rkyv (encodeData rkyv v x) = some (⟨d, i⟩, x)

/-- PARTIAL: the second half of `C27_full` given the first as a hypothesis — the envelope adds nothing that could
break the round trip of the inner codec.  Missing for the full claim: `rkyv.RoundTrips` for the real rkyv layout; it
is only tested (every data blob of the simulated histories and generated variants: `try_from_slice (serialize x)`
compared field by field), not proved. -/
theorem C27_data_roundtrip_partial {α : Type} (rkyv : Codec α) (hrt : rkyv.RoundTrips)
    (v : VersionTexts) (x : α) (d i : Semver.Version) (hd : Semver.parse v.dataVersion.toList = some d)
    (hi : Semver.parse v.interpreterVersion.toList = some i) (hwf : EnvelopeWF v (rkyv.serialize x)) :
    decodeData rkyv (encodeData rkyv v x) = some (⟨d, i⟩, x) := by
  unfold decodeData encodeData
  rw [C27_envelope_roundtrip v (rkyv.serialize x) d i hd hi hwf]
  simp [hrt x]

/-- a codec that satisfies the hypothesis (identity on byte strings) -/
example : (⟨id, some⟩ : Codec Bytes).RoundTrips := fun _ => rfl

end AquaProps.C27
