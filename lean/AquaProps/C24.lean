import Aqua.Exec.Lens
import AquaProps.Lemmas.Lens
/-!
# C24 — lens selection agrees with plain JSON selection

`Aqua.Exec.Lens` is the replica of `lambda_applier/{applier,utils}.rs` (+ `StreamMapKey`, `CanonStreamMap`);
the specification is plain navigation `navigate : JVal → List Step → Option JVal`
(`Step = idx | key | length`), with `resolveSteps` turning the accessors of a path — including the ones
whose index / member name is held by a scalar or a fold iterator — into steps.

All theorems quantify over every store of scalars, every JSON value and every path.
* `EnvTotal sc` (needed only by the "never panics" statements): looking a name up in the store (no panic, no scalar/iterator
  name clash — `IterableShadowing`, uncatchable, since /repo 66d8bd2) and peeking
  at the element of a fold iterator do not panic.
* `a ≠ .error`: `ValueAccessor::Error` is never in a parsed lens (`parse_lambda` returns `Err` when its error
  list is non-empty); the applier's `unreachable!` on it is a panic in the model.
-/
namespace AquaProps.C24
open Aqua Aqua.Json Aqua.Air Aqua.Exec Aqua.Exec.Lens AquaProps.Lemmas.Lens Aqua.Run

/-! ## scalars -/

/-- **Success iff navigable, with the same result.**  Applying a path to a JSON value succeeds with `r`
exactly when every accessor denotes a step and plain navigation along those steps reaches `r`. -/
theorem C24_scalar (sc : Scalars) (v : JVal) (path : List ValueAccessor) (r : JVal) :
    Lens.selectByPathFromScalar sc v path = .ok r ↔
      ∃ steps, resolveSteps sc path = some steps ∧ navigate v steps = some r :=
  select_ok sc v path r

/-- **Failure is a catchable lens error, never a panic or an uncatchable error**: the applier ends in a
value or in one of `LambdaApplierError`, `VariableNotFound`, `VariableWasNotInitializedAfterNew`
(the last two: the scalar named by an accessor is not there). -/
theorem C24_scalar_failure_is_catchable (sc : Scalars) (henv : EnvTotal sc) (v : JVal) (path : List ValueAccessor)
    (hp : ∀ a ∈ path, a ≠ ValueAccessor.error) :
    (∃ r, Lens.selectByPathFromScalar sc v path = .ok r) ∨
    (∃ e, Lens.selectByPathFromScalar sc v path = .error (.catchable e) ∧
      (e.variant = "LambdaApplierError" ∨ e.variant = "VariableNotFound" ∨ e.variant = "VariableWasNotInitializedAfterNew")) := by
  rcases select_total sc henv v path hp with h | ⟨e, h, he⟩
  · exact .inl h
  · refine .inr ?_
    cases e with
    | catchable c =>
      refine ⟨c, h, ?_⟩
      cases c <;> simp [IsLensFailure] at he
      · exact .inr (.inl rfl)
      · exact .inl rfl
      · exact .inr (.inr rfl)
      · -- length functor error: not produced by a path
        rename_i x
        exfalso
        -- a path never yields `LengthFunctorAppliedToNotArray`
        have key : ∀ (p : List ValueAccessor) (w : JVal),
            Lens.selectByPathFromScalar sc w p ≠ .error (.catchable (.lengthFunctorAppliedToNotArray x)) := by
          intro p
          induction p with
          | nil => intro w; simp [Lens.selectByPathFromScalar]
          | cons a rest ih =>
            intro w
            rw [select_cons]
            cases ha : applyAccessor sc w a with
            | ok w' => simp only [Res.bind]; exact ih w'
            | panic s => simp [Res.bind]
            | error e =>
              simp only [Res.bind]
              intro hc; injection hc with hc; subst hc
              cases a with
              | arrayAccess i =>
                simp only [applyAccessor, Lens.selectByPathFromScalar] at ha
                cases h2 : tryJvalueWithIdx w i <;> simp [h2, liftLambda, Res.mapErr, Lens.selectByPathFromScalar] at ha
              | fieldAccessByName n =>
                simp only [applyAccessor, Lens.selectByPathFromScalar] at ha
                cases h2 : tryJvalueWithFieldName w n <;> simp [h2, liftLambda, Res.mapErr, Lens.selectByPathFromScalar] at ha
              | fieldAccessByScalar s =>
                simp only [applyAccessor, Lens.selectByPathFromScalar] at ha
                cases hg : sc.getValue s with
                | error e' =>
                  simp only [hg] at ha; injection ha with ha; subst ha
                  rcases getValue_error sc s _ hg with h3 | h3 | h3 <;> cases h3
                | panic p => simp [hg] at ha
                | ok ref =>
                  simp only [hg, selectByScalar_eq] at ha
                  cases hv : scalarRefValue ref with
                  | error e' => exact absurd hv (scalarRefValue_not_error ref e')
                  | panic p => simp [hv, Res.bind] at ha
                  | ok acc =>
                    simp only [hv, Res.bind] at ha
                    cases h2 : selectByJvalue w acc <;> simp [h2, liftLambda, Res.mapErr, Lens.selectByPathFromScalar] at ha
              | error => simp [applyAccessor, Lens.selectByPathFromScalar] at ha
        exact key path v h
    | uncatchable u => simp [IsLensFailure] at he
    | unmodelled w => simp [IsLensFailure] at he

/-- When every accessor denotes a step but navigation is impossible, the failure is a `LambdaApplierError`. -/
theorem C24_scalar_unnavigable (sc : Scalars) (v : JVal) (path : List ValueAccessor) (steps : List Step)
    (hres : resolveSteps sc path = some steps) (hnav : navigate v steps = none) :
    ∃ e, Lens.selectByPathFromScalar sc v path = .error (.catchable (.lambdaApplierError e)) := by
  induction path generalizing v steps with
  | nil =>
    simp only [resolveSteps] at hres; injection hres with hres; subst hres
    simp [navigate] at hnav
  | cons a rest ih =>
    simp only [resolveSteps] at hres
    cases hs : resolveStep sc a with
    | none => simp [hs] at hres
    | some s =>
      cases hss : resolveSteps sc rest with
      | none => simp [hs, hss] at hres
      | some ss =>
        simp only [hs, hss] at hres; injection hres with hres; subst hres
        simp only [navigate] at hnav
        rw [select_cons]
        cases hn : navigateStep v s with
        | some v' =>
          simp only [hn] at hnav
          rw [(applyAccessor_ok sc v a v').mpr ⟨s, hs, hn⟩]
          exact ih v' ss hss hnav
        | none =>
          -- the accessor itself fails; it resolved, so the failure is the applier's own
          have hnot : ∀ r, applyAccessor sc v a ≠ .ok r := by
            intro r hr
            obtain ⟨s', hs', hn'⟩ := (applyAccessor_ok sc v a r).mp hr
            rw [hs] at hs'; injection hs' with hs'; subst hs'
            rw [hn] at hn'; cases hn'
          cases a with
          | arrayAccess i =>
            simp only [applyAccessor, Lens.selectByPathFromScalar] at hnot ⊢
            cases h2 : tryJvalueWithIdx v i with
            | ok x => exact absurd (by simp [h2, liftLambda, Res.mapErr, Lens.selectByPathFromScalar]) (hnot x)
            | error e => exact ⟨e, by simp [liftLambda, Res.mapErr, Res.bind]⟩
            | panic p => exact absurd h2 (tryJvalueWithIdx_no_panic v i p)
          | fieldAccessByName n =>
            simp only [applyAccessor, Lens.selectByPathFromScalar] at hnot ⊢
            cases h2 : tryJvalueWithFieldName v n with
            | ok x => exact absurd (by simp [h2, liftLambda, Res.mapErr, Lens.selectByPathFromScalar]) (hnot x)
            | error e => exact ⟨e, by simp [liftLambda, Res.mapErr, Res.bind]⟩
            | panic p => exact absurd h2 (tryJvalueWithFieldName_no_panic v n p)
          | fieldAccessByScalar nm =>
            simp only [resolveStep, scalarValue] at hs
            simp only [applyAccessor, Lens.selectByPathFromScalar] at hnot ⊢
            cases hg : sc.getValue nm with
            | error e => simp [hg] at hs
            | panic p => simp [hg] at hs
            | ok ref =>
              simp only [hg, selectByScalar_eq] at hs hnot ⊢
              cases hv : scalarRefValue ref with
              | error e => simp [hv] at hs
              | panic p => simp [hv] at hs
              | ok acc =>
                simp only [hv, Res.bind] at hnot ⊢
                cases h2 : selectByJvalue v acc with
                | ok x => exact absurd (by simp [h2, liftLambda, Res.mapErr, Lens.selectByPathFromScalar]) (hnot x)
                | error e => exact ⟨e, by simp [liftLambda, Res.mapErr]⟩
                | panic p => exact absurd h2 (selectByJvalue_no_panic v acc p)
          | error => simp [resolveStep] at hs

/-- **Which error each impossible step gives** (the variants and payloads of `errors.rs`):
an index on a non-array, an index past the end, a member name on a non-object, an absent member;
a scalar-supplied accessor that is a float, negative or above `u32::MAX`; one that is neither number nor string. -/
theorem C24_step_errors (v : JVal) :
    (∀ i, (∀ a, v ≠ .arr a) → tryJvalueWithIdx v i = .error (.arrayAccessorNotMatchValue v i)) ∧
    (∀ a i, v = .arr a → a.length ≤ i → tryJvalueWithIdx v i = .error (.valueNotContainSuchArrayIdx v i)) ∧
    (∀ k, (∀ o, v ≠ .obj o) → tryJvalueWithFieldName v k = .error (.fieldAccessorNotMatchValue v k)) ∧
    (∀ o k, v = .obj o → member k o = none → tryJvalueWithFieldName v k = .error (.valueNotContainSuchField v k)) ∧
    (∀ i : Int, (i < 0 ∨ 4294967295 < i) → selectByJvalue v (.num i) = .error (.indexAccessNotU32 (.num i))) ∧
    (∀ f, selectByJvalue v (.float f) = .error (.indexAccessNotU32 (.float f))) ∧
    (∀ a, (∀ s, a ≠ .str s) → (∀ i, a ≠ .num i) → (∀ f, a ≠ .float f) →
        selectByJvalue v a = .error (.scalarAccessorHasInvalidType a)) := by
  refine ⟨?_, ?_, ?_, ?_, ?_, ?_, ?_⟩
  · intro i h; cases v <;> simp_all [tryJvalueWithIdx]
  · intro a i hv hi; subst hv
    have : a[i]? = none := by simp; omega
    simp [tryJvalueWithIdx, this]
  · intro k h; cases v <;> simp_all [tryJvalueWithFieldName]
  · intro o k hv hm; subst hv
    have : (JVal.obj o).getField k = none := by rw [getField_obj_eq_member]; exact hm
    simp [tryJvalueWithFieldName, this]
  · intro i hi
    have : ¬ (0 ≤ i ∧ i ≤ 4294967295) := by omega
    simp [selectByJvalue, tryNumberToU32, this, Res.bind]
  · intro f; simp [selectByJvalue]
  · intro a h1 h2 h3; cases a <;> simp_all [selectByJvalue]

/-- A lens over a concatenated path is the lens over the first part followed by the lens over the second. -/
theorem C24_scalar_compositional (sc : Scalars) (v : JVal) (p q : List ValueAccessor) :
    Lens.selectByPathFromScalar sc v (p ++ q) =
      (Lens.selectByPathFromScalar sc v p).bind fun v' => Lens.selectByPathFromScalar sc v' q :=
  select_append sc v p q

/-! ## the `.length` functor -/

/-- `.length` is the array length as a JSON number; on anything else it is the catchable
`LengthFunctorAppliedToNotArray`.  On a canon stream: the number of elements; on a canon map: the number
of key-value pairs (not of keys). -/
theorem C24_length (v : JVal) (stream pairs : List JVal) (m : CanonStreamMap)
    (hm : CanonStreamMap.fromCanonStream pairs = .ok m) :
    (selectByFunctorFromScalar v .length =
      match navigate v [.length] with
      | some r => .ok r
      | none => catchable (.lengthFunctorAppliedToNotArray v)) ∧
    (∀ r, navigate v [.length] = some r ↔ ∃ a, v = .arr a ∧ r = .num a.length) ∧
    (selectByFunctorFromStream stream .length).result = .num stream.length ∧
    some (selectByFunctorFromStream stream .length).result = navigate (.arr stream) [.length] ∧
    selectByFunctorFromCanonMap m .length = .num pairs.length := by
  refine ⟨?_, ?_, rfl, rfl, ?_⟩
  · cases v <;> simp [selectByFunctorFromScalar, navigate, navigateStep]
  · intro r; cases v <;> simp [navigate, navigateStep]
    rename_i a; constructor <;> intro h <;> simp [h]
  · simp [selectByFunctorFromCanonMap, CanonStreamMap.len, values_of_fromCanonStream pairs m hm]

/-- the whole lens (path or functor) on a scalar: success iff navigable, same result -/
theorem C24_lambda_scalar (sc : Scalars) (v : JVal) (l : LambdaAST) (r : JVal) :
    Lens.selectByLambdaFromScalar sc v l = .ok r ↔
      ∃ steps, resolveLambda sc l = some steps ∧ navigate v steps = some r := by
  cases l with
  | valuePath h t => exact select_ok sc v (h :: t) r
  | functor f =>
    cases f
    simp only [Lens.selectByLambdaFromScalar, resolveLambda]
    constructor
    · intro h
      refine ⟨[.length], rfl, ?_⟩
      cases v <;> simp [selectByFunctorFromScalar, catchable] at h
      simp [navigate, navigateStep, h]
    · rintro ⟨steps, h1, h2⟩
      injection h1 with h1; subst h1
      cases v <;> simp [navigate, navigateStep] at h2
      simp [selectByFunctorFromScalar, h2]

/-! ## canon streams -/

/-- **A canon stream is navigated as the array of its elements.**  The first accessor must denote an index
(a member name, or a scalar holding a string, fails: arrays have no members), it selects that element, the
rest of the path applies to the element as to a scalar; the reported tetraplet index is that first index. -/
theorem C24_canon_stream (sc : Scalars) (stream : List JVal) (l : LambdaAST) (r : JVal) :
    ((∃ t, selectByLambdaFromStream sc stream l = .ok ⟨r, t⟩) ↔
      ∃ steps, resolveLambda sc l = some steps ∧ navigate (.arr stream) steps = some r) ∧
    ((∃ t, selectByLambdaFromStream sc stream l = .ok ⟨r, t⟩) ↔ Lens.selectByLambdaFromScalar sc (.arr stream) l = .ok r) ∧
    (∀ t h body, l = .valuePath h body → selectByLambdaFromStream sc stream l = .ok ⟨r, t⟩ →
      ∃ i, t = some i ∧ resolveStep sc h = some (.idx i)) := by
  have main : (∃ t, selectByLambdaFromStream sc stream l = .ok ⟨r, t⟩) ↔
      ∃ steps, resolveLambda sc l = some steps ∧ navigate (.arr stream) steps = some r := by
    cases l with
    | functor f =>
      cases f
      simp only [selectByLambdaFromStream, selectByFunctorFromStream, resolveLambda]
      constructor
      · rintro ⟨t, h⟩; injection h with h; injection h with h1 h2
        exact ⟨[.length], rfl, by simp [navigate, navigateStep, h1]⟩
      · rintro ⟨steps, h1, h2⟩
        injection h1 with h1; subst h1
        simp [navigate, navigateStep] at h2
        exact ⟨none, by rw [h2]⟩
    | valuePath h body =>
      simp only [selectByLambdaFromStream, selectByPathFromStream, resolveLambda]
      constructor
      · rintro ⟨t, ht⟩
        cases hi : splitToIdx sc h with
        | error e => simp [hi] at ht
        | panic p => simp [hi] at ht
        | ok idx =>
          simp only [hi] at ht
          cases hx : stream[idx]? with
          | none => simp [hx, lambdaErr, catchable] at ht
          | some x =>
            simp only [hx] at ht
            cases hb : Lens.selectByPathFromScalar sc x body with
            | error e => simp [hb] at ht
            | panic p => simp [hb] at ht
            | ok r' =>
              simp only [hb] at ht
              injection ht with ht; injection ht with ht1 ht2; subst ht1
              obtain ⟨ss, hss, hnn⟩ := (select_ok sc x body r').mp hb
              have hs := (splitToIdx_ok sc h idx).mp hi
              exact ⟨.idx idx :: ss, by simp [resolveSteps, hs, hss], by simp [navigate, navigateStep, hx, hnn]⟩
      · rintro ⟨steps, hres, hnav⟩
        simp only [resolveSteps] at hres
        cases hs : resolveStep sc h with
        | none => simp [hs] at hres
        | some s =>
          cases hss : resolveSteps sc body with
          | none => simp [hs, hss] at hres
          | some ss =>
            simp only [hs, hss] at hres; injection hres with hres; subst hres
            simp only [navigate] at hnav
            cases hn : navigateStep (.arr stream) s with
            | none => simp [hn] at hnav
            | some x =>
              simp only [hn] at hnav
              obtain ⟨i, hsi, hxi⟩ := (navigateStep_arr stream s x (resolveStep_ne_length sc h s hs)).mp hn
              subst hsi
              have := (splitToIdx_ok sc h i).mpr hs
              have hb := (select_ok sc x body r).mpr ⟨ss, hss, hnav⟩
              exact ⟨some i, by simp [this, hxi, hb]⟩
  refine ⟨main, ?_, ?_⟩
  · rw [main]; exact (C24_lambda_scalar sc (.arr stream) l r).symm
  · intro t h body hl ht
    subst hl
    simp only [selectByLambdaFromStream, selectByPathFromStream] at ht
    cases hi : splitToIdx sc h with
    | error e => simp [hi] at ht
    | panic p => simp [hi] at ht
    | ok idx =>
      simp only [hi] at ht
      cases hx : stream[idx]? with
      | none => simp [hx, lambdaErr, catchable] at ht
      | some x =>
        simp only [hx] at ht
        cases hb : Lens.selectByPathFromScalar sc x body with
        | error e => simp [hb] at ht
        | panic p => simp [hb] at ht
        | ok r' =>
          simp only [hb] at ht
          injection ht with ht; injection ht with ht1 ht2
          exact ⟨idx, ht2.symm, (splitToIdx_ok sc h idx).mp hi⟩

/-- on a canon stream too, failure is a catchable lens error and nothing else -/
theorem C24_canon_stream_failure_is_catchable (sc : Scalars) (henv : EnvTotal sc) (stream : List JVal)
    (h : ValueAccessor) (body : List ValueAccessor) (hh : h ≠ .error) (hb : ∀ a ∈ body, a ≠ ValueAccessor.error) :
    OkOrLensFailure (selectByLambdaFromStream sc stream (.valuePath h body)) := by
  simp only [selectByLambdaFromStream, selectByPathFromStream]
  rcases splitToIdx_total sc henv h hh with ⟨i, hi⟩ | ⟨e, hi, he⟩
  · rw [hi]
    simp only []
    cases hx : stream[i]? with
    | none => exact .inr ⟨.catchable (.lambdaApplierError (.canonStreamNotHaveEnoughValues stream.length i)), rfl, trivial⟩
    | some x =>
      simp only []
      rcases select_total sc henv x body hb with ⟨r, hr⟩ | ⟨e, hr, he⟩
      · rw [hr]; exact .inl ⟨_, rfl⟩
      · rw [hr]; exact .inr ⟨e, rfl, he⟩
  · rw [hi]; exact .inr ⟨e, rfl, he⟩

/-! ## canon maps -/

/-- a canon-stream lens on a key group (`select_by_path_from_canon_map_stream`): success iff plain navigation of
the group as an array -/
theorem canonMapStream_ok (sc : Scalars) (g : List JVal) (b : ValueAccessor) (bs : List ValueAccessor) (r : JVal) :
    selectByPathFromCanonMapStream sc g b bs = .ok r ↔
      ∃ steps, resolveSteps sc (b :: bs) = some steps ∧ navigate (.arr g) steps = some r := by
  have hstream := (C24_canon_stream sc g (.valuePath b bs) r).1
  simp only [selectByLambdaFromStream, selectByPathFromStream, resolveLambda] at hstream
  rw [← hstream]
  simp only [selectByPathFromCanonMapStream]
  cases hi : splitToIdx sc b with
  | error e => simp
  | panic p => simp
  | ok idx =>
    simp only []
    cases hx : g[idx]? with
    | none => simp [lambdaErr, catchable]
    | some x =>
      simp only []
      cases bs with
      | nil => simp [Lens.selectByPathFromScalar]
      | cons c cs =>
        simp only [List.isEmpty_cons, Bool.false_eq_true, if_false]
        cases Lens.selectByPathFromScalar sc x (c :: cs) <;> simp

/-- once the first accessor has given the key `k`, the canon-map lens is: the key group of `k` as an array for
the bare key, else the canon-stream lens on that group — whether or not the key is in the map (for an absent
key the group is empty) -/
theorem canonMap_select_group (sc : Scalars) (pairs : List JVal) (m : CanonStreamMap)
    (hm : CanonStreamMap.fromCanonStream pairs = .ok m) (h : ValueAccessor) (body : List ValueAccessor)
    (k : StreamMapKey) (hk : canonMapKeyOfPrefix sc h = .ok k) :
    selectByPathFromCanonMap sc m h body =
      match body with
      | [] => .ok (.arr (keyGroup pairs k))
      | b :: bs => selectByPathFromCanonMapStream sc (keyGroup pairs k) b bs := by
  have hidx := index_eq_keyGroup pairs m hm k
  simp only [selectByPathFromCanonMap, hk]
  by_cases he : keyGroup pairs k = []
  · simp only [he, if_true] at hidx
    rw [hidx, he]
    cases body <;> rfl
  · simp only [he, if_false] at hidx
    rw [hidx]
    cases body <;> rfl

/-- **A canon map: the first accessor selects a key group, the rest is plain navigation of the group.**
`pairs` are the map's `{"key": k, "value": v}` objects in canon order, `keyGroup pairs k` the values inserted
under `k` (typed keys: the string `"1"` and the integer `1` are different keys); the group of a key that is not
in the map is empty.
* The first accessor denotes the key `k` (a name → string key, `[n]` → integer key, a plain scalar holding a
  string or an integer → that key; an iterator, a float or any other JSON type → error).
* With no further accessors the result is the group as an array (`[]` for an absent key); with further
  accessors the result is plain navigation of that array (so the next accessor must be an index that exists:
  on an absent key every further accessor fails).  No guard on the presence of the key (repaired code, 766497d). -/
theorem C24_canon_map (sc : Scalars) (pairs : List JVal) (m : CanonStreamMap)
    (hm : CanonStreamMap.fromCanonStream pairs = .ok m) (h : ValueAccessor) (body : List ValueAccessor) :
    (∀ k, canonMapKeyOfPrefix sc h = .ok k ↔ resolveMapKey sc h = some k) ∧
    (∀ k, resolveMapKey sc h = some k → ∀ r, selectByPathFromCanonMap sc m h body = .ok r ↔
          ∃ steps, resolveSteps sc body = some steps ∧ navigate (.arr (keyGroup pairs k)) steps = some r) ∧
    (resolveMapKey sc h = none → ∀ r, selectByPathFromCanonMap sc m h body ≠ .ok r) := by
  refine ⟨canonMapKeyOfPrefix_ok sc h, ?_, ?_⟩
  · intro k hk r
    have hkey := (canonMapKeyOfPrefix_ok sc h k).mpr hk
    rw [canonMap_select_group sc pairs m hm h body k hkey]
    cases body with
    | nil =>
      simp only [resolveSteps]
      constructor
      · intro hr; injection hr with hr; exact ⟨[], rfl, by simp [navigate, hr]⟩
      · rintro ⟨steps, h1, h2⟩
        injection h1 with h1; subst h1
        simp only [navigate] at h2; injection h2 with h2; rw [h2]
    | cons b bs => exact canonMapStream_ok sc (keyGroup pairs k) b bs r
  · intro hnone r hr
    simp only [selectByPathFromCanonMap] at hr
    cases hk : canonMapKeyOfPrefix sc h with
    | ok k => rw [(canonMapKeyOfPrefix_ok sc h k).mp hk] at hnone; cases hnone
    | error e => simp [hk] at hr
    | panic p => simp [hk] at hr

/-- **The property at full strength for canon maps** (no key-present guard): a lens on a canon map succeeds with
`r` exactly when its first accessor denotes a key and plain navigation of that key's group — the empty array for
a key that is not in the map — along the remaining accessors reaches `r`. -/
theorem C24_canon_map_full (sc : Scalars) (pairs : List JVal) (m : CanonStreamMap)
    (hm : CanonStreamMap.fromCanonStream pairs = .ok m) (h : ValueAccessor) (body : List ValueAccessor) (r : JVal) :
    selectByPathFromCanonMap sc m h body = .ok r ↔
      ∃ k steps, resolveMapKey sc h = some k ∧ resolveSteps sc body = some steps ∧
        navigate (.arr (keyGroup pairs k)) steps = some r := by
  obtain ⟨_, hsome, hnone⟩ := C24_canon_map sc pairs m hm h body
  cases hk : resolveMapKey sc h with
  | none =>
    constructor
    · intro hr; exact absurd hr (hnone hk r)
    · rintro ⟨k, _, hk', _⟩; cases hk'
  | some k =>
    rw [hsome k hk r]
    constructor
    · rintro ⟨steps, h1, h2⟩; exact ⟨k, steps, rfl, h1, h2⟩
    · rintro ⟨k', steps, hk', h1, h2⟩; injection hk' with hk'; subst hk'; exact ⟨steps, h1, h2⟩

/-- the first accessor of a stream lens that denotes a step gives an index or fails with a `LambdaApplierError` -/
theorem splitToIdx_resolved (sc : Scalars) (b : ValueAccessor) (s : Step) (hs : resolveStep sc b = some s) :
    (∃ i, splitToIdx sc b = .ok i) ∨ (∃ e, splitToIdx sc b = .error (.catchable (.lambdaApplierError e))) := by
  cases b with
  | arrayAccess i => exact .inl ⟨i, rfl⟩
  | fieldAccessByName n => exact .inr ⟨_, rfl⟩
  | fieldAccessByScalar nm =>
    simp only [resolveStep, scalarValue] at hs
    simp only [splitToIdx]
    cases hg : sc.getValue nm with
    | error e => simp [hg] at hs
    | panic p => simp [hg] at hs
    | ok ref =>
      simp only [hg] at hs
      simp only [tryScalarRefAsIdx_eq]
      cases hv : scalarRefValue ref with
      | error e => simp [hv] at hs
      | panic p => simp [hv] at hs
      | ok a =>
        simp only [Res.bind]
        cases h2 : tryJvalueAsIdx a with
        | ok i => exact .inl ⟨i, by simp [liftLambda, Res.mapErr]⟩
        | error e => exact .inr ⟨e, by simp [liftLambda, Res.mapErr]⟩
        | panic p => exact absurd h2 (tryJvalueAsIdx_no_panic a p)
  | error => simp [resolveStep] at hs

/-- **A key that is not in the map is the empty key group**: the bare key gives `[]` (as the code documents:
"There will be an empty canon stream if the key was not found"); any further accessor fails — never a value —
with `CanonStreamNotHaveEnoughValues { stream_size: 0, idx }` when it denotes an index, and with a
`LambdaApplierError` whenever it denotes a step at all.  (Before 766497d the code returned `[]` here and
ignored the remaining accessors.) -/
theorem C24_canon_map_absent_key (sc : Scalars) (pairs : List JVal) (m : CanonStreamMap)
    (hm : CanonStreamMap.fromCanonStream pairs = .ok m) (h : ValueAccessor) (k : StreamMapKey)
    (hk : resolveMapKey sc h = some k) (habsent : keyGroup pairs k = []) :
    selectByPathFromCanonMap sc m h [] = .ok (.arr []) ∧
    (∀ b bs r, selectByPathFromCanonMap sc m h (b :: bs) ≠ .ok r) ∧
    (∀ b bs i, resolveStep sc b = some (.idx i) →
      selectByPathFromCanonMap sc m h (b :: bs) = lambdaErr (.canonStreamNotHaveEnoughValues 0 i)) ∧
    (∀ b bs s, resolveStep sc b = some s →
      ∃ e, selectByPathFromCanonMap sc m h (b :: bs) = .error (.catchable (.lambdaApplierError e))) := by
  have hkey := (canonMapKeyOfPrefix_ok sc h k).mpr hk
  have hsel : ∀ body, selectByPathFromCanonMap sc m h body =
      match body with
      | [] => .ok (.arr [])
      | b :: bs => selectByPathFromCanonMapStream sc [] b bs := by
    intro body; rw [canonMap_select_group sc pairs m hm h body k hkey, habsent]
  refine ⟨hsel [], ?_, ?_, ?_⟩
  · intro b bs r hr
    rw [hsel (b :: bs)] at hr
    obtain ⟨steps, hres, hnav⟩ := (canonMapStream_ok sc [] b bs r).mp hr
    simp only [resolveSteps] at hres
    cases hs : resolveStep sc b with
    | none => simp [hs] at hres
    | some s =>
      cases hss : resolveSteps sc bs with
      | none => simp [hs, hss] at hres
      | some ss =>
        simp only [hs, hss] at hres; injection hres with hres; subst hres
        have := resolveStep_ne_length sc b s hs
        cases s <;> simp [navigate, navigateStep] at hnav this
  · intro b bs i hs
    rw [hsel (b :: bs)]
    simp [selectByPathFromCanonMapStream, (splitToIdx_ok sc b i).mpr hs]
  · intro b bs s hs
    rw [hsel (b :: bs)]
    simp only [selectByPathFromCanonMapStream]
    rcases splitToIdx_resolved sc b s hs with ⟨i, hi⟩ | ⟨e, he⟩
    · rw [hi]; exact ⟨.canonStreamNotHaveEnoughValues 0 i, by simp [lambdaErr, catchable]⟩
    · rw [he]; exact ⟨e, rfl⟩

/-- **The key group is what plain JSON selection on the map's JSON form gives**, whenever that form is well
defined: if the keys present in the map render to distinct strings (no `"1"` next to `1`), then selecting
the member `to_key k` of the map's JSON object and navigating on is navigating the key group of `k`. -/
theorem C24_canon_map_as_json (pairs : List JVal) (m : CanonStreamMap)
    (hm : CanonStreamMap.fromCanonStream pairs = .ok m)
    (hinj : ∀ k k', keyGroup pairs k ≠ [] → keyGroup pairs k' ≠ [] → k.toKey = k'.toKey → k = k')
    (k : StreamMapKey) (hk : keyGroup pairs k ≠ []) (steps : List Step) :
    navigate m.asJvalue (.key k.toKey :: steps) = navigate (.arr (keyGroup pairs k)) steps := by
  have hidx : ∀ k, m.index k = if keyGroup pairs k = [] then none else some (keyGroup pairs k) :=
    index_eq_keyGroup pairs m hm
  have hpresent : ∀ k, k ∈ m.map.map (·.1) → keyGroup pairs k ≠ [] := by
    intro k' hmem
    obtain ⟨g, hg⟩ := (mem_keys_iff_lookup m.map k').mp hmem
    have := hidx k'
    simp only [CanonStreamMap.index] at this
    simp only [lookupKey] at hg
    rw [hg] at this
    intro he; simp [he] at this
  have hn : (m.map.map (·.1)).Nodup := by
    unfold CanonStreamMap.fromCanonStream at hm
    cases hl : fromCanonStreamLoop [] pairs with
    | error e => simp [hl] at hm
    | panic p => simp [hl] at hm
    | ok mm =>
      simp only [hl] at hm; injection hm with hm; subst hm
      exact nodup_loop [] pairs mm hl (by simp)
  have hki : m.index k = some (keyGroup pairs k) := by rw [hidx k]; simp [hk]
  have := asJson_member m hn (fun a b ha hb => hinj a b (hpresent a ha) (hpresent b hb)) k _ hki
  simp only [navigate, this]

/-- on a canon map too, failure is a catchable lens error and nothing else -/
theorem C24_canon_map_failure_is_catchable (sc : Scalars) (henv : EnvTotal sc) (m : CanonStreamMap)
    (h : ValueAccessor) (body : List ValueAccessor) (hh : h ≠ .error) (hb : ∀ a ∈ body, a ≠ ValueAccessor.error) :
    OkOrLensFailure (selectByLambdaFromCanonMap sc m (.valuePath h body)) := by
  have hstream : ∀ (cs : List JVal) (b : ValueAccessor) (bs : List ValueAccessor), b ≠ .error →
      (∀ a ∈ bs, a ≠ ValueAccessor.error) → OkOrLensFailure (selectByPathFromCanonMapStream sc cs b bs) := by
    intro cs b bs hbn hbs
    simp only [selectByPathFromCanonMapStream]
    rcases splitToIdx_total sc henv b hbn with ⟨i, hi⟩ | ⟨e, hi, he⟩
    · rw [hi]
      simp only []
      cases hx : cs[i]? with
      | none => exact .inr ⟨.catchable (.lambdaApplierError (.canonStreamNotHaveEnoughValues cs.length i)), rfl, trivial⟩
      | some x =>
        simp only []
        split
        · exact .inl ⟨_, rfl⟩
        · exact select_total sc henv x bs hbs
    · rw [hi]; exact .inr ⟨e, rfl, he⟩
  simp only [selectByLambdaFromCanonMap, selectByPathFromCanonMap]
  rcases canonMapKeyOfPrefix_total sc henv h hh with ⟨k, hk⟩ | ⟨e, hk, he⟩
  · rw [hk]
    simp only []
    cases hidx : m.index k with
    | none =>
      cases body with
      | nil => exact .inl ⟨_, rfl⟩
      | cons b bs => exact hstream [] b bs (hb b (by simp)) (fun a ha => hb a (by simp [ha]))
    | some cs =>
      cases body with
      | nil => exact .inl ⟨_, rfl⟩
      | cons b bs => exact hstream cs b bs (hb b (by simp)) (fun a ha => hb a (by simp [ha]))
  · rw [hk]; exact .inr ⟨e, rfl, he⟩

/-! ## error codes -/

/-- **Every lens failure carries a code of the catchable range**, computed from the variant tables
regenerated from the Rust enums: `LambdaApplierError` (whatever `LambdaError` it wraps),
`LengthFunctorAppliedToNotArray`, `VariableNotFound`, `VariableWasNotInitializedAfterNew`. -/
theorem C24_error_is_catchable (e : ExecErr) (h : IsLensFailure e) :
    ∃ c, e = .catchable c ∧ inRange .catchable c.code ∧ e.isCatchable = true := by
  cases e with
  | catchable c =>
    refine ⟨c, rfl, ?_, rfl⟩
    cases c <;> simp [IsLensFailure] at h <;> (simp only [CatchableErr.code, CatchableErr.variant]; decide)
  | uncatchable u => simp [IsLensFailure] at h
  | unmodelled w => simp [IsLensFailure] at h

/-- the codes hosts see for the two lens-specific errors -/
theorem C24_codes (e : LambdaErr) (v : JVal) :
    (CatchableErr.lambdaApplierError e).code = 10007 ∧ (CatchableErr.lengthFunctorAppliedToNotArray v).code = 10010 := by
  constructor <;> (simp only [CatchableErr.code, CatchableErr.variant]; decide)

/-- the model's `LambdaError`, `ValueAccessor`, `Functor`, `LambdaAST`, `StreamMapKey` have exactly the
variants of the Rust enums (tables regenerated from the sources on every run) -/
theorem C24_enums_match_sources :
    Gen.lambdaErrorVariants =
      [lambdaErrVariant (.canonStreamNotHaveEnoughValues 0 0), lambdaErrVariant .emptyStream,
       lambdaErrVariant (.fieldAccessorAppliedToStream ""), lambdaErrVariant (.arrayAccessorNotMatchValue .null 0),
       lambdaErrVariant (.valueNotContainSuchArrayIdx .null 0), lambdaErrVariant (.valueNotContainSuchField .null ""),
       lambdaErrVariant (.fieldAccessorNotMatchValue .null ""), lambdaErrVariant (.indexAccessNotU32 .null),
       lambdaErrVariant (.scalarAccessorHasInvalidType .null), lambdaErrVariant (.streamAccessorHasInvalidType .null),
       lambdaErrVariant (.canonStreamMapAccessorHasInvalidType .null), lambdaErrVariant .canonStreamMapAccessorMustNotBeIterable] ∧
    Gen.valueAccessorVariants =
      [(ValueAccessor.arrayAccess 0).variant, (ValueAccessor.fieldAccessByName "").variant,
       (ValueAccessor.fieldAccessByScalar "").variant, ValueAccessor.error.variant] ∧
    Gen.functorVariants = [Functor.length.variant] ∧
    Gen.lambdaAstVariants = ["Functor", "ValuePath"] ∧
    Gen.streamMapKeyVariants = ["Str", "U64", "I64"] := by
  decide

/-! ## tie to the executor model -/

/-- the executor model's lens applier (`Aqua.Exec.selectByLambdaFromScalar`, the one exercised by the
lock-step correspondence of whole runs) is this replica on its accessor type -/
theorem C24_agrees_with_executor_model (sc : Scalars) (v : JVal) :
    (∀ as : List Accessor, Exec.selectByPathFromScalar sc v as = Lens.selectByPathFromScalar sc v (as.map .ofAccessor)) ∧
    (∀ l l', LambdaAST.ofLambda l = some l' → Exec.selectByLambdaFromScalar sc v l = Lens.selectByLambdaFromScalar sc v l') := by
  have hpath : ∀ (as : List Accessor) (w : JVal),
      Exec.selectByPathFromScalar sc w as = Lens.selectByPathFromScalar sc w (as.map .ofAccessor) := by
    intro as
    induction as with
    | nil => intro w; rfl
    | cons a rest ih =>
      intro w
      cases a with
      | arrayAccess i =>
        simp only [Exec.selectByPathFromScalar, List.map, ValueAccessor.ofAccessor, Lens.selectByPathFromScalar]
        cases liftLambda (tryJvalueWithIdx w i) <;> simp [bind, Res.bind, ih]
      | fieldByName n =>
        simp only [Exec.selectByPathFromScalar, List.map, ValueAccessor.ofAccessor, Lens.selectByPathFromScalar]
        cases liftLambda (tryJvalueWithFieldName w n) <;> simp [bind, Res.bind, ih]
      | fieldByScalar s =>
        simp only [Exec.selectByPathFromScalar, List.map, ValueAccessor.ofAccessor, Lens.selectByPathFromScalar]
        cases hg : sc.getValue s with
        | error e => simp [bind, Res.bind]
        | panic p => simp [bind, Res.bind]
        | ok ref =>
          simp only [bind, Res.bind, selectByScalar_eq]
          cases scalarRefValue ref with
          | error e => simp
          | panic p => simp
          | ok acc =>
            simp only []
            cases liftLambda (selectByJvalue w acc) <;> simp [ih]
  refine ⟨fun as => hpath as v, ?_⟩
  intro l l' hl
  cases l with
  | functorLength =>
    simp only [LambdaAST.ofLambda] at hl; injection hl with hl; subst hl
    cases v <;> rfl
  | path as =>
    cases as with
    | nil => simp [LambdaAST.ofLambda] at hl
    | cons a rest =>
      simp only [LambdaAST.ofLambda] at hl; injection hl with hl; subst hl
      simp only [Exec.selectByLambdaFromScalar, Lens.selectByLambdaFromScalar]
      exact hpath (a :: rest) v

/-! ## Non-vacuity: concrete inputs meeting the hypotheses -/

/-- a store with the scalars `i = 1`, `k = "b"`, `f = 1.5` -/
def exampleScalars : Scalars :=
  { nonIterable := { cells := [("i", [⟨0, some ⟨.num 1, { peerPk := "p" }, 0, .literal⟩⟩]),
                               ("k", [⟨0, some ⟨.str "b", { peerPk := "p" }, 0, .literal⟩⟩]),
                               ("f", [⟨0, some ⟨.float "1.5", { peerPk := "p" }, 0, .literal⟩⟩])] } }

def exampleValue : JVal := .obj [("a", .arr [.num 10, .obj [("b", .str "x")]])]

example : resolveSteps exampleScalars [.fieldAccessByName "a", .fieldAccessByScalar "i", .fieldAccessByScalar "k"]
    = some [.key "a", .idx 1, .key "b"] := by decide
example : navigate exampleValue [.key "a", .idx 1, .key "b"] = some (.str "x") := by
  simp [navigate, navigateStep, member, exampleValue]
example : resolveSteps exampleScalars [.fieldAccessByName "a", .fieldAccessByScalar "f"] = none := by decide
example : navigate exampleValue [.key "a", .idx 2] = none := by
  simp [navigate, navigateStep, member, exampleValue]
example : resolveMapKey exampleScalars (.fieldAccessByScalar "k") = some (.str "b") := by decide
example : resolveMapKey exampleScalars (.arrayAccess 1) = some (.i64 1) := by decide
example : resolveMapKey exampleScalars (.fieldAccessByScalar "f") = none := by decide
/-- a map with the string key "1" and the integer key 1: two different groups -/
def examplePairs : List JVal :=
  [.obj [("key", .str "1"), ("value", .str "a")], .obj [("key", .num 1), ("value", .str "b")],
   .obj [("key", .str "1"), ("value", .str "c")]]
example : keyGroup examplePairs (.str "1") = [.str "a", .str "c"] := rfl
example : keyGroup examplePairs (.i64 1) = [.str "b"] := rfl
example : keyGroup examplePairs (.str "absent") = [] := by decide
/-- a map without colliding keys (hypothesis of `C24_canon_map_as_json`): keys "a" and 1 -/
example : keyGroup [JVal.obj [("key", .str "a"), ("value", .num 7)], .obj [("key", .num 1), ("value", .num 8)]] (.str "a") = [.num 7] := rfl
example : ∃ m, CanonStreamMap.fromCanonStream examplePairs = .ok m := ⟨_, rfl⟩
example : IsLensFailure (.catchable (.lambdaApplierError (.valueNotContainSuchField .null "a"))) := trivial
/-- lookups in the store of the examples give a value (or `VariableNotFound`), not a panic -/
example : ∃ r, exampleScalars.getValue "i" = .ok r := ⟨_, rfl⟩

end AquaProps.C24
