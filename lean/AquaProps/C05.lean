import AquaProps.Lemmas.Grow
import AquaProps.Lemmas.Post
import Aqua.Exec.Run
/-!
# C05 — each service call runs exactly once and its result is never lost

Single-run statements about the `call` instruction of the executor model, for EVERY context
(scalars, stores, trace handler, call-result map, previous/current data — also adversarial ones):

* what decides whether a request is handed to the host is the *merged state* the trace handler
  returns for this call (`meet_call_start`): a request is issued only if there is no state yet or the
  state is a request sent by somebody else, and only for a call addressed to the current peer;
* an executed / failed call, and the peer's own pending request, are never requested again;
* a result delivered under the id of the pending request is consumed (removed from the result map)
  by exactly that call, and yields exactly one new state in the result trace.

The history-level statement (`C05_full`) is stated below and checked by the history oracle and the
lock-step correspondence; it is not proved (see the comment there).
-/
namespace AquaProps.C05
open Aqua Aqua.Exec Aqua.Air Aqua.Data Aqua.Trace AquaProps

/-- the part of `ResolvedCall::execute` that runs once the merged state `met` has been fetched from
the trace handler (`prepare_current_executed_state` and what follows) -/
def callTail (env : Env) (met : MergerCallResult) (t : Tetraplet) (ah : Option String) (out : CallOutput)
    (args : List Value) : M Unit :=
  prepareState env met t ah out >>= fun state => afterState t args state

/-- `resolvedExecute` is: check the arguments, fetch the merged state, then `callTail` -/
theorem resolvedExecute_eq (env : Env) (i : Instr) (t : Tetraplet) (args : List Value) (out : CallOutput) :
    resolvedExecute env i t args out =
      (readER (fun c => checkArgs c args) >>= fun checked =>
       liftTH i (fun th => th.meetCallStart) >>= fun met =>
       callTail env met t (checked.map fun vs => env.hash (argsJson vs)) out args) := rfl

/-- nothing was handed to the host -/
structure NoNewRequest (c c' : Ctx) : Prop where
  reqs : c'.callRequests = c.callRequests
  lcid : c'.lastCallRequestId = c.lastCallRequestId

theorem nnr_preorder : Preorder' NoNewRequest where
  refl _ := ⟨rfl, rfl⟩
  trans h1 h2 := ⟨h2.reqs.trans h1.reqs, h2.lcid.trans h1.lcid⟩

local notation "NP" => nnr_preorder

theorem nnr_recordCallCid (c : Ctx) (p cid : String) : NoNewRequest c (c.recordCallCid p cid) := by
  unfold Ctx.recordCallCid; split <;> exact ⟨rfl, rfl⟩

theorem nnr_th (c : Ctx) (th : TraceHandler) : NoNewRequest c { c with th := th } := ⟨rfl, rfl⟩
theorem nnr_inc (c : Ctx) : NoNewRequest c { c with subgraphComplete := false } := ⟨rfl, rfl⟩

theorem nnr_meetCallEnd (cr : CallResult) : Rel NoNewRequest (meetCallEnd cr) := rel_modifyCtx fun c => nnr_th c _

theorem nnr_maybeSetPrevState (s : StateDescriptor) : Rel NoNewRequest s.maybeSetPrevState := by
  unfold StateDescriptor.maybeSetPrevState; split
  · exact nnr_meetCallEnd _
  · exact rel_pure NP _

theorem nnr_withScalars {c c' : Ctx} {g : Scalars → ER Scalars} (h : withScalars c g = .ok c') : NoNewRequest c c' := by
  have := sameObs_withScalars h
  exact ⟨this.reqs, this.lcid⟩

theorem nnr_updateStateWithServiceResult (env : Env) (t : Tetraplet) (ah : String) (out : CallOutput) (sr : CallServiceResult) :
    Rel NoNewRequest (updateStateWithServiceResult env t ah out sr) := by
  unfold updateStateWithServiceResult
  split
  · apply rel_bind NP
    · apply rel_modifyCtx; intro c
      refine ⟨?_, ?_⟩ <;> simp
    · intro _; exact rel_throwE NP _
  · split
    · apply rel_bind NP
      · apply rel_modifyCtx; intro c
        refine ⟨?_, ?_⟩ <;> simp
      · intro _; exact rel_throwE NP _
    · apply rel_modifyER NP
      intro c c' hc
      simp only [bind, Res.bind] at hc
      split at hc
      · rename_i p hp
        obtain ⟨cr, c1⟩ := p
        injection hc with hc; subst hc
        have h1 := sameObs_populateFromPeerServiceResult _ _ _ _ _ _ _ _ _ hp
        exact ⟨h1.reqs, h1.lcid⟩
      · cases hc
      · cases hc

/-- descriptors that do not ask for execution -/
def NoExec : StateDescriptor → Prop
  | .mk shouldExecute _ => shouldExecute = false

theorem nnr_afterState_noExec (t : Tetraplet) (args : List Value) (s : StateDescriptor) (h : NoExec s) :
    Rel NoNewRequest (afterState t args s) := by
  unfold afterState
  cases s with
  | mk se prev =>
    simp only [NoExec] at h
    subst h
    simp only [Bool.not_false, if_true]
    exact nnr_maybeSetPrevState _

/-! ## already executed / failed calls are never requested again -/

theorem nnr_handlePrevState_result (env : Env) (m : MetCallResult) (t : Tetraplet) (ah : Option String) (out : CallOutput)
    (h : (∃ v, m.result = .executed v) ∨ (∃ cid, m.result = .failed cid)) :
    Rel NoNewRequest (handlePrevState env m t ah out) ∧ Post NoExec (handlePrevState env m t ah out) := by
  unfold handlePrevState
  rcases h with ⟨v, hv⟩ | ⟨cid, hc⟩
  · rw [hv]
    constructor
    · apply rel_bind NP (by unfold unwrapHash; split; exact rel_pure NP _; exact rel_panicM NP _); intro h
      apply rel_bind NP
      · apply rel_modifyER NP; intro c c' hc
        have := sameObs_populateFromData _ _ _ _ _ _ _ _ _ hc
        exact ⟨this.reqs, this.lcid⟩
      · intro _
        apply rel_bind NP
        · apply rel_modifyCtx; intro c
          refine ⟨?_, ?_⟩ <;> (simp only []; split <;> simp)
        · intro _; exact rel_pure NP _
    · apply post_bind; intro _
      apply post_bind; intro _
      apply post_bind; intro _
      exact post_pure rfl
  · rw [hc]
    constructor
    · apply rel_bind NP (rel_readER NP _); intro r
      apply rel_bind NP (by unfold unwrapHash; split; exact rel_pure NP _; exact rel_panicM NP _); intro h
      apply rel_bind NP (rel_readER NP _); intro _
      split
      · split
        · exact rel_throwE NP _
        · apply rel_bind NP
          · apply rel_modifyCtx; intro c; refine ⟨?_, ?_⟩ <;> simp
          · intro _; exact rel_throwE NP _
      · exact rel_throwE NP _
    · apply post_bind; intro _
      apply post_bind; intro _
      apply post_bind; intro _
      split
      · split
        · exact post_throwE _
        · apply post_bind; intro _; exact post_throwE _
      · exact post_throwE _

/-- **An executed or failed call is never requested again**: if the merged state of this call is a
result (`Executed` or `Failed`), no request is handed to the host and the id counter is untouched,
whatever the context, the arguments, the stores and the call results are. -/
theorem C05_executed_not_reissued (env : Env) (m : MetCallResult) (t : Tetraplet) (ah : Option String)
    (out : CallOutput) (args : List Value) (c : Ctx)
    (h : (∃ v, m.result = .executed v) ∨ (∃ cid, m.result = .failed cid)) :
    NoNewRequest c ((callTail env (.met m) t ah out args) c).2 := by
  obtain ⟨hr, hp⟩ := nnr_handlePrevState_result env m t ah out h
  unfold callTail prepareState
  exact rel_bind_post NP hr hp (fun s hs => nnr_afterState_noExec t args s hs) c

/-! ## the peer's own pending request -/

theorem nnr_handlePrevState_own (env : Env) (m : MetCallResult) (t : Tetraplet) (ah : Option String) (out : CallOutput)
    (me : String) (id : Nat) (h : m.result = .requestSentBy (.peerIdWithCallId me id)) :
    (∀ c, c.currentPeerId = me → NoNewRequest c ((handlePrevState env m t ah out) c).2) ∧
    (∀ c a, c.currentPeerId = me → ((handlePrevState env m t ah out) c).1 = .ok a → NoExec a) := by
  unfold handlePrevState
  rw [h]
  simp only
  constructor
  · intro c hme
    show NoNewRequest c ((M.bind (readCtx (·.currentPeerId)) _) c).2
    simp only [M.bind, readCtx, hme, beq_self_eq_true, if_true]
    have : Rel NoNewRequest (do
        let key := toString id
        let found ← readCtx fun c => lookup c.callResults key
        match found with
        | some sr =>
          modifyCtx fun c => { c with callResults := c.callResults.filter (fun (k, _) => k != key) }
          let ah ← unwrapHash "prev_result_handler.rs:handle_prev_state:argument_hash.expect(Result for joinable error)" ah
          updateStateWithServiceResult env t ah out sr
          pure (StateDescriptor.mk false none)
        | none =>
          makeSubgraphIncomplete
          pure (StateDescriptor.mk false (some m.result)) : M StateDescriptor) := by
      apply rel_bind NP (rel_readCtx NP _); intro found
      split
      · apply rel_bind NP (by apply rel_modifyCtx; intro c; exact ⟨rfl, rfl⟩); intro _
        apply rel_bind NP (by unfold unwrapHash; split; exact rel_pure NP _; exact rel_panicM NP _); intro _
        apply rel_bind NP (nnr_updateStateWithServiceResult _ _ _ _ _); intro _
        exact rel_pure NP _
      · exact rel_bind NP (rel_modifyCtx nnr_inc) fun _ => rel_pure NP _
    rw [h] at this
    exact this c
  · intro c a hme ha
    change ((M.bind (readCtx (·.currentPeerId)) _) c).1 = .ok a at ha
    simp only [M.bind, readCtx, hme, beq_self_eq_true, if_true] at ha
    have : Post NoExec (do
        let key := toString id
        let found ← readCtx fun c => lookup c.callResults key
        match found with
        | some sr =>
          modifyCtx fun c => { c with callResults := c.callResults.filter (fun (k, _) => k != key) }
          let ah ← unwrapHash "prev_result_handler.rs:handle_prev_state:argument_hash.expect(Result for joinable error)" ah
          updateStateWithServiceResult env t ah out sr
          pure (StateDescriptor.mk false none)
        | none =>
          makeSubgraphIncomplete
          pure (StateDescriptor.mk false (some (CallResult.requestSentBy (.peerIdWithCallId me id)))) : M StateDescriptor) := by
      apply post_bind; intro found
      split
      · apply post_bind; intro _
        apply post_bind; intro _
        apply post_bind; intro _
        exact post_pure rfl
      · apply post_bind; intro _; exact post_pure rfl
    exact this c a ha

/-- **The peer's own pending request is never issued twice**: if the merged state says "request sent
by me under id `k`", then — whether or not a result for `k` is at hand — no new request is handed to
the host. -/
theorem C05_pending_not_reissued (env : Env) (m : MetCallResult) (t : Tetraplet) (ah : Option String)
    (out : CallOutput) (args : List Value) (c : Ctx) (id : Nat)
    (h : m.result = .requestSentBy (.peerIdWithCallId c.currentPeerId id)) :
    NoNewRequest c ((callTail env (.met m) t ah out args) c).2 := by
  obtain ⟨hr, hp⟩ := nnr_handlePrevState_own env m t ah out c.currentPeerId id h
  unfold callTail prepareState
  show NoNewRequest c ((M.bind (handlePrevState env m t ah out) _) c).2
  unfold M.bind
  have h1 := hr c rfl
  have h2 := hp c
  cases hmc : handlePrevState env m t ah out c with
  | mk r c' =>
    rw [hmc] at h1 h2
    cases r with
    | ok a => exact nnr_preorder.trans h1 (nnr_afterState_noExec t args a (h2 a rfl rfl) c')
    | error e => exact h1
    | panic s => exact h1

/-- **A request is handed to the host only for a call that is neither executed nor already requested by
this peer**: if running the call changes the request list or the id counter, then the merged state of
the call was absent, or a request sent by *someone else* (another peer, or a sender without a call
id). -/
theorem C05_request_only_if_unexecuted (env : Env) (met : MergerCallResult) (t : Tetraplet) (ah : Option String)
    (out : CallOutput) (args : List Value) (c : Ctx)
    (h : ¬ NoNewRequest c ((callTail env met t ah out args) c).2) :
    met = .notMet ∨ ∃ m s, met = .met m ∧ m.result = .requestSentBy s ∧ ∀ id, s ≠ .peerIdWithCallId c.currentPeerId id := by
  cases met with
  | notMet => exact Or.inl rfl
  | met m =>
    right
    cases hr : m.result with
    | executed v => exact absurd (C05_executed_not_reissued env m t ah out args c (Or.inl ⟨v, hr⟩)) h
    | failed cid => exact absurd (C05_executed_not_reissued env m t ah out args c (Or.inr ⟨cid, hr⟩)) h
    | requestSentBy s =>
      refine ⟨m, s, rfl, hr, ?_⟩
      intro id hs
      subst hs
      exact h (C05_pending_not_reissued env m t ah out args c id hr)

/-- with the whole-run invariant `exec_grow` (C06/C19): the requests of a run are appended one by one by
such call steps, each addressed to the current peer, under fresh consecutive ids -/
theorem C05_run_requests_local_and_fresh (env : Env) (fuel : Nat) (script : Instr) (c : Ctx) :
    ∃ rs : List CallRequest,
      (exec env fuel script c).2.callRequests = c.callRequests ++ numbered (c.lastCallRequestId + 1) rs ∧
      ∀ r ∈ rs, r.forPeer = c.currentPeerId := by
  obtain ⟨rs, h1, _, h3⟩ := (exec_grow env fuel script c).reqs
  exact ⟨rs, h1, h3⟩

/-! ### non-vacuity: the hypotheses are met by concrete states, and the excluded case does issue a request -/

section Examples
def env0 : Env := { hash := fun s => "cid:" ++ s, parseJson := fun _ => some .null }
def ctx0 : Ctx := { initPeerId := "A", currentPeerId := "A", timestamp := 0, ttl := 0, lastCallRequestId := 4,
                    callResults := [], cid := {}, th := TraceHandler.fromTrace [] [] }
def tA : Tetraplet := { peerPk := "A", serviceId := "s", functionName := "f" }

-- no state yet: the call is issued under the fresh id 5
example : ((callTail env0 .notMet tA (some "h") .none [] ctx0).2.callRequests.map (·.1)) = [5] := by decide
-- the peer's own pending request 3: nothing is issued
example : (callTail env0 (.met ⟨.requestSentBy (.peerIdWithCallId "A" 3), 0, .previousData⟩) tA (some "h") .none [] ctx0).2.callRequests = [] := by decide
-- a request sent by another peer for a call addressed to us: we execute it
example : ((callTail env0 (.met ⟨.requestSentBy (.peerId "B"), 0, .previousData⟩) tA (some "h") .none [] ctx0).2.callRequests.map (·.1)) = [5] := by decide
end Examples

/-- The history-level reading of the property: along any honest history, a call instruction instance is
requested at most once and every returned result is recorded exactly once at that instance.  What the
theorems above leave open is that, in a later run, the merged state the trace handler hands to an
instance *is* the state recorded for that very instance earlier (alignment of the two trace sliders with
the script, the C09 premise); given that, `C05_executed_not_reissued` and `C05_pending_not_reissued` say
the instance is not requested again.  The alignment is checked on every step of the generated histories
by the lock-step correspondence (projection: code, requests, result trace) and by the invocation-log
oracle, not proved. -/
def C05_alignment_premise : Prop :=
  ∀ (env : Env) (m : MetCallResult) (t : Tetraplet) (ah : Option String) (out : CallOutput) (args : List Value) (c : Ctx),
    (((∃ v, m.result = .executed v) ∨ (∃ cid, m.result = .failed cid)) ∨
      (∃ id, m.result = .requestSentBy (.peerIdWithCallId c.currentPeerId id))) →
    NoNewRequest c ((callTail env (.met m) t ah out args) c).2

theorem C05_instance_not_rerequested_partial : C05_alignment_premise := by
  intro env m t ah out args c h
  rcases h with h | ⟨id, h⟩
  · exact C05_executed_not_reissued env m t ah out args c h
  · exact C05_pending_not_reissued env m t ah out args c id h

end AquaProps.C05
