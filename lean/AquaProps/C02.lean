import Aqua.Run.Runner
import Aqua.Run.ErrorCodes
/-!
# C02 — failed runs return the previous data untouched; outcomes follow the code ranges
-/
namespace AquaProps.C02
open Aqua Aqua.Run

/-! ## Part 1: the code ranges (over the tables generated from the Rust enums) -/

/-- every variant of every error enum gets a code inside the range promised for its class -/
theorem C02_ranges (c : ErrClass) (name : String) (code : Int) (h : errorCode? c name = some code) :
    inRange c code := by
  unfold errorCode? at h
  cases hi : indexOf? name c.variants with
  | none => simp [hi] at h
  | some i =>
    simp [hi] at h
    have hlt := indexOf?_lt name c.variants i hi
    subst h
    cases c <;> simp only [ErrClass.variants, ErrClass.start, inRange] at hlt ⊢
    · have : Gen.preparationVariants.length ≤ 9999 := by decide
      have : Gen.preparationStart = 1 := by decide
      omega
    · have : Gen.catchableVariants.length ≤ 10000 := by decide
      have : Gen.catchableStart = 10000 := by decide
      omega
    · have : Gen.uncatchableVariants.length ≤ 10000 := by decide
      have : Gen.uncatchableStart = 20000 := by decide
      omega
    · have : Gen.farewellStart = 30000 := by decide
      omega

/-- the first farewell code is the documented "unprocessed call results" code 30000 -/
theorem C02_unprocessed_is_30000 : errorCode? .farewell "UnprocessedCallResult" = some 30000 := by decide

/-- the classes are pairwise disjoint: a code determines its class -/
theorem C02_ranges_disjoint (c₁ c₂ : ErrClass) (code : Int) (h₁ : inRange c₁ code) (h₂ : inRange c₂ code) :
    c₁ = c₂ := by
  cases c₁ <;> cases c₂ <;> simp only [inRange] at h₁ h₂ <;> first | rfl | omega

/-- no error code collides with success -/
theorem C02_nonzero (c : ErrClass) (code : Int) (h : inRange c code) : code ≠ 0 := by
  cases c <;> simp only [inRange] at h <;> omega

/-! ## Part 2: outcome shape of the staged runner, for every instantiation of the stages -/

variable {B D S A C K X : Type}

/-- the stages respect the error classes (what the concrete model proves from Part 1) -/
structure CodesInRange (St : Stages B D S A C K X) : Prop where
  parseData : ∀ p c e, St.parseData p c = .error e → inRange .preparation e.code
  verify : ∀ p c s e, St.verify p c s = .error e → inRange .preparation e.code
  parseAir : ∀ a e, St.parseAir a = .error e → inRange .preparation e.code
  deCallResults : ∀ b e, St.deCallResults b = .error e → inRange .preparation e.code
  keypair : ∀ p e, St.keypair p = .error e → inRange .preparation e.code
  sizeErr : ∀ e, inRange .preparation (St.sizeErr e).code
  execCatchable : ∀ a p c crs s cp e x, St.execute a p c crs s cp = (.catchable e, x) → inRange .catchable e.code
  execUncatchable : ∀ a p c crs s cp e x, St.execute a p c crs s cp = (.uncatchable e, x) → inRange .uncatchable e.code
  signProduced : ∀ x k s e, St.signProduced x k s = .error e → inRange .uncatchable e.code
  leftover : ∀ x e, St.leftover x = some e → e.code = 30000

def isFailedCode (code : Int) : Prop := inRange .preparation code ∨ inRange .uncatchable code
def isNewDataCode (code : Int) : Prop := code = 0 ∨ inRange .catchable code ∨ code = 30000

/-- the "returns the previous data" shape -/
def ReturnsPrev (St : Stages B D S A C K X) (inp : RunInput B) (o : Outcome B) : Prop :=
  o.data = inp.prev ∧ o.nextPeerPks = [] ∧ o.callRequests = St.emptyCallRequests

/-- the "returns new data" shape: data, next peers and requests are what `populate` computed from a
post-execution context -/
def ReturnsNew (St : Stages B D S A C K X) (o : Outcome B) : Prop :=
  ∃ x k p, St.populate x k = .ok p ∧ o.data = p.data ∧ o.nextPeerPks = p.nextPeerPks ∧
    o.callRequests = p.callRequests

/-- the only other shape `farewell_step/outcome.rs` can produce: compactification or signing failed
inside `populate_outcome_from_contexts` ("internal error", empty data) -/
def InternalError (St : Stages B D S A C K X) (o : Outcome B) : Prop :=
  ∃ x k e, St.populate x k = .error e ∧ o.retCode = e.code ∧ o.data = St.blob.empty

/-- every run has exactly one of the three shapes, and the first two are tied to the code classes -/
theorem C02_outcome_shapes (St : Stages B D S A C K X) (hc : CodesInRange St) (l : Limits) (inp : RunInput B) :
    let o := executeAir St l inp
    (isFailedCode o.retCode ∧ ReturnsPrev St inp o) ∨ (isNewDataCode o.retCode ∧ ReturnsNew St o) ∨
      InternalError St o := by
  have prevShape : ∀ e f, inRange .preparation e.code ∨ inRange .uncatchable e.code →
      (isFailedCode (fromUncatchableError St inp.prev e f).retCode ∧
        ReturnsPrev St inp (fromUncatchableError St inp.prev e f)) := by
    intro e f h
    exact ⟨h, rfl, rfl, rfl⟩
  have popShape : ∀ x k code msg f, isNewDataCode code →
      (isNewDataCode (populateOutcome St x k code msg f).retCode ∧ ReturnsNew St (populateOutcome St x k code msg f)) ∨
        InternalError St (populateOutcome St x k code msg f) := by
    intro x k code msg f h
    unfold populateOutcome
    cases hp : St.populate x k with
    | error e => exact .inr ⟨x, k, e, hp, rfl, rfl⟩
    | ok p => exact .inl ⟨h, x, k, p, hp, rfl, rfl, rfl⟩
  unfold executeAir
  cases h1 : checkAgainstSizeLimits l inp.air.utf8ByteSize (St.blob.len inp.cur) with
  | error e => exact .inl (prevShape _ _ (.inl (hc.sizeErr _)))
  | ok flags =>
  simp only
  cases h2 : St.parseData inp.prev inp.cur with
  | error e => exact .inl (prevShape _ _ (.inl (hc.parseData _ _ _ h2)))
  | ok pc =>
  obtain ⟨p, c⟩ := pc
  simp only
  cases h3 : St.verify p c inp.params.particleId with
  | error e => exact .inl (prevShape _ _ (.inl (hc.verify _ _ _ _ h3)))
  | ok s =>
  simp only
  cases h4 : St.parseAir inp.air with
  | error e => exact .inl (prevShape _ _ (.inl (hc.parseAir _ _ h4)))
  | ok a =>
  simp only
  cases h5 : St.deCallResults inp.callResults with
  | error e => exact .inl (prevShape _ _ (.inl (hc.deCallResults _ _ h5)))
  | ok crs =>
  simp only
  cases h6 : checkCallResults l (St.resultLens crs) with
  | error e => exact .inl (prevShape _ _ (.inl (hc.sizeErr _)))
  | ok fc =>
  simp only
  cases h7 : St.keypair inp.params with
  | error e => exact .inl (prevShape _ _ (.inl (hc.keypair _ _ h7)))
  | ok kp =>
  simp only
  generalize hex : St.execute a p c crs s inp.params = r
  obtain ⟨exit, x⟩ := r
  simp only [finish]
  cases h8 : St.signProduced x kp inp.params.particleId with
  | error e => exact .inl (prevShape _ _ (.inr (hc.signProduced _ _ _ _ h8)))
  | ok x' =>
  simp only
  cases exit with
  | ok =>
    simp only
    cases h9 : St.leftover x' with
    | none => exact (popShape _ _ _ _ _ (.inl rfl)).elim (fun h => .inr (.inl h)) (fun h => .inr (.inr h))
    | some e =>
      exact (popShape _ _ _ _ _ (.inr (.inr (hc.leftover _ _ h9)))).elim (fun h => .inr (.inl h)) (fun h => .inr (.inr h))
  | catchable e =>
    exact (popShape _ _ _ _ _ (.inr (.inl (hc.execCatchable _ _ _ _ _ _ _ _ hex)))).elim
      (fun h => .inr (.inl h)) (fun h => .inr (.inr h))
  | uncatchable e => exact .inl (prevShape _ _ (.inr (hc.execUncatchable _ _ _ _ _ _ _ _ hex)))

/-- **C02 (first half).**  If `populate` cannot fail (no internal error), a run whose code is a
preparation or uncatchable code returns exactly the previous data, no next peers and the empty
request map. -/
theorem C02_failed_returns_prev (St : Stages B D S A C K X) (hc : CodesInRange St)
    (hpop : ∀ x k e, St.populate x k ≠ .error e) (l : Limits) (inp : RunInput B)
    (hcode : isFailedCode (executeAir St l inp).retCode) :
    ReturnsPrev St inp (executeAir St l inp) := by
  rcases C02_outcome_shapes St hc l inp with h | h | h
  · exact h.2
  · exfalso
    obtain ⟨hn, _⟩ := h
    rcases hcode with hp | hu <;> rcases hn with h0 | hcat | h3 <;>
      simp only [inRange] at * <;> omega
  · obtain ⟨x, k, e, hp, _⟩ := h
    exact absurd hp (hpop x k e)

/-- **C02 (second half).**  Under the same assumption a run with code 0, a catchable code or 30000
returns the data, next peers and requests computed from the post-execution contexts. -/
theorem C02_ok_returns_new (St : Stages B D S A C K X) (hc : CodesInRange St)
    (hpop : ∀ x k e, St.populate x k ≠ .error e) (l : Limits) (inp : RunInput B)
    (hcode : isNewDataCode (executeAir St l inp).retCode) :
    ReturnsNew St (executeAir St l inp) := by
  rcases C02_outcome_shapes St hc l inp with h | h | h
  · exfalso
    obtain ⟨hn, _⟩ := h
    rcases hn with hp | hu <;> rcases hcode with h0 | hcat | h3 <;>
      simp only [inRange] at * <;> omega
  · exact h.2
  · obtain ⟨x, k, e, hp, _⟩ := h
    exact absurd hp (hpop x k e)

end AquaProps.C02
