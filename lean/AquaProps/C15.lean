import Aqua.Run.Verify
import Aqua.Run.Runner
import Mathlib.Data.List.Perm.Subperm
/-!
# C15 — a peer cannot present two incompatible versions of its own results

`mergePeer` is the model of the per-peer step of `DataVerifier::merge`; `⊆ₘ` below is multiset
inclusion of CID lists (`List.Subperm`).
-/
namespace AquaProps.C15
open Aqua Aqua.Run

/-- the executable test used by the code is multiset inclusion -/
theorem isMultisubset_iff (larger smaller : List String) :
    isMultisubset larger smaller = true ↔ smaller.Subperm larger := by
  unfold isMultisubset countOf
  rw [List.all_eq_true]
  simp only [decide_eq_true_eq]
  exact (List.subperm_ext_iff).symm

/-- **Specification of the merge**, for every pair of signed result sets of one peer:
it succeeds exactly when one multiset contains the other, and then keeps the entry (hence the
signature) of the larger one — the previous one when both have the same size. -/
theorem C15_merge_spec (ours other : PeerInfo) :
    mergePeer ours other =
      if ours.cids.length < other.cids.length then
        (if ours.cids.Subperm other.cids then .ok other else .error ())
      else
        (if other.cids.Subperm ours.cids then .ok ours else .error ()) := by
  unfold mergePeer
  by_cases h : ours.cids.length < other.cids.length
  · simp only [h, if_true]
    by_cases hs : ours.cids.Subperm other.cids
    · simp [hs, (isMultisubset_iff _ _).mpr hs]
    · have : isMultisubset other.cids ours.cids = false := by
        cases hb : isMultisubset other.cids ours.cids
        · rfl
        · exact absurd ((isMultisubset_iff _ _).mp hb) hs
      simp [hs, this]
  · simp only [h, if_false]
    by_cases hs : other.cids.Subperm ours.cids
    · simp [hs, (isMultisubset_iff _ _).mpr hs]
    · have : isMultisubset ours.cids other.cids = false := by
        cases hb : isMultisubset ours.cids other.cids
        · rfl
        · exact absurd ((isMultisubset_iff _ _).mp hb) hs
      simp [hs, this]

/-- **Equivocation is rejected**: if neither result set contains the other (as multisets), the merge fails. -/
theorem C15_incomparable_rejected (ours other : PeerInfo)
    (h1 : ¬ ours.cids.Subperm other.cids) (h2 : ¬ other.cids.Subperm ours.cids) :
    mergePeer ours other = .error () := by
  rw [C15_merge_spec]; split <;> simp [h1, h2]

/-- **Nested sets are accepted and the larger one is kept** (current contains previous). -/
theorem C15_nested_keeps_larger (ours other : PeerInfo) (h : ours.cids.Subperm other.cids) :
    ∃ kept, mergePeer ours other = .ok kept ∧ kept.cids.Perm other.cids ∧
      (kept = other ∨ (kept = ours ∧ ours.cids.length = other.cids.length)) := by
  rw [C15_merge_spec]
  by_cases hl : ours.cids.length < other.cids.length
  · exact ⟨other, by simp [hl, h], List.Perm.refl _, .inl rfl⟩
  · have hle : other.cids.length ≤ ours.cids.length := Nat.le_of_not_lt hl
    have hperm : ours.cids.Perm other.cids := h.perm_of_length_le hle
    exact ⟨ours, by simp [hl, hperm.symm.subperm], hperm, .inr ⟨rfl, hperm.length_eq⟩⟩

/-- symmetric case: previous contains current — the previous entry is kept -/
theorem C15_nested_keeps_larger' (ours other : PeerInfo) (h : other.cids.Subperm ours.cids) :
    ∃ kept, mergePeer ours other = .ok kept ∧ kept.cids.Perm ours.cids := by
  rw [C15_merge_spec]
  by_cases hl : ours.cids.length < other.cids.length
  · have : ours.cids.Perm other.cids := by
      have := h.perm_of_length_le (Nat.le_of_lt hl)
      exact this.symm
    exact ⟨other, by simp [hl, this.subperm], this.symm⟩
  · exact ⟨ours, by simp [hl, h], List.Perm.refl _⟩

/-- a successful merge never invents an entry: the kept one is one of the two inputs and both inputs
are contained in it -/
theorem C15_kept_contains_both (ours other kept : PeerInfo) (h : mergePeer ours other = .ok kept) :
    (kept = ours ∨ kept = other) ∧ ours.cids.Subperm kept.cids ∧ other.cids.Subperm kept.cids := by
  rw [C15_merge_spec] at h
  by_cases hl : ours.cids.length < other.cids.length
  · simp only [hl, if_true] at h
    by_cases hs : ours.cids.Subperm other.cids
    · simp only [hs, if_true] at h; cases h
      exact ⟨.inr rfl, hs, List.Subperm.refl _⟩
    · simp [hs] at h
  · simp only [hl, if_false] at h
    by_cases hs : other.cids.Subperm ours.cids
    · simp only [hs, if_true] at h; cases h
      exact ⟨.inl rfl, List.Subperm.refl _, hs⟩
    · simp [hs] at h

/-- with the staged runner (C02): a failing verification stage returns the previous data untouched -/
theorem C15_rejected_returns_prev {B D S A C K X : Type} (St : Stages B D S A C K X) (l : Limits) (inp : RunInput B)
    (p c : D) (e : Err)
    (hsize : ∃ f, checkAgainstSizeLimits l inp.air.utf8ByteSize (St.blob.len inp.cur) = .ok f)
    (hp : St.parseData inp.prev inp.cur = .ok (p, c))
    (hv : St.verify p c inp.params.particleId = .error e) :
    let o := executeAir St l inp
    o.retCode = e.code ∧ o.data = inp.prev ∧ o.nextPeerPks = [] ∧ o.callRequests = St.emptyCallRequests := by
  obtain ⟨f, hf⟩ := hsize
  simp [executeAir, hf, hp, hv, fromUncatchableError]

/-! ## Non-vacuity and the multiplicity case that plain set inclusion would miss -/
def pX : PeerInfo := ⟨"pk", "sig1", ["X", "X"]⟩
def pXYZ : PeerInfo := ⟨"pk", "sig2", ["X", "Y", "Z"]⟩
example : mergePeer pX pXYZ = .error () := by decide      -- {X,X} vs {X,Y,Z}: sets nested, multisets not
example : mergePeer pXYZ pX = .error () := by decide
example : mergePeer ⟨"pk", "s1", ["X"]⟩ ⟨"pk", "s2", ["X", "Y"]⟩ = .ok ⟨"pk", "s2", ["X", "Y"]⟩ := by decide
example : mergePeer ⟨"pk", "s1", ["X", "Y"]⟩ ⟨"pk", "s2", ["Y", "X"]⟩ = .ok ⟨"pk", "s1", ["X", "Y"]⟩ := by decide

end AquaProps.C15
