import AquaProps.Lemmas.MergeLattice
import AquaProps.Lemmas.CallRepush
/-!
# C09 — merging never forgets a result

Proved here (for ALL pairs of states, also adversarial ones): whenever the per-state merge of the
trace handler succeeds, every executed / failed call result and every executed canon result held by
either side is kept with the same content; the merge never panics.
The run-level statement (`C09_full`) additionally needs that every state of the previous and of the
current trace is *consumed* by a merger during the run; that part is checked on every step of
simulated histories by the direct oracle (multiset inclusion of result ids and of the CID stores)
and by the lock-step correspondence, not proved — hence the `_partial` names.
-/
namespace AquaProps.C09
open Aqua Aqua.Data Aqua.Trace AquaProps.Merge

/-- full run-level statement, kept visible: `results d` is the multiset of result content ids of data `d` -/
def C09_full (results : α → List (String × String)) (run : α → α → Option α) : Prop :=
  ∀ prev cur out, run prev cur = some out →
    (∀ r, (results prev).count r ≤ (results out).count r) ∧ (∀ r, (results cur).count r ≤ (results out).count r)

theorem C09_call_result_kept_partial (p c m : CallResult) (s : PreparationScheme) (h : mergeCallResults p c = .ok (m, s)) :
    (isResult p → contentOf m = contentOf p) ∧ (isResult c → contentOf m = contentOf c) :=
  mergeCall_keeps_results p c m s h

theorem C09_canon_result_kept_partial (p c m : CanonResult) (h : mergeCanonResults p c = .ok m) :
    (∀ x, canonContent p = some x → canonContent m = some x) ∧ (∀ x, canonContent c = some x → canonContent m = some x) :=
  (mergeCanon_keeps p c m h).2

/-- a merged state is always one of the two inputs: merging invents nothing -/
theorem C09_merge_invents_nothing_partial (p c m : CallResult) (s : PreparationScheme) (h : mergeCallResults p c = .ok (m, s)) :
    m = p ∨ m = c := (mergeCall_upper p c m s h).2.2

/-- a state present on one side only is handed to the executor unchanged (`prepare_call_result`) -/
theorem C09_single_side_kept_partial (k : DataKeeper) (r : MergerCallResult) (k' : DataKeeper) (st : CallResult)
    (hp : k.prev.nextState.1 = some (.call st)) (hc : k.cur.nextState.1 = none)
    (h : tryMergeNextStateAsCall k = .ok (r, k')) : ∃ pos src, r = .met ⟨st, pos, src⟩ := by
  unfold tryMergeNextStateAsCall nextStates at h
  simp only [hp, hc] at h
  unfold prepareCallResult at h
  simp only [bind, Res.bind] at h
  split at h
  · injection h with h; injection h with h1 _; exact ⟨_, _, h1.symm⟩
  · cases h
  · cases h

example : mergeCallResults (.requestSentBy (.peerId "a")) (.executed (.scalar "cid")) = .ok (.executed (.scalar "cid"), .current) := rfl


/-! ## run level, one instruction at a time: the state a `call` consumed is pushed again

`callTail` is what a call instruction does after the trace handler handed it the merged state `m`
(proved equal to the tail of `resolvedExecute` in C05).  For EVERY context: -/

open Aqua.Exec Aqua.Air AquaProps.C05 in
/-- **A result found in the merged data is re-emitted unchanged**: if the merged state of a call is
`Executed v` and the call step returns normally, exactly one state was appended to the result trace and it
is `Executed v` again. -/
theorem C09_result_reemitted_partial (env : Env) (m : MetCallResult) (t : Tetraplet) (ah : Option String) (out : CallOutput)
    (args : List Value) (v : ValueRef) (hres : m.result = .executed v) (c : Ctx)
    (hok : (callTail env (.met m) t ah out args c).1 = .ok ()) :
    Repushed m.result c (callTail env (.met m) t ah out args c).2 :=
  callTail_executed_repushed env m t ah out args v hres c hok

open Aqua.Exec Aqua.Air AquaProps.C05 in
/-- **A pending own request without a result is re-emitted as it is.** -/
theorem C09_pending_request_reemitted_partial (env : Env) (m : MetCallResult) (t : Tetraplet) (ah : Option String)
    (out : CallOutput) (args : List Value) (id : Nat) (c : Ctx)
    (hres : m.result = .requestSentBy (.peerIdWithCallId c.currentPeerId id))
    (hnone : lookup c.callResults (toString id) = none) :
    (callTail env (.met m) t ah out args c).1 = .ok () ∧
    tr (callTail env (.met m) t ah out args c).2 = tr c ++ [.call m.result] :=
  callTail_pending_repushed env m t ah out args id c hres hnone

end AquaProps.C09
