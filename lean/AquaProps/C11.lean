import Aqua.Exec.Exec
import AquaProps.Lemmas.ExecRel
/-!
# C11 — a canonicalized stream is fixed once and identical everywhere

Theorems about the three `canon` instructions of the executor model (`canon.rs`, `canon_map.rs`,
`canon_stream_map_scalar.rs`, `canon_utils/mod.rs`; `CanonTarget` says which of a canon stream, a canon stream
map or a scalar is bound), for EVERY context and EVERY target:

* `C11_executed_ignores_streams`: once the merged data holds `Executed(cid)` for a canon instruction, what
  the instruction binds is rebuilt from the CID stores alone — the live stream plays no role: two contexts
  that differ only in their streams bind the same canon stream and push the same state;
* `C11_bound_value_function_of_cid`: the bound values are a function of `cid` and the stores
  (`canonFromStores`);
* `C11_created_only_at_target`: a canon addressed to another peer is never created locally: the state
  pushed is a request and nothing is bound;
* `C11_snapshot_is_iteration_order`: the first execution takes exactly the stream's values in the stream's
  iteration order (previous, current, new);
* `C11_merge_rejects_two_results`: two different `Executed` results for one canon instruction never merge.

History level (every peer binds the designated peer's first snapshot) additionally needs that the
`Executed` state is retained by every later merge (C09) and that the stores keep the referenced entries
(C03/C20); those are covered per step by the oracles, not proved here.
-/
namespace AquaProps.C11
open Aqua Aqua.Exec Aqua.Air Aqua.Json Aqua.Data Aqua.Trace AquaProps

theorem M_bind_apply {α β : Type} (m : M α) (f : α → M β) (c : Ctx) :
    (m >>= f) c = (match m c with
      | (.ok a, c') => f a c'
      | (.error e, c') => (.error e, c')
      | (.panic s, c') => (.panic s, c')) := rfl

/-- what the executed canon reads does not depend on the stream store -/
theorem canonRead_ignores_streams (env : Env) (peer : Value) (cid : Cid) (c : Ctx) (streams' : List (String × List StreamDesc)) :
    canonRead env peer cid { c with streams := streams' } = canonRead env peer cid c := by
  unfold canonRead
  have : resolveToString { c with streams := streams' } peer = resolveToString c peer := by
    cases peer <;> rfl
  rw [this]

/-- **The live stream is irrelevant once the canon is executed**: replacing the stream store of the
context by anything else changes neither the outcome, nor the bound canon stream, nor the trace, nor the
registered ids — the resulting context is the same up to that very replacement. -/
theorem canonBind_ignores_streams (target : CanonTarget) (cs : CanonStream) (cid : Cid) (c : Ctx) (streams' : List (String × List StreamDesc)) :
    canonBind target cs cid { c with streams := streams' } = canonBind target cs cid c := by
  cases target <;> rfl

theorem C11_executed_ignores_streams (env : Env) (name : CanonTarget) (peer : Value) (cid : Cid) (c : Ctx)
    (streams' : List (String × List StreamDesc)) :
    (canonExecuted env name peer cid { c with streams := streams' }).1 = (canonExecuted env name peer cid c).1 ∧
    (canonExecuted env name peer cid { c with streams := streams' }).2 =
      { (canonExecuted env name peer cid c).2 with streams := streams' } := by
  unfold canonExecuted
  simp only [M_bind_apply, readER, canonRead_ignores_streams]
  cases hr : canonRead env peer cid c with
  | ok cs =>
    simp only
    unfold canonFinish modifyER
    simp only [canonBind_ignores_streams]
    cases hs : canonBind name cs cid c with
    | ok sc =>
      simp only [hs, bind, Res.bind, pure]
      refine ⟨by first | rfl | trivial, ?_⟩
      unfold Ctx.recordCanonCid
      simp only
      split <;> rfl
    | error e => simp only [hs, bind, Res.bind]; constructor <;> first | rfl | trivial
    | panic p => simp only [hs, bind, Res.bind]; constructor <;> first | rfl | trivial
  | error e => constructor <;> first | rfl | trivial
  | panic p => constructor <;> first | rfl | trivial

/-- **The bound value is a function of the content id, the stores and the resolved peer**: when an executed
canon is accepted, what is bound under the canon's name (`canonBind`: the canon stream, the canon map built from
it by `CanonStreamMap::from_canon_stream`, or its single value as a scalar) is computed from `canonRead` of its id. -/
theorem C11_bound_value_function_of_cid (env : Env) (name : CanonTarget) (peer : Value) (cid : Cid) (c : Ctx)
    (h : (canonExecuted env name peer cid c).1 = .ok ()) :
    ∃ cs sc, canonRead env peer cid c = .ok cs ∧ canonBind name cs cid c = .ok sc ∧
      (canonExecuted env name peer cid c).2.scalars = sc := by
  unfold canonExecuted at h ⊢
  simp only [M_bind_apply, readER] at h ⊢
  cases hr : canonRead env peer cid c with
  | ok cs =>
    simp only [hr] at h ⊢
    unfold canonFinish modifyER at h ⊢
    cases hs : canonBind name cs cid c with
    | ok sc =>
      simp only [hs, bind, Res.bind, pure] at h ⊢
      first | exact ⟨cs, sc, rfl, rfl, rfl⟩ | exact ⟨cs, sc, rfl, hs, rfl⟩ | exact ⟨cs, sc, trivial, hs, rfl⟩
    | error e => simp [hs, bind, Res.bind] at h
    | panic p => simp [hs, bind, Res.bind] at h
  | error e => simp [hr] at h
  | panic p => simp [hr] at h

/-- the context change of a canon addressed elsewhere: no binding, no store change, a request state -/
structure NotCreated (c c' : Ctx) : Prop where
  scalars : c'.scalars = c.scalars
  cid : c'.cid = c.cid
  peerCids : c'.peerCids = c.peerCids
  pushed : ∃ s, c'.th.keeper.resultTrace = c.th.keeper.resultTrace ++ [.canon (.requestSentBy s)]

/-- **A canon is created only at its designated peer**: when no state exists yet (`met = .empty`) or only a
request (`met = .canonResult (.requestSentBy _)`), and the resolved peer is not the current peer, the
instruction binds nothing, tracks nothing, registers nothing and pushes a request state. -/
theorem C11_created_only_at_target (env : Env) (i : Instr) (peer : Value) (stream : String) (pos : Nat) (name : CanonTarget)
    (c : Ctx) (th' : TraceHandler) (met : MergerCanonResult) (peerId : String)
    (hm : c.th.meetCanonStart = .ok (met, th')) (hmet : met = .empty ∨ ∃ s, met = .canonResult (.requestSentBy s))
    (hp : resolveToString { c with th := th' } peer = .ok peerId) (hne : peerId ≠ c.currentPeerId) :
    NotCreated { c with th := th' } (execCanon env i peer stream pos name c).2 := by
  have hbne : (c.currentPeerId != peerId) = true := by
    simp only [bne_iff_ne, ne_eq]; exact fun h => hne h.symm
  have hlift : (liftTH i (fun th => th.meetCanonStart)) c = (.ok met, { c with th := th' }) := by
    unfold liftTH stateER traceToExec
    simp [hm, Res.mapErr, Res.bind]
  unfold execCanon
  rw [M_bind_apply, hlift]
  rcases hmet with rfl | ⟨s, rfl⟩
  · simp only
    rw [M_bind_apply]
    have hj : (joinable (readER fun c => resolveToString c peer)) { c with th := th' } = (.ok (some peerId), { c with th := th' }) := by
      unfold joinable readER; simp [hp]
    rw [hj]
    simp only
    rw [M_bind_apply]
    simp only [readCtx, hbne, if_true, modifyCtx]
    exact ⟨rfl, rfl, rfl, c.currentPeerId, rfl⟩
  · simp only
    rw [M_bind_apply]
    simp only [readER, hp]
    rw [M_bind_apply]
    simp only [readCtx, hbne, if_true, modifyCtx]
    exact ⟨rfl, rfl, rfl, s, rfl⟩

/-- **The first execution snapshots the stream in its iteration order**: the values put into the canon are
exactly `Stream::iter()` of the instance visible at the canon's position — previous, then current, then
new values, each by generation. -/
theorem C11_snapshot_is_iteration_order (env : Env) (target : CanonTarget) (hts : ∀ n, target ≠ .scalar n)
    (stream : String) (pos : Nat) (peerId : String) (c : Ctx) (s : Stream)
    (hs : c.getStream stream pos = some s) :
    (updCanonTrack env target stream pos peerId c).1.1.values = s.prev.all ++ s.cur.all ++ s.new.all ∧
    (updCanonTrack env target stream pos peerId c).1.1.tetraplet = { peerPk := peerId } := by
  unfold updCanonTrack canonProduce
  simp only [hs]
  cases target with
  | stream n => constructor <;> first | rfl | trivial
  | map n => constructor <;> first | rfl | trivial
  | scalar n => exact absurd rfl (hts n)

example : ∀ n, CanonTarget.map "#%m" ≠ .scalar n := by intro n h; cases h

/-- **The scalar form of a map canon** (`canon peer %map scalar`) snapshots ONE literal value: the object of the
map's unique rendered keys (first pair of every key, in the stream map's iteration order) -/
theorem C11_map_scalar_snapshot (env : Env) (name : String) (map : String) (pos : Nat) (peerId : String) (c : Ctx) (s : Stream)
    (hs : c.getStream map pos = some s) :
    (updCanonTrack env (.scalar name) map pos peerId c).1.1.values =
      [⟨JVal.mkObj (iterUniqueKeyObject (s.prev.all ++ s.cur.all ++ s.new.all) []), Tetraplet.literal peerId, 0, .literal⟩] := by
  unfold updCanonTrack canonProduce
  simp only [hs]
  rfl

/-- **An executed canon map is rebuilt from the stores only**: the instance of `C11_executed_ignores_streams` for
`canon peer %map #%canon_map` — the live stream map plays no role once `Executed(cid)` is in the data. -/
theorem C11_executed_map_ignores_streams (env : Env) (name : String) (peer : Value) (cid : Cid) (c : Ctx)
    (streams' : List (String × List StreamDesc)) :
    (canonExecuted env (.map name) peer cid { c with streams := streams' }).1 = (canonExecuted env (.map name) peer cid c).1 ∧
    (canonExecuted env (.map name) peer cid { c with streams := streams' }).2 =
      { (canonExecuted env (.map name) peer cid c).2 with streams := streams' } :=
  C11_executed_ignores_streams env (.map name) peer cid c streams'

/-- the pairs of a canon map built from a canon stream are the canon stream's values, in order -/
theorem C11_canon_map_values (cs : CanonStream) (m : CanonStreamMapAgg) (h : CanonStreamMapAgg.fromCanonStream cs = .ok m) :
    m.values = cs.values ∧ m.tetraplet = cs.tetraplet := by
  unfold CanonStreamMapAgg.fromCanonStream at h
  split at h
  · injection h with h; subst h; exact ⟨rfl, rfl⟩
  · cases h
  · cases h

/-- **Two different results for one canon instruction are incompatible**: the merger refuses them, so a
peer can never hold two canonical values for one instruction. -/
theorem C11_merge_rejects_two_results (a b : Cid) (h : a ≠ b) :
    mergeCanonResults (.executed a) (.executed b) = .error .incorrectCanonResult := by
  unfold mergeCanonResults
  have : ¬ (CanonResult.executed a = CanonResult.executed b) := by
    intro heq; injection heq with heq; exact h heq
  simp [this, h]

/-- equal results merge to that result (the previous one is kept) -/
theorem C11_merge_keeps_equal (a : Cid) : mergeCanonResults (.executed a) (.executed a) = .ok (.executed a) := by
  unfold mergeCanonResults; simp

/-- a result always wins over a request, from whichever side it comes -/
theorem C11_merge_result_wins (a : Cid) (p : String) :
    mergeCanonResults (.requestSentBy p) (.executed a) = .ok (.executed a) ∧
    mergeCanonResults (.executed a) (.requestSentBy p) = .ok (.executed a) := by
  unfold mergeCanonResults; exact ⟨rfl, rfl⟩

end AquaProps.C11
