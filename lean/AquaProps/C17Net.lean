import AquaProps.Lemmas.NetLift
import AquaProps.C17
/-!
# C17 along whole histories (`Aqua.Net`)

`C17_run_requests` needs the incoming tetraplet stores to be keyed by content.  For honest histories this is
not an assumption: the stores a run returns are keyed (the invariant `EnvInv` is preserved by every script),
hosts store and forward exactly what runs return, so by induction over the events every stored data and every
message on the wire is keyed — whatever the script, the services and the schedule.  Hence the specification
of tetraplets holds for every request any host is ever handed, including for values that arrived through
merged data.
-/
namespace AquaProps.C17
open Aqua Aqua.Exec Aqua.Air Aqua.Data Aqua.Net AquaProps AquaProps.NetLift

/-- every data the hosts hold or have sent, and the inputs of every recorded run, have content-keyed tetraplet stores -/
structure KeyedNet (env : Env) (st : NetSt) : Prop where
  stored : ∀ q, KeyedList env (peerSt st q).data.cid.tetraplets
  wire : ∀ m ∈ st.wire, KeyedList env m.data.cid.tetraplets
  runs : ∀ r ∈ st.runs, KeyedList env r.prev.cid.tetraplets ∧ KeyedList env r.cur.cid.tetraplets

theorem keyedList_nil (env : Env) : KeyedList env [] := fun e he => by cases he

/-- what a genuine run on keyed inputs returns is keyed -/
theorem genuine_newData_keyed {env : Env} {P : Particle} {r : Run} (hg : Genuine env P r)
    (hp : KeyedList env r.prev.cid.tetraplets) (hc : KeyedList env r.cur.cid.tetraplets) :
    KeyedList env r.newData.cid.tetraplets := by
  unfold Run.newData
  split
  · -- accepted: the stores of the final context, untouched by the farewell compaction
    show KeyedList env r.out.cid.tetraplets
    unfold Genuine at hg
    have hout : r.out = (runExecFarewell env r.fuel P.script r.prev r.cur ⟨P.initPeer, r.peer, P.timestamp, P.ttl⟩ r.results).2 := by
      rw [← hg]
    have hinv := C17_env_inv_preserved env r.fuel P.script _ (envInv_initCtx env r.prev r.cur ⟨P.initPeer, r.peer, P.timestamp, P.ttl⟩ r.results hp hc)
    have hk : KeyedList env (runExec env r.fuel P.script r.prev r.cur ⟨P.initPeer, r.peer, P.timestamp, P.ttl⟩ r.results).2.cid.tetraplets := hinv.keyed
    rw [hout]
    unfold runExecFarewell
    cases hx : runExec env r.fuel P.script r.prev r.cur ⟨P.initPeer, r.peer, P.timestamp, P.ttl⟩ r.results with
    | mk res cx =>
      rw [hx] at hk
      simp only at hk ⊢
      have key : ∀ c', cx.compactifyStreams = .ok c' → KeyedList env c'.cid.tetraplets := by
        intro c' hcomp
        rw [(compactifyStreams_frame hcomp).2.2.2.2]; exact hk
      cases res with
      | ok u =>
        cases u
        simp only
        cases hcomp : cx.compactifyStreams with
        | ok c' => exact key c' hcomp
        | error e => exact hk
        | panic s => exact hk
      | error e =>
        cases e with
        | catchable ce =>
          simp only
          cases hcomp : cx.compactifyStreams with
          | ok c' => exact key c' hcomp
          | error e => exact hk
          | panic s => exact hk
        | uncatchable ue => exact hk
        | unmodelled w => exact hk
      | panic s => exact hk
  · exact hp

theorem keyedNet_absorb {env : Env} {P : Particle} {st : NetSt} (h : KeyedNet env st) (r : Run) (hg : Genuine env P r)
    (hp : r.prev = (peerSt st r.peer).data) (hc : KeyedList env r.cur.cid.tetraplets) : KeyedNet env (absorb st r) := by
  have hprev : KeyedList env r.prev.cid.tetraplets := by rw [hp]; exact h.stored r.peer
  have hnew := genuine_newData_keyed hg hprev hc
  refine ⟨?_, ?_, ?_⟩
  · intro q
    by_cases hq : q = r.peer
    · subst hq
      show KeyedList env ((lookup (upsert st.peers r.peer _) r.peer).getD {}).data.cid.tetraplets
      rw [peerSt_upsert_self]; exact hnew
    · show KeyedList env ((lookup (upsert st.peers r.peer _) q).getD {}).data.cid.tetraplets
      rw [peerSt_upsert_other _ _ _ _ hq]; exact h.stored q
  · intro m hm
    have : m ∈ st.wire ++ r.nextPeers.map (fun q => (⟨q, r.newData⟩ : Msg)) := hm
    rcases List.mem_append.mp this with hm | hm
    · exact h.wire m hm
    · obtain ⟨q, _, rfl⟩ := List.mem_map.mp hm
      exact hnew
  · intro x hx
    have : x ∈ st.runs ++ [r] := hx
    rcases List.mem_append.mp this with hx | hx
    · exact h.runs x hx
    · simp at hx; subst hx; exact ⟨hprev, hc⟩

theorem keyedNet_step {env : Env} {svc : Services} {P : Particle} {st st' : NetSt} {e : Event}
    (h : KeyedNet env st) (hs : step env svc P st e = some st') : KeyedNet env st' := by
  cases e with
  | start =>
    simp only [step] at hs
    split at hs
    · injection hs with hs; subst hs
      exact keyedNet_absorb h _ (invoke_genuine ..) rfl (keyedList_nil env)
    · cases hs
  | deliver k dup =>
    simp only [step] at hs
    split at hs
    · cases hs
    · rename_i m hm
      injection hs with hs; subst hs
      have hmem : m ∈ st.wire := List.mem_of_getElem? hm
      cases dup with
      | true => exact keyedNet_absorb h _ (invoke_genuine ..) rfl (h.wire m hmem)
      | false =>
        have h' : KeyedNet env { st with wire := st.wire.eraseIdx k } :=
          ⟨h.stored, fun x hx => h.wire x (List.mem_of_mem_eraseIdx hx), h.runs⟩
        exact keyedNet_absorb h' _ (invoke_genuine ..) rfl (h.wire m hmem)
  | answer q ids =>
    simp only [step] at hs
    split at hs
    · cases hs
    · injection hs with hs; subst hs
      exact keyedNet_absorb h _ (invoke_genuine ..) rfl (keyedList_nil env)

theorem keyedNet_play {env : Env} {svc : Services} {P : Particle} : ∀ (es : List Event) {st st' : NetSt},
    KeyedNet env st → play env svc P st es = some st' → KeyedNet env st'
  | [], st, st', h, hp => by simp only [play] at hp; injection hp with hp; subst hp; exact h
  | e :: es, st, st', h, hp => by
    simp only [play] at hp
    split at hp
    · rename_i st1 hs
      exact keyedNet_play es (keyedNet_step h hs) hp
    · cases hp

theorem reachable_keyed {env : Env} {svc : Services} {P : Particle} {st : NetSt} (h : Reachable env svc P st) : KeyedNet env st := by
  obtain ⟨es, hp⟩ := h
  refine keyedNet_play es ?_ hp
  exact { stored := fun _ => keyedList_nil env, wire := fun m hm => (by cases hm), runs := fun r hr => (by cases hr) }

/-- **Tetraplets along any honest history**: every call request any host is ever handed — in every reachable state
of the network, for every script, every behaviour of the services and every schedule of deliveries, duplicates
and late answers — was built in a context satisfying the provenance invariant and carries, per argument, exactly
the tetraplets the specification assigns (for the argument forms the specification covers), also when the value
arrived through merged data of other peers. -/
theorem C17_network_requests (env : Env) (svc : Services) (P : Particle) (st : NetSt) (h : Reachable env svc P st) :
    ∀ r ∈ st.runs, ∀ x ∈ r.requests, ∃ (c0 : Ctx) (args : List Value), EnvInv env c0 ∧
      x.2.arguments.length = args.length ∧ x.2.tetraplets.length = args.length ∧
      ∀ (j : Nat) (a : Value) (ts : List Tetraplet), args[j]? = some a → x.2.tetraplets[j]? = some ts → Covered a = true →
        expectedTetraplets a (prov c0) = some ts := by
  intro r hr x hx
  have hg := (reachable_inv h).genuine r hr
  obtain ⟨hp, hc⟩ := (reachable_keyed h).runs r hr
  unfold Run.requests at hx
  split at hx
  · have hf := farewell_frame env r.fuel P.script r.prev r.cur ⟨P.initPeer, r.peer, P.timestamp, P.ttl⟩ r.results
    unfold Genuine at hg
    have hout : r.out = (runExecFarewell env r.fuel P.script r.prev r.cur ⟨P.initPeer, r.peer, P.timestamp, P.ttl⟩ r.results).2 := by
      rw [← hg]
    simp only at hf
    rw [← hout] at hf
    rw [hf.1] at hx
    exact C17_run_requests env r.fuel P.script r.prev r.cur ⟨P.initPeer, r.peer, P.timestamp, P.ttl⟩ r.results hp hc x hx
  · cases hx

end AquaProps.C17
