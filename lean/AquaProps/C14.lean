import AquaProps.Lemmas.VerifyData
import AquaProps.Lemmas.SaltedData
import AquaProps.Lemmas.UseSite
import AquaProps.Lemmas.C14Toy
import AquaProps.Lemmas.C14ToyReject
import AquaProps.Lemmas.C14ToyReject2
import Aqua.Exec.Run
/-!
# C14 — forged or replayed results of other peers are never accepted

Model: `Aqua.Run.VerifyData` (the verification step: `CidInfo::verify`, `DataVerifier::{new,verify}`,
`collect_peers_cids_from_trace`), `Aqua.Crypto.SigScheme` (what is signed — the borsh bytes of the
sorted CID list and the particle id — and the symbolic signature scheme), `Aqua.Exec.Call`
(`handle_prev_state`: where a result from merged data enters the execution context).

The current data `cur` is universally quantified everywhere: it is whatever the attacker sends.
The attacker is limited only by the signature scheme (`SigScheme.verify_iff`, `SigScheme.Free`).
-/
namespace AquaProps.C14
open Aqua Aqua.Data Aqua.Exec Aqua.Run Aqua.Crypto AquaProps.VerifyLemmas AquaProps.SaltedData AquaProps.UseSite

/-! ## 1. verified ⇒ the owner's signature covers exactly the CIDs attributed to it, for this particle -/

/-- **C14_verified_cids_signed** — if the verification step accepts `cur` for particle `particle`
then for every state of the trace attributed (through the stores) to a peer `q` under CID `cid`,
the signature store holds a key of `q` whose signature verifies over *the sorted list of all CIDs
attributed to `q` in this trace* salted with *this* particle id; `cid` is a member of that list. -/
theorem C14_verified_cids_signed (E : VerifyEnv) (cur : VData E) (particle : String)
    (h : verifyData E cur particle = .ok ()) :
    ∀ st ∈ cur.trace, ∀ q cid, stateContribution cur.cidInfo st = .ok (some (q, cid)) →
      cid ∈ sortCids (peerCids cur.cidInfo cur.trace q) ∧
      ∃ pk sig m, (pk, sig) ∈ cur.signatures ∧ E.validate pk = true ∧ E.toPeerId pk = q ∧
        saltedData (sortCids (peerCids cur.cidInfo cur.trace q)) particle = some m ∧
        E.verifySig pk m sig = true := by
  intro st hst q cid hq
  obtain ⟨_, hval, _, hall⟩ := verifyData_ok h
  obtain ⟨pk, sig, m, hmem, hpid, hm, hv⟩ := hall st hst q cid hq
  refine ⟨?_, pk, sig, m, hmem, hval _ hmem, hpid, hm, hv⟩
  have : cid ∈ peerCids cur.cidInfo cur.trace q := by
    unfold peerCids
    exact List.mem_filterMap.mpr ⟨st, hst, by simp [hq]⟩
  exact (List.mergeSort_perm _ _).mem_iff.mpr this

/-- under the symbolic scheme: the stored signature *is* the term `sign sk m` for the secret key of the
owner's public key and `m` = the salted, sorted CID list — only the owner of `sk` can have built it -/
theorem C14_verified_cids_signed_by_owner (S : SigScheme) (validate : S.PublicKey → Bool)
    (toPeerId keyText : S.PublicKey → String) (sigText : S.Sig → String)
    (cidCheck : Cid → Bytes → Except CidVerificationError Unit)
    (cur : VData (VerifyEnv.ofScheme S validate toPeerId keyText sigText cidCheck)) (particle : String)
    (h : verifyData _ cur particle = .ok ()) :
    ∀ st ∈ cur.trace, ∀ q cid, stateContribution cur.cidInfo st = .ok (some (q, cid)) →
      ∃ (sk : S.SecretKey) (m : Bytes), (S.pub sk, S.sign sk m) ∈ cur.signatures ∧ toPeerId (S.pub sk) = q ∧
        saltedData (sortCids (peerCids cur.cidInfo cur.trace q)) particle = some m := by
  intro st hst q cid hq
  obtain ⟨_, pk, sig, m, hmem, _, hpid, hm, hv⟩ := C14_verified_cids_signed _ cur particle h st hst q cid hq
  obtain ⟨sk, rfl, rfl⟩ := (S.verify_iff pk m sig).mp hv
  exact ⟨sk, m, hmem, hpid, hm⟩

/-- peers of the signature store *without* any result in the trace are checked too: their signature
must cover the empty list for this particle (a stale signature of a peer whose results were removed
is rejected) -/
theorem C14_every_stored_signature_checked (E : VerifyEnv) (cur : VData E) (particle : String)
    (h : verifyData E cur particle = .ok ()) :
    ∀ s ∈ cur.signatures, ∃ pk sig m, (pk, sig) ∈ cur.signatures ∧ E.toPeerId pk = E.toPeerId s.1 ∧
      saltedData (sortCids (peerCids cur.cidInfo cur.trace (E.toPeerId s.1))) particle = some m ∧
      E.verifySig pk m sig = true :=
  (verifyData_ok h).2.2.1

/-- **what the verification step does NOT see** (the formal side of the known finding
`call-result-kind-not-authenticated`): a `failed(cid)` state, an `executed(scalar cid)` state and an
`executed(stream cid g)` state contribute the same (peer, cid) to the signed lists — the Executed/Failed kind
of a call result is covered neither by the CID (same aggregate) nor by the signature -/
theorem C14_kind_invisible_to_verification (ci : CidInfo) (cid : Cid) (g : Nat) :
    stateContribution ci (.call (.failed cid)) = stateContribution ci (.call (.executed (.scalar cid))) ∧
    stateContribution ci (.call (.executed (.stream cid g))) = stateContribution ci (.call (.executed (.scalar cid))) := by
  simp [stateContribution, CallResult.getCid]

/-! ## 2. a CID determines the content stored under it -/

/-- the hash check is collision free and the serialisations injective *on the inputs compared*:
two values accepted under the same CID are equal (per store) -/
structure ContentBinding (E : VerifyEnv) : Prop where
  value : ∀ cid (a b : String), E.cidCheck cid (strBytes a) = .ok () → E.cidCheck cid (strBytes b) = .ok () → a = b
  tetraplet : ∀ cid (a b : Tetraplet), E.cidCheck cid (strBytes a.json) = .ok () → E.cidCheck cid (strBytes b.json) = .ok () → a = b
  serviceResult : ∀ cid (a b : ServiceResultAgg), E.cidCheck cid (strBytes a.json) = .ok () → E.cidCheck cid (strBytes b.json) = .ok () → a = b
  canonElement : ∀ cid (a b : CanonCidAggregate), E.cidCheck cid (strBytes a.json) = .ok () → E.cidCheck cid (strBytes b.json) = .ok () → a = b
  canonResult : ∀ cid (a b : CanonResultCidAggregate), E.cidCheck cid (strBytes a.json) = .ok () → E.cidCheck cid (strBytes b.json) = .ok () → a = b

/-- what a call-result CID stands for: (value text, tetraplet, argument hash) -/
def resolveResult (ci : CidInfo) (cid : Cid) : Option (String × Tetraplet × String) :=
  match lookup ci.serviceResults cid with
  | none => none
  | some sr =>
    match lookup ci.values sr.valueCid, lookup ci.tetraplets sr.tetrapletCid with
    | some v, some t => some (v, t, sr.argumentHash)
    | _, _ => none

/-- what a canon element CID stands for: (value text, tetraplet, provenance) -/
def resolveCanonElement (ci : CidInfo) (cid : Cid) : Option (String × Tetraplet × Provenance) :=
  match lookup ci.canonElements cid with
  | none => none
  | some ce =>
    match lookup ci.values ce.value, lookup ci.tetraplets ce.tetraplet with
    | some v, some t => some (v, t, ce.provenance)
    | _, _ => none

/-- what a canon-result CID stands for: the canon tetraplet and the elements -/
def resolveCanon (ci : CidInfo) (cid : Cid) : Option (Tetraplet × List (Option (String × Tetraplet × Provenance))) :=
  match lookup ci.canonResults cid with
  | none => none
  | some cr =>
    match lookup ci.tetraplets cr.tetraplet with
    | some t => some (t, cr.values.map (resolveCanonElement ci))
    | none => none

/-- **C14_content_bound** — in any two verified CID stores (say the honest data and a tampered copy)
the same call-result CID stands for the same value, the same tetraplet (peer, service, function,
lens) and the same argument hash: none of them can be altered while keeping the CID. -/
theorem C14_content_bound (E : VerifyEnv) (hb : ContentBinding E) (ci₁ ci₂ : CidInfo)
    (h₁ : ci₁.verify E = .ok ()) (h₂ : ci₂.verify E = .ok ()) (cid : Cid)
    (r₁ r₂ : String × Tetraplet × String)
    (hr₁ : resolveResult ci₁ cid = some r₁) (hr₂ : resolveResult ci₂ cid = some r₂) : r₁ = r₂ := by
  have s₁ := verify_ok h₁
  have s₂ := verify_ok h₂
  unfold resolveResult at hr₁ hr₂
  cases ha₁ : lookup ci₁.serviceResults cid with
  | none => simp [ha₁] at hr₁
  | some a₁ =>
    cases ha₂ : lookup ci₂.serviceResults cid with
    | none => simp [ha₂] at hr₂
    | some a₂ =>
      have e : a₁ = a₂ := hb.serviceResult cid a₁ a₂ (s₁.serviceResult _ _ (lookup_mem ha₁)) (s₂.serviceResult _ _ (lookup_mem ha₂))
      subst e
      simp only [ha₁, ha₂] at hr₁ hr₂
      cases hv₁ : lookup ci₁.values a₁.valueCid with
      | none => simp [hv₁] at hr₁
      | some v₁ =>
        cases hv₂ : lookup ci₂.values a₁.valueCid with
        | none => simp [hv₂] at hr₂
        | some v₂ =>
          cases ht₁ : lookup ci₁.tetraplets a₁.tetrapletCid with
          | none => simp [hv₁, ht₁] at hr₁
          | some t₁ =>
            cases ht₂ : lookup ci₂.tetraplets a₁.tetrapletCid with
            | none => simp [hv₂, ht₂] at hr₂
            | some t₂ =>
              simp only [hv₁, ht₁, hv₂, ht₂, Option.some.injEq] at hr₁ hr₂
              have ev : v₁ = v₂ := hb.value _ v₁ v₂ (s₁.value _ _ (lookup_mem hv₁)) (s₂.value _ _ (lookup_mem hv₂))
              have et : t₁ = t₂ := hb.tetraplet _ t₁ t₂ (s₁.tetraplet _ _ (lookup_mem ht₁)) (s₂.tetraplet _ _ (lookup_mem ht₂))
              rw [← hr₁, ← hr₂, ev, et]

/-- in a verified store every stored call result resolves (no dangling references) -/
theorem C14_content_present (E : VerifyEnv) (ci : CidInfo) (h : ci.verify E = .ok ()) (cid : Cid) (a : ServiceResultAgg)
    (ha : lookup ci.serviceResults cid = some a) : ∃ r, resolveResult ci cid = some r := by
  obtain ⟨⟨t, ht⟩, ⟨v, hv⟩⟩ := (verify_ok h).srRefs _ _ (lookup_mem ha)
  exact ⟨(v, t, a.argumentHash), by simp [resolveResult, ha, ht, hv]⟩

theorem resolveCanonElement_bound (E : VerifyEnv) (hb : ContentBinding E) (ci₁ ci₂ : CidInfo)
    (s₁ : StoresOk E ci₁) (s₂ : StoresOk E ci₂) (cid : Cid)
    (e₁ : CanonCidAggregate) (e₂ : CanonCidAggregate)
    (h₁ : lookup ci₁.canonElements cid = some e₁) (h₂ : lookup ci₂.canonElements cid = some e₂) :
    resolveCanonElement ci₁ cid = resolveCanonElement ci₂ cid := by
  have e : e₁ = e₂ := hb.canonElement cid e₁ e₂ (s₁.canonElement _ _ (lookup_mem h₁)) (s₂.canonElement _ _ (lookup_mem h₂))
  subst e
  obtain ⟨⟨t₁, ht₁⟩, ⟨v₁, hv₁⟩, _⟩ := s₁.ceRefs _ _ (lookup_mem h₁)
  obtain ⟨⟨t₂, ht₂⟩, ⟨v₂, hv₂⟩, _⟩ := s₂.ceRefs _ _ (lookup_mem h₂)
  have ev : v₁ = v₂ := hb.value _ v₁ v₂ (s₁.value _ _ (lookup_mem hv₁)) (s₂.value _ _ (lookup_mem hv₂))
  have et : t₁ = t₂ := hb.tetraplet _ t₁ t₂ (s₁.tetraplet _ _ (lookup_mem ht₁)) (s₂.tetraplet _ _ (lookup_mem ht₂))
  simp [resolveCanonElement, h₁, h₂, ht₁, ht₂, hv₁, hv₂, ev, et]

/-- **content binding for canon results**: the same canon-result CID stands for the same canon
tetraplet and the same list of elements (value, tetraplet, provenance) in any two verified stores -/
theorem C14_content_bound_canon (E : VerifyEnv) (hb : ContentBinding E) (ci₁ ci₂ : CidInfo)
    (h₁ : ci₁.verify E = .ok ()) (h₂ : ci₂.verify E = .ok ()) (cid : Cid)
    (r₁ r₂ : Tetraplet × List (Option (String × Tetraplet × Provenance)))
    (hr₁ : resolveCanon ci₁ cid = some r₁) (hr₂ : resolveCanon ci₂ cid = some r₂) : r₁ = r₂ := by
  have s₁ := verify_ok h₁
  have s₂ := verify_ok h₂
  unfold resolveCanon at hr₁ hr₂
  cases ha₁ : lookup ci₁.canonResults cid with
  | none => simp [ha₁] at hr₁
  | some a₁ =>
    cases ha₂ : lookup ci₂.canonResults cid with
    | none => simp [ha₂] at hr₂
    | some a₂ =>
      have e : a₁ = a₂ := hb.canonResult cid a₁ a₂ (s₁.canonResult _ _ (lookup_mem ha₁)) (s₂.canonResult _ _ (lookup_mem ha₂))
      subst e
      simp only [ha₁, ha₂] at hr₁ hr₂
      obtain ⟨⟨t₁, ht₁⟩, hvals₁⟩ := s₁.crRefs _ _ (lookup_mem ha₁)
      obtain ⟨⟨t₂, ht₂⟩, hvals₂⟩ := s₂.crRefs _ _ (lookup_mem ha₂)
      simp only [ht₁, ht₂, Option.some.injEq] at hr₁ hr₂
      have et : t₁ = t₂ := hb.tetraplet _ t₁ t₂ (s₁.tetraplet _ _ (lookup_mem ht₁)) (s₂.tetraplet _ _ (lookup_mem ht₂))
      have el : a₁.values.map (resolveCanonElement ci₁) = a₁.values.map (resolveCanonElement ci₂) := by
        apply List.map_congr_left
        intro v hv
        obtain ⟨x₁, hx₁⟩ := hvals₁ v hv
        obtain ⟨x₂, hx₂⟩ := hvals₂ v hv
        exact resolveCanonElement_bound E hb ci₁ ci₂ s₁ s₂ v x₁ x₂ hx₁ hx₂
      rw [← hr₁, ← hr₂, et, el]

/-! ## 3. a result from merged data enters the context only at an instruction with the same parameters -/

/-- **C14_use_site_bound** — for EVERY context: if `handle_prev_state` accepts an `Executed(Scalar cid)` or
`Executed(Stream{cid, generation})` state (`resultCid value = some cid`) from merged data (returns `Ok`) then the stored tetraplet of `cid` equals the instruction's
resolved triplet `t` and the stored argument hash equals the hash `argHash` computed from the
instruction's resolved arguments. -/
theorem C14_use_site_bound (env : Env) (met : Trace.MetCallResult) (t : Tetraplet) (argHash : Option String) (out : Air.CallOutput)
    (c : Ctx) (value : ValueRef) (cid : Cid) (sd : StateDescriptor)
    (hm : met.result = .executed value) (hv : resultCid value = some cid)
    (h : (handlePrevState env met t argHash out c).1 = .ok sd) :
    ∃ v agg, resolveServiceInfo env c.cid cid = .ok (v, t, agg) ∧ argHash = some agg.argumentHash :=
  handlePrevState_executed hm hv h

/-- the same for a `Failed(cid)` state: it is turned into the (catchable) service error only after the
same parameter check -/
theorem C14_use_site_bound_failed (env : Env) (met : Trace.MetCallResult) (t : Tetraplet) (argHash : Option String) (out : Air.CallOutput)
    (c : Ctx) (cid : Cid) (e : CatchableErr)
    (hm : met.result = .failed cid)
    (h : (handlePrevState env met t argHash out c).1 = .error (.catchable e)) :
    ∃ v agg, resolveServiceInfo env c.cid cid = .ok (v, t, agg) ∧ argHash = some agg.argumentHash :=
  handlePrevState_failed hm h

/-- at the level of the call instruction: the hash compared is the hash of the arguments the
instruction resolves in the *current* context -/
theorem C14_use_site_args (env : Env) (i : Air.Instr) (t : Tetraplet) (args : List Air.Value) (out : Air.CallOutput) (c : Ctx)
    (checked : Option (List Json.JVal)) (m : Trace.MetCallResult) (th' : Trace.TraceHandler) (cid : Cid)
    (hargs : checkArgs c args = .ok checked)
    (hmet : c.th.meetCallStart = .ok (.met m, th'))
    (hm : m.result = .executed (.scalar cid))
    (hres : (resolvedExecute env i t args out c).1 = .ok ()) :
    ∃ vs tss v agg, collectArgs c args = .ok (vs, tss) ∧ resolveServiceInfo env c.cid cid = .ok (v, t, agg) ∧
      agg.argumentHash = env.hash (argsJson vs) :=
  resolvedExecute_executed_scalar hargs hmet hm hres

/-- **relocation is rejected**: a stored result whose argument hash or tetraplet differs from those of
the instruction it is offered to yields `InstructionParametersMismatch` (uncatchable) and leaves the
context untouched -/
theorem C14_relocation_rejected (env : Env) (met : Trace.MetCallResult) (t curT : Tetraplet) (ah name : String)
    (c : Ctx) (cid : Cid) (v : Json.JVal) (agg : ServiceResultAgg)
    (hm : met.result = .executed (.scalar cid))
    (hr : resolveServiceInfo env c.cid cid = .ok (v, curT, agg))
    (hne : ah ≠ agg.argumentHash ∨ t ≠ curT) :
    ∃ p x y, handlePrevState env met t (some ah) (.scalar name) c =
      (.error (.uncatchable (.instructionParametersMismatch p x y)), c) :=
  handlePrevState_mismatch_scalar hm hr hne

theorem C14_relocation_rejected_failed (env : Env) (met : Trace.MetCallResult) (t curT : Tetraplet) (ah : String) (out : Air.CallOutput)
    (c : Ctx) (cid : Cid) (v : Json.JVal) (agg : ServiceResultAgg)
    (hm : met.result = .failed cid)
    (hr : resolveServiceInfo env c.cid cid = .ok (v, curT, agg))
    (hne : ah ≠ agg.argumentHash ∨ t ≠ curT) :
    ∃ p x y, handlePrevState env met t (some ah) out c =
      (.error (.uncatchable (.instructionParametersMismatch p x y)), c) :=
  handlePrevState_mismatch_failed hm hr hne

/-- **canon results**: `handle_canon_executed` accepts a canon result from merged data only if the
tetraplet stored for it is exactly (the peer the canon instruction resolves, "", "", "") — a canon
result of another peer, or one with a service/function/lens smuggled into its tetraplet, is not taken -/
theorem C14_use_site_bound_canon (env : Env) (canonName : CanonTarget) (peer : Air.Value) (cid : Cid) (c : Ctx)
    (h : (canonExecuted env canonName peer cid c).1 = .ok ()) :
    ∃ peerId agg, resolveToString c peer = .ok peerId ∧ lookup c.cid.canonResults cid = some agg ∧
      getTetrapletByCid c.cid agg.tetraplet = .ok ({ peerPk := peerId } : Tetraplet) :=
  canonExecuted_ok h

theorem C14_canon_relocation_rejected (env : Env) (canonName : CanonTarget) (peer : Air.Value) (cid : Cid) (c : Ctx)
    (peerId : String) (agg : CanonResultAgg) (t : Tetraplet)
    (hp : resolveToString c peer = .ok peerId) (hl : lookup c.cid.canonResults cid = some agg)
    (ht : getTetrapletByCid c.cid agg.tetraplet = .ok t) (hne : ({ peerPk := peerId } : Tetraplet) ≠ t) :
    ∃ x y, canonExecuted env canonName peer cid c =
      (.error (.uncatchable (.instructionParametersMismatch "canon tetraplet" x y)), c) :=
  canonExecuted_mismatch hp hl ht hne

/-! ## 4. a signature made for another particle (or another CID list) does not verify -/

/-- the signed bytes are an injective function of (CID list, particle id): the encoding is unambiguous -/
theorem C14_signed_message_unambiguous (cids cids' : List String) (p p' : String) (m : Bytes)
    (h : saltedData cids p = some m) (h' : saltedData cids' p' = some m) : cids = cids' ∧ p = p' :=
  saltedData_inj h h'

/-- **C14_other_particle_rejected** — a signature made (by anybody) over a CID list salted with particle
`p'` does not verify for particle `p ≠ p'`, whatever CID list is claimed for it -/
theorem C14_other_particle_rejected (S : SigScheme) (hfree : S.Free) (sk : S.SecretKey) (pk : S.PublicKey)
    (cids cids' : List String) (p p' : String) (m m' : Bytes)
    (hm : saltedData cids p = some m) (hm' : saltedData cids' p' = some m') (hne : p' ≠ p) :
    S.verify pk m (S.sign sk m') = false := by
  cases hv : S.verify pk m (S.sign sk m') with
  | false => rfl
  | true =>
    obtain ⟨sk₂, _, hs⟩ := (S.verify_iff pk m _).mp hv
    obtain ⟨_, hmm⟩ := hfree _ _ _ _ hs
    subst hmm
    exact absurd (saltedData_inj hm' hm).2 hne

/-- likewise a signature over a different CID list (one CID added, dropped, duplicated or rewritten;
the lists are compared after sorting) does not verify -/
theorem C14_other_cids_rejected (S : SigScheme) (hfree : S.Free) (sk : S.SecretKey) (pk : S.PublicKey)
    (cids cids' : List String) (p p' : String) (m m' : Bytes)
    (hm : saltedData cids p = some m) (hm' : saltedData cids' p' = some m') (hne : cids' ≠ cids) :
    S.verify pk m (S.sign sk m') = false := by
  cases hv : S.verify pk m (S.sign sk m') with
  | false => rfl
  | true =>
    obtain ⟨sk₂, _, hs⟩ := (S.verify_iff pk m _).mp hv
    obtain ⟨_, hmm⟩ := hfree _ _ _ _ hs
    subst hmm
    exact absurd (saltedData_inj hm' hm).1 hne

/-! ## 5. no forgery -/

/-- the signatures honest peers have ever produced: `Produced sk cids particle` is the ground truth
"the owner of `sk` signed the sorted CID list `cids` of its own results for `particle`"
(`PeerCidTracker::gen_signature`) -/
def HonestSigs (S : SigScheme) (Produced : S.SecretKey → List Cid → String → Prop) (s : S.Sig) : Prop :=
  ∃ sk cids particle m, Produced sk cids particle ∧ saltedData cids particle = some m ∧ s = S.sign sk m

/-- what an attacker who owns the secret keys `own` and has seen the signatures `seen` can put into
a signature store: replayed signatures, signatures under its own keys, arbitrary non-signatures -/
inductive Derivable (S : SigScheme) (own : S.SecretKey → Prop) (seen : S.Sig → Prop) : S.Sig → Prop
  | replay {s : S.Sig} : seen s → Derivable S own seen s
  | sign {sk : S.SecretKey} {m : Bytes} : own sk → Derivable S own seen (S.sign sk m)
  | junk {s : S.Sig} : (∀ sk m, s ≠ S.sign sk m) → Derivable S own seen s

/-- **C14_no_forgery_partial** (signature side, whole data; use site per call instruction: see
`C14_use_site_bound`, `C14_use_site_args`, `C14_relocation_rejected`).
`cur` is arbitrary data whose signatures the attacker derived from what it has seen and its own
keys.  If the verification step accepts it for `particle`, then every trace state attributed to a
peer `Q` whose key the attacker does not own carries a CID that `Q` itself signed, as a member of
exactly the list of CIDs attributed to `Q` in `cur`, for this very particle. -/
theorem C14_no_forgery_partial (S : SigScheme) (hfree : S.Free) (validate : S.PublicKey → Bool)
    (toPeerId keyText : S.PublicKey → String) (sigText : S.Sig → String)
    (cidCheck : Cid → Bytes → Except CidVerificationError Unit)
    (hpid : ∀ a b, validate a = true → validate b = true → toPeerId a = toPeerId b → a = b)
    (own : S.SecretKey → Prop) (Produced : S.SecretKey → List Cid → String → Prop)
    (cur : VData (VerifyEnv.ofScheme S validate toPeerId keyText sigText cidCheck)) (particle : String)
    (hder : ∀ p ∈ cur.signatures, Derivable S own (HonestSigs S Produced) p.2)
    (hok : verifyData _ cur particle = .ok ())
    (pkQ : S.PublicKey) (hvalid : validate pkQ = true) (hQ : ∀ sk, own sk → S.pub sk ≠ pkQ)
    (st : ExecutedState) (hst : st ∈ cur.trace) (cid : Cid)
    (hattr : stateContribution cur.cidInfo st = .ok (some (toPeerId pkQ, cid))) :
    ∃ sk, S.pub sk = pkQ ∧ Produced sk (sortCids (peerCids cur.cidInfo cur.trace (toPeerId pkQ))) particle ∧
      cid ∈ sortCids (peerCids cur.cidInfo cur.trace (toPeerId pkQ)) := by
  obtain ⟨hcid, pk, sig, m, hmem, hv, hpidq, hm, hver⟩ :=
    C14_verified_cids_signed _ cur particle hok st hst _ cid hattr
  have hpk : pk = pkQ := hpid pk pkQ hv hvalid hpidq
  subst hpk
  obtain ⟨sk, hpub, hsig⟩ := (S.verify_iff pk m sig).mp hver
  have hd := hder (pk, sig) hmem
  simp only at hd
  cases hd with
  | replay hseen =>
    obtain ⟨sk', cids', particle', m', hprod, hm', hs⟩ := hseen
    rw [hsig] at hs
    obtain ⟨hpubeq, hmm⟩ := hfree _ _ _ _ hs
    subst hmm
    obtain ⟨hc, hp⟩ := saltedData_inj hm' hm
    subst hc; subst hp
    exact ⟨sk', by rw [← hpubeq, ← hpub], hprod, hcid⟩
  | @sign sk' m' hown =>
    exact absurd (by
      have := hfree sk' sk m' m hsig
      rw [this.1, ← hpub]) (hQ sk' hown)
  | junk hj => exact absurd hsig (hj sk m)

/-- the call results (CIDs of executed-scalar / stream / failed call states) of a trace -/
def callCids (trace : Trace) : List Cid := trace.filterMap fun st =>
  match st with
  | .call c => c.getCid
  | _ => none

/-- **Full statement** (not proved as one theorem): for a whole run of the executor model on verified
current data, every call result in the *output* trace that the merged stores attribute to a peer
other than the current one is a result of the previous data or one of the CIDs attributed to that
peer in the current data (hence, by `C14_no_forgery_partial`, signed by it for this particle), and it
was accepted by a call instruction whose resolved triplet and argument hash equal the stored ones.

Missing for the full statement: (a) an invariant through `exec` (all instructions, fuel induction)
that call and canon states reach the result trace only through `handle_prev_state` /
`handle_canon_executed` or as this peer's own new results — `C14_use_site_bound(_failed/_canon)` give
the per-instruction step for every context (scalar, stream, failed, canon), the induction over the
script (an `exec_rel` instance whose relation mentions the trace handler's result trace) is not done;
(b) canon results in the output are not mentioned in the statement below (the analogous clause with
`canonCids` is omitted).  The executor and the verification step read the same decoded trace and stores
(`curV.trace = cur.trace`, `curV.cidInfo = cur.cid`: one store type, `CidInfo = CidState`).
NOT claimed at all, because the code does not provide it (see the known findings of C14): the
Executed/Failed *kind* of a call state and the elements of a canon result are not authenticated. -/
def C14_full : Prop :=
  ∀ (E : VerifyEnv) (curV : VData E) (particle : String) (env : Env) (fuel : Nat) (script : Air.Instr)
    (prev cur : DataIn) (p : RunParams) (results : List (String × CallServiceResult)),
    curV.trace = cur.trace → curV.cidInfo = cur.cid →
    verifyData E curV particle = .ok () →
    (match (runExec env fuel script prev cur p results).1 with
     | .ok _ => True | .error (.catchable _) => True | _ => False) →
    ∀ cid ∈ callCids (runExec env fuel script prev cur p results).2.th.keeper.resultTrace,
      ∀ v t agg, resolveServiceInfo env (runExec env fuel script prev cur p results).2.cid cid = .ok (v, t, agg) →
        t.peerPk ≠ p.currentPeerId →
        cid ∈ callCids prev.trace ∨ cid ∈ peerCids curV.cidInfo curV.trace t.peerPk

/-! ## Non-vacuity: concrete inputs meeting the hypotheses
(toy instance and the kernel-evaluated facts: `AquaProps/Lemmas/C14Toy*.lean`) -/
section Examples

-- hypotheses of theorems 1 and 5 are met by the honest data …
example : verifyData toyEnv curQ "p1" = .ok () := toy_honest_verified
example : stateContribution curQ.cidInfo (.call (.executed (.scalar cidQ))) = .ok (some ("peer-Q", cidQ)) := toy_attributed
-- … and the tampered variants are rejected by the model: value swap, replay from another particle, foreign signer
example : (verifyData toyEnv curSwapped "p1").isOk = false := toy_swapped_rejected
example : (verifyData toyEnv curReplayed "p1").isOk = false := toy_replayed_rejected
example : (verifyData toyEnv curQ "p2").isOk = false := toy_other_particle_rejected
example : (verifyData toyEnv curForged "p1").isOk = false := toy_forged_rejected
-- theorem 2: two verified stores resolving the same CID
example : ciQ.verify toyEnv = .ok () := toy_store_verified
example : resolveResult ciQ cidQ = some ("1", tetQ, "h") := by decide +kernel
-- theorem 4: messages for two particles exist and differ
example : (saltedData [cidQ] "p1").isSome = true ∧ (saltedData [cidQ] "p0").isSome = true := by decide +kernel
example : symbolic.Free := symbolic_free
-- theorem 3: `verifyCall` accepts equal parameters and rejects a relocated result
example : (verifyCall "h" tetQ "h" tetQ).isOk = true := by decide +kernel
example : (verifyCall "h" { tetQ with peerPk := "peer-R" } "h" tetQ).isOk = false := by decide +kernel

end Examples


/-! ## 8. the repaired verification step (fix: commits b547c87, 7eb402e in /repo) -/

/-- **A trace state naming a CID that no store holds is an error, never a crash**: the attribution of a
trace state to its signer returns a value or `CidNotFound` (before the repair these four lookups were
`expect("cannot happen in a checked CID store")`). -/
theorem C14_attribution_never_panics (ci : CidInfo) (st : ExecutedState) (site : String) :
    stateContribution ci st ≠ .panic site := by
  unfold stateContribution
  intro h
  split at h
  · split at h
    · cases h
    · split at h
      · cases h
      · split at h <;> cases h
  · split at h
    · cases h
    · split at h <;> cases h
  · cases h

/-- **Every value of an accepted store is JSON**: the lazy `RawValue::get_value` (whose parse failure used
to be a panic at first use) can no longer be reached with a text that does not parse. -/
theorem C14_verified_values_are_json (E : VerifyEnv) (ci : CidInfo) (h : ci.verify E = .ok ()) :
    ∀ cid v, (cid, v) ∈ ci.values → E.isJson v = true :=
  (verify_ok h).valueJson

/-- a store with a non-JSON value is refused with `MalformedValue` naming the entry (first failing entry wins) -/
theorem C14_non_json_value_rejected (E : VerifyEnv) (cid : Cid) (v : String) (rest : List (Cid × String))
    (hc : E.cidCheck cid (strBytes v) = .ok ()) (hj : E.isJson v = false) :
    verifyValueStore E ((cid, v) :: rest) = .error (.malformedValue cid) := by
  simp [verifyValueStore, allOk, hc, hj]

end AquaProps.C14
