import AquaProps.Lemmas.Failures
/-!
# C18 — xor catches exactly the catchable failures and reports them faithfully

Statements are about the model interpreter `Aqua.Exec.exec` (replica of `Instruction::execute` with the
`execute!` wrapper) for EVERY environment, fuel, instructions and execution context.  `flush c` is
`flush_subgraph_completeness` (the first thing `Xor::execute` does), `xorEnterRight` / `xorLeaveRight` are the
state changes of xor.rs around the right branch, `wrap i` is the `execute!` wrapper (`set_errors` on failure).
-/
namespace AquaProps.C18
open Aqua Aqua.Exec Aqua.Air Aqua.Json AquaProps

/-! ## 1. the right branch runs iff the left branch fails catchably -/

/-- what `xor l r` returns once its left branch has failed with the catchable `e` in context `c1`: the
result of the right branch run from `xorEnterRight e c1`, followed by `xorLeaveRight`, seen through the
`execute!` wrapper of the xor instruction itself -/
def xorCaught (env : Env) (fuel : Nat) (l r : Instr) (e : CatchableErr) (c1 : Ctx) : Res ExecErr Unit × Ctx :=
  let rr := exec env fuel r (xorEnterRight e c1)
  wrap (.xor l r) (rr.1, xorLeaveRight rr.1.isOk rr.2)

/-- **left branch not catchable ⇒ its result is the xor's result** (value *and* context; the right branch
does not occur on the right-hand side).  Covers success, "still waiting" (success with an incomplete
subgraph), uncatchable errors and panics. -/
theorem C18_xor_left_returned (env : Env) (fuel : Nat) (l r : Instr) (c : Ctx)
    (h : ∀ e, (exec env fuel l (flush c)).1 ≠ .error (.catchable e)) :
    exec env (fuel + 1) (.xor l r) c = exec env fuel l (flush c) := by
  rw [exec_noncall _ _ _ _ rfl, execInner_xor]
  unfold xorBody
  cases hl : exec env fuel l (flush c) with
  | mk res c1 =>
    rw [hl] at h
    cases res with
    | ok u => rfl
    | panic s => rfl
    | error e =>
      cases e with
      | catchable ce => exact absurd rfl (h ce)
      | uncatchable u => rfl
      | unmodelled w => rfl

/-- **left branch fails catchably ⇒ the right branch runs** from `xorEnterRight e c1` -/
theorem C18_xor_catches (env : Env) (fuel : Nat) (l r : Instr) (c c1 : Ctx) (e : CatchableErr)
    (h : exec env fuel l (flush c) = (.error (.catchable e), c1)) :
    exec env (fuel + 1) (.xor l r) c = xorCaught env fuel l r e c1 := by
  rw [exec_noncall _ _ _ _ rfl, execInner_xor]
  unfold xorBody xorCaught
  rw [h]

/-- **The right branch is executed iff the left branch's result is a catchable error**: for every input
exactly one of the two descriptions applies — either the left branch failed catchably and the xor is the
right branch run from `xorEnterRight`, or it did not and the xor returns the left result whatever the right
branch is (`∀ r'`). -/
theorem C18_xor_right_iff_catchable (env : Env) (fuel : Nat) (l r : Instr) (c : Ctx) :
    (∃ e c1, exec env fuel l (flush c) = (.error (.catchable e), c1) ∧
        exec env (fuel + 1) (.xor l r) c = xorCaught env fuel l r e c1) ∨
    ((∀ e, (exec env fuel l (flush c)).1 ≠ .error (.catchable e)) ∧
        ∀ r', exec env (fuel + 1) (.xor l r') c = exec env fuel l (flush c)) := by
  cases hl : exec env fuel l (flush c) with
  | mk res c1 =>
    have other : (∀ e, res ≠ .error (.catchable e)) →
        (∀ e, (res, c1).1 ≠ .error (.catchable e)) ∧ ∀ r', exec env (fuel + 1) (.xor l r') c = (res, c1) := by
      intro hne
      refine ⟨hne, fun r' => ?_⟩
      rw [C18_xor_left_returned env fuel l r' c (by rw [hl]; exact hne), hl]
    cases res with
    | ok u => exact Or.inr (other (fun e h => by cases h))
    | panic s => exact Or.inr (other (fun e h => by cases h))
    | error e =>
      cases e with
      | catchable ce => exact Or.inl ⟨ce, c1, rfl, C18_xor_catches env fuel l r c c1 ce hl⟩
      | uncatchable u => exact Or.inr (other (fun e h => by cases h))
      | unmodelled w => exact Or.inr (other (fun e h => by cases h))

/-- a left branch that succeeds — complete or **still waiting** (`c1.subgraphComplete = false`) — is the
xor's result; the right branch is not run -/
theorem C18_ok_or_waiting_left_not_caught (env : Env) (fuel : Nat) (l r : Instr) (c c1 : Ctx)
    (h : exec env fuel l (flush c) = (.ok (), c1)) : exec env (fuel + 1) (.xor l r) c = (.ok (), c1) := by
  rw [C18_xor_left_returned env fuel l r c (by rw [h]; intro e he; cases he), h]

/-- a panic of the left branch is not caught -/
theorem C18_panic_not_caught (env : Env) (fuel : Nat) (l r : Instr) (c c1 : Ctx) (s : String)
    (h : exec env fuel l (flush c) = (.panic s, c1)) : exec env (fuel + 1) (.xor l r) c = (.panic s, c1) := by
  rw [C18_xor_left_returned env fuel l r c (by rw [h]; intro e he; cases he), h]

/-! ## 2. uncatchable errors are never caught -/

/-- **an uncatchable error of the left branch is the xor's result** (same error, same context) -/
theorem C18_uncatchable_never_caught (env : Env) (fuel : Nat) (l r : Instr) (c : Ctx) (u : UncatchableErr)
    (h : (exec env fuel l (flush c)).1 = .error (.uncatchable u)) :
    exec env (fuel + 1) (.xor l r) c = exec env fuel l (flush c) ∧
    (exec env (fuel + 1) (.xor l r) c).1 = .error (.uncatchable u) := by
  have := C18_xor_left_returned env fuel l r c (by rw [h]; intro e he; cases he)
  exact ⟨this, by rw [this, h]⟩

/-- **Through any nesting**: if somewhere below `i` (through both branches of xor / seq / par, bodies of
match / mismatch / scalar fold / new, bodies re-entered by next — `InvokesStar`) a sub-execution ends with
the uncatchable error `u`, then `i` does not succeed and does not end with a catchable error: no enclosing
xor, at any depth, catches it. -/
theorem C18_uncatchable_never_caught_nested (env : Env) {f f' : Nat} {i i' : Instr} {c c' : Ctx} (u : UncatchableErr)
    (hinv : InvokesStar env f i c f' i' c') (h : (exec env f' i' c').1 = .error (.uncatchable u)) :
    (exec env f i c).1.isOk = false ∧ ∀ e, (exec env f i c).1 ≠ .error (.catchable e) := by
  have hf : FatalR u (exec env f i c).1 := fatal_star hinv (Or.inl h)
  rcases hf with hf | ⟨s, hf⟩ <;> rw [hf] <;> exact ⟨rfl, fun e he => by cases he⟩

/-- what the enclosing instruction returns is the *same* uncatchable error, unless a clean-up step of an
enclosing fold / next (`meet_fold_end`, `meet_next_after`: `current_depth -= 1`) panics -/
theorem C18_uncatchable_propagates_partial (env : Env) {f f' : Nat} {i i' : Instr} {c c' : Ctx} (u : UncatchableErr)
    (hinv : InvokesStar env f i c f' i' c') (h : (exec env f' i' c').1 = .error (.uncatchable u)) :
    (exec env f i c).1 = .error (.uncatchable u) ∨ ∃ s, (exec env f i c).1 = .panic s :=
  fatal_star hinv (Or.inl h)

/-- full strength: the same error, without the panic alternative.  Missing: the invariant that the scalar
depth counter after a fold body / next body equals the one before it (then the clean-up cannot underflow);
it is a whole-interpreter invariant and is left out while the interpreter model is being extended. -/
def C18_uncatchable_propagates_full : Prop :=
  ∀ (env : Env) (f f' : Nat) (i i' : Instr) (c c' : Ctx) (u : UncatchableErr),
    InvokesStar env f i c f' i' c' → (exec env f' i' c').1 = .error (.uncatchable u) →
    (exec env f i c).1 = .error (.uncatchable u)

/-! ## 3. the error object is faithful -/


/-- the peer id field of `:error:` for an instruction other than call (`log_errors_with_peer_id`) -/
def instrPeerId (i : Instr) (c : Ctx) : Option String := errorPeerId c none i.logErrorsWithPeerId


/-- the `execute!` wrapper on a catchable failure of the instruction body -/
theorem exec_of_inner_catchable (env : Env) (fuel : Nat) (i : Instr) (c c1 : Ctx) (e : CatchableErr)
    (hi : isCall i = false) (h : execInner env fuel i c = (.error (.catchable e), c1)) :
    exec env (fuel + 1) i c = (.error (.catchable e), c1.setErrors e i.render none i.logErrorsWithPeerId) := by
  rw [exec_noncall _ _ _ _ hi, h]; rfl


theorem C18_error_faithful (env : Env) (fuel : Nat) (i : Instr) (c c1 : Ctx) (e : CatchableErr)
    (hi : isCall i = false) (h : execInner env fuel i c = (.error (.catchable e), c1))
    (hset : c1.error.canBeSet = true) :
    (exec env (fuel + 1) i c).1 = .error (.catchable e) ∧
    (exec env (fuel + 1) i c).2.error.error.error = errorFromRawFields e.code e.render i.render (instrPeerId i c1) ∧
    (exec env (fuel + 1) i c).2.error.error.error.getField "error_code" = some (.num (uncaughtOutcome e).1) ∧
    (exec env (fuel + 1) i c).2.error.error.error.getField "message" = some (.str (uncaughtOutcome e).2) ∧
    (exec env (fuel + 1) i c).2.error.error.error.getField "instruction" = some (.str i.render) ∧
    (exec env (fuel + 1) i c).2.error.canBeSet = false := by
  rw [exec_of_inner_catchable env fuel i c c1 e hi h]
  simp only [setErrors_error_set c1 e i.render none i.logErrorsWithPeerId hset, instrPeerId, uncaughtOutcome,
    errorObj_code, errorObj_message, errorObj_instruction, and_self]


/-- inside the catch branch: what `:error:` resolves to when the right branch starts is the object
left by the failure of the left branch -/
theorem C18_catch_branch_reads_error (e : CatchableErr) (c1 : Ctx) :
    (xorEnterRight e c1).error.error.error = c1.error.error.error ∧
    (xorEnterRight e c1).error.error.origCatchable = some e ∧
    (xorEnterRight e c1).error.canBeSet = true ∧
    (xorEnterRight e c1).lastError.error = c1.lastError.error ∧
    (xorEnterRight e c1).lastError.canBeSet = true ∧
    (∃ ts p, resolveValue (xorEnterRight e c1) (.error none) = .ok (c1.error.error.error, ts, p)) ∧
    (∃ ts p, resolveValue (xorEnterRight e c1) (.lastError none) = .ok (c1.lastError.error.error, ts, p)) := by
  refine ⟨rfl, rfl, rfl, rfl, rfl, ⟨_, _, rfl⟩, ⟨_, _, rfl⟩⟩




set_option linter.unusedSimpArgs false in
/-- **`fail :error:` in a catch branch re-raises the original error** and leaves `:error:` as the failure
set it: if `l` fails with `e` leaving a valid error object in `:error:`, then `(xor l (fail :error:))` fails
with the same `e`, `:error:` still holds the same object and stays disabled for setting while bubbling. -/
theorem C18_fail_error_reraises (env : Env) (fuel : Nat) (l : Instr) (c c1 : Ctx) (e : CatchableErr)
    (h : exec env (fuel + 1) l (flush c) = (.error (.catchable e), c1))
    (hobj : checkErrorObject c1.error.error.error = .ok ()) :
    (exec env (fuel + 2) (.xor l (.fail .error)) c).1 = .error (.catchable e) ∧
    (exec env (fuel + 2) (.xor l (.fail .error)) c).2.error.error.error = c1.error.error.error ∧
    (exec env (fuel + 2) (.xor l (.fail .error)) c).2.error.canBeSet = false ∧
    (exec env (fuel + 2) (.xor l (.fail .error)) c).2.lastError.error.error = c1.error.error.error := by
  rw [C18_xor_catches env (fuel + 1) l (.fail .error) c c1 e h]
  unfold xorCaught
  have hobj' : checkErrorObject (xorEnterRight e c1).error.error.error = .ok () := hobj
  rw [exec_noncall _ _ _ _ rfl, inner_fail_error env fuel _ hobj']
  have hr : failErrorRaises (xorEnterRight e c1) = e := rfl
  rw [hr, wrap_catchable]
  simp only [Res.isOk]
  refine ⟨rfl, ?_, ?_, ?_⟩
  · simp only [wrap_catchable]
    rw [setErrors_error_keep]
    · unfold xorLeaveRight
      simp [setErrors_error_keep, xorEnterRight]
    · unfold xorLeaveRight
      simp [setErrors_disables]
  · simp only [wrap_catchable]; exact setErrors_disables _ _ _ _ _
  · simp only [wrap_catchable]
    rw [setErrors_lastError_keep]
    · unfold xorLeaveRight
      simp [setErrors_disables]
      rw [setErrors_lastError_keep] <;> simp [xorEnterRight]
    · left
      unfold xorLeaveRight
      simp [setErrors_disables]
      rw [setErrors_lastError_keep] <;> simp [xorEnterRight]


/-- **`fail %last_error%`** throws a `UserError` carrying the `%last_error%` object; when `:error:` can be set it
receives the code and message of that `UserError` — the ones the run reports if nothing catches it -/
theorem C18_fail_last_error (env : Env) (fuel : Nat) (c : Ctx)
    (hobj : checkErrorObject c.lastError.error.error = .ok ()) (hset : c.error.canBeSet = true) :
    let e := CatchableErr.userError c.lastError.error.error
    (exec env (fuel + 1) (.fail .lastError) c).1 = .error (.catchable e) ∧
    (exec env (fuel + 1) (.fail .lastError) c).2.error.error.error = errorFromRawFields e.code e.render "fail %last_error%" none ∧
    (exec env (fuel + 1) (.fail .lastError) c).2.lastError.error.error = c.lastError.error.error := by
  intro e
  have hin := inner_fail_throws env fuel .lastError c _ _ _ (by intro h; cases h) (failOperand_lastError c hobj)
  rw [exec_of_inner_catchable env fuel _ c _ _ rfl hin]
  refine ⟨rfl, ?_, ?_⟩
  · show (Ctx.setErrors _ _ _ _ _).error.error.error = _
    rw [setErrors_error_set _ _ _ _ _ (by exact hset)]; rfl
  · show (Ctx.setErrors _ _ _ _ _).lastError.error.error = _
    rw [setErrors_lastError_keep _ _ _ _ _ (Or.inl rfl)]


/-! ## 4. the error is set once while it bubbles up -/


/-- **whenever an instruction — any instruction, `call` included — ends with a catchable error, `:error:`
setting is disabled afterwards** (until the right branch of an enclosing xor re-enables it) -/
theorem C18_error_set_once (env : Env) (fuel : Nat) (i : Instr) (c : Ctx) (e : CatchableErr)
    (h : (exec env fuel i c).1 = .error (.catchable e)) : (exec env fuel i c).2.error.canBeSet = false := by
  cases fuel with
  | zero => rw [exec_zero] at h; cases h
  | succ fuel =>
    by_cases hi : isCall i = true
    · cases i <;> simp [isCall] at hi
      rename_i p s f args out
      rw [exec_call] at h ⊢
      cases hx : execCall env (.call p s f args out) p s f args out c with
      | mk res c' =>
        rw [hx] at h; simp only [] at h; subst h
        obtain ⟨_, hc | ⟨t, c1, _, _, hc⟩⟩ := call_fails_cases env _ p s f args out c c' e hx
        · rw [hc.2]; exact setErrors_disables _ _ _ _ _
        · rw [hc]; exact setErrors_disables _ _ _ _ _
    · have hi' : isCall i = false := by simpa using hi
      rw [exec_noncall _ _ _ _ hi'] at h ⊢
      cases hx : execInner env fuel i c with
      | mk res c1 =>
        rw [hx] at h; rw [wrap_fst] at h; simp only [] at h; subst h
        rw [wrap_catchable]; exact setErrors_disables _ _ _ _ _


/-- **bubbling does not overwrite**: when the body of a (non-call) instruction returns a catchable failure
in a context where `:error:` is already disabled — by C18_error_set_once this is the case whenever the
failure comes from a sub-instruction — the `execute!` wrapper leaves `:error:` exactly as it is; likewise
`%last_error%` when it is disabled -/
theorem C18_error_not_overwritten (env : Env) (fuel : Nat) (i : Instr) (c c1 : Ctx) (e : CatchableErr)
    (hi : isCall i = false) (h : execInner env fuel i c = (.error (.catchable e), c1)) :
    (c1.error.canBeSet = false → (exec env (fuel + 1) i c).2.error = c1.error) ∧
    (c1.lastError.canBeSet = false → (exec env (fuel + 1) i c).2.lastError = c1.lastError) := by
  rw [exec_of_inner_catchable env fuel i c c1 e hi h]
  exact ⟨fun h1 => setErrors_error_keep _ _ _ _ _ h1, fun h1 => setErrors_lastError_keep _ _ _ _ _ (Or.inl h1)⟩


/-- helper: an instruction body that hands a sub-instruction's failure on (possibly after touching parts of
the context other than `:error:`) leaves `:error:` as the sub-instruction's failure set it -/
theorem bubble_of_inner (env : Env) (fuel : Nat) (i sub : Instr) (c cs c1 c2 : Ctx) (e : CatchableErr)
    (hi : isCall i = false)
    (hsub : exec env fuel sub cs = (.error (.catchable e), c1))
    (hin : execInner env fuel i c = (.error (.catchable e), c2)) (herr : c2.error = c1.error) :
    (exec env (fuel + 1) i c).1 = .error (.catchable e) ∧ (exec env (fuel + 1) i c).2.error = c1.error := by
  have hdis : c1.error.canBeSet = false := by
    have := C18_error_set_once env fuel sub cs e (by rw [hsub])
    rw [hsub] at this; exact this
  have h2 := (C18_error_not_overwritten env fuel i c c2 e hi hin).1 (by rw [herr]; exact hdis)
  rw [exec_of_inner_catchable env fuel i c c2 e hi hin] at h2 ⊢
  exact ⟨rfl, by rw [h2, herr]⟩


theorem C18_bubble_seq_left (env : Env) (fuel : Nat) (l r : Instr) (c c1 : Ctx) (e : CatchableErr)
    (h : exec env fuel l (flush c) = (.error (.catchable e), c1)) :
    (exec env (fuel + 1) (.seq l r) c).1 = .error (.catchable e) ∧ (exec env (fuel + 1) (.seq l r) c).2.error = c1.error := by
  refine bubble_of_inner env fuel _ l c (flush c) c1 c1 e rfl h ?_ rfl
  rw [execInner, bind_of_ok (modifyCtx_apply _ c), bind_of_error h]


theorem C18_bubble_seq_right (env : Env) (fuel : Nat) (l r : Instr) (c c1 c2 : Ctx) (e : CatchableErr)
    (hl : exec env fuel l (flush c) = (.ok (), c1)) (hc : c1.subgraphComplete = true)
    (h : exec env fuel r c1 = (.error (.catchable e), c2)) :
    (exec env (fuel + 1) (.seq l r) c).1 = .error (.catchable e) ∧ (exec env (fuel + 1) (.seq l r) c).2.error = c2.error := by
  refine bubble_of_inner env fuel _ r c c1 c2 c2 e rfl h ?_ rfl
  rw [execInner, bind_of_ok (modifyCtx_apply _ c), bind_of_ok hl, bind_of_ok (readCtx_apply _ c1)]
  simp only [hc, if_true]; exact h


theorem C18_bubble_match (env : Env) (fuel : Nat) (a b : Value) (body : Instr) (c c1 : Ctx) (e : CatchableErr)
    (hm : areMatchableEq c a b = .ok true) (h : exec env fuel body c = (.error (.catchable e), c1)) :
    (exec env (fuel + 1) (.match_ a b body) c).1 = .error (.catchable e) ∧
    (exec env (fuel + 1) (.match_ a b body) c).2.error = c1.error := by
  refine bubble_of_inner env fuel _ body c c c1 c1 e rfl h ?_ rfl
  rw [execInner]
  have : readER (fun c => areMatchableEq c a b) c = (.ok true, c) := by rw [readER_apply, hm]
  rw [bind_of_ok (joinable_of_ok this)]; exact h


/-- a failure of the catch branch itself bubbles out of the xor with the `:error:` it set -/
theorem C18_bubble_xor_right (env : Env) (fuel : Nat) (l r : Instr) (c c1 c2 : Ctx) (e e2 : CatchableErr)
    (hl : exec env fuel l (flush c) = (.error (.catchable e), c1))
    (h : exec env fuel r (xorEnterRight e c1) = (.error (.catchable e2), c2)) :
    (exec env (fuel + 1) (.xor l r) c).1 = .error (.catchable e2) ∧ (exec env (fuel + 1) (.xor l r) c).2.error = c2.error := by
  have hdis : c2.error.canBeSet = false := by
    have := C18_error_set_once env fuel r (xorEnterRight e c1) e2 (by rw [h])
    rw [h] at this; exact this
  refine bubble_of_inner env fuel _ r c (xorEnterRight e c1) c2 (xorLeaveRight false c2) e2 rfl h ?_ ?_
  · rw [execInner_xor]; unfold xorBody; rw [hl]; simp only [h]; rfl
  · unfold xorLeaveRight; simp [hdis]


theorem C18_bubble_new (env : Env) (fuel : Nat) (name : String) (body : Instr) (sl sr : Nat) (c c1 : Ctx) (e : CatchableErr)
    (h : exec env fuel body { c with scalars := c.scalars.meetNewStartScalar name } = (.error (.catchable e), c1)) :
    (exec env (fuel + 1) (.new (.scalar name) body sl sr) c).1 = .error (.catchable e) ∧
    (exec env (fuel + 1) (.new (.scalar name) body sl sr) c).2.error = c1.error := by
  obtain ⟨b, c', hn⟩ := newLeave_ok name c1
  have herr : c'.error = c1.error := by
    unfold newLeave withScalarsRet at hn
    simp only [Res.bind] at hn
    injection hn with hn; injection hn with _ hn; rw [← hn]
  refine bubble_of_inner env fuel _ body c _ c1 c' e rfl h ?_ herr
  rw [execInner, bind_of_ok (modifyCtx_apply _ c), bind_of_ok (tryM_apply _ _), h]
  have h3 : stateER (newLeave name) c1 = (.ok b, c') := by rw [stateER_apply, hn]
  simp only []
  rw [bind_of_ok h3]; rfl


/-- full strength of "not overwritten while bubbling": the same for the remaining frames (a scalar fold body
— needs `meet_fold_end` not to underflow —, `next`, and `par` when both subgraphs fail).  Not proved. -/
def C18_error_bubbles_full : Prop :=
  ∀ (env : Env) (f f' : Nat) (i i' : Instr) (c c' c1 : Ctx) (e : CatchableErr),
    Invokes env f i c f' i' c' → exec env f' i' c' = (.error (.catchable e), c1) →
    (exec env f i c).1 = .error (.catchable e) → (exec env f i c).2.error = c1.error


/-! ## 5. match / mismatch failures do not touch `%last_error%` -/


/-- exactly the two comparison failures leave `%last_error%` alone (`affects_last_error`) -/
theorem affectsLastError_iff (e : CatchableErr) :
    e.affectsLastError = false ↔ (e = .matchValuesNotEqual ∨ e = .mismatchValuesEqual) := by
  cases e <;> simp [CatchableErr.affectsLastError]


/-- **a failing match sets `:error:` (code and message of `MatchValuesNotEqual`) and leaves `%last_error%`
exactly as it was** — also when `%last_error%` could be set -/
theorem C18_match_not_last_error (env : Env) (fuel : Nat) (a b : Value) (body : Instr) (c : Ctx)
    (h : areMatchableEq c a b = .ok false) :
    (exec env (fuel + 1) (.match_ a b body) c).1 = .error (.catchable .matchValuesNotEqual) ∧
    (exec env (fuel + 1) (.match_ a b body) c).2.lastError = c.lastError ∧
    (c.error.canBeSet = true →
      (exec env (fuel + 1) (.match_ a b body) c).2.error.error.error =
        errorFromRawFields CatchableErr.matchValuesNotEqual.code "compared values do not match" (Instr.match_ a b body).render none) := by
  rw [exec_of_inner_catchable env fuel _ c c _ rfl (inner_match_fails env fuel a b body c h)]
  refine ⟨rfl, setErrors_lastError_keep _ _ _ _ _ (Or.inr rfl), fun hset => ?_⟩
  show (Ctx.setErrors _ _ _ _ _).error.error.error = _
  rw [setErrors_error_set _ _ _ _ _ hset]; rfl


theorem C18_mismatch_not_last_error (env : Env) (fuel : Nat) (a b : Value) (body : Instr) (c : Ctx)
    (h : areMatchableEq c a b = .ok true) :
    (exec env (fuel + 1) (.mismatch a b body) c).1 = .error (.catchable .mismatchValuesEqual) ∧
    (exec env (fuel + 1) (.mismatch a b body) c).2.lastError = c.lastError ∧
    (c.error.canBeSet = true →
      (exec env (fuel + 1) (.mismatch a b body) c).2.error.error.error =
        errorFromRawFields CatchableErr.mismatchValuesEqual.code "compared values do not mismatch" (Instr.mismatch a b body).render none) := by
  rw [exec_of_inner_catchable env fuel _ c c _ rfl (inner_mismatch_fails env fuel a b body c h)]
  refine ⟨rfl, setErrors_lastError_keep _ _ _ _ _ (Or.inr rfl), fun hset => ?_⟩
  show (Ctx.setErrors _ _ _ _ _).error.error.error = _
  rw [setErrors_error_set _ _ _ _ _ hset]; rfl


/-- every other catchable failure of a non-call instruction does set `%last_error%` (when enabled), with the
same code and message as `:error:` and with the current peer's id -/
theorem C18_last_error_faithful (env : Env) (fuel : Nat) (i : Instr) (c c1 : Ctx) (e : CatchableErr)
    (hi : isCall i = false) (h : execInner env fuel i c = (.error (.catchable e), c1))
    (hset : c1.lastError.canBeSet = true) (ha : e.affectsLastError = true) :
    (exec env (fuel + 1) i c).2.lastError.error.error =
      errorFromRawFields (uncaughtOutcome e).1 (uncaughtOutcome e).2 i.render (some c1.currentPeerId) ∧
    (exec env (fuel + 1) i c).2.lastError.canBeSet = false := by
  rw [exec_of_inner_catchable env fuel i c c1 e hi h]
  show (Ctx.setErrors _ _ _ _ _).lastError.error.error = _ ∧ (Ctx.setErrors _ _ _ _ _).lastError.canBeSet = _
  rw [setErrors_lastError_set _ _ _ _ _ hset ha]
  exact ⟨rfl, rfl⟩


/-! ## call -/


/-- **a failing call reports faithfully, with the peer id**: `:error:` (when it can be set) holds the code and
message of the error, the call's text, the resolved triplet as tetraplet and as `peer_id` the peer the
triplet names (a failure recorded in the data may come from another peer) or, when the triplet itself does
not resolve, the current peer -/
theorem C18_call_error_faithful (env : Env) (fuel : Nat) (p s f : Value) (args : List Value) (out : CallOutput)
    (c c' : Ctx) (e : CatchableErr)
    (h : exec env (fuel + 1) (.call p s f args out) c = (.error (.catchable e), c')) :
    ∃ (t : Option Tetraplet) (c1 : Ctx),
      ((t = none ∧ c1 = c ∧ resolveCall c p s f out = .error (.catchable e)) ∨
       (∃ t', t = some t' ∧ resolveCall c p s f out = .ok t' ∧
          resolvedExecute env (.call p s f args out) t' args out c = (.error (.catchable e), c1))) ∧
      c' = c1.setErrors e (Instr.call p s f args out).render t true ∧
      (c1.error.canBeSet = true →
        c'.error.error.error = errorFromRawFields (uncaughtOutcome e).1 (uncaughtOutcome e).2 (Instr.call p s f args out).render
            (some (match t with | some t => t.peerPk | none => c1.currentPeerId)) ∧
        c'.error.error.tetraplet = t ∧
        c'.error.error.error.getField "error_code" = some (.num (uncaughtOutcome e).1) ∧
        c'.error.error.error.getField "message" = some (.str (uncaughtOutcome e).2) ∧
        c'.error.error.error.getField "peer_id" = some (.str (match t with | some t => t.peerPk | none => c1.currentPeerId))) := by
  rw [exec_call] at h
  obtain ⟨_, ⟨hr, hc⟩ | ⟨t, c1, hr, hx, hc⟩⟩ := call_fails_cases env _ p s f args out c c' e h
  · refine ⟨none, c, Or.inl ⟨rfl, rfl, hr⟩, hc, fun hset => ?_⟩
    rw [hc, setErrors_error_set _ _ _ _ _ hset]
    simp only [errorObj_code, errorObj_message, errorObj_peer, errorPeerId, uncaughtOutcome, if_true, Option.map, and_self]
  · refine ⟨some t, c1, Or.inr ⟨t, rfl, hr, hx⟩, hc, fun hset => ?_⟩
    rw [hc, setErrors_error_set _ _ _ _ _ hset]
    simp only [errorObj_code, errorObj_message, errorObj_peer, errorPeerId, uncaughtOutcome, if_true, Option.map, and_self]



/-! ## Non-vacuity: concrete scripts and contexts meeting the hypotheses -/

def env0 : Env := { hash := fun s => s, parseJson := fun _ => none }
/-- the context at the start of a run (`ExecutionCtx::new` on empty data) -/
def c0 : Ctx := initCtx {} {} { initPeerId := "init", currentPeerId := "me", timestamp := 1, ttl := 2 } []
/-- `(fail 7 "x")` -/
def failI : Instr := .fail (.literal 7 "x")

example : c0.error.canBeSet = true ∧ c0.lastError.canBeSet = true := ⟨rfl, rfl⟩

/-- left branches that are not caught: `(null)` succeeds, `(never)` "waits" (success, incomplete subgraph),
`(next i)` outside a fold fails uncatchably -/
theorem null_ok : exec env0 1 .null (flush c0) = (.ok (), flush c0) := by
  rw [exec_noncall _ _ _ _ rfl, execInner]; rfl
theorem never_waits : (exec env0 1 .never (flush c0)).1 = .ok () ∧ (exec env0 1 .never (flush c0)).2.subgraphComplete = false := by
  rw [exec_noncall _ _ _ _ rfl, execInner]; exact ⟨rfl, rfl⟩
theorem next_uncatchable (c : Ctx) (h : c.scalars.iterable = []) :
    (exec env0 1 (.next "i") c).1 = .error (.uncatchable (.foldStateNotFound "i")) := by
  rw [exec_noncall _ _ _ _ rfl, wrap_fst, execInner]
  have h0 : readER (fun c => c.scalars.getIterable "i") c = (.error (.uncatchable (.foldStateNotFound "i")), c) := by
    rw [readER_apply]; simp [Scalars.getIterable, h, uncatchable]
  rw [bind_of_error h0]

example : exec env0 2 (.xor .null failI) c0 = (.ok (), flush c0) :=
  C18_ok_or_waiting_left_not_caught env0 1 .null failI c0 _ null_ok
example : (exec env0 2 (.xor .never failI) c0).1 = .ok () := by
  rw [C18_xor_left_returned env0 1 .never failI c0 (by rw [never_waits.1]; intro e h; cases h)]; exact never_waits.1
example : (exec env0 2 (.xor (.next "i") failI) c0).1 = .error (.uncatchable (.foldStateNotFound "i")) :=
  (C18_uncatchable_never_caught env0 1 (.next "i") failI c0 _ (next_uncatchable _ rfl)).2

/-- two nested xors around the uncatchable failure: `(xor (xor (next i) (null)) (null))` -/
example : (exec env0 3 (.xor (.xor (.next "i") .null) .null) c0).1.isOk = false :=
  (C18_uncatchable_never_caught_nested env0 (.foldStateNotFound "i")
    (.step (.xorLeft 2 _ _ c0) (.step (.xorLeft 1 _ _ (flush c0)) (.refl _ _ _))) (next_uncatchable _ rfl)).1

/-- `(fail 7 "x")` fails catchably from the initial context -/
theorem fail_lit_fails : ∃ e c1, exec env0 1 failI (flush c0) = (.error (.catchable e), c1) ∧ c1.error.canBeSet = false :=
  ⟨_, _, exec_of_inner_catchable env0 0 failI (flush c0) _ _ rfl
    (inner_fail_throws env0 0 _ _ _ _ _ (by intro h; cases h) rfl), setErrors_disables _ _ _ _ _⟩

/-- `(xor (fail 7 "x") (null))`: the catch branch runs and the xor succeeds -/
example : (exec env0 2 (.xor failI .null) c0).1 = .ok () := by
  obtain ⟨e, c1, h, _⟩ := fail_lit_fails
  rw [C18_xor_catches env0 1 failI .null c0 c1 e h]
  unfold xorCaught
  rw [exec_noncall _ _ _ _ rfl, execInner]; rfl

/-- `(match 1 2 (null))` / `(mismatch 1 1 (null))` meet the hypotheses of C18_match_not_last_error, C18_error_faithful -/
example : areMatchableEq c0 (.number 1) (.number 2) = .ok false := rfl
example : areMatchableEq c0 (.number 1) (.number 1) = .ok true := rfl
example : execInner env0 0 (.match_ (.number 1) (.number 2) .null) c0 = (.error (.catchable .matchValuesNotEqual), c0) :=
  inner_match_fails env0 0 _ _ _ c0 rfl

/-- `(seq (fail 7 "x") (null))`: hypothesis of C18_bubble_seq_left -/
example : ∃ e, (exec env0 2 (.seq failI .null) c0).1 = .error (.catchable e) := by
  obtain ⟨e, c1, h, _⟩ := fail_lit_fails
  exact ⟨e, (C18_bubble_seq_left env0 1 failI .null c0 c1 e h).1⟩

/-- the object `set_errors` builds passes `check_error_object` whenever the code is a non-zero i64 -/
theorem checkErrorObject_errorObj (code : Int) (msg instr : String) (p : Option String)
    (h0 : code ≠ 0) (hmax : code ≤ 9223372036854775807) :
    checkErrorObject (errorFromRawFields code msg instr p) = .ok () := by
  have hc := errorObj_code code msg instr p
  have hm := errorObj_message code msg instr p
  have hobj : ∃ kvs, errorFromRawFields code msg instr p = .obj kvs := ⟨_, rfl⟩
  obtain ⟨kvs, hk⟩ := hobj
  rw [hk] at hc hm ⊢
  unfold checkErrorObject
  simp only [hc, hm]
  have h1 : ¬ code > 9223372036854775807 := by omega
  simp [h1, h0]

/-- the positional code of `UserError` (read from the generated variant table) is a non-zero i64 -/
theorem userError_code_ok (v : JVal) :
    CatchableErr.code (.userError v) ≠ 0 ∧ CatchableErr.code (.userError v) ≤ 9223372036854775807 := by
  show (Run.errorCode? .catchable "UserError").getD 0 ≠ 0 ∧ (Run.errorCode? .catchable "UserError").getD 0 ≤ 9223372036854775807
  decide

/-- `(xor (fail 7 "x") (fail :error:))` meets the hypotheses of C18_fail_error_reraises -/
example : ∃ e, (exec env0 2 (.xor failI (.fail .error)) c0).1 = .error (.catchable e) := by
  have h := exec_of_inner_catchable env0 0 failI (flush c0) _ _ rfl
    (inner_fail_throws env0 0 (.literal 7 "x") (flush c0) _ _ _ (by intro h; cases h) rfl)
  refine ⟨_, (C18_fail_error_reraises env0 0 failI c0 _ _ h ?_).1⟩
  show checkErrorObject (Ctx.setErrors _ _ _ _ _).error.error.error = _
  rw [setErrors_error_set _ _ _ _ _ rfl]
  simp only []
  exact checkErrorObject_errorObj _ _ _ _ (userError_code_ok _).1 (userError_code_ok _).2

/-- a context after an earlier caught failure: `%last_error%` holds an error object; hypotheses of C18_fail_last_error -/
def cLast : Ctx := { c0 with lastError := { error := ⟨errorFromRawFields 10006 "m" "fail 1 \"m\"" (some "me"), none, .literal, none⟩, canBeSet := true } }
example : checkErrorObject cLast.lastError.error.error = .ok () ∧ cLast.error.canBeSet = true :=
  ⟨checkErrorObject_errorObj 10006 "m" "fail 1 \"m\"" (some "me") (by decide) (by decide), rfl⟩

/-- a context in which the scalar `x` holds the number 5: `(call x ("s" "f") [])` cannot resolve its triplet -/
def cX : Ctx := { c0 with scalars := { nonIterable := { cells := [("x", [⟨0, some ⟨.num 5, Tetraplet.literal "init", 0, .literal⟩⟩])] } } }
def callX : Instr := .call (.scalar "x") (.literal "s") (.literal "f") [] .none
theorem callX_fails : exec env0 1 callX cX = (.error (.catchable (.nonStringValueInTripletResolution "x" (.num 5))),
    cX.setErrors (.nonStringValueInTripletResolution "x" (.num 5)) callX.render none true) := by
  unfold callX
  rw [exec_call]
  unfold execCall
  rw [bind_apply, joinable_apply, onError_apply, readER_apply]
  have : resolveCall cX (.scalar "x") (.literal "s") (.literal "f") .none =
      .error (.catchable (.nonStringValueInTripletResolution "x" (.num 5))) := by rfl
  rw [this]
  rfl
example : ∃ (t : Option Tetraplet) (c1 : Ctx),
    (exec env0 1 callX cX).2 = c1.setErrors (.nonStringValueInTripletResolution "x" (.num 5)) callX.render t true := by
  obtain ⟨t, c1, _, hc, _⟩ := C18_call_error_faithful env0 0 _ _ _ _ _ cX _ _ callX_fails
  exact ⟨t, c1, by rw [callX_fails]; exact hc⟩

end AquaProps.C18
