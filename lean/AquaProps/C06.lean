import AquaProps.Lemmas.Grow
import Aqua.Exec.Run
/-!
# C06 — call request ids are fresh

Statements are about `Aqua.Exec.runExec`, the execution stage of the model, for EVERY script, fuel,
previous data, current data, run parameters and call-result map (also adversarial ones).
-/
namespace AquaProps.C06
open Aqua Aqua.Exec Aqua.Air AquaProps

theorem mem_numbered {n : Nat} {rs : List CallRequest} {x : Nat × CallRequest} (h : x ∈ numbered n rs) :
    n ≤ x.1 ∧ x.1 < n + rs.length := by
  induction rs generalizing n with
  | nil => simp [numbered] at h
  | cons r rs ih =>
    simp only [numbered, List.mem_cons] at h
    rcases h with h | h
    · subst h; simp
    · have := ih h
      simp only [List.length_cons]
      omega

theorem numbered_ids_increasing (n : Nat) (rs : List CallRequest) :
    ((numbered n rs).map (·.1)).Pairwise (· < ·) := by
  induction rs generalizing n with
  | nil => simp [numbered]
  | cons r rs ih =>
    simp only [numbered, List.map_cons, List.pairwise_cons]
    refine ⟨?_, ih (n + 1)⟩
    intro a ha
    obtain ⟨x, hx, rfl⟩ := List.mem_map.mp ha
    have := (mem_numbered hx).1
    omega

/-- the context at the end of the execution stage of a run -/
abbrev finalCtx (env : Env) (fuel : Nat) (script : Instr) (prev cur : DataIn) (p : RunParams)
    (results : List (String × CallServiceResult)) : Ctx := (runExec env fuel script prev cur p results).2

/-- **Shape of the requests of one run**: they carry exactly the consecutive ids
`prev.lcid + 1, …, prev.lcid + n`, in issue order, and the new counter is `prev.lcid + n`. -/
theorem C06_requests_numbered (env : Env) (fuel : Nat) (script : Instr) (prev cur : DataIn) (p : RunParams)
    (results : List (String × CallServiceResult)) :
    ∃ rs : List CallRequest,
      (finalCtx env fuel script prev cur p results).callRequests = numbered (prev.lcid + 1) rs ∧
      (finalCtx env fuel script prev cur p results).lastCallRequestId = prev.lcid + rs.length := by
  have h := exec_grow env fuel script (initCtx prev cur p results)
  obtain ⟨rs, hr, hl, _⟩ := h.reqs
  have h0 : (initCtx prev cur p results).callRequests = [] := rfl
  have h1 : (initCtx prev cur p results).lastCallRequestId = prev.lcid := rfl
  rw [h0, h1, List.nil_append] at hr
  rw [h1] at hl
  exact ⟨rs, hr, hl⟩

/-- **Freshness within a run**: every id handed out is larger than the previous data's counter, at most
the new counter, and ids are strictly increasing (hence pairwise distinct). -/
theorem C06_ids_fresh (env : Env) (fuel : Nat) (script : Instr) (prev cur : DataIn) (p : RunParams)
    (results : List (String × CallServiceResult)) :
    (∀ x ∈ (finalCtx env fuel script prev cur p results).callRequests,
        prev.lcid < x.1 ∧ x.1 ≤ (finalCtx env fuel script prev cur p results).lastCallRequestId) ∧
    ((finalCtx env fuel script prev cur p results).callRequests.map (·.1)).Pairwise (· < ·) ∧
    prev.lcid ≤ (finalCtx env fuel script prev cur p results).lastCallRequestId := by
  obtain ⟨rs, hr, hl⟩ := C06_requests_numbered env fuel script prev cur p results
  rw [hr, hl]
  refine ⟨?_, numbered_ids_increasing _ _, by omega⟩
  intro x hx
  have := mem_numbered hx
  omega

/-- the counter is read from the previous data only: whatever the current data claims is ignored -/
theorem C06_counter_ignores_current (env : Env) (fuel : Nat) (script : Instr) (prev cur : DataIn) (p : RunParams)
    (results : List (String × CallServiceResult)) (n : Nat) :
    runExec env fuel script prev { cur with lcid := n } p results = runExec env fuel script prev cur p results := rfl

/-- **Freshness along a history.**  A host feeds each run with the counter it got back from the previous
one (`C02`: a failed run returns the previous data, i.e. the same counter).  `runs` lists, per run, the
counter before, the ids handed out and the counter after; if every run satisfies `C06_ids_fresh`, the
concatenation of all ids ever handed out is strictly increasing. -/
structure RunIds where
  before : Nat
  ids : List Nat
  after : Nat

def Chained : Nat → List RunIds → Prop
  | _, [] => True
  | n, r :: rs => r.before = n ∧ (∀ i ∈ r.ids, n < i ∧ i ≤ r.after) ∧ r.ids.Pairwise (· < ·) ∧ n ≤ r.after ∧ Chained r.after rs

theorem chained_lower (n : Nat) (runs : List RunIds) (h : Chained n runs) : ∀ i ∈ runs.flatMap (·.ids), n < i := by
  induction runs generalizing n with
  | nil => simp
  | cons r rs ih =>
    obtain ⟨_, hi, _, hle, hc⟩ := h
    intro i hi'
    simp only [List.flatMap_cons, List.mem_append] at hi'
    rcases hi' with h1 | h2
    · exact (hi i h1).1
    · have := ih r.after hc i h2; omega

theorem C06_history_fresh (n : Nat) (runs : List RunIds) (h : Chained n runs) :
    (runs.flatMap (·.ids)).Pairwise (· < ·) := by
  induction runs generalizing n with
  | nil => simp
  | cons r rs ih =>
    obtain ⟨_, hi, hp, hle, hc⟩ := h
    simp only [List.flatMap_cons, List.pairwise_append]
    refine ⟨hp, ih r.after hc, ?_⟩
    intro a ha b hb
    have h1 := (hi a ha).2
    have h2 := chained_lower r.after rs hc b hb
    omega

/-! ## Non-vacuity -/
example : Chained 3 [⟨3, [4, 5], 5⟩, ⟨5, [], 5⟩, ⟨5, [6], 6⟩] := by
  simp [Chained]

end AquaProps.C06
