import AquaProps.Lemmas.NetLift
/-!
# C06 along whole histories (`Aqua.Net`)

`C06.lean` proves freshness for one run with arbitrary inputs and, abstractly, for a chain of runs whose
counters are handed on (`Chained`, `C06_history_fresh`).  Here the chain is *derived* from the behaviour
of honest hosts: in every state reachable in the network model (any script, any services, any schedule
of deliveries, duplicated deliveries and late or batched answers) the request ids a peer's host has ever
been handed are strictly increasing — no id is ever issued twice on a peer.
-/
namespace AquaProps.C06
open Aqua Aqua.Exec Aqua.Air Aqua.Net AquaProps AquaProps.NetLift

/-- the counters and ids of one recorded run -/
def runIds (r : Run) : RunIds := ⟨r.prev.lcid, r.requests.map (·.1), r.newData.lcid⟩

theorem genuine_runIds {env : Env} {P : Particle} {r : Run} (hg : Genuine env P r) :
    (∀ i ∈ (runIds r).ids, (runIds r).before < i ∧ i ≤ (runIds r).after) ∧ (runIds r).ids.Pairwise (· < ·) ∧
    (runIds r).before ≤ (runIds r).after := by
  have hf := farewell_frame env r.fuel P.script r.prev r.cur ⟨P.initPeer, r.peer, P.timestamp, P.ttl⟩ r.results
  have hfresh := C06_ids_fresh env r.fuel P.script r.prev r.cur ⟨P.initPeer, r.peer, P.timestamp, P.ttl⟩ r.results
  unfold Genuine at hg
  have hout : r.out = (runExecFarewell env r.fuel P.script r.prev r.cur ⟨P.initPeer, r.peer, P.timestamp, P.ttl⟩ r.results).2 := by
    rw [← hg]
  simp only at hf
  rw [← hout] at hf
  obtain ⟨hreq, hl, _⟩ := hf
  unfold finalCtx at hfresh
  rw [← hreq, ← hl] at hfresh
  obtain ⟨h1, h2, h3⟩ := hfresh
  unfold runIds Run.requests Run.newData
  cases hacc : accepted r.res with
  | true =>
    simp only [if_true]
    refine ⟨?_, h2, h3⟩
    intro i hi
    obtain ⟨x, hx, rfl⟩ := List.mem_map.mp hi
    exact h1 x hx
  | false =>
    simp only [Bool.false_eq_true, if_false, List.map_nil]
    exact ⟨fun i hi => (by cases hi), List.Pairwise.nil, Nat.le_refl _⟩

theorem chained_of_chainedFrom {env : Env} {P : Particle} : ∀ (rs : List Run) (d : DataIn),
    (∀ r ∈ rs, Genuine env P r) → ChainedFrom d rs → Chained d.lcid (rs.map runIds)
  | [], _, _, _ => trivial
  | r :: rs, d, hg, hc => by
    obtain ⟨hp, hrest⟩ := hc
    have h := genuine_runIds (hg r (List.mem_cons_self ..))
    have hb : (runIds r).before = d.lcid := by show r.prev.lcid = d.lcid; rw [hp]
    rw [hb] at h
    refine ⟨hb, h.1, h.2.1, h.2.2, ?_⟩
    exact chained_of_chainedFrom rs r.newData (fun x hx => hg x (List.mem_cons_of_mem _ hx)) hrest

/-- **No request id is ever issued twice on a peer, along any honest history**: in every reachable state
of the network, the ids handed to the host of `q` by all runs of `q` so far, in order, are strictly
increasing. -/
theorem C06_network_ids_fresh (env : Env) (svc : Services) (P : Particle) (st : NetSt)
    (h : Reachable env svc P st) (q : String) :
    ((runsOf st q).flatMap fun r => r.requests.map (·.1)).Pairwise (· < ·) := by
  have inv := reachable_inv h
  have hg : ∀ r ∈ runsOf st q, Genuine env P r := fun r hr => inv.genuine r (List.mem_filter.mp hr).1
  have hc := chained_of_chainedFrom (runsOf st q) {} hg (inv.chained q)
  have := C06_history_fresh _ _ hc
  simpa [List.flatMap_map, runIds] using this

/-- the counter a host stores never decreases, and every id issued so far is at most the stored counter -/
theorem C06_network_counter_bounds (env : Env) (svc : Services) (P : Particle) (st : NetSt)
    (h : Reachable env svc P st) (q : String) :
    ∀ r ∈ runsOf st q, r.prev.lcid ≤ r.newData.lcid := by
  intro r hr
  have inv := reachable_inv h
  exact (genuine_runIds (inv.genuine r (List.mem_filter.mp hr).1)).2.2

end AquaProps.C06
