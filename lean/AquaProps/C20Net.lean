import AquaProps.Lemmas.NetLift
import AquaProps.C20
/-!
# C20 along whole histories (`Aqua.Net`)

`C20_store_keys_distinct` needs the CID stores of the starting context to have distinct keys.  Along honest
histories this is derived: the empty stores are distinct, merging incoming stores into distinct ones keeps them
distinct (`upsert`), every script keeps them distinct, hosts store what runs return.  So the stores of every
data a host ever holds have distinct keys, and any serialisation order of such a store decodes to the same
lookups — for every script, services and schedule.
-/
namespace AquaProps.C20
open Aqua Aqua.Exec Aqua.Air Aqua.Data Aqua.Net AquaProps AquaProps.NetLift

theorem keysNodup_mergeStores {β} (prev cur : List (String × β)) (h : KeysNodup prev) : KeysNodup (mergeStores prev cur) := by
  unfold mergeStores
  induction cur generalizing prev with
  | nil => exact h
  | cons x xs ih =>
    obtain ⟨k, v⟩ := x
    simp only [List.foldl_cons]
    exact ih _ (keysNodup_upsert _ _ _ h)

/-- the merged stores of a run's initial context are distinct as soon as the previous data's stores are -/
theorem storesOK_initCtx (prev cur : DataIn) (p : RunParams) (results : List (String × CallServiceResult)) (h : StoresOK prev.cid) :
    StoresOK (initCtx prev cur p results).cid :=
  ⟨keysNodup_mergeStores _ _ h.values, keysNodup_mergeStores _ _ h.tetraplets, keysNodup_mergeStores _ _ h.serviceResults,
   keysNodup_mergeStores _ _ h.canonElements, keysNodup_mergeStores _ _ h.canonResults⟩

theorem storesOK_empty : StoresOK ({} : DataIn).cid :=
  ⟨List.nodup_nil, List.nodup_nil, List.nodup_nil, List.nodup_nil, List.nodup_nil⟩

/-- what a genuine run returns has distinct store keys when its previous data had -/
theorem genuine_newData_storesOK {env : Env} {P : Particle} {r : Run} (hg : Genuine env P r) (hp : StoresOK r.prev.cid) :
    StoresOK r.newData.cid := by
  unfold Run.newData
  split
  · show StoresOK r.out.cid
    unfold Genuine at hg
    have hout : r.out = (runExecFarewell env r.fuel P.script r.prev r.cur ⟨P.initPeer, r.peer, P.timestamp, P.ttl⟩ r.results).2 := by
      rw [← hg]
    have hk : StoresOK (runExec env r.fuel P.script r.prev r.cur ⟨P.initPeer, r.peer, P.timestamp, P.ttl⟩ r.results).2.cid :=
      C20_store_keys_distinct env r.fuel P.script _ (storesOK_initCtx r.prev r.cur _ r.results hp)
    rw [hout]
    unfold runExecFarewell
    cases hx : runExec env r.fuel P.script r.prev r.cur ⟨P.initPeer, r.peer, P.timestamp, P.ttl⟩ r.results with
    | mk res cx =>
      rw [hx] at hk
      simp only at hk ⊢
      have key : ∀ c', cx.compactifyStreams = .ok c' → StoresOK c'.cid := by
        intro c' hcomp
        rw [(compactifyStreams_frame hcomp).2.2.2.2]; exact hk
      cases res with
      | ok u =>
        cases u
        simp only
        cases hcomp : cx.compactifyStreams with
        | ok c' => exact key c' hcomp
        | error e => exact hk
        | panic s => exact hk
      | error e =>
        cases e with
        | catchable ce =>
          simp only
          cases hcomp : cx.compactifyStreams with
          | ok c' => exact key c' hcomp
          | error e => exact hk
          | panic s => exact hk
        | uncatchable ue => exact hk
        | unmodelled w => exact hk
      | panic s => exact hk
  · exact hp

/-- every data a host holds or has sent has CID stores with distinct keys -/
structure DistinctNet (st : NetSt) : Prop where
  stored : ∀ q, StoresOK (peerSt st q).data.cid
  wire : ∀ m ∈ st.wire, StoresOK m.data.cid

theorem distinctNet_absorb {env : Env} {P : Particle} {st : NetSt} (h : DistinctNet st) (r : Run) (hg : Genuine env P r)
    (hp : r.prev = (peerSt st r.peer).data) : DistinctNet (absorb st r) := by
  have hnew := genuine_newData_storesOK hg (by rw [hp]; exact h.stored r.peer)
  refine ⟨?_, ?_⟩
  · intro q
    by_cases hq : q = r.peer
    · subst hq
      show StoresOK ((lookup (upsert st.peers r.peer _) r.peer).getD {}).data.cid
      rw [peerSt_upsert_self]; exact hnew
    · show StoresOK ((lookup (upsert st.peers r.peer _) q).getD {}).data.cid
      rw [peerSt_upsert_other _ _ _ _ hq]; exact h.stored q
  · intro m hm
    have : m ∈ st.wire ++ r.nextPeers.map (fun q => (⟨q, r.newData⟩ : Msg)) := hm
    rcases List.mem_append.mp this with hm | hm
    · exact h.wire m hm
    · obtain ⟨q, _, rfl⟩ := List.mem_map.mp hm
      exact hnew

theorem distinctNet_step {env : Env} {svc : Services} {P : Particle} {st st' : NetSt} {e : Event}
    (h : DistinctNet st) (hs : step env svc P st e = some st') : DistinctNet st' := by
  cases e with
  | start =>
    simp only [step] at hs
    split at hs
    · injection hs with hs; subst hs
      exact distinctNet_absorb h _ (invoke_genuine ..) rfl
    · cases hs
  | deliver k dup =>
    simp only [step] at hs
    split at hs
    · cases hs
    · injection hs with hs; subst hs
      cases dup with
      | true => exact distinctNet_absorb h _ (invoke_genuine ..) rfl
      | false =>
        have h' : DistinctNet { st with wire := st.wire.eraseIdx k } := ⟨h.stored, fun x hx => h.wire x (List.mem_of_mem_eraseIdx hx)⟩
        exact distinctNet_absorb h' _ (invoke_genuine ..) rfl
  | answer q ids =>
    simp only [step] at hs
    split at hs
    · cases hs
    · injection hs with hs; subst hs
      exact distinctNet_absorb h _ (invoke_genuine ..) rfl

theorem distinctNet_play {env : Env} {svc : Services} {P : Particle} : ∀ (es : List Event) {st st' : NetSt},
    DistinctNet st → play env svc P st es = some st' → DistinctNet st'
  | [], st, st', h, hp => by simp only [play] at hp; injection hp with hp; subst hp; exact h
  | e :: es, st, st', h, hp => by
    simp only [play] at hp
    split at hp
    · rename_i st1 hs
      exact distinctNet_play es (distinctNet_step h hs) hp
    · cases hp

/-- **Along any honest history** the CID stores of every data a host holds or has sent have distinct keys (so
every serialisation order of such a store decodes to the same lookups: `C20_stores_order_irrelevant`). -/
theorem C20_network_store_keys_distinct (env : Env) (svc : Services) (P : Particle) (st : NetSt) (h : Reachable env svc P st) :
    (∀ q, StoresOK (peerSt st q).data.cid) ∧ ∀ m ∈ st.wire, StoresOK m.data.cid := by
  obtain ⟨es, hp⟩ := h
  have := distinctNet_play (env := env) (svc := svc) (P := P) es
    ({ stored := fun _ => storesOK_empty, wire := fun m hm => (by cases hm) } : DistinctNet {}) hp
  exact ⟨this.stored, this.wire⟩

end AquaProps.C20
