import AquaProps.Lemmas.MergeLattice
/-!
# C04 — honest executions never hit data-consistency errors

Proved (all states): a per-state merge fails only on a genuine conflict — both sides hold *results*
(executed / failed / canonicalised) with different content — and never panics; results of one
deterministic execution (equal content for the same call) therefore always merge.
The history-level statement (`C04_full`: no run of an honest history returns a trace-merge,
CID-lookup, parameter-mismatch, generation or signature error) is explored by the oracle over random
and fault-free schedules; it is not proved (`_partial`), and one class of honest histories that does
violate it on the unchanged code is recorded as a known finding (see DESIGN.md §11).
-/
namespace AquaProps.C04
open Aqua Aqua.Data Aqua.Trace AquaProps.Merge

def C04_full (honestRunCodes : List Int) (consistencyCodes : List Int) : Prop :=
  ∀ c ∈ honestRunCodes, c ∉ consistencyCodes

theorem C04_call_merge_fails_only_on_conflict_partial (p c : CallResult) (e : MergeErr) (h : mergeCallResults p c = .error e) :
    isResult p ∧ isResult c ∧ contentOf p ≠ contentOf c := mergeCall_error_only_on_conflict p c e h

theorem C04_canon_merge_fails_only_on_conflict_partial (p c : CanonResult) (e : MergeErr) (h : mergeCanonResults p c = .error e) :
    ∃ a b, p = .executed a ∧ c = .executed b ∧ a ≠ b := mergeCanon_error_only_on_conflict p c e h

/-- states that agree on content (what one deterministic execution produces for one call) always merge -/
theorem C04_consistent_states_merge_partial (p c : CallResult) (h : isResult p → isResult c → contentOf p = contentOf c) :
    ∃ m s, mergeCallResults p c = .ok (m, s) :=
  mergeCall_ok_of_compatible p c (fun ⟨hp, hc, hne⟩ => hne (h hp hc))

theorem C04_call_merge_never_panics_partial (p c : CallResult) (site : String) : mergeCallResults p c ≠ .panic site :=
  mergeCall_no_panic p c site

end AquaProps.C04
