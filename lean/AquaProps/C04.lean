import AquaProps.Lemmas.MergeLattice
import AquaProps.Lemmas.CallRepush
/-!
# C04 — honest executions never hit data-consistency errors

Proved (all states): a per-state merge fails only on a genuine conflict — both sides hold *results*
(executed / failed / canonicalised) with different content — and never panics; results of one
deterministic execution (equal content for the same call) therefore always merge.
The history-level statement (`C04_full`: no run of an honest history returns a trace-merge,
CID-lookup, parameter-mismatch, generation or signature error) is explored by the oracle over random
and fault-free schedules; it is not proved (`_partial`), and one class of honest histories that does
violate it on the unchanged code is recorded as a known finding (see DESIGN.md §11).
-/
namespace AquaProps.C04
open Aqua Aqua.Data Aqua.Trace AquaProps.Merge

def C04_full (honestRunCodes : List Int) (consistencyCodes : List Int) : Prop :=
  ∀ c ∈ honestRunCodes, c ∉ consistencyCodes

theorem C04_call_merge_fails_only_on_conflict_partial (p c : CallResult) (e : MergeErr) (h : mergeCallResults p c = .error e) :
    isResult p ∧ isResult c ∧ contentOf p ≠ contentOf c := mergeCall_error_only_on_conflict p c e h

theorem C04_canon_merge_fails_only_on_conflict_partial (p c : CanonResult) (e : MergeErr) (h : mergeCanonResults p c = .error e) :
    ∃ a b, p = .executed a ∧ c = .executed b ∧ a ≠ b := mergeCanon_error_only_on_conflict p c e h

/-- states that agree on content (what one deterministic execution produces for one call) always merge -/
theorem C04_consistent_states_merge_partial (p c : CallResult) (h : isResult p → isResult c → contentOf p = contentOf c) :
    ∃ m s, mergeCallResults p c = .ok (m, s) :=
  mergeCall_ok_of_compatible p c (fun ⟨hp, hc, hne⟩ => hne (h hp hc))

theorem C04_call_merge_never_panics_partial (p c : CallResult) (site : String) : mergeCallResults p c ≠ .panic site :=
  mergeCall_no_panic p c site


/-! ## where the known finding lives

A consumed state that is not pushed again leaves the next instruction with a trace that is one state
short, which surfaces later as a `TraceError` (incompatible states).  For a call whose merged state is a
request of SOMEONE ELSE the following is the complete case list (for EVERY context): -/

open Aqua.Exec Aqua.Air AquaProps.C05 in
/-- **A foreign request is dropped only on one path**: for a call addressed elsewhere it is re-emitted; for
a call addressed to the current peer it is replaced by the peer's own request (arguments resolved) or
re-emitted (arguments still missing: joinable error) — and it vanishes, with the trace unchanged and a
*catchable* error that an enclosing `xor` may swallow, exactly when resolving the arguments fails with a
non-joinable error (e.g. a lens that does not apply).  That last path is the known finding. -/
theorem C04_foreign_request_dropped_only_on_arg_failure_partial (env : Env) (m : MetCallResult) (t : Tetraplet)
    (ah : Option String) (out : CallOutput) (args : List Value) (c : Ctx) (hres : ForeignRequest c.currentPeerId m.result) :
    let r := callTail env (.met m) t ah out args c
    (t.peerPk ≠ c.currentPeerId → r.1 = .ok () ∧ tr r.2 = tr c ++ [.call m.result]) ∧
    (t.peerPk = c.currentPeerId →
      (∀ c', issueRequest t args c = .ok c' → r.1 = .ok () ∧ ∃ id, tr r.2 = tr c ++ [.call (.requestSentBy (.peerIdWithCallId c.currentPeerId id))]) ∧
      (∀ e, issueRequest t args c = .error e → e.isJoinable = true → r.1 = .error e ∧ tr r.2 = tr c ++ [.call m.result]) ∧
      (∀ e, issueRequest t args c = .error e → e.isJoinable = false → r.1 = .error e ∧ tr r.2 = tr c)) :=
  callTail_foreign_request env m t ah out args c hres

end AquaProps.C04
