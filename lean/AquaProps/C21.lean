import Aqua.Run.Prepare
/-!
# C21 — data from unsupported interpreter versions is rejected

`parseData` is the model of `preparation_step::parse_data`; the rkyv decoder of the inner data is an
arbitrary parameter `tryToData`, `emptyInner` is the serialisation of the default data.
-/
namespace AquaProps.C21
open Aqua Aqua.Run

variable {D : Type}

/-- **Rejected iff older.**  `parse_data` fails with `UnsupportedInterpreterVersion v` exactly when both
envelopes decode and the *current* envelope's interpreter version `v` is below the minimal one. -/
theorem C21_reject_iff (emptyInner : Bytes) (tryToData : Bytes → Option D) (prev cur : Bytes) (v : Semver.Version) :
    parseData emptyInner tryToData prev cur = .error (.unsupportedInterpreterVersion v) ↔
      ∃ pe ce, tryToEnvelope emptyInner prev = .ok pe ∧ tryToEnvelope emptyInner cur = .ok ce ∧
        ce.interpreterVersion = v ∧ Semver.lt v minVersion = true := by
  unfold parseData
  constructor
  · intro h
    cases hp : tryToEnvelope emptyInner prev with
    | error e =>
      simp only [hp] at h
      cases h' : e <;> simp [h', tryToEnvelope, decodeEnvelope] at hp h
      all_goals (split at hp <;> try contradiction)
      all_goals (split at hp <;> simp_all)
    | ok pe =>
      simp only [hp] at h
      cases hc : tryToEnvelope emptyInner cur with
      | error e =>
        simp only [hc] at h
        cases h' : e <;> simp [h', tryToEnvelope] at hc h
        all_goals (split at hc <;> try contradiction)
        all_goals (split at hc <;> simp_all)
      | ok ce =>
        simp only [hc] at h
        unfold checkVersionCompatibility at h
        by_cases hlt : Semver.lt ce.interpreterVersion minVersion = true
        · simp only [hlt, if_true] at h
          injection h with h
          injection h with h
          exact ⟨pe, ce, rfl, rfl, h, h ▸ hlt⟩
        · simp only [hlt] at h
          cases h1 : tryToData pe.innerData with
          | none => simp [h1] at h
          | some p =>
            cases h2 : tryToData ce.innerData with
            | none => simp [h1, h2] at h
            | some c => simp [h1, h2] at h
  · rintro ⟨pe, ce, hp, hc, hv, hlt⟩
    subst hv
    simp [hp, hc, checkVersionCompatibility, hlt]

/-- Data from a supported version is never rejected for its version. -/
theorem C21_supported_not_rejected (emptyInner : Bytes) (tryToData : Bytes → Option D) (prev cur : Bytes)
    (ce : Envelope) (hc : tryToEnvelope emptyInner cur = .ok ce)
    (hsup : Semver.lt ce.interpreterVersion minVersion = false) (v : Semver.Version) :
    parseData emptyInner tryToData prev cur ≠ .error (.unsupportedInterpreterVersion v) := by
  intro h
  obtain ⟨pe, ce', _, hc', hv, hlt⟩ := (C21_reject_iff emptyInner tryToData prev cur v).mp h
  rw [hc] at hc'
  injection hc' with hc'
  subst hc'
  rw [hv, hlt] at hsup
  contradiction

/-- the minimal version is not below itself -/
theorem min_not_lt_min : Semver.lt minVersion minVersion = false := by decide

/-- Empty current data is the empty data of the minimal supported version: it decodes to the default
data and is never rejected for its version. -/
theorem C21_empty_is_empty_data (emptyInner : Bytes) (tryToData : Bytes → Option D) (prev : Bytes) :
    tryToEnvelope emptyInner [] = .ok ⟨dataVersion, minVersion, emptyInner⟩ ∧
    (∀ v, parseData emptyInner tryToData prev [] ≠ .error (.unsupportedInterpreterVersion v)) ∧
    (∀ pe p c, tryToEnvelope emptyInner prev = .ok pe → tryToData pe.innerData = some p →
        tryToData emptyInner = some c → parseData emptyInner tryToData prev [] = .ok (p, c)) := by
  refine ⟨rfl, ?_, ?_⟩
  · intro v
    exact C21_supported_not_rejected emptyInner tryToData prev [] _ rfl min_not_lt_min v
  · intro pe p c hp hpd hcd
    have he : tryToEnvelope emptyInner [] = .ok ⟨dataVersion, minVersion, emptyInner⟩ := rfl
    simp only [parseData, hp, he, checkVersionCompatibility, min_not_lt_min, hpd, hcd]
    simp

/-! ## What "older than the minimal version" means for the version triple and pre-release tag -/

theorem cmpNat_eq_iff (a b : Nat) : Semver.cmpNat a b = .eq ↔ a = b := by
  unfold Semver.cmpNat; split <;> (try split) <;> simp <;> omega
theorem cmpNat_lt_iff (a b : Nat) : Semver.cmpNat a b = .lt ↔ a < b := by
  unfold Semver.cmpNat; split <;> (try split) <;> simp <;> omega

/-- against an empty build identifier nothing compares lower -/
theorem cmpBuild_nil_ne_lt (b : List (List Char)) : Semver.cmpBuild b [] ≠ .lt := by
  unfold Semver.cmpBuild
  cases b with
  | nil => decide
  | cons s rest =>
    simp only [List.isEmpty_cons, List.isEmpty_nil, if_true, if_false, Bool.false_eq_true]
    unfold Semver.cmpSegs
    have hd : Semver.allDigits [] = true := rfl
    unfold Semver.cmpBuildSeg
    rw [hd]
    cases hs : Semver.allDigits s
    · simp [Semver.thenWith]
    · simp only
      have htz : Semver.trimZeros ([] : List Char) = [] := rfl
      rw [htz]
      cases hl : Semver.trimZeros s with
      | cons c cs => simp [Semver.thenWith, Semver.cmpNat]
      | nil =>
        cases s with
        | nil => cases rest <;> simp [Semver.thenWith, Semver.cmpNat, Semver.cmpStr, Semver.cmpSegs]
        | cons c cs => simp [Semver.thenWith, Semver.cmpNat, Semver.cmpStr]

/-- **Older than a release version** `m` (no pre-release tag, no build metadata — true of the generated
minimal version, see `min_is_release`): lower `(major, minor, patch)` triple, or the same triple with a
pre-release tag.  Build metadata never makes a version older. -/
theorem C21_lt_release_iff (v m : Semver.Version) (hp : m.pre = []) (hb : m.build = []) :
    Semver.lt v m = true ↔
      (v.major < m.major ∨ (v.major = m.major ∧ (v.minor < m.minor ∨ (v.minor = m.minor ∧
        (v.patch < m.patch ∨ (v.patch = m.patch ∧ v.pre ≠ [])))))) := by
  have cl : ∀ a b : Nat, a < b → Semver.cmpNat a b = .lt := fun a b h => (cmpNat_lt_iff a b).mpr h
  have ce : ∀ a b : Nat, a = b → Semver.cmpNat a b = .eq := fun a b h => (cmpNat_eq_iff a b).mpr h
  have cg : ∀ a b : Nat, b < a → Semver.cmpNat a b = .gt := by
    intro a b h; unfold Semver.cmpNat; split <;> (try split) <;> first | rfl | omega
  unfold Semver.lt Semver.cmp
  rw [hp, hb]
  rcases Nat.lt_trichotomy v.major m.major with h | h | h
  · simp [cl _ _ h, Semver.thenWith, h]
  · rw [ce _ _ h]; simp only [Semver.thenWith]
    rcases Nat.lt_trichotomy v.minor m.minor with h' | h' | h'
    · simp [cl _ _ h', h, h']
    · rw [ce _ _ h']; simp only
      rcases Nat.lt_trichotomy v.patch m.patch with h'' | h'' | h''
      · simp [cl _ _ h'', h, h', h'']
      · rw [ce _ _ h'']; simp only
        cases hpre : v.pre with
        | nil =>
          have := cmpBuild_nil_ne_lt v.build
          simp [Semver.cmpPre, h, h', h'']
          exact this
        | cons s r => simp [Semver.cmpPre, h, h', h'']
      · rw [cg _ _ h'']; simp; omega
    · rw [cg _ _ h']; simp; omega
  · rw [cg _ _ h]; simp [Semver.thenWith]; omega

theorem min_is_release : minVersion.pre = [] ∧ minVersion.build = [] := by decide

/-! ## Non-vacuity -/
example : Semver.parse "0.60.9".toList = some ⟨0, 60, 9, [], []⟩ := by decide
example : Semver.lt ⟨0, 60, 9, [], []⟩ minVersion = true := by decide
example : Semver.lt ⟨0, 61, 0, ["rc".toList], []⟩ minVersion = true := by decide
example : Semver.lt ⟨0, 61, 0, [], ["7".toList]⟩ minVersion = false := by decide
example : Semver.parse "0.61.0-rc.1+b.07".toList = some ⟨0, 61, 0, ["rc".toList, "1".toList], ["b".toList, "07".toList]⟩ := by decide
example : Semver.parse "0.61.0-01".toList = none := by decide

end AquaProps.C21
